#!/usr/bin/env python3
"""tools/install_seeds.py <tmpid> ...   e.g. C01r : copy confirmed seeds /tmp/seeds/<tmpid>/m* into seeded/<P>-m<next> (P = tmpid without trailing letters)"""
import json, os, re, shutil, sys, glob
V = os.path.dirname(os.path.dirname(os.path.abspath(__file__)))
for tid in sys.argv[1:]:
    P = re.match(r"(C\d+)", tid).group(1)
    have = [int(re.search(r"-m(\d+)$", d).group(1)) for d in glob.glob(os.path.join(V, "seeded", P + "-m*"))]
    nxt = max(have + [0]) + 1
    for src in sorted(glob.glob("/tmp/seeds/%s/m*" % tid)):
        cp = os.path.join(src, "confirm.json")
        if not os.path.exists(cp) or not json.load(open(cp)).get("confirmed"):
            print("SKIP (not confirmed)", src); continue
        c = json.load(open(cp)); a = json.load(open(os.path.join(src, "meta.json")))
        sid = "%s-m%d" % (P, nxt); nxt += 1
        dst = os.path.join(V, "seeded", sid); os.makedirs(dst, exist_ok=True)
        shutil.copy(os.path.join(src, "patch.diff"), dst)
        for f in ("demo_main.rs", "demo_test.rs"):
            if os.path.exists(os.path.join(src, f)): shutil.copy(os.path.join(src, f), dst)
        head = os.popen("git -C /repo rev-parse --short HEAD").read().strip()
        meta = {"id": sid, "breaks_property": P, "summary": a.get("summary"), "mechanism": a.get("mechanism"), "needs_to_manifest": a.get("needs"), "demo": a.get("demo"),
                "author": "independent sub-agent (second round: told which mechanisms earlier seeds had covered) given only the property text and a scratch worktree of /repo at %s" % head,
                "confirmed_by_me": {"how": "tools/confirm_seed.py in scratch worktree /tmp/wt-%s: git apply; cargo test --offline --lib; cargo test --offline --doc; demo with patch; demo without patch" % tid,
                                    "existing_tests_with_patch": {"lib": c["lib_with_patch"], "doc": c["doc_with_patch"]}, "demo_exit_with_patch": c["demo_with_patch_rc"], "demo_exit_without_patch": c["demo_without_patch_rc"]}}
        json.dump(meta, open(os.path.join(dst, "meta.json"), "w"), indent=1)
        print(sid, "<-", src, (meta["summary"] or "")[:80])
