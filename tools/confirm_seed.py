#!/usr/bin/env python3
"""tools/confirm_seed.py <P> <m>  — confirm a delivered seeded change in the scratch worktree /tmp/wt-<P>:
(1) the patch applies to the current main of /repo, (2) the crate builds and the existing tests pass with it
(--lib, --doc), (3) the demonstration FAILS with the patch, (4) the demonstration PASSES without it.
Writes /tmp/seeds/<P>/<m>/confirm.json."""
import json, os, re, subprocess, sys

P, m = sys.argv[1], sys.argv[2]
wt = "/tmp/wt-%s" % P
sd = "/tmp/seeds/%s/%s" % (P, m)
meta = json.load(open(os.path.join(sd, "meta.json")))
demo = meta["demo"]
env = dict(os.environ, CARGO_NET_OFFLINE="true", RUSTFLAGS="-Awarnings")


def sh(cmd, timeout=1800):
    p = subprocess.run(cmd, cwd=wt, shell=True, capture_output=True, text=True, env=env, timeout=timeout)
    return p.returncode, (p.stdout + p.stderr)[-3000:]


def reset():
    sh("git checkout -q -- . && git clean -fdq examples src")
    sh("git checkout -q --detach main")
    subprocess.run(["cp", "/repo/Cargo.lock", wt])


def install_demo():
    kind = demo["kind"]
    if kind == "example":
        name = re.search(r"--example\s+(\S+)", demo["run"]).group(1)
        os.makedirs(os.path.join(wt, "examples"), exist_ok=True)
        src = os.path.join(sd, "demo_main.rs")
        open(os.path.join(wt, "examples", name + ".rs"), "w").write(open(src).read())
    else:
        target = re.match(r"(src/\S+\.rs)", demo["file"]).group(1)
        tp = os.path.join(wt, target)
        s = open(tp).read()
        add = open(os.path.join(sd, "demo_test.rs")).read()
        i = s.rstrip().rfind("}")
        open(tp, "w").write(s[:i] + "\n" + add + "\n}\n")


res = {"property": P, "seed": m}
reset()
rc, out = sh("git apply --check %s/patch.diff" % sd)
if rc != 0:
    rc, out = sh("patch -p1 --dry-run -s -i %s/patch.diff" % sd)
res["applies"] = rc == 0
if rc != 0:
    res["error"] = out
else:
    # with patch: existing tests
    sh("patch -p1 -s -i %s/patch.diff" % sd)
    feats = ""
    fm = re.search(r"--features\s+(\S+)", demo["run"])
    if fm:
        feats = " --features " + fm.group(1)
    rc1, o1 = sh("cargo test --offline --lib 2>&1 | grep 'test result'")
    rc2, o2 = sh("cargo test --offline --doc 2>&1 | grep 'test result'")
    res["lib_with_patch"] = o1.strip()
    res["doc_with_patch"] = o2.strip()
    res["existing_tests_pass_with_patch"] = ("32 passed; 0 failed" in o1) and ("0 failed" in o2 and "passed" in o2)
    install_demo()
    rc3, o3 = sh(demo["run"] + " 2>&1 | tail -15")
    rcx, _ = sh(demo["run"] + " >/dev/null 2>&1")
    res["demo_with_patch_rc"] = rcx
    res["demo_with_patch_tail"] = o3[-700:]
    # without patch
    reset()
    install_demo()
    rcy, _ = sh(demo["run"] + " >/dev/null 2>&1")
    res["demo_without_patch_rc"] = rcy
    res["confirmed"] = bool(res["existing_tests_pass_with_patch"] and rcx != 0 and rcy == 0)
reset()
json.dump(res, open(os.path.join(sd, "confirm.json"), "w"), indent=1)
print(P, m, "confirmed" if res.get("confirmed") else "NOT-CONFIRMED", {k: res[k] for k in res if k in ("applies", "existing_tests_pass_with_patch", "demo_with_patch_rc", "demo_without_patch_rc")})
