#!/usr/bin/env python3
"""Regenerate MANIFEST.json from props.toml (claimed properties) + not_applicable.toml."""
import json, os, tomllib
V = os.path.dirname(os.path.dirname(os.path.abspath(__file__)))
props = tomllib.load(open(os.path.join(V, "props.toml"), "rb"))["property"]
na = tomllib.load(open(os.path.join(V, "not_applicable.toml"), "rb"))["na"]
ids = [json.loads(l)["id"] for l in open(os.path.join(V, "properties.jsonl"))]
m = {
    "version": 1,
    "setup_cmd": "python3 -m vf.setup",
    "hooks": {"guard": "melda_verif",
              "enable": "no hook commits in /repo: Verus units re-extract the contracted functions from /repo/src on every run; the native replay/stand-in driver is built from a scratch copy of the working tree (outside /repo and /verif) to which accessor code is appended (native/overlay/*.append)",
              "baseline_off_cmd": "cd /repo && cargo test --workspace --no-fail-fast --offline",
              "source_commits": [], "add_only": True},
    "engines": [
        {"name": "verus-units", "path": "vf/ units/", "serves_properties": sorted(props), "kind_free_text": "contract-based deductive verification: Verus 0.2026.09.13 on functions mechanically re-extracted from /repo on every run (rules R1..R24 logged per run), contracts spliced at structural anchors; canary twins guard against vacuity"},
        {"name": "native-standins", "path": "native/", "serves_properties": sorted(p for p in props if props[p].get("standin")), "kind_free_text": "bounded exhaustive stand-ins and counterexample replay on the real code (labelled bounded, never counted as proved)"},
    ],
    "checks": [], "not_applicable": [],
    "notes": "exit 0 = all baseline obligations discharged, canaries failed as required, stand-ins found nothing; exit 1 = VIOLATION line(s); exit 2 = undecided (lost anchor, construct outside the rewrite rules, solver instability, tool failure) — never an alarm. See DESIGN.md.",
}
for pid in ids:
    if pid in props:
        P = props[pid]
        m["checks"].append({
            "property_id": pid,
            "quick_cmd": "./check %s --tier quick" % pid,
            "thorough_cmd": "./check %s --tier thorough" % pid,
            "evidence_file": "evidence/%s.json" % pid,
            "replay_cmd_template": "./check %s --replay {path}" % pid,
            "engine": "verus-units",
            "level_claimed": {"category": P.get("level", "proof"), "text": P["explanation"] + " Not decided (stated in evidence): " + "; ".join(P.get("not_decided", [])), "design_ref": "DESIGN.md §2 " + pid},
            "level_note": "Trusted: Verus + bundled Z3 + vstd; extractor and rewrite rules (every instance logged in evidence.coverage.rule_instances); " + "; ".join(P.get("trusted_base", [])) + ((". Assumptions: " + "; ".join(P["assumptions"])) if P.get("assumptions") else ""),
            "technique": P.get("technique", "Verus function contracts, loop invariants and lemmas on functions re-extracted from /repo each run; bounded native stand-ins where stated"),
        })
    else:
        m["not_applicable"].append({"property_id": pid, "reason": na[pid]})
json.dump(m, open(os.path.join(V, "MANIFEST.json"), "w"), indent=1)
print("claimed:", [c["property_id"] for c in m["checks"]], "n/a:", [n["property_id"] for n in m["not_applicable"]])
