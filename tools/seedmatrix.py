#!/usr/bin/env python3
"""tools/seedmatrix.py [-j N] [seed ids...]
Run the QUICK check of every claimed property against every kept seeded change (scratch copy of /repo's working tree +
patch, outside /repo and /verif), record which checks report a VIOLATION.  Writes seeded/matrix.json, seeded/MATRIX.md and
adds `detected_by` / `undecided_in` / `what_i_ran` to each seeded/<id>/meta.json."""
import concurrent.futures as cf
import glob, json, os, re, shutil, subprocess, sys, tempfile, time

V = os.path.dirname(os.path.dirname(os.path.abspath(__file__)))
args = sys.argv[1:]
jobs = 4
HARMLESS = False
if args[:1] == ["--harmless"]:
    HARMLESS = True; args = args[1:]
if args[:1] == ["-j"]:
    jobs = int(args[1]); args = args[2:]
SD = os.path.join(V, "seeded", "harmless") if HARMLESS else os.path.join(V, "seeded")
seeds = args or sorted((os.path.basename(d) for d in glob.glob(os.path.join(SD, "h*" if HARMLESS else "C*-m*"))), key=lambda x: (len(x), x) if HARMLESS else (0, x))
props = [c["property_id"] for c in json.load(open(os.path.join(V, "MANIFEST.json")))["checks"]]
os.makedirs("/var/tmp/mut", exist_ok=True)


def run_seed(sid):
    patch = os.path.join(SD, sid, "patch.diff")
    scratch = tempfile.mkdtemp(prefix="mx-%s-" % sid, dir="/var/tmp/mut")
    res = {"seed": sid, "results": {}}
    try:
        shutil.copytree("/repo/src", os.path.join(scratch, "src"))
        for f in ("Cargo.toml", "Cargo.lock"):
            shutil.copy(os.path.join("/repo", f), scratch)
        r = subprocess.run(["patch", "-p1", "-s", "-i", patch], cwd=scratch, capture_output=True, text=True)
        if r.returncode != 0:
            res["error"] = "patch failed: " + (r.stdout + r.stderr)[-400:]
            return res
        env = dict(os.environ, MELDA_REPO=scratch, VERIF_EVIDENCE_DIR=os.path.join(scratch, "evidence"), VERIF_REPLAY_DIR=os.path.join(scratch, "replays"))
        for p in props:
            t0 = time.time()
            r = subprocess.run([os.path.join(V, "check"), p, "--tier", "quick"], cwd=V, env=env, capture_output=True, text=True)
            status = {0: "pass", 1: "VIOLATION", 2: "undecided"}.get(r.returncode, "exit%d" % r.returncode)
            how = []
            for l in r.stdout.split("\n"):
                if l.startswith("VIOLATION"):
                    rp = l.split("replay=")[1].split()[0]
                    try:
                        d = json.load(open(rp))
                        case = (d.get("native") or {}).get("case")
                        how.append({"obligation": d.get("obligation"), "failing_input": (str(case.get("what", ""))[:160] if case else None),
                                    "no_failing_input_found": l.strip().endswith("no-failing-input-found")})
                    except Exception:
                        how.append({"line": l[:120]})
            res["results"][p] = {"status": status, "how": how[:2], "wall_s": round(time.time() - t0, 1)}
    finally:
        shutil.rmtree(scratch, ignore_errors=True)
    return res


out = {}
with cf.ThreadPoolExecutor(max_workers=jobs) as ex:
    for res in ex.map(run_seed, seeds):
        sid = res["seed"]
        out[sid] = res
        caught = [p for p, r in res["results"].items() if r["status"] == "VIOLATION"]
        und = [p for p, r in res["results"].items() if r["status"] == "undecided"]
        print(sid, "caught by", caught, "undecided in", und, flush=True)
        mp = os.path.join(SD, sid, "meta.json")
        meta = json.load(open(mp))
        if HARMLESS:
            meta["alarms"] = {p: res["results"][p]["how"] for p in caught}
        else:
            meta["detected_by"] = {p: res["results"][p]["how"] for p in caught}
            meta["detected_by_own_property_check"] = meta["breaks_property"] in caught
        meta["undecided_in"] = und
        meta["what_i_ran"] = "tools/seedmatrix.py: scratch copy of /repo's working tree + patch.diff, `./check <P> --tier quick` for every claimed property with MELDA_REPO pointing at the copy (equivalent to `git -C /repo apply` + checks + `git -C /repo checkout -- .`)"
        json.dump(meta, open(mp, "w"), indent=1)
mx_path = os.path.join(SD, "matrix.json")
old = json.load(open(mx_path)) if os.path.exists(mx_path) else {}
old.update(out)
json.dump(old, open(mx_path, "w"), indent=1)
# markdown
allseeds = sorted(old)
lines = ["# Behaviour-preserving edits x checks (quick tier): every cell must be `.` (pass); `V` would be a FALSE ALARM, `u` = undecided (exit 2, no alarm)" if HARMLESS else "# Seeded changes x checks (quick tier)", "",
         "`V` = the check reports a VIOLATION (p = proof obligation failed, i = with a concrete failing input replayed on the real code), `u` = undecided (exit 2), `.` = pass.", "",
         "| seed | own | " + " | ".join(props) + " | summary |", "|---|---|" + "---|" * (len(props) + 1)]
for sid in allseeds:
    R = old[sid]["results"]
    try:
        _m = json.load(open(os.path.join(SD, sid, "meta.json"))); summ = (_m.get("summary") or (_m.get("kind", "") + ": " + ", ".join(_m.get("functions", []))))[:90]
    except Exception:
        summ = ""
    cells = []
    for p in props:
        r = R.get(p, {"status": "-"})
        if r["status"] == "VIOLATION":
            kinds = set()
            for h in r.get("how", []):
                kinds.add("i" if h.get("failing_input") else "p")
            cells.append("V" + "".join(sorted(kinds)))
        elif r["status"] == "undecided":
            cells.append("u")
        elif r["status"] == "pass":
            cells.append(".")
        else:
            cells.append(r["status"])
    own = sid.split("-")[0]
    if HARMLESS:
        lines.append("| %s | %s | %s | %s |" % (sid, "ALARM" if any(r["status"] == "VIOLATION" for r in R.values()) else "ok", " | ".join(cells), summ.replace("|", "/")))
        continue
    lines.append("| %s | %s | %s | %s |" % (sid, "yes" if R.get(own, {}).get("status") == "VIOLATION" else ("u" if R.get(own, {}).get("status") == "undecided" else "NO"), " | ".join(cells), summ.replace("|", "/")))
n_own = sum(1 for sid in allseeds if old[sid]["results"].get(sid.split("-")[0], {}).get("status") == "VIOLATION")
n_any = sum(1 for sid in allseeds if any(r["status"] == "VIOLATION" for r in old[sid]["results"].values()))
lines += ["", "%d seeds; caught by the check of the property they were written against: %d; caught by at least one check: %d." % (len(allseeds), n_own, n_any)]
open(os.path.join(SD, "MATRIX.md"), "w").write("\n".join(lines) + "\n")
print("\n".join(lines[-1:]))
