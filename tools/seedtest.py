#!/usr/bin/env python3
"""tools/seedtest.py <patch.diff> [property ids...]
Apply a seeded change to a scratch copy of /repo's working tree (outside /repo and /verif), run the quick checks of the
given (default: all claimed) properties against it, print one line per property.  Evidence/replays go to a scratch dir."""
import json, os, shutil, subprocess, sys, tempfile
V = os.path.dirname(os.path.dirname(os.path.abspath(__file__)))
patch = os.path.abspath(sys.argv[1])
props = sys.argv[2:] or [c["property_id"] for c in json.load(open(os.path.join(V, "MANIFEST.json")))["checks"]]
tier = os.environ.get("SEED_TIER", "quick")
scratch = tempfile.mkdtemp(prefix="seed-", dir="/var/tmp/mut")
try:
    shutil.copytree("/repo/src", os.path.join(scratch, "src"))
    for f in ("Cargo.toml", "Cargo.lock"):
        shutil.copy(os.path.join("/repo", f), scratch)
    r = subprocess.run(["patch", "-p1", "-s", "-i", patch], cwd=scratch, capture_output=True, text=True)
    if r.returncode != 0:
        print("PATCH FAILED", r.stdout, r.stderr); sys.exit(2)
    env = dict(os.environ, MELDA_REPO=scratch, VERIF_EVIDENCE_DIR=os.path.join(scratch, "evidence"), VERIF_REPLAY_DIR=os.path.join(scratch, "replays"))
    caught = []
    for p in props:
        r = subprocess.run([os.path.join(V, "check"), p, "--tier", tier], cwd=V, env=env, capture_output=True, text=True)
        lines = [l for l in r.stdout.split("\n") if l.startswith(("VIOLATION", "KNOWN", "UNDECIDED"))]
        status = {0: "pass", 1: "VIOLATION", 2: "undecided"}.get(r.returncode, "exit%d" % r.returncode)
        detail = ""
        for l in lines[:3]:
            if l.startswith("VIOLATION"):
                rp = l.split("replay=")[1].split()[0]
                try:
                    d = json.load(open(rp))
                    nat = d.get("native") or {}
                    case = nat.get("case") or {}
                    detail += " [%s%s]" % (d.get("obligation"), (" | " + str(case.get("what", ""))[:110]) if case else " | no-input")
                except Exception:
                    detail += " [" + l[:80] + "]"
            elif l.startswith("UNDECIDED"):
                detail += " {" + l[11:120] + "}"
        print("%s %-10s%s" % (p, status, detail))
        if r.returncode == 1:
            caught.append(p)
    print("CAUGHT BY:", caught)
finally:
    shutil.rmtree(scratch, ignore_errors=True)
