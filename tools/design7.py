#!/usr/bin/env python3
"""Regenerate DESIGN.md §7 (seeded changes x checks) from seeded/matrix.json, seeded/*/meta.json and seeded/harmless/matrix.json."""
import json, os, re
V = os.path.dirname(os.path.dirname(os.path.abspath(__file__)))
mx = json.load(open(os.path.join(V, "seeded", "matrix.json")))
hm_p = os.path.join(V, "seeded", "harmless", "matrix.json")
hm = json.load(open(hm_p)) if os.path.exists(hm_p) else {}
def kind(r):
    if r["status"] != "VIOLATION":
        return {"undecided": "u", "pass": "."}.get(r["status"], r["status"])
    ks = set("i" if h.get("failing_input") else "p" for h in r.get("how", []))
    return "V" + "".join(sorted(ks))
def skey(s):
    m = re.match(r"C(\d+)-m(\d+)", s); return (int(m.group(1)), int(m.group(2)))
lines = ["## 7. Seeded property-breaking changes and which checks catch them", "",
 "Every change below was written by a fresh sub-agent that saw only the text of one property and a scratch worktree of /repo",
 "(nothing from /verif), compiles, passes the 32 unit tests and 30 doc tests, and comes with a demonstration that fails with the",
 "change and passes without it; I re-ran all of that myself (`tools/confirm_seed.py`) before keeping it under `seeded/<id>/`",
 "(patch.diff, demonstration, meta.json). `tools/seedmatrix.py` then runs the QUICK check of every claimed property against every",
 "kept change (scratch copy of /repo's working tree + patch — equivalent to `git -C /repo apply` … `git -C /repo checkout -- .`).",
 "Legend: `Vp` = VIOLATION from a failed proof obligation whose extracted source changed, `Vi` = VIOLATION with a concrete failing",
 "input replayed on the real code (`Vip` both), `u` = undecided (exit 2: the change moved the code outside the extraction rules or",
 "removed a local an invariant names; never an alarm), `.` = pass. Full matrix: `seeded/MATRIX.md`.", "",
 "| seed | what it breaks | own check | other checks that report it |", "|---|---|---|---|"]
n_own = n_any = 0
for sid in sorted(mx, key=skey):
    R = mx[sid]["results"]; own = sid.split("-")[0]
    try: summ = json.load(open(os.path.join(V, "seeded", sid, "meta.json")))["summary"]
    except Exception: summ = ""
    summ = (summ or "").replace("|", "/")
    if len(summ) > 150: summ = summ[:147] + "..."
    o = kind(R[own]) if own in R else "-"
    others = [p for p in sorted(R) if p != own and R[p]["status"] == "VIOLATION"]
    if o.startswith("V"): n_own += 1
    if o.startswith("V") or others: n_any += 1
    ob = ""
    if own in R and R[own]["status"] == "VIOLATION" and R[own].get("how"):
        ob = " `" + str(R[own]["how"][0].get("obligation"))[:60] + "`"
    lines.append("| %s | %s | %s%s | %s |" % (sid, summ, o, ob, " ".join(others) or "—"))
lines += ["", "%d changes; reported by the check of the property they were written against: %d; reported by at least one check: %d." % (len(mx), n_own, n_any), ""]
extra = os.path.join(V, "seeded", "NOTES.md")
if os.path.exists(extra):
    lines += open(extra).read().rstrip("\n").split("\n") + [""]
if hm:
    al = [h for h in hm if any(r["status"] == "VIOLATION" for r in hm[h]["results"].values())]
    und = {h: [p for p, r in hm[h]["results"].items() if r["status"] == "undecided"] for h in hm}
    lines += ["**Behaviour-preserving edits** (`seeded/harmless/h1..h%d`, written by a sub-agent that knew nothing of /verif: renamed locals, reordered independent" % len(hm),
              "statements, `match`→`if let`, `for`→`for_each`, swapped if/else arms, added `debug_assert!`, comments): %d of %d raise an alarm." % (len(al), len(hm)),
              "Undecided (exit 2, no alarm) where an edit renames a local that an invariant names or uses a loop form outside the rules: " +
              "; ".join("%s: %s" % (h, ",".join(u)) for h, u in sorted(und.items(), key=lambda x: (len(x[0]), x[0])) if u) + ".", ""]
sec = "\n".join(lines)
p = os.path.join(V, "DESIGN.md")
s = open(p).read()
if "<!-- §7 begin -->" in s:
    s = re.sub(r"<!-- §7 begin -->.*<!-- §7 end -->", lambda m: "<!-- §7 begin -->\n" + sec + "\n<!-- §7 end -->", s, flags=re.S)
else:
    s = s.rstrip("\n") + "\n\n---------------------------------------------------------------------------------------------------\n\n<!-- §7 begin -->\n" + sec + "\n<!-- §7 end -->\n"
open(p, "w").write(s)
print("§7 written:", len(mx), "seeds,", n_own, "own,", n_any, "any")
