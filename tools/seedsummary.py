#!/usr/bin/env python3
import glob, json, os, re
rows=[]
for f in sorted(glob.glob('/var/tmp/mut/logs/*.log')):
    b=os.path.basename(f)[:-4]; P,m=b.split('-')
    try: summ=json.load(open('/tmp/seeds/%s/%s/meta.json'%(P,m)))['summary'][:95]
    except Exception: summ='?'
    caught=[];und=[]
    done='CAUGHT BY' in open(f).read()
    for l in open(f):
        mm=re.match(r'(C\d+) (\S+)',l)
        if mm:
            if mm.group(2)=='VIOLATION': caught.append(mm.group(1))
            elif mm.group(2)=='undecided': und.append(mm.group(1))
    print('%-7s %s own=%s caught=%s undecided=%s | %s'%(b,'' if done else '(running)', 'Y' if P in caught else ('u' if P in und else 'N'), ','.join(caught), ','.join(und), summ))
