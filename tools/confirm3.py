#!/usr/bin/env python3
"""tools/confirm3.py <worktree> <P> [m1 m2 ..] — third-round seeds: confirm each delivered change <worktree>/seedout/m<k>
(patch.diff, demo_main.rs, notes.md) in that scratch worktree of /repo: (1) the patch applies, (2) `cargo test --offline --lib`
passes with it, (3) the demonstration (installed as examples/seed_demo.rs) fails with the patch, (4) passes without it.
Confirmed changes are installed as /verif/seeded/<P>-m<next>/ (patch.diff, demo_main.rs, notes.md, meta.json)."""
import glob, json, os, re, shutil, subprocess, sys
V = os.path.dirname(os.path.dirname(os.path.abspath(__file__)))
wt, P = sys.argv[1], sys.argv[2]
which = sys.argv[3:] or sorted(os.path.basename(d) for d in glob.glob(os.path.join(wt, "seedout", "m*")))
env = dict(os.environ, CARGO_NET_OFFLINE="true", RUSTFLAGS="-Awarnings")


def sh(cmd, timeout=1800):
    p = subprocess.run(cmd, cwd=wt, shell=True, capture_output=True, text=True, env=env, timeout=timeout)
    return p.returncode, (p.stdout + p.stderr)[-2000:]


def reset():
    sh("git checkout -q -- src; rm -rf examples/seed_demo.rs")


for m in which:
    sd = os.path.join(wt, "seedout", m)
    reset()
    res = {}
    rc, out = sh("git apply --check %s/patch.diff" % sd)
    res["applies"] = rc == 0
    if rc != 0:
        print(P, m, "PATCH DOES NOT APPLY", out); continue
    os.makedirs(os.path.join(wt, "examples"), exist_ok=True)
    shutil.copy(os.path.join(sd, "demo_main.rs"), os.path.join(wt, "examples", "seed_demo.rs"))
    notes = open(os.path.join(sd, "notes.md")).read() if os.path.exists(os.path.join(sd, "notes.md")) else ""
    feats = ""
    fm = re.search(r"--features[ =]+([\w,]+)", notes)
    if fm:
        feats = " --features " + fm.group(1)
    sh("git apply %s/patch.diff" % sd)
    rc1, o1 = sh("cargo test --offline --lib 2>&1 | grep 'test result'")
    res["lib_with_patch"] = o1.strip()
    rcw, ow = sh("timeout 600 cargo run --offline%s --example seed_demo" % feats)
    res["demo_with_patch_rc"] = rcw; res["demo_with_patch_tail"] = ow[-400:]
    sh("git checkout -q -- src")
    rco, oo = sh("timeout 600 cargo run --offline%s --example seed_demo" % feats)
    res["demo_without_patch_rc"] = rco
    ok = ("32 passed; 0 failed" in o1) and rcw != 0 and rco == 0
    res["confirmed"] = ok
    reset()
    print(P, m, "CONFIRMED" if ok else "NOT CONFIRMED", json.dumps({k: res[k] for k in ("lib_with_patch", "demo_with_patch_rc", "demo_without_patch_rc")}))
    if not ok:
        print(oo[-600:] if rco != 0 else ow[-600:]); continue
    have = [int(re.search(r"-m(\d+)$", d).group(1)) for d in glob.glob(os.path.join(V, "seeded", P + "-m*"))]
    sid = "%s-m%d" % (P, max(have + [0]) + 1)
    dst = os.path.join(V, "seeded", sid); os.makedirs(dst)
    for f in ("patch.diff", "demo_main.rs", "notes.md"):
        if os.path.exists(os.path.join(sd, f)): shutil.copy(os.path.join(sd, f), dst)
    head = os.popen("git -C /repo rev-parse --short HEAD").read().strip()
    meta = {"id": sid, "breaks_property": P, "summary_and_needs_to_manifest": "see notes.md (written by the seeding agent)",
            "demo": {"kind": "example", "file": "demo_main.rs", "run": "cp demo_main.rs <worktree>/examples/seed_demo.rs && cargo run --offline%s --example seed_demo" % feats},
            "author": "independent sub-agent (third round) given only the property text and a scratch worktree of /repo at %s" % head,
            "confirmed_by_me": {"how": "tools/confirm3.py in scratch worktree %s: git apply; cargo test --offline --lib; demo with patch; demo without patch" % wt,
                                "existing_tests_with_patch": {"lib": res["lib_with_patch"]}, "demo_exit_with_patch": rcw, "demo_exit_without_patch": rco,
                                "demo_output_with_patch_tail": res["demo_with_patch_tail"]}}
    json.dump(meta, open(os.path.join(dst, "meta.json"), "w"), indent=1)
    print("  installed", sid)
