// ---- unit `merge`: spec functions, lemmas and verified wrappers (hand-written, part of the contract) ----
// R14: the array element type is opaque; `==` on it is spec equality, `clone` preserves it (assumed).
#[verifier::external_body]
pub struct Value { _opaque: () }

#[verifier::external_body]
pub fn vx_elem_eq(a: &Value, b: &Value) -> (r: bool)
    ensures r == (*a == *b),
{ unimplemented!() }

#[verifier::external_body]
pub fn vx_clone(a: &Value) -> (r: Value)
    ensures r == *a,
{ unimplemented!() }

pub open spec fn no_dup(s: Seq<Value>) -> bool { forall|i: int, j: int| 0 <= i < j < s.len() ==> s[i] != s[j] }

// a is a subsequence of b, witnessed by a strictly increasing position map
pub open spec fn embeds(a: Seq<Value>, b: Seq<Value>, pos: Seq<int>) -> bool {
    pos.len() == a.len()
    && (forall|i: int| 0 <= i < a.len() ==> 0 <= #[trigger] pos[i] < b.len() && b[pos[i]] == a[i])
    && (forall|i: int, j: int| 0 <= i < j < a.len() ==> pos[i] < pos[j])
}
pub open spec fn is_subseq(a: Seq<Value>, b: Seq<Value>) -> bool { exists|pos: Seq<int>| embeds(a, b, pos) }

pub proof fn lemma_subseq_insert(a: Seq<Value>, b: Seq<Value>, k: int, v: Value)
    requires is_subseq(a, b), 0 <= k <= b.len(),
    ensures is_subseq(a, b.insert(k, v)),
{
    let pos = choose|pos: Seq<int>| embeds(a, b, pos);
    let pos2 = Seq::new(a.len(), |i: int| if pos[i] >= k { pos[i] + 1 } else { pos[i] });
    assert(embeds(a, b.insert(k, v), pos2));
}

pub proof fn lemma_subseq_refl(a: Seq<Value>)
    ensures is_subseq(a, a),
{
    let pos = Seq::new(a.len(), |i: int| i);
    assert(embeds(a, a, pos));
}

pub proof fn lemma_subseq_empty(b: Seq<Value>)
    ensures is_subseq(Seq::<Value>::empty(), b),
{
    assert(embeds(Seq::<Value>::empty(), b, Seq::<int>::empty()));
}

pub proof fn lemma_insert_props(b: Seq<Value>, k: int, v: Value)
    requires 0 <= k <= b.len(),
    ensures
        forall|x: Value| b.insert(k, v).contains(x) <==> (b.contains(x) || x == v),
        (no_dup(b) && !b.contains(v)) ==> no_dup(b.insert(k, v)),
{
    let c = b.insert(k, v);
    assert forall|x: Value| c.contains(x) <==> (b.contains(x) || x == v) by {
        if c.contains(x) {
            let i = choose|i: int| 0 <= i < c.len() && c[i] == x;
            if i < k { assert(b[i] == x); } else if i == k { } else { assert(b[i - 1] == x); }
        }
        if b.contains(x) {
            let i = choose|i: int| 0 <= i < b.len() && b[i] == x;
            if i < k { assert(c[i] == x); } else { assert(c[i + 1] == x); }
        }
        if x == v { assert(c[k] == v); }
    }
    if no_dup(b) && !b.contains(v) {
        assert forall|i: int, j: int| 0 <= i < j < c.len() implies c[i] != c[j] by {
            let bi = if i < k { i } else { i - 1 };
            let bj = if j < k { j } else { j - 1 };
            if i == k { assert(c[j] == b[bj]); assert(b.contains(b[bj])); }
            else if j == k { assert(c[i] == b[bi]); assert(b.contains(b[bi])); }
            else { assert(c[i] == b[bi] && c[j] == b[bj]); }
        }
    }
}

pub proof fn lemma_subrange_push(m: Seq<Value>, i: int)
    requires 0 <= i < m.len(),
    ensures forall|x: Value| m.subrange(0, i + 1).contains(x) <==> (m.subrange(0, i).contains(x) || x == m[i]),
{
    let a = m.subrange(0, i); let b = m.subrange(0, i + 1);
    assert forall|x: Value| b.contains(x) <==> (a.contains(x) || x == m[i]) by {
        if b.contains(x) { let j = choose|j: int| 0 <= j < b.len() && b[j] == x; if j < i { assert(a[j] == x); } }
        if a.contains(x) { let j = choose|j: int| 0 <= j < a.len() && a[j] == x; assert(b[j] == x); }
        if x == m[i] { assert(b[i] == x); }
    }
}

// R4: `E.iter().position(|e| *e == *t)` — first index holding t, or None (verified against vx_elem_eq)
pub fn vx_position(v: &Vec<Value>, t: &Value) -> (r: Option<usize>)
    ensures match r {
        Some(p) => p < v.len() && v@[p as int] == *t && forall|i:int| 0 <= i < p ==> v@[i] != *t,
        None => !v@.contains(*t),
    }
{
    let mut i: usize = 0;
    while i < v.len()
        invariant i <= v.len(), forall|k:int| 0 <= k < i ==> v@[k] != *t,
        decreases v.len() - i,
    {
        if vx_elem_eq(&v[i], t) { return Some(i); }
        i += 1;
    }
    None
}

// R5: `Vec::insert` with the membership / no-duplicate / subsequence facts callers need (verified against std spec)
pub fn vx_vec_insert(v: &mut Vec<Value>, k: usize, x: Value)
    requires k <= old(v).len(),
    ensures
        final(v)@ == old(v)@.insert(k as int, x),
        final(v).len() == old(v).len() + 1,
        forall|y: Value| final(v)@.contains(y) <==> (old(v)@.contains(y) || y == x),
        (no_dup(old(v)@) && !old(v)@.contains(x)) ==> no_dup(final(v)@),
        forall|a: Seq<Value>| #[trigger] is_subseq(a, old(v)@) ==> is_subseq(a, final(v)@),
{
    proof {
        lemma_insert_props(v@, k as int, x);
        assert forall|a: Seq<Value>| #[trigger] is_subseq(a, v@) implies is_subseq(a, v@.insert(k as int, x)) by {
            lemma_subseq_insert(a, v@, k as int, x);
        }
    }
    v.insert(k, x);
}

// R1/R2: `&E[i]` with the prefix-membership facts loop invariants over E[..i] need (verified)
pub fn vx_at<'a>(m: &'a [Value], i: usize) -> (t: &'a Value)
    requires i < m.len(),
    ensures *t == m@[i as int],
        forall|x: Value| m@.subrange(0, i + 1).contains(x) <==> (m@.subrange(0, i as int).contains(x) || x == m@[i as int]),
        m@.subrange(0, m.len() as int) == m@,
{
    proof { lemma_subrange_push(m@, i as int); }
    &m[i]
}
