// ---- unit `stagem`: Melda::stage / Melda::replay_stage (src/melda.rs) — the middle clause of C15: "exporting the staged changes,
// discarding them and replaying the export restores exactly the staged state" ----
//
// Included unit: `commit` (mirrors of Melda / DataStorage / Change, the documents view `dmap`, the predicates of commit's
// change-list clause `staged_entry / is_record / has_record / no_dup / records_exactly` with the step lemmas of the two
// collecting loops, `some_staged`, `Melda::has_staging`, the access shims `vx_docs_entries / vx_docs_keys / vx_docs_tree_mut /
// vx_revs_entries`; `commit` includes `tree` (RevisionTree::add / new / unstage / has_staging / get_revisions,
// RevisionTreeEntry::is_staging / get_parent — RE-VERIFIED from the real code in this file) and `rev` (Revision::new /
// digest / index, `child_of`, `rev_str`)).
// Proved FROM THE REAL CODE here: Melda::stage, Melda::replay_stage, and Melda::unstage once more (rule, contract and loop
// invariant of unit `unstage`, on this mirror) so that the three contracts COMPOSE in one verified exec function:
// `stage_discard_replay` (postamble of contracts.toml).
// ASSUMED (every `#[verifier::external_body]` item below, each with its source):
//   * the JSON data model `jv` / `jm` and the serde_json accessors                — text copied from unit `block` (+ `Map::is_empty`)
//   * `Revision::from` = `vx_rev_parse`; print/parse inverse on system ids          — text copied from unit `block`
//     (`assume_rev_print_parse` is used ONLY by the round-trip lemmas, never by the contracts of stage / replay_stage)
//   * `DataStorage::{has_staging, stage, replay_stage, unstage}`                    — PROVED in unit `pack`; restated over the JSON model
//   * `BTreeMap<String, Mutex<RevisionTree>>::{contains_key, insert, get_mut, retain}` by key text (std), lock erasure (R6)
//   * `Melda::has_staging` (rayon `par_iter().any`)                                 — replaced by its meaning, in unit `commit`
// Modelling (R6, lock erasure): `RwLock<T>` / `Mutex<T>` -> `T`, single-threaded semantics, blocking and poisoning dropped.
// `stage` keeps `&self` (it writes nothing: the frame is free); `replay_stage` becomes `&mut self` (it writes through the locks).
// `replay_stage` is verified with `loop_isolation(false)`: its parameter `s` is shadowed twice in the body, so no loop invariant
// can name it, yet the postcondition at the `?` exits inside the loop speaks about it.
// NOTE (String identity): a `String` is not determined by its text in Verus, hence a `Revision` is not determined by its
// view.  The real `Eq`/`Hash` of Revision compare the three fields by content (unit `rev`: `Revision::eq`).  Everything that
// speaks about a REBUILT revision is therefore stated on views (`@`): `replay_wit` fixes the VIEW of every replayed revision
// (`rrecs_view(ws) == stage_decode(..)`), `restored` compares trees with `same_revs`.
// NOTE (order): `stage` emits the records in hash order (arbitrary) and `replay_stage` replays them in array order, so a staged
// child may be replayed BEFORE its staged parent.  This is harmless: `RevisionTree::add` (unit tree) records an entry whether
// or not its parent is recorded and re-derives leaves / winner from the recorded SET on every successful add
// (`lemma_replay_closed`: the replayed tree does not depend on the order).

// ================================================================ R8: the JSON data model (SOURCE: unit `block`, text copied)
/// JSON numbers are never inspected by the two functions
#[verifier::external_body]
pub struct JNum { n: () }
/// the JSON data model (objects as maps from key text to value: serde_json::Map keeps one value per key)
pub enum JV { Null, Bool(bool), Num(JNum), Str(Seq<char>), Arr(Seq<JV>), Obj(Map<Seq<char>, JV>) }
/// the JSON value a `serde_json::Value` holds
pub uninterp spec fn jv(v: Value) -> JV;
/// the key -> value mapping a `serde_json::Map<String, Value>` holds
pub uninterp spec fn jm(m: JMap) -> Map<Seq<char>, JV>;
pub open spec fn jvs(s: Seq<Value>) -> Seq<JV> { s.map_values(|x: Value| jv(x)) }
pub open spec fn strs_jv(s: Seq<String>) -> Seq<JV> { s.map_values(|x: String| JV::Str(x@)) }

impl JMap {
    // ASSUMED (serde_json): `Map::new()` is the empty object
    #[verifier::external_body]
    pub fn new() -> (m: JMap) ensures jm(m) == Map::<Seq<char>, JV>::empty() { unimplemented!() }
    // ASSUMED (serde_json): `Map::insert` binds the key to the value, replacing a previous binding, other keys unchanged
    #[verifier::external_body]
    pub fn insert(&mut self, k: String, v: Value) -> (r: Option<Value>)
        ensures jm(*final(self)) == jm(*old(self)).insert(k@, jv(v)),
    { unimplemented!() }
    // ASSUMED (serde_json): `Map::contains_key` by key text
    #[verifier::external_body]
    pub fn contains_key(&self, k: &str) -> (r: bool) ensures r == jm(*self).contains_key(k@) { unimplemented!() }
    // ASSUMED (serde_json): `Map::get` by key text
    #[verifier::external_body]
    pub fn get(&self, k: &str) -> (r: Option<&Value>)
        ensures match r { Some(v) => jm(*self).contains_key(k@) && jv(*v) == jm(*self)[k@], None => !jm(*self).contains_key(k@) },
    { unimplemented!() }
    // ASSUMED (serde_json; NOT in unit block): `Map::is_empty` = the object has no member
    #[verifier::external_body]
    pub fn is_empty(&self) -> (r: bool) ensures r == (forall|k: Seq<char>| !jm(*self).contains_key(k)) { unimplemented!() }
}
/// `Value::from(x)` for the three argument types the code uses (impls of serde_json's `From`)
pub trait ToJV { spec fn to_jv(&self) -> JV; }
impl ToJV for Vec<String> { open spec fn to_jv(&self) -> JV { JV::Arr(strs_jv(self@)) } }
impl ToJV for Vec<Value> { open spec fn to_jv(&self) -> JV { JV::Arr(jvs(self@)) } }
impl ToJV for JMap { open spec fn to_jv(&self) -> JV { JV::Obj(jm(*self)) } }
impl Value {
    // ASSUMED (serde_json): `Value::is_object`
    #[verifier::external_body]
    pub fn is_object(&self) -> (r: bool) ensures r == (jv(*self) is Obj) { unimplemented!() }
    // ASSUMED (serde_json): `Value::as_object` = the mapping of an object, None for anything else
    #[verifier::external_body]
    pub fn as_object(&self) -> (r: Option<&JMap>)
        ensures match r { Some(m) => jv(*self) == JV::Obj(jm(*m)), None => !(jv(*self) is Obj) },
    { unimplemented!() }
    // ASSUMED (serde_json): `Value::is_array`
    #[verifier::external_body]
    pub fn is_array(&self) -> (r: bool) ensures r == (jv(*self) is Arr) { unimplemented!() }
    // ASSUMED (serde_json): `Value::as_array` = the element vector of an array, None for anything else
    #[verifier::external_body]
    pub fn as_array(&self) -> (r: Option<&Vec<Value>>)
        ensures match r { Some(a) => jv(*self) == JV::Arr(jvs(a@)), None => !(jv(*self) is Arr) },
    { unimplemented!() }
    // ASSUMED (serde_json): `Value::as_str` = the text of a string, None for anything else
    #[verifier::external_body]
    pub fn as_str(&self) -> (r: Option<&str>)
        ensures match r { Some(s) => jv(*self) == JV::Str(s@), None => !(jv(*self) is Str) },
    { unimplemented!() }
    // ASSUMED (serde_json): `Value::from(Vec<String>)` = array of strings, `from(Vec<Value>)` = array, `from(Map)` = object
    #[verifier::external_body]
    pub fn from<T: ToJV>(t: T) -> (v: Value) ensures jv(v) == t.to_jv() { unimplemented!() }
}
pub fn vx_at<'a, T>(m: &'a [T], i: usize) -> (t: &'a T)
    requires i < m.len(),
    ensures *t == m@[i as int],
{ &m[i] }

// ================================================================ identifiers as text (SOURCE: unit `block`, text copied)
/// what `Revision::from` (regexes FULL_REV / FIRST_REV) reads from a text; None = rejected.  Uninterpreted.
pub uninterp spec fn rev_parse(s: Seq<char>) -> Option<RevV>;
// ASSUMED (regex): `Revision::from` is a function of the text and does not panic (on this tree the index is parsed with `?`)
#[verifier::external_body]
pub fn vx_rev_parse(s: &str) -> (r: Result<Revision, VxError>)
    ensures match r { Ok(x) => rev_parse(s@) == Some(x@), Err(_) => rev_parse(s@) is None },
{ unimplemented!() }
pub open spec fn is_word_char(c: char) -> bool {
    ('0' <= c && c <= '9') || ('a' <= c && c <= 'z') || ('A' <= c && c <= 'Z') || c == '_'
}
/// a non-empty text of ASCII letters and digits (what the regex class `\w` minus `_` accepts; every system digest is one)
pub open spec fn is_token(s: Seq<char>) -> bool {
    s.len() > 0 && forall|i: int| 0 <= i < s.len() ==> is_word_char(#[trigger] s[i]) && s[i] != '_'
}
/// revisions the system itself produces: well-formed (unit rev) with token digest and tail
pub open spec fn rev_sys(v: RevV) -> bool {
    wf(v) && is_token(v.1) && (v.2 matches Some(t) ==> is_token(t))
}
// ASSUMED, EXPLICITLY (print/parse are inverse on system-produced identifiers): FULL_REV / FIRST_REV read the text of a
// well-formed revision with token digest/tail back as that revision.  Checked by the stand-in `revision`.  Used ONLY by the
// round-trip lemmas below, never by the contracts of `stage` / `replay_stage`.
#[verifier::external_body]
pub proof fn assume_rev_print_parse(v: RevV)
    requires rev_sys(v),
    ensures rev_parse(rev_str(v)) == Some(v),
{ }

pub type ChangeV = (Seq<char>, RevV, Option<RevV>);
pub open spec fn opt_rev_view(o: Option<Revision>) -> Option<RevV> { match o { Some(r) => Some(r@), None => None } }
/// a change record: (object uuid, new revision, previous revision if the record is an update)
pub open spec fn change_view(c: Change) -> ChangeV { (c.0@, c.1@, opt_rev_view(c.2)) }
pub open spec fn changes_view(cs: Seq<Change>) -> Seq<ChangeV> { cs.map_values(|c: Change| change_view(c)) }
/// creation record `[uuid, digest]`, update record `[uuid, text of the previous revision, digest]`
pub open spec fn record_jv(c: ChangeV) -> JV {
    match c.2 {
        None => JV::Arr(seq![JV::Str(c.0), JV::Str(c.1.1)]),
        Some(p) => JV::Arr(seq![JV::Str(c.0), JV::Str(rev_str(p)), JV::Str(c.1.1)]),
    }
}
pub open spec fn records_jv(cs: Seq<ChangeV>) -> Seq<JV> { cs.map_values(|c: ChangeV| record_jv(c)) }
/// a change record read back: 2 elements = creation `(uuid, Revision::new(1, digest, None), None)`,
/// 3 elements = update `(uuid, Revision::new(prev.index + 1, digest, Some(prev)), Some(prev))`, prev parsed from the 2nd element
pub open spec fn decode_rec(r: Seq<JV>) -> ChangeV {
    if r.len() == 2 { (r[0]->Str_0, child_of(1, r[1]->Str_0, None), None) }
    else {
        let p = rev_parse(r[1]->Str_0)->Some_0;
        (r[0]->Str_0, child_of((p.0 + 1) as u32, r[2]->Str_0, Some(p)), Some(p))
    }
}
/// a change record as the system builds it: a creation record names a first revision, an update record names the child
/// (index + 1) of a system-produced previous revision
pub open spec fn wf_change(c: ChangeV) -> bool {
    match c.2 {
        None => c.1 == child_of(1, c.1.1, None),
        Some(p) => rev_sys(p) && p.0 < u32::MAX && c.1 == child_of((p.0 + 1) as u32, c.1.1, Some(p)),
    }
}

// ================================================================ std: the documents map by key text (R6 + content-keyed view `dmap`)
// ASSUMED (std): `BTreeMap<String, _>::contains_key(&str)` by key text
#[verifier::external_body]
pub fn vx_docs_contains(m: &BTreeMap<String, RevisionTree>, k: &str) -> (r: bool)
    ensures r == dmap(*m).contains_key(k@),
{ unimplemented!() }
// ASSUMED (std): `BTreeMap::insert(k, Mutex::new(t))` binds the key text to the tree, other keys unchanged
#[verifier::external_body]
pub fn vx_docs_insert(m: &mut BTreeMap<String, RevisionTree>, k: String, t: RevisionTree)
    ensures dmap(*final(m)) == dmap(*old(m)).insert(k@, t),
{ unimplemented!() }
// ASSUMED (std): `docs.get_mut(k).unwrap()` + `Mutex::get_mut`: exclusive access to the tree stored under an existing key;
// nothing else in the map changes (same shape as `vx_docs_tree_mut` of unit commit / `vx_docs_get_mut` of unit unstage, key as `&str`);
// `unwrap` panics when the key is absent: precondition
#[verifier::external_body]
pub fn vx_docs_get_mut<'a>(m: &'a mut BTreeMap<String, RevisionTree>, k: &str) -> (r: &'a mut RevisionTree)
    requires dmap(*old(m)).contains_key(k@),
    ensures *r == dmap(*old(m))[k@], dmap(*final(m)) == dmap(*old(m)).insert(k@, *final(r)),
{ unimplemented!() }

// ================================================================ DataStorage::{has_staging, stage, replay_stage}
// SOURCE: unit `pack` (PROVED there from the real code).  Pack models a JSON value opaquely (`as_obj(v): Option<Map<text, Value>>`);
// here the same three contracts are restated over the JSON data model: the staged set as a JSON object is `sjv(stage)`.
pub open spec fn sjv(stage: HashMap<String, Value>) -> Map<Seq<char>, JV> { smap(stage).map_values(|v: Value| jv(v)) }
pub type Index = Map<Seq<char>, (String, usize, usize)>;
/// post-state of replay_stage: every exported object whose digest is not committed is staged (again); nothing else changes
/// (SOURCE: unit pack `replayed`, values as JSON values)
pub open spec fn replayed(before: Map<Seq<char>, JV>, co: Index, s: Map<Seq<char>, JV>, after: Map<Seq<char>, JV>) -> bool {
    &&& forall|d: Seq<char>| after.contains_key(d) <==> (before.contains_key(d) || (s.contains_key(d) && !co.contains_key(d)))
    &&& forall|d: Seq<char>| #[trigger] after.contains_key(d) ==> after[d] == (if s.contains_key(d) && !co.contains_key(d) { s[d] } else { before[d] })
}
impl DataStorage {
    #[verifier::external_body]
    pub fn has_staging(&self) -> (r: bool)
        ensures r == (smap(self.stage) != Map::<Seq<char>, Value>::empty()),
    { unimplemented!() }
    /// the export is the staged set as one JSON object, whatever the hash order; never fails
    #[verifier::external_body]
    pub fn stage(&self) -> (ret: Result<Value, VxError>)
        ensures match ret { Ok(v) => jv(v) == JV::Obj(sjv(self.stage)), Err(_) => false },
    { unimplemented!() }
    #[verifier::external_body]
    pub fn replay_stage(&mut self, s: &Value) -> (ret: Result<(), VxError>)
        ensures
            final(self).adapter == old(self).adapter, final(self).committed_objects == old(self).committed_objects,
            final(self).applied_pack_ids == old(self).applied_pack_ids,
            match ret {
                Ok(_) => jv(*s) is Obj && replayed(sjv(old(self).stage), smap(old(self).committed_objects), jv(*s)->Obj_0, sjv(final(self).stage)),
                Err(_) => !(jv(*s) is Obj) && final(self).stage == old(self).stage,
            },
    { unimplemented!() }
}

// ================================================================ C15 (export): spec of `Melda::stage`, from the property statement
/// the two member names of a stage object are different one-character texts
pub proof fn lemma_stage_fields()
    ensures OBJECTS_FIELD@ != CHANGESETS_FIELD@,
{
    reveal_strlit("o"); reveal_strlit("c");
    assert(OBJECTS_FIELD@[0] == 'o' && CHANGESETS_FIELD@[0] == 'c');
}
/// replica invariant needed by `stage` (it skips a tree whose flag is not set): a staged entry implies the tree-level flag.
/// Established by `RevisionTree::add` / kept by `commit` / `unstage` (unit `tree`).
pub open spec fn trees_flagged(docs: Docs) -> bool {
    forall|k: Seq<char>| #[trigger] docs.contains_key(k) ==> tree_inv(docs[k])
}
/// `arr` holds EXACTLY one record per staged entry (uuid, rev) of every tree — the pair `[uuid, digest]` when the entry has no
/// parent, the triple `[uuid, text of the parent, digest]` otherwise; no record for an entry that is not staged, none missing,
/// none twice (`records_exactly` is the change-list clause of unit commit: a bijection between records and staged entries;
/// the order is the hash order: arbitrary)
pub open spec fn stage_records(docs: Docs, arr: Seq<JV>) -> bool {
    exists|cs: Seq<Change>| #[trigger] records_exactly(docs, cs) && arr == records_jv(changes_view(cs))
}
/// THE PROPERTY (export): `f` is the stage object of replica `m` —
/// "o" iff the data storage has staged objects (then: exactly what `DataStorage::stage` returns),
/// "c" iff some tree has its staging flag set (then: the array of records above); no other member
pub open spec fn stage_export(m: Melda, f: Map<Seq<char>, JV>) -> bool {
    &&& (f.contains_key(OBJECTS_FIELD@) <==> smap(m.data.stage) != Map::<Seq<char>, Value>::empty())
    &&& (f.contains_key(OBJECTS_FIELD@) ==> f[OBJECTS_FIELD@] == JV::Obj(sjv(m.data.stage)))
    &&& (f.contains_key(CHANGESETS_FIELD@) <==> some_staged(dmap(m.documents)))
    &&& (f.contains_key(CHANGESETS_FIELD@) ==> f[CHANGESETS_FIELD@] is Arr && stage_records(dmap(m.documents), f[CHANGESETS_FIELD@]->Arr_0))
    &&& forall|k: Seq<char>| f.contains_key(k) ==> k == OBJECTS_FIELD@ || k == CHANGESETS_FIELD@
}
/// the keys of the entry snapshot of `documents`
pub open spec fn ent_keys(ents: Seq<(&String, &RevisionTree)>) -> DocEnts { ents.map_values(|e: (&String, &RevisionTree)| *e.0) }
/// one more record: the JSON array of the records grows by the record's array (SOURCE: `lemma_record_jv` of unit block)
pub proof fn lemma_stage_push(vals0: Seq<Value>, cs0: Seq<Change>, vals: Seq<Value>, c: Change)
    requires
        jvs(vals0) == records_jv(changes_view(cs0)),
        vals.len() == vals0.len() + 1, forall|i: int| 0 <= i < vals0.len() ==> vals[i] == vals0[i],
        jv(vals[vals0.len() as int]) is Arr,
        match c.2 {
            Some(p) => jv(vals[vals0.len() as int])->Arr_0.len() == 3 && jv(vals[vals0.len() as int])->Arr_0[0] == JV::Str(c.0@)
                && jv(vals[vals0.len() as int])->Arr_0[1] == JV::Str(rev_str(p@)) && jv(vals[vals0.len() as int])->Arr_0[2] == JV::Str(c.1@.1),
            None => jv(vals[vals0.len() as int])->Arr_0.len() == 2 && jv(vals[vals0.len() as int])->Arr_0[0] == JV::Str(c.0@)
                && jv(vals[vals0.len() as int])->Arr_0[1] == JV::Str(c.1@.1),
        },
    ensures jvs(vals) == records_jv(changes_view(cs0.push(c))),
{
    let v = jv(vals[vals0.len() as int]);
    match c.2 {
        Some(p) => { assert(v->Arr_0 =~= seq![JV::Str(c.0@), JV::Str(rev_str(p@)), JV::Str(c.1@.1)]); }
        None => { assert(v->Arr_0 =~= seq![JV::Str(c.0@), JV::Str(c.1@.1)]); }
    }
    assert(v == record_jv(change_view(c)));
    let l = jvs(vals); let r = records_jv(changes_view(cs0.push(c)));
    assert(changes_view(cs0).len() == cs0.len() && jvs(vals0).len() == vals0.len() && records_jv(changes_view(cs0)).len() == cs0.len());
    assert(l.len() == r.len());
    assert forall|i: int| 0 <= i < l.len() implies l[i] == r[i] by {
        if i < vals0.len() {
            assert(l[i] == jvs(vals0)[i]);
            assert(cs0.push(c)[i] == cs0[i]);
            assert(records_jv(changes_view(cs0))[i] == record_jv(change_view(cs0[i])));
        }
    }
    assert(l =~= r);
}

// ================================================================ C15 (replay): spec of `Melda::replay_stage`, from the property statement
/// replica invariant of `replay_stage` (precondition of `RevisionTree::add` on every tree, and what it re-establishes): parent
/// links go to smaller indices, a staged entry implies the tree flag, leaves / winner are those of the recorded set
pub open spec fn docs_ok(docs: Docs) -> bool {
    forall|k: Seq<char>| #[trigger] docs.contains_key(k) ==> tree_wf(docs[k].revisions@) && tree_inv(docs[k]) && validated_ok(docs[k])
}
/// the part of a tree the property speaks about: the recorded revisions (with parent and staging flag) and the tree-level flag
/// (leaves and winner are a function of the recorded set: `validated_ok`); an unknown object has the empty tree
pub type TState = (RevMap, bool);
pub open spec fn tstate(docs: Docs, u: Seq<char>) -> TState {
    if docs.contains_key(u) { (docs[u].revisions@, docs[u].staging) } else { (Map::<Revision, RevisionTreeEntry>::empty(), false) }
}
/// what `RevisionTree::add(rev, parent, true)` does to a tree (its PROVED contract in unit tree): the first record of a revision
/// wins, a later one changes nothing; the tree flag is raised when the record is new.  `add` does NOT need the parent to be
/// recorded already: records may arrive in any order.
pub open spec fn add_staged(t: TState, rev: Revision, parent: Option<Revision>) -> TState {
    (record(t.0, rev, RevisionTreeEntry { parent, staging: true }), t.1 || !t.0.contains_key(rev))
}
/// a replayed record: (uuid text, the revision built for it, its parent)
pub type RRec = (Seq<char>, Revision, Option<Revision>);
pub open spec fn rrec_view(w: RRec) -> ChangeV { (w.0, w.1@, opt_rev_view(w.2)) }
pub open spec fn rrecs_view(ws: Seq<RRec>) -> Seq<ChangeV> { ws.map_values(|w: RRec| rrec_view(w)) }
/// the tree of object `u` after the first k replayed records: each record of that object is `add`ed (staging = true),
/// records of other objects are ignored
pub open spec fn replay_upto(t0: TState, ws: Seq<RRec>, u: Seq<char>, k: int) -> TState
    decreases k
{
    if k <= 0 { t0 }
    else {
        let p = replay_upto(t0, ws, u, k - 1);
        if ws[k - 1].0 == u { add_staged(p, ws[k - 1].1, ws[k - 1].2) } else { p }
    }
}
pub open spec fn named(ws: Seq<RRec>, u: Seq<char>) -> bool { exists|j: int| 0 <= j < ws.len() && (#[trigger] ws[j]).0 == u }
/// an element of the "c" array that is a record: an array of 2 or 3 elements (anything else is SKIPPED by replay_stage)
pub open spec fn is_rec(e: JV) -> bool { e matches JV::Arr(r) && (r.len() == 2 || r.len() == 3) }
/// a record whose members can be read: 2 strings, or 3 strings the second of which parses as a revision
pub open spec fn rec_fields_ok(r: Seq<JV>) -> bool {
    if r.len() == 2 { r[0] is Str && r[1] is Str }
    else { r[0] is Str && r[1] is Str && r[2] is Str && rev_parse(r[1]->Str_0) is Some }
}
/// a MALFORMED record: replay_stage stops at the first one and returns Err
pub open spec fn rec_bad(e: JV) -> bool { is_rec(e) && !rec_fields_ok(e->Arr_0) }
/// the records among the first n elements of the "c" array, decoded, in order
pub open spec fn stage_decode(a: Seq<JV>, n: int) -> Seq<ChangeV>
    decreases n
{
    if n <= 0 { Seq::<ChangeV>::empty() }
    else {
        let pre = stage_decode(a, n - 1);
        if is_rec(a[n - 1]) { pre.push(decode_rec(a[n - 1]->Arr_0)) } else { pre }
    }
}
/// `d1` is `d0` after replaying the records among the first n elements of `a`; `ws` = the revisions built for them
/// (a pair gives `Revision::new(1, digest, None)` without parent; a triple gives `Revision::new(prev.index + 1, digest, Some(prev))`
/// with parent `prev = Revision::from(text)`: `decode_rec`); every record is `add`ed with staging = true to the tree of its
/// object (created when absent); nothing else changes
pub open spec fn replay_wit(d0: Docs, a: Seq<JV>, n: int, ws: Seq<RRec>, d1: Docs) -> bool {
    &&& rrecs_view(ws) == stage_decode(a, n)
    &&& forall|u: Seq<char>| #[trigger] tstate(d1, u) == replay_upto(tstate(d0, u), ws, u, ws.len() as int)
    &&& forall|u: Seq<char>| #[trigger] d1.contains_key(u) <==> (d0.contains_key(u) || named(ws, u))
    &&& forall|u: Seq<char>| #[trigger] d0.contains_key(u) && !named(ws, u) ==> d1[u] == d0[u]
}
pub open spec fn docs_replayed(d0: Docs, a: Seq<JV>, n: int, d1: Docs) -> bool {
    exists|ws: Seq<RRec>| #[trigger] replay_wit(d0, a, n, ws, d1)
}
/// the replay stopped at the malformed record `a[b]`: the records BEFORE it have been replayed (no atomicity)
pub open spec fn stopped_at(d0: Docs, a: Seq<JV>, b: int, ws: Seq<RRec>, d1: Docs) -> bool {
    &&& 0 <= b < a.len() && rec_bad(a[b])
    &&& forall|j: int| 0 <= j < b ==> !rec_bad(#[trigger] a[j])
    &&& replay_wit(d0, a, b, ws, d1)
}
pub open spec fn docs_replay_stopped(d0: Docs, a: Seq<JV>, d1: Docs) -> bool {
    exists|b: int, ws: Seq<RRec>| #[trigger] stopped_at(d0, a, b, ws, d1)
}
/// the elements of the "c" array of a stage object (none when the member is absent or not an array: replay_stage ignores it)
pub open spec fn recs_of(f: Map<Seq<char>, JV>) -> Seq<JV> {
    if f.contains_key(CHANGESETS_FIELD@) && f[CHANGESETS_FIELD@] is Arr { f[CHANGESETS_FIELD@]->Arr_0 } else { Seq::<JV>::empty() }
}
/// the "o" member has been replayed by `DataStorage::replay_stage` (its contract in unit pack); without it the data storage is untouched
pub open spec fn data_replayed(o: DataStorage, n: DataStorage, f: Map<Seq<char>, JV>) -> bool {
    if f.contains_key(OBJECTS_FIELD@) {
        &&& f[OBJECTS_FIELD@] is Obj
        &&& n.adapter == o.adapter && n.committed_objects == o.committed_objects && n.applied_pack_ids == o.applied_pack_ids
        &&& replayed(sjv(o.stage), smap(o.committed_objects), f[OBJECTS_FIELD@]->Obj_0, sjv(n.stage))
    } else { n == o }
}
/// THE PROPERTY (replay, success): the staged objects are replayed, then every record of the "c" array, in array order
pub open spec fn replay_ok(o: Melda, n: Melda, f: Map<Seq<char>, JV>) -> bool {
    &&& data_replayed(o.data, n.data, f)
    &&& forall|j: int| 0 <= j < recs_of(f).len() ==> !rec_bad(#[trigger] recs_of(f)[j])
    &&& docs_replayed(dmap(o.documents), recs_of(f), recs_of(f).len() as int, dmap(n.documents))
}
/// replay, failure — what may have changed (replay_stage is NOT atomic):
pub open spec fn replay_err(o: Melda, n: Melda, f: Map<Seq<char>, JV>) -> bool {
    // the "o" member is not an object: refused before anything was touched
    ||| (f.contains_key(OBJECTS_FIELD@) && !(f[OBJECTS_FIELD@] is Obj) && n.documents == o.documents && n.data.stage == o.data.stage
            && n.data.adapter == o.data.adapter && n.data.committed_objects == o.data.committed_objects && n.data.applied_pack_ids == o.data.applied_pack_ids)
    // a malformed record: the staged objects and every record before it HAVE been replayed
    ||| (data_replayed(o.data, n.data, f) && docs_replay_stopped(dmap(o.documents), recs_of(f), dmap(n.documents)))
}
/// what `replay_stage` REQUIRES of its argument: `prev.index() + 1` is computed in u32 without a check (same finding as F3 of
/// unit block): the index of every parsed previous revision is below u32::MAX
pub open spec fn rec_bounded(e: JV) -> bool {
    match e {
        JV::Arr(r) => r.len() == 3 ==> match r[1] {
            JV::Str(s) => match rev_parse(s) { Some(p) => p.0 < u32::MAX, None => true },
            _ => true,
        },
        _ => true,
    }
}
pub open spec fn recs_bounded(a: Seq<JV>) -> bool { forall|i: int| 0 <= i < a.len() ==> rec_bounded(#[trigger] a[i]) }
pub open spec fn stage_bounded(s: Option<Value>) -> bool {
    match s { Some(v) => (match jv(v) { JV::Obj(f) => recs_bounded(recs_of(f)), _ => true }), None => true }
}

/// the members of the stage object handed to replay_stage (empty when there is none)
pub open spec fn stage_obj(s: Option<Value>) -> Map<Seq<char>, JV> {
    match s { Some(v) => (match jv(v) { JV::Obj(f) => f, _ => Map::<Seq<char>, JV>::empty() }), None => Map::<Seq<char>, JV>::empty() }
}
/// `replay_upto` looks at the first k records only
pub proof fn lemma_replay_prefix(t0: TState, ws: Seq<RRec>, ws2: Seq<RRec>, u: Seq<char>, k: int)
    requires k <= ws.len(), k <= ws2.len(), forall|j: int| 0 <= j < k ==> ws2[j] == ws[j],
    ensures replay_upto(t0, ws2, u, k) == replay_upto(t0, ws, u, k),
    decreases k
{
    if k > 0 { lemma_replay_prefix(t0, ws, ws2, u, k - 1); }
}
/// nothing replayed yet
pub proof fn lemma_replay_start(d0: Docs, a: Seq<JV>)
    ensures replay_wit(d0, a, 0, Seq::<RRec>::empty(), d0),
{
    assert(rrecs_view(Seq::<RRec>::empty()) =~= stage_decode(a, 0));
}
/// an element that is not a record is skipped
pub proof fn lemma_replay_skip(d0: Docs, a: Seq<JV>, i: int, ws: Seq<RRec>, d1: Docs)
    requires 0 <= i < a.len(), replay_wit(d0, a, i, ws, d1), !is_rec(a[i]),
    ensures replay_wit(d0, a, i + 1, ws, d1),
{ }
/// one record replayed: `d_b` is `d_a` with the tree of the record's object replaced by the tree after `add(rev, parent, true)`
pub proof fn lemma_replay_step(d0: Docs, a: Seq<JV>, i: int, ws: Seq<RRec>, d_a: Docs, w: RRec, d_b: Docs)
    requires
        0 <= i < a.len(), replay_wit(d0, a, i, ws, d_a), is_rec(a[i]), rrec_view(w) == decode_rec(a[i]->Arr_0),
        d_b.contains_key(w.0), d_b == d_a.insert(w.0, d_b[w.0]),
        tstate(d_b, w.0) == add_staged(tstate(d_a, w.0), w.1, w.2),
    ensures replay_wit(d0, a, i + 1, ws.push(w), d_b),
{
    let ws2 = ws.push(w);
    let n = ws.len() as int;
    assert(rrecs_view(ws2) =~= rrecs_view(ws).push(rrec_view(w)));
    assert(ws2[n] == w);
    assert forall|u: Seq<char>| #[trigger] tstate(d_b, u) == replay_upto(tstate(d0, u), ws2, u, ws2.len() as int) by {
        lemma_replay_prefix(tstate(d0, u), ws, ws2, u, n);
        assert(tstate(d_a, u) == replay_upto(tstate(d0, u), ws, u, n));
        if u == w.0 { } else { assert(tstate(d_b, u) == tstate(d_a, u)); }
    }
    assert forall|u: Seq<char>| #[trigger] d_b.contains_key(u) <==> (d0.contains_key(u) || named(ws2, u)) by {
        assert(d_a.contains_key(u) <==> (d0.contains_key(u) || named(ws, u)));
        if named(ws, u) { let j = choose|j: int| 0 <= j < ws.len() && (#[trigger] ws[j]).0 == u; assert(ws2[j].0 == u); }
        if named(ws2, u) && u != w.0 { let j = choose|j: int| 0 <= j < ws2.len() && (#[trigger] ws2[j]).0 == u; assert(ws[j].0 == u); }
        if u == w.0 { assert(ws2[n].0 == u); }
    }
    assert forall|u: Seq<char>| #[trigger] d0.contains_key(u) && !named(ws2, u) implies d_b[u] == d0[u] by {
        assert(u != w.0) by { if u == w.0 { assert(ws2[n].0 == u); } }
        if named(ws, u) { let j = choose|j: int| 0 <= j < ws.len() && (#[trigger] ws[j]).0 == u; assert(ws2[j].0 == u); }
    }
}

// ================================================================ C15: export, discard, replay restores the staged state (round trip)
// Stated over the three contracts: `stage` (`stage_export`), `Melda::unstage` (`unstaged`: its PROVED postcondition in unit
// `unstage`, restated on this mirror) and `replay_stage` (`replay_ok` / `replay_err`).
// HYPOTHESES (each explicit in the `requires` of `lemma_stage_roundtrip`):
//   H1 `staged_wf`      every staged entry is a change as the system builds it: a creation entry is `Revision::new(1, digest, None)`,
//                       an update entry is the child (index + 1, tail = hash of the parent's text) of a system-produced parent
//                       (`wf_change`; what create_object / update_object / delete_object / resolve_as stage)
//   H2 `docs_view_inj`  the revisions of a tree are pairwise different as TEXT (true of the real HashMap: Eq/Hash of Revision compare
//                       content; needed because a Verus `String` is not determined by its text)
//   H3                  no staged object digest is also committed (`DataStorage::write_raw_value`, unit pack)
//   H4 `assume_rev_print_parse` (ASSUMED, from unit block): `Revision::from` reads the text of a system-produced revision back
// "Restores exactly the staged state" is stated on VIEWS (`same_revs`): the replayed revisions are rebuilt from text.
/// the revisions of a tree are pairwise different as text
pub open spec fn view_inj(m: RevMap) -> bool {
    forall|x: Revision, y: Revision| #[trigger] m.contains_key(x) && #[trigger] m.contains_key(y) && x@ == y@ ==> x == y
}
pub open spec fn docs_view_inj(docs: Docs) -> bool { forall|u: Seq<char>| #[trigger] docs.contains_key(u) ==> view_inj(docs[u].revisions@) }
pub type EntV = (Option<RevV>, bool);
/// an entry as the property sees it: (parent, staging flag)
pub open spec fn ent_view(e: RevisionTreeEntry) -> EntV { (opt_rev_view(e.parent), e.staging) }
/// every revision of `x` is a revision of `y` with the same parent and the same staging flag
pub open spec fn revs_within(x: RevMap, y: RevMap) -> bool {
    forall|k: Revision| #[trigger] x.contains_key(k) ==> exists|k2: Revision| #[trigger] y.contains_key(k2) && k2@ == k@ && ent_view(y[k2]) == ent_view(x[k])
}
/// the same revisions map, parents and staging flags included
pub open spec fn same_revs(x: RevMap, y: RevMap) -> bool { revs_within(x, y) && revs_within(y, x) }
/// H1
pub open spec fn staged_wf(docs: Docs) -> bool {
    forall|u: Seq<char>, r: Revision| #[trigger] staged_entry(docs, u, r) ==> wf_change((u, r@, opt_rev_view(docs[u].revisions@[r].parent)))
}
/// the tree of an object after discarding (SOURCE: unit `unstage`, text copied)
pub open spec fn discarded(before: RevisionTree, after: RevisionTree) -> bool {
    is_unstaged_part(before.revisions@, after.revisions@) && !after.staging && validated_ok(after)
}
/// what `Melda::unstage` guarantees (its `ensures` in unit `unstage`, restated on this mirror of Melda / DataStorage):
/// the staged object set is dropped, every tree loses exactly its staged records, objects left without any revision disappear
pub open spec fn unstaged(t: Melda, t0: Melda) -> bool {
    &&& smap(t0.data.stage) == Map::<Seq<char>, Value>::empty()
    &&& t0.data.adapter == t.data.adapter && t0.data.committed_objects == t.data.committed_objects && t0.data.applied_pack_ids == t.data.applied_pack_ids
    &&& forall|k: Seq<char>| #[trigger] dmap(t0.documents).contains_key(k) ==> dmap(t.documents).contains_key(k) && discarded(dmap(t.documents)[k], dmap(t0.documents)[k])
    &&& forall|k: Seq<char>| #[trigger] dmap(t.documents).contains_key(k) && !dmap(t0.documents).contains_key(k) ==>
            (forall|r: Revision| #[trigger] dmap(t.documents)[k].revisions@.contains_key(r) ==> dmap(t.documents)[k].revisions@[r].staging)
}
pub open spec fn has_staged(docs: Docs, u: Seq<char>) -> bool { exists|r: Revision| #[trigger] staged_entry(docs, u, r) }
/// THE PROPERTY (round trip): replica `t1` is in exactly the staged state of `t` —
/// the same staged objects; for every object the same revisions map (parents and staging flags included), the tree flag set iff
/// the object has staged entries, leaves / winner re-derived (`docs_ok`, ensured by replay_stage); the same objects
/// (an object of `t` without any revision — never created by the system, dropped by `unstage` — is not re-created)
pub open spec fn restored(t: Melda, t1: Melda) -> bool {
    &&& sjv(t1.data.stage) == sjv(t.data.stage)
    &&& t1.data.adapter == t.data.adapter && t1.data.committed_objects == t.data.committed_objects && t1.data.applied_pack_ids == t.data.applied_pack_ids
    &&& forall|u: Seq<char>| same_revs(#[trigger] tstate(dmap(t.documents), u).0, tstate(dmap(t1.documents), u).0)
    &&& forall|u: Seq<char>| #[trigger] tstate(dmap(t1.documents), u).1 <==> has_staged(dmap(t.documents), u)
    &&& forall|u: Seq<char>| #[trigger] dmap(t1.documents).contains_key(u) ==> dmap(t.documents).contains_key(u)
    &&& forall|u: Seq<char>, r: Revision| #[trigger] dmap(t.documents).contains_key(u) && #[trigger] dmap(t.documents)[u].revisions@.contains_key(r) ==> dmap(t1.documents).contains_key(u)
}

// ---- closed form of the replay fold
pub open spec fn rec_upto(ws: Seq<RRec>, u: Seq<char>, k: int, r: Revision) -> bool {
    exists|j: int| 0 <= j < k && (#[trigger] ws[j]).0 == u && ws[j].1 == r
}
pub open spec fn ins_upto(ws: Seq<RRec>, u: Seq<char>, k: int, r: Revision, e: RevisionTreeEntry) -> bool {
    exists|j: int| 0 <= j < k && (#[trigger] ws[j]).0 == u && ws[j].1 == r && e == (RevisionTreeEntry { parent: ws[j].2, staging: true })
}
pub open spec fn new_upto(m0: RevMap, ws: Seq<RRec>, u: Seq<char>, k: int) -> bool {
    exists|j: int| 0 <= j < k && (#[trigger] ws[j]).0 == u && !m0.contains_key(ws[j].1)
}
/// after k records the tree of `u` holds the old entries untouched plus one entry per revision named by a record of `u`
/// (the entry of one of the records naming it), whatever the ORDER of the records; the flag is raised iff some record was new
pub proof fn lemma_replay_closed(t0: TState, ws: Seq<RRec>, u: Seq<char>, k: int)
    requires 0 <= k <= ws.len(),
    ensures
        forall|r: Revision| #[trigger] replay_upto(t0, ws, u, k).0.contains_key(r) <==> (t0.0.contains_key(r) || rec_upto(ws, u, k, r)),
        forall|r: Revision| #[trigger] t0.0.contains_key(r) ==> replay_upto(t0, ws, u, k).0[r] == t0.0[r],
        forall|r: Revision| #[trigger] replay_upto(t0, ws, u, k).0.contains_key(r) && !t0.0.contains_key(r) ==> ins_upto(ws, u, k, r, replay_upto(t0, ws, u, k).0[r]),
        replay_upto(t0, ws, u, k).1 == (t0.1 || new_upto(t0.0, ws, u, k)),
    decreases k
{
    if k > 0 {
        lemma_replay_closed(t0, ws, u, k - 1);
        let p = replay_upto(t0, ws, u, k - 1);
        let t = replay_upto(t0, ws, u, k);
        let w = ws[k - 1];
        assert forall|r: Revision| #[trigger] t.0.contains_key(r) <==> (t0.0.contains_key(r) || rec_upto(ws, u, k, r)) by {
            if rec_upto(ws, u, k - 1, r) { let j = choose|j: int| 0 <= j < k - 1 && (#[trigger] ws[j]).0 == u && ws[j].1 == r; assert(0 <= j < k && ws[j].0 == u && ws[j].1 == r); }
            if rec_upto(ws, u, k, r) {
                let j = choose|j: int| 0 <= j < k && (#[trigger] ws[j]).0 == u && ws[j].1 == r;
                if j < k - 1 { assert(rec_upto(ws, u, k - 1, r)); }
            }
            if w.0 == u && w.1 == r { assert(0 <= k - 1 < k && ws[k - 1].0 == u && ws[k - 1].1 == r); }
        }
        assert forall|r: Revision| #[trigger] t.0.contains_key(r) && !t0.0.contains_key(r) implies ins_upto(ws, u, k, r, t.0[r]) by {
            if p.0.contains_key(r) {
                assert(t.0[r] == p.0[r]);
                let j = choose|j: int| 0 <= j < k - 1 && (#[trigger] ws[j]).0 == u && ws[j].1 == r && p.0[r] == (RevisionTreeEntry { parent: ws[j].2, staging: true });
                assert(0 <= j < k && ws[j].0 == u && ws[j].1 == r);
            } else {
                assert(0 <= k - 1 < k && ws[k - 1].0 == u && ws[k - 1].1 == r);
            }
        }
        assert(t.1 == (t0.1 || new_upto(t0.0, ws, u, k))) by {
            if new_upto(t0.0, ws, u, k - 1) { let j = choose|j: int| 0 <= j < k - 1 && (#[trigger] ws[j]).0 == u && !t0.0.contains_key(ws[j].1); assert(0 <= j < k && ws[j].0 == u); }
            if new_upto(t0.0, ws, u, k) {
                let j = choose|j: int| 0 <= j < k && (#[trigger] ws[j]).0 == u && !t0.0.contains_key(ws[j].1);
                if j < k - 1 { assert(new_upto(t0.0, ws, u, k - 1)); }
                else if p.0.contains_key(w.1) {
                    // named by an earlier record of `u` that was new itself
                    assert(rec_upto(ws, u, k - 1, w.1));
                    let j2 = choose|j2: int| 0 <= j2 < k - 1 && (#[trigger] ws[j2]).0 == u && ws[j2].1 == w.1;
                    assert(new_upto(t0.0, ws, u, k - 1));
                }
            }
            if w.0 == u && !p.0.contains_key(w.1) { assert(0 <= k - 1 < k && ws[k - 1].0 == u && !t0.0.contains_key(ws[k - 1].1)); }
        }
    }
}

/// one object: replaying the records of the export on the discarded tree gives back the staged tree
pub proof fn lemma_replay_restores_tree(docs: Docs, cs: Seq<Change>, u: Seq<char>, b0: RevMap, ws: Seq<RRec>)
    requires
        records_exactly(docs, cs), rrecs_view(ws) == changes_view(cs),
        docs.contains_key(u) ==> view_inj(docs[u].revisions@),
        is_unstaged_part(tstate(docs, u).0, b0),
    ensures
        same_revs(tstate(docs, u).0, replay_upto((b0, false), ws, u, ws.len() as int).0),
        replay_upto((b0, false), ws, u, ws.len() as int).1 <==> has_staged(docs, u),
{
    let am = tstate(docs, u).0;
    let n = ws.len() as int;
    let t1 = replay_upto((b0, false), ws, u, n);
    lemma_replay_closed((b0, false), ws, u, n);
    assert(rrecs_view(ws).len() == ws.len() && changes_view(cs).len() == cs.len());
    assert forall|j: int| 0 <= j < n implies rrec_view(#[trigger] ws[j]) == change_view(cs[j]) by {
        assert(rrecs_view(ws)[j] == rrec_view(ws[j]));
        assert(changes_view(cs)[j] == change_view(cs[j]));
    }
    // a record of a staged entry of `u` names a revision that the discarded tree does not hold, and it is the only record naming it
    assert forall|i: int| 0 <= i < n && (#[trigger] ws[i]).0 == u implies !b0.contains_key(ws[i].1) by {
        assert(rrec_view(ws[i]) == change_view(cs[i]));
        assert(is_record(docs, cs[i]));
        if b0.contains_key(ws[i].1) { assert(am.contains_key(ws[i].1) && am.contains_key(cs[i].1)); }
    }
    assert forall|i: int, j: int| 0 <= i < n && 0 <= j < n && (#[trigger] ws[i]).0 == u && (#[trigger] ws[j]).0 == u && ws[i].1 == ws[j].1 implies i == j by {
        assert(rrec_view(ws[i]) == change_view(cs[i]) && rrec_view(ws[j]) == change_view(cs[j]));
        assert(is_record(docs, cs[i]) && is_record(docs, cs[j]));
        assert(am.contains_key(cs[i].1) && am.contains_key(cs[j].1));
        assert(cs[i].1 == cs[j].1);
        if i < j { assert(same_entry(cs[i], cs[j])); } else if j < i { assert(same_entry(cs[j], cs[i])); }
    }
    assert forall|k: Revision| #[trigger] am.contains_key(k) implies exists|k2: Revision| #[trigger] t1.0.contains_key(k2) && k2@ == k@ && ent_view(t1.0[k2]) == ent_view(am[k]) by {
        if !am[k].staging {
            assert(b0.contains_key(k) && b0[k] == am[k]);
            assert(t1.0.contains_key(k) && t1.0[k] == am[k]);
        } else {
            assert(staged_entry(docs, u, k));
            assert(has_record(cs, u, k));
            let i = choose|i: int| 0 <= i < cs.len() && (#[trigger] cs[i]).0@ == u && cs[i].1 == k;
            assert(rrec_view(ws[i]) == change_view(cs[i]));
            assert(is_record(docs, cs[i]));
            let k2 = ws[i].1;
            assert(ws[i].0 == u && ws[i].1 == k2);
            assert(rec_upto(ws, u, n, k2));
            assert(t1.0.contains_key(k2) && !b0.contains_key(k2));
            assert(ins_upto(ws, u, n, k2, t1.0[k2]));
            let j = choose|j: int| 0 <= j < n && (#[trigger] ws[j]).0 == u && ws[j].1 == k2 && t1.0[k2] == (RevisionTreeEntry { parent: ws[j].2, staging: true });
            assert(i == j);
            assert(t1.0.contains_key(k2) && k2@ == k@ && ent_view(t1.0[k2]) == ent_view(am[k]));
        }
    }
    assert forall|k: Revision| #[trigger] t1.0.contains_key(k) implies exists|k2: Revision| #[trigger] am.contains_key(k2) && k2@ == k@ && ent_view(am[k2]) == ent_view(t1.0[k]) by {
        if b0.contains_key(k) {
            assert(t1.0[k] == b0[k]);
            assert(am.contains_key(k) && am[k] == b0[k]);
        } else {
            assert(ins_upto(ws, u, n, k, t1.0[k]));
            let j = choose|j: int| 0 <= j < n && (#[trigger] ws[j]).0 == u && ws[j].1 == k && t1.0[k] == (RevisionTreeEntry { parent: ws[j].2, staging: true });
            assert(rrec_view(ws[j]) == change_view(cs[j]));
            assert(is_record(docs, cs[j]));
            let k2 = cs[j].1;
            assert(am.contains_key(k2) && k2@ == k@ && ent_view(am[k2]) == ent_view(t1.0[k]));
        }
    }
    if has_staged(docs, u) {
        let r = choose|r: Revision| #[trigger] staged_entry(docs, u, r);
        assert(has_record(cs, u, r));
        let i = choose|i: int| 0 <= i < cs.len() && (#[trigger] cs[i]).0@ == u && cs[i].1 == r;
        assert(rrec_view(ws[i]) == change_view(cs[i]));
        assert(ws[i].0 == u && !b0.contains_key(ws[i].1));
        assert(new_upto(b0, ws, u, n));
    }
    if new_upto(b0, ws, u, n) {
        let j = choose|j: int| 0 <= j < n && (#[trigger] ws[j]).0 == u && !b0.contains_key(ws[j].1);
        assert(rrec_view(ws[j]) == change_view(cs[j]));
        assert(is_record(docs, cs[j]));
        assert(staged_entry(docs, u, cs[j].1));
    }
}

// ---- the export decodes to itself
/// a record as `stage` writes it is a well-formed record that reads back as the change it was written for (SOURCE: unit block,
/// `lemma_decode_record`; uses the EXPLICIT assumption `assume_rev_print_parse`)
pub proof fn lemma_decode_record(c: ChangeV)
    requires wf_change(c),
    ensures is_rec(record_jv(c)), decode_rec(record_jv(c)->Arr_0) == c, !rec_bad(record_jv(c)), rec_bounded(record_jv(c)),
{
    let r = record_jv(c)->Arr_0;
    match c.2 {
        None => { assert(r.len() == 2 && r[0] == JV::Str(c.0) && r[1] == JV::Str(c.1.1)); }
        Some(p) => {
            assume_rev_print_parse(p);
            assert(r.len() == 3 && r[0] == JV::Str(c.0) && r[1] == JV::Str(rev_str(p)) && r[2] == JV::Str(c.1.1));
        }
    }
}
pub proof fn lemma_decode_all(cs: Seq<ChangeV>, n: int)
    requires 0 <= n <= cs.len(), forall|i: int| 0 <= i < cs.len() ==> wf_change(#[trigger] cs[i]),
    ensures stage_decode(records_jv(cs), n) == cs.subrange(0, n),
    decreases n
{
    if n > 0 {
        lemma_decode_all(cs, n - 1);
        lemma_decode_record(cs[n - 1]);
        assert(records_jv(cs)[n - 1] == record_jv(cs[n - 1]));
        assert(cs.subrange(0, n) =~= cs.subrange(0, n - 1).push(cs[n - 1]));
    } else {
        assert(cs.subrange(0, 0) =~= Seq::<ChangeV>::empty());
    }
}

/// C15, middle clause: "exporting the staged changes, discarding them and replaying the export restores exactly the staged state".
/// `f` = the export of `t` (stage's Ok(Some) clause), `t0` = `t` after `Melda::unstage`, `t1` = ANY outcome of
/// `replay_stage(Some(f))` on `t0` allowed by its contract.  Then: replay_stage's precondition on `f` holds, it cannot fail,
/// and `t1` is in exactly the staged state of `t`.
pub proof fn lemma_stage_roundtrip(t: Melda, f: Map<Seq<char>, JV>, t0: Melda, t1: Melda)
    requires
        trees_flagged(dmap(t.documents)),                                                         // stage's precondition
        stage_export(t, f),
        unstaged(t, t0),
        staged_wf(dmap(t.documents)),                                                             // H1
        docs_view_inj(dmap(t.documents)),                                                         // H2
        forall|d: Seq<char>| smap(t.data.stage).contains_key(d) ==> !smap(t.data.committed_objects).contains_key(d),   // H3
    ensures
        recs_bounded(recs_of(f)),
        !replay_err(t0, t1, f),
        replay_ok(t0, t1, f) ==> restored(t, t1),
{
    lemma_stage_fields();
    let docs = dmap(t.documents); let d0 = dmap(t0.documents); let d1 = dmap(t1.documents);
    let a = recs_of(f);
    // the change list behind the "c" member (empty when no tree has its flag set)
    let cs = if f.contains_key(CHANGESETS_FIELD@) { choose|cs: Seq<Change>| #[trigger] records_exactly(docs, cs) && a == records_jv(changes_view(cs)) } else { Seq::<Change>::empty() };
    if !f.contains_key(CHANGESETS_FIELD@) {
        // no tree has its flag set: there is no staged entry (`trees_flagged`), the change list is empty
        assert(a =~= records_jv(changes_view(cs)));
        assert forall|u: Seq<char>, r: Revision| !#[trigger] staged_entry(docs, u, r) by {
            if staged_entry(docs, u, r) { assert(tree_inv(docs[u])); assert(docs.contains_key(u) && docs[u].staging); }
        }
        assert(records_exactly(docs, cs));
    }
    let cvs = changes_view(cs);
    assert(a == records_jv(cvs));
    assert(cvs.len() == cs.len() && a.len() == cs.len());
    if f.contains_key(CHANGESETS_FIELD@) {
        assert forall|i: int| 0 <= i < cvs.len() implies wf_change(#[trigger] cvs[i]) by {
            assert(cvs[i] == change_view(cs[i]));
            assert(is_record(docs, cs[i]));
            assert(staged_entry(docs, cs[i].0@, cs[i].1));
        }
    }
    assert forall|i: int| 0 <= i < a.len() implies !rec_bad(#[trigger] a[i]) && rec_bounded(a[i]) by {
        lemma_decode_record(cvs[i]);
        assert(a[i] == record_jv(cvs[i]));
    }
    lemma_decode_all(cvs, cvs.len() as int);
    assert(cvs.subrange(0, cvs.len() as int) =~= cvs);
    assert(stage_decode(a, a.len() as int) == cvs);
    // replay cannot fail
    if replay_err(t0, t1, f) {
        if docs_replay_stopped(d0, a, d1) {
            let (b, ws) = choose|b: int, ws: Seq<RRec>| #[trigger] stopped_at(d0, a, b, ws, d1);
            assert(!rec_bad(a[b]));
        }
    }
    if replay_ok(t0, t1, f) {
        // the staged objects
        assert(sjv(t0.data.stage) =~= Map::<Seq<char>, JV>::empty());
        if f.contains_key(OBJECTS_FIELD@) {
            assert(sjv(t1.data.stage) =~= sjv(t.data.stage));
        } else {
            assert(sjv(t.data.stage) =~= Map::<Seq<char>, JV>::empty());
        }
        // the trees
        let ws = choose|ws: Seq<RRec>| #[trigger] replay_wit(d0, a, a.len() as int, ws, d1);
        assert(rrecs_view(ws).len() == ws.len());
        assert forall|u: Seq<char>| #![trigger tstate(docs, u)] #![trigger tstate(d1, u)] same_revs(tstate(docs, u).0, tstate(d1, u).0) && (tstate(d1, u).1 <==> has_staged(docs, u)) by {
            let b0 = tstate(d0, u).0;
            assert(tstate(d0, u).1 == false);
            assert(is_unstaged_part(tstate(docs, u).0, b0)) by {
                if d0.contains_key(u) { assert(discarded(docs[u], d0[u])); }
                else if docs.contains_key(u) { }
            }
            assert(tstate(d0, u) == (b0, false));
            lemma_replay_restores_tree(docs, cs, u, b0, ws);
            assert(tstate(d1, u) == replay_upto(tstate(d0, u), ws, u, ws.len() as int));
        }
        assert forall|u: Seq<char>| #[trigger] d1.contains_key(u) implies docs.contains_key(u) by {
            if named(ws, u) {
                let j = choose|j: int| 0 <= j < ws.len() && (#[trigger] ws[j]).0 == u;
                assert(rrecs_view(ws)[j] == rrec_view(ws[j]) && cvs[j] == change_view(cs[j]));
                assert(is_record(docs, cs[j]));
            }
        }
        assert forall|u: Seq<char>, r: Revision| #[trigger] docs.contains_key(u) && #[trigger] docs[u].revisions@.contains_key(r) implies d1.contains_key(u) by {
            if !d0.contains_key(u) {
                assert(staged_entry(docs, u, r));
                assert(has_record(cs, u, r));
                let i = choose|i: int| 0 <= i < cs.len() && (#[trigger] cs[i]).0@ == u && cs[i].1 == r;
                assert(rrecs_view(ws)[i] == rrec_view(ws[i]) && cvs[i] == change_view(cs[i]));
                assert(ws[i].0 == u);
                assert(named(ws, u));
            }
        }
    }
}

// ================================================================ Melda::unstage on this mirror (SOURCE: unit `unstage`: rule, contract, loop invariant)
pub open spec fn trees_wf(docs: Docs) -> bool { forall|k: Seq<char>| #[trigger] docs.contains_key(k) ==> tree_wf(docs[k].revisions@) }
impl DataStorage {
    /// SOURCE: unit `pack`, `DataStorage::unstage` (PROVED there from the real code): discards exactly the staged objects
    #[verifier::external_body]
    pub fn unstage(&mut self) -> (ret: Result<(), VxError>)
        ensures ret is Ok, smap(final(self).stage) == Map::<Seq<char>, Value>::empty(),
            final(self).adapter == old(self).adapter, final(self).committed_objects == old(self).committed_objects,
            final(self).applied_pack_ids == old(self).applied_pack_ids,
    { unimplemented!() }
}
/// `docs.retain(|_, rt| !rt.get_mut().expect(..).is_empty())`: entries whose tree has no revisions are dropped (R12; `is_empty` is
/// the extracted RevisionTree::is_empty: revisions@.len() == 0).  SOURCE: unit `unstage`, text copied
#[verifier::external_body]
pub fn vx_docs_retain_nonempty(m: &mut BTreeMap<String, RevisionTree>)
    ensures
        forall|k: Seq<char>| #[trigger] dmap(*final(m)).contains_key(k) <==> (dmap(*old(m)).contains_key(k) && dmap(*old(m))[k].revisions@.len() != 0),
        forall|k: Seq<char>| #[trigger] dmap(*final(m)).contains_key(k) ==> dmap(*final(m))[k] == dmap(*old(m))[k],
{ unimplemented!() }
/// after the discarding pass (`mid`) and the removal of the empty trees (`fin`): the documents clause of `unstaged`, and `docs_ok`
pub proof fn lemma_unstaged_docs(old_docs: Docs, mid: Docs, fin: Docs)
    requires
        trees_wf(old_docs),
        forall|k: Seq<char>| mid.contains_key(k) <==> old_docs.contains_key(k),
        forall|k: Seq<char>| #[trigger] mid.contains_key(k) ==> discarded(old_docs[k], mid[k]),
        forall|k: Seq<char>| #[trigger] fin.contains_key(k) <==> (mid.contains_key(k) && mid[k].revisions@.len() != 0),
        forall|k: Seq<char>| #[trigger] fin.contains_key(k) ==> fin[k] == mid[k],
    ensures
        forall|k: Seq<char>| #[trigger] fin.contains_key(k) ==> old_docs.contains_key(k) && discarded(old_docs[k], fin[k]),
        forall|k: Seq<char>| #[trigger] old_docs.contains_key(k) && !fin.contains_key(k) ==>
            (forall|r: Revision| #[trigger] old_docs[k].revisions@.contains_key(r) ==> old_docs[k].revisions@[r].staging),
        docs_ok(fin),
{
    assert forall|k: Seq<char>| #[trigger] old_docs.contains_key(k) && !fin.contains_key(k) implies
        (forall|r: Revision| #[trigger] old_docs[k].revisions@.contains_key(r) ==> old_docs[k].revisions@[r].staging) by {
        assert(mid.contains_key(k) && discarded(old_docs[k], mid[k]));
        assert(mid[k].revisions@.len() == 0);
        assert forall|r: Revision| #[trigger] old_docs[k].revisions@.contains_key(r) implies old_docs[k].revisions@[r].staging by {
            if !old_docs[k].revisions@[r].staging {
                assert(mid[k].revisions@.contains_key(r));
            }
        }
    }
    assert forall|k: Seq<char>| #[trigger] fin.contains_key(k) implies tree_wf(fin[k].revisions@) && tree_inv(fin[k]) && validated_ok(fin[k]) by {
        assert(mid.contains_key(k) && discarded(old_docs[k], mid[k]));
        assert(old_docs.contains_key(k) && tree_wf(old_docs[k].revisions@));
    }
}

/// the round trip when NOTHING is staged: `stage` returns None, `unstage` drops nothing, `replay_stage(None)` changes nothing
pub proof fn lemma_nothing_staged_roundtrip(t: Melda, t0: Melda)
    requires
        trees_flagged(dmap(t.documents)),
        smap(t.data.stage) == Map::<Seq<char>, Value>::empty(), !some_staged(dmap(t.documents)),   // stage's Ok(None) clause
        unstaged(t, t0),
    ensures restored(t, t0),
{
    let docs = dmap(t.documents); let d0 = dmap(t0.documents);
    assert(sjv(t0.data.stage) =~= sjv(t.data.stage));
    assert forall|u: Seq<char>, r: Revision| !#[trigger] staged_entry(docs, u, r) by {
        if staged_entry(docs, u, r) { assert(tree_inv(docs[u])); assert(docs.contains_key(u) && docs[u].staging); }
    }
    assert forall|u: Seq<char>| #![trigger tstate(docs, u)] #![trigger tstate(d0, u)] same_revs(tstate(docs, u).0, tstate(d0, u).0) && (tstate(d0, u).1 <==> has_staged(docs, u)) by {
        let x = tstate(docs, u).0; let y = tstate(d0, u).0;
        if d0.contains_key(u) { assert(discarded(docs[u], d0[u])); }
        assert forall|k: Revision| #[trigger] x.contains_key(k) implies y.contains_key(k) && y[k] == x[k] by {
            assert(!staged_entry(docs, u, k));
        }
        assert forall|k: Revision| #[trigger] y.contains_key(k) implies x.contains_key(k) && x[k] == y[k] by { }
        assert(revs_within(x, y)) by { assert forall|k: Revision| #[trigger] x.contains_key(k) implies exists|k2: Revision| #[trigger] y.contains_key(k2) && k2@ == k@ && ent_view(y[k2]) == ent_view(x[k]) by { assert(y.contains_key(k)); } }
        assert(revs_within(y, x)) by { assert forall|k: Revision| #[trigger] y.contains_key(k) implies exists|k2: Revision| #[trigger] x.contains_key(k2) && k2@ == k@ && ent_view(x[k2]) == ent_view(y[k]) by { assert(x.contains_key(k)); } }
    }
    assert forall|u: Seq<char>, r: Revision| #[trigger] docs.contains_key(u) && #[trigger] docs[u].revisions@.contains_key(r) implies d0.contains_key(u) by {
        assert(!staged_entry(docs, u, r));
    }
}
