// ---- unit `conflict`: Melda::get_conflicting (src/melda.rs) — conflict reporting (C05) ----
/// mirror of `struct Melda` restricted to the field used.  R6: `RwLock<BTreeMap<String, Mutex<RevisionTree>>>` -> `BTreeMap<String, RevisionTree>`
pub struct Melda { pub documents: BTreeMap<String, RevisionTree> }
#[verifier::external_body]
pub struct VxError { e: () }
#[verifier::external_body]
pub fn vx_error() -> VxError { unimplemented!() }
/// std BTreeMap<String,_> / BTreeSet<String> seen as keyed by string CONTENT (assumed of std)
pub uninterp spec fn dmap(m: BTreeMap<String, RevisionTree>) -> Map<Seq<char>, RevisionTree>;
pub uninterp spec fn sset(s: BTreeSet<String>) -> Set<Seq<char>>;
#[verifier::external_body]
pub fn vx_docs_get<'a>(m: &'a BTreeMap<String, RevisionTree>, k: &str) -> (r: Option<&'a RevisionTree>)
    ensures match r { Some(t) => dmap(*m).contains_key(k@) && *t == dmap(*m)[k@], None => !dmap(*m).contains_key(k@) },
{ unimplemented!() }
#[verifier::external_body]
pub fn vx_sset_new() -> (s: BTreeSet<String>) ensures sset(s) == Set::<Seq<char>>::empty() { unimplemented!() }
#[verifier::external_body]
pub fn vx_sset_insert(s: &mut BTreeSet<String>, k: String) ensures sset(*final(s)) == sset(*old(s)).insert(k@) { unimplemented!() }
/// R18: iteration over the leaf set visits every element (order irrelevant here)
#[verifier::external_body]
pub fn vx_bset_elems<'a>(s: &'a BTreeSet<Revision>) -> (v: Vec<&'a Revision>)
    ensures
        forall|i: int| 0 <= i < v.len() ==> s@.contains(*#[trigger] v@[i]),
        forall|r: Revision| s@.contains(r) ==> exists|i: int| 0 <= i < v.len() && *#[trigger] v@[i] == r,
{ unimplemented!() }
/// x is the identifier text of a live leaf other than the winner
pub open spec fn is_conflicting_text(m: RevMap, w: Revision, x: Seq<char>) -> bool {
    exists|r: Revision| #[trigger] live(m, r) && r@ != w@ && rev_str(r@) == x
}
pub open spec fn text_of_some(elems: Seq<&Revision>, n: int, w: Revision, x: Seq<char>) -> bool {
    exists|i: int| 0 <= i < n && (#[trigger] elems[i])@ != w@ && rev_str(elems[i]@) == x
}
pub proof fn lemma_text_step(elems: Seq<&Revision>, n: int, w: Revision, x: Seq<char>)
    requires 0 <= n < elems.len(),
    ensures text_of_some(elems, n + 1, w, x) <==> (text_of_some(elems, n, w, x) || (elems[n]@ != w@ && rev_str(elems[n]@) == x)),
{
    if text_of_some(elems, n + 1, w, x) { let i = choose|i: int| 0 <= i < n + 1 && (#[trigger] elems[i])@ != w@ && rev_str(elems[i]@) == x; if i < n { assert(elems[i]@ != w@); } }
    if text_of_some(elems, n, w, x) { let i = choose|i: int| 0 <= i < n && (#[trigger] elems[i])@ != w@ && rev_str(elems[i]@) == x; assert(elems[i]@ != w@); }
    if elems[n]@ != w@ && rev_str(elems[n]@) == x { assert(0 <= n < n + 1 && elems[n]@ != w@); }
}
