// ---- unit `chain`: array-descriptor chains (src/melda.rs): ArrayDescriptor::*, Melda::read_array_descriptor,
// Melda::rebuild_array_order, Melda::create_delta_array_descriptor (C16: every stored version reconstructs to exactly
// the array that was submitted, for chains of any length and for EVERY content of the descriptor cache) ----
// Included units: `tree` (RevisionTree, get_parent, tree_wf; includes `rev`) and `patch` (Value, VxError, apply_ops, ops_ok,
// is_patch_of, make_diff_patch / apply_diff_patch under contract).
// `ArrayDescriptor::new_from_object` / `to_json_object` are verified from their REAL bodies against small JSON accessor
// shims (JObj::get/insert/new, Value::as_array/as_bool/from): no assumed contract for the parser itself.
// `DataStorage::read_object` is a shim (assumed: deterministic read of a stored object).

/// mirror of `struct ArrayDescriptor` (field list checked against /repo on every run)
pub struct ArrayDescriptor {
    pub patch: Option<Vec<Value>>,
    pub order: Option<Vec<Value>>,
}

/// mirror of `struct Melda` restricted to the fields used (the full field list is checked against /repo).
/// R6 (lock erasure, single-threaded semantics): `RwLock<DataStorage>` -> DataStorage,
/// `Mutex<LruCache<Revision, ArrayDescriptor>>` -> LruShim; functions that lock the cache take `&mut self`.
pub struct Melda {
    pub data: DataStorage,
    pub array_descriptors_cache: LruShim,
}

// ---------------------------------------------------------------- assumed: derive(Clone) / Clone of serde_json::Value, Revision
// (R14: `clone` returns an equal value).  Vec<Value>::clone / Option<Vec<Value>>::clone then come from vstd.
impl Clone for Value {
    #[verifier::external_body]
    fn clone(&self) -> (r: Self) ensures r == *self { unimplemented!() }
}
impl Clone for Revision {
    #[verifier::external_body]
    fn clone(&self) -> (r: Self) ensures r == *self { unimplemented!() }
}
// `Result::expect` needs `E: Debug` (typing only)
#[verifier::external] impl std::fmt::Debug for VxError { fn fmt(&self, _f: &mut std::fmt::Formatter<'_>) -> std::fmt::Result { unimplemented!() } }

// ---------------------------------------------------------------- JSON objects (serde_json::Map<String, Value>), opaque
#[verifier::external_body]
pub struct JObj { o: () }
/// the value stored under a key (keys by string CONTENT)
pub uninterp spec fn jget(o: JObj, k: Seq<char>) -> Option<Value>;
/// `Value::as_array` / `Value::as_bool` as functions of the value
pub uninterp spec fn as_arr(v: Value) -> Option<Seq<Value>>;
pub uninterp spec fn as_boolean(v: Value) -> Option<bool>;
impl JObj {
    /// ASSUMED (serde_json::Map::get): lookup by key content
    #[verifier::external_body]
    pub fn get(&self, k: &str) -> (r: Option<&Value>)
        ensures match r { Some(v) => jget(*self, k@) == Some(*v), None => jget(*self, k@).is_none() },
    { unimplemented!() }
    /// ASSUMED (serde_json::Map::new): no keys
    #[verifier::external_body]
    pub fn new() -> (r: JObj)
        ensures forall|k: Seq<char>| (#[trigger] jget(r, k)).is_none(),
    { unimplemented!() }
    /// ASSUMED (serde_json::Map::insert): the key is (re)bound, other keys are untouched
    #[verifier::external_body]
    pub fn insert(&mut self, k: String, v: Value) -> (r: Option<Value>)
        ensures forall|x: Seq<char>| #[trigger] jget(*final(self), x) == (if x == k@ { Some(v) } else { jget(*old(self), x) }),
    { unimplemented!() }
}
impl Value {
    /// ASSUMED (serde_json::Value::as_array)
    #[verifier::external_body]
    pub fn as_array(&self) -> (r: Option<&Vec<Value>>)
        ensures match r { Some(a) => as_arr(*self) == Some(a@), None => as_arr(*self).is_none() },
    { unimplemented!() }
    /// ASSUMED (serde_json::Value::as_bool)
    #[verifier::external_body]
    pub fn as_bool(&self) -> (r: Option<bool>)
        ensures r == as_boolean(*self),
    { unimplemented!() }
    /// ASSUMED (`Value::from(Vec<Value>)`): the JSON array of the elements
    #[verifier::external_body]
    pub fn from(a: Vec<Value>) -> (r: Value)
        ensures as_arr(r) == Some(a@),
    { unimplemented!() }
}

// ---------------------------------------------------------------- descriptors (spec written from the property statement)
/// what a stored array descriptor says: the full order, or an edit script against the order of the parent revision
pub enum DescV {
    Full(Seq<Value>),
    Diff(Seq<Value>),
}
/// the descriptor a JSON object encodes: field "A" = full order, else field "a" = edit script, else the fixed objects of
/// deleted / resolved revisions (`{"_deleted":true}` / `{"_resolved":true}`) = empty order; anything else is malformed
pub open spec fn obj_desc(o: JObj) -> Option<DescV> {
    match jget(o, ARRAY_DESCRIPTOR_ORDER_FIELD@) {
        Some(f) => match as_arr(f) { Some(a) => Some(DescV::Full(a)), None => None },
        None => match jget(o, ARRAY_DESCRIPTOR_DELTA_ORDER_FIELD@) {
            Some(f) => match as_arr(f) { Some(a) => Some(DescV::Diff(a)), None => None },
            None => match jget(o, "_deleted"@) {
                Some(f) => if as_boolean(f) == Some(true) { Some(DescV::Full(Seq::empty())) } else { None },
                None => match jget(o, "_resolved"@) {
                    Some(f) => if as_boolean(f) == Some(true) { Some(DescV::Full(Seq::empty())) } else { None },
                    None => None,
                },
            },
        },
    }
}
/// exactly one of patch / order is present
pub open spec fn desc_wf(d: ArrayDescriptor) -> bool { d.patch.is_some() != d.order.is_some() }
pub open spec fn dview(d: ArrayDescriptor) -> DescV {
    match d.patch { Some(p) => DescV::Diff(p@), None => match d.order { Some(o) => DescV::Full(o@), None => DescV::Full(Seq::empty()) } }
}

// ---------------------------------------------------------------- the abstract store of descriptors
pub type Objs = Map<Revision, JObj>;
/// R6 + DataStorage::read_object (under contract in unit `pack`) seen as a shim: reading is a FUNCTION of the storage
/// state and the revision (`objects()`); a revision is readable iff it is in the domain.
#[verifier::external_body]
pub struct DataStorage { d: () }
impl DataStorage {
    pub uninterp spec fn objects(&self) -> Objs;
    /// ASSUMED: deterministic read (no transient I/O failure): Ok with the stored object iff the revision is readable
    #[verifier::external_body]
    pub fn read_object(&self, revision: &Revision) -> (r: Result<JObj, VxError>)
        ensures match r {
            Ok(o) => self.objects().contains_key(*revision) && o == self.objects()[*revision],
            Err(_) => !self.objects().contains_key(*revision),
        },
    { unimplemented!() }
}
/// what `read_array_descriptor(rev)` returns (None: unreadable or malformed)
pub open spec fn desc_at(objs: Objs, r: Revision) -> Option<DescV> {
    if objs.contains_key(r) { obj_desc(objs[r]) } else { None }
}
pub open spec fn parent_of(m: RevMap, r: Revision) -> Option<Revision> {
    if m.contains_key(r) { m[r].parent } else { None }
}
/// THE SPECIFICATION: the order of a flattened array at a revision, defined along parent links:
/// a full descriptor is the order; an edit script is applied to the order of the parent revision
/// (to the empty array when there is no parent)
pub open spec fn spec_order(m: RevMap, objs: Objs, r: Revision) -> Seq<Value>
    decreases r.index
{
    match desc_at(objs, r) {
        Some(DescV::Full(o)) => o,
        Some(DescV::Diff(p)) => match parent_of(m, r) {
            Some(q) => if q.index < r.index { apply_ops(spec_order(m, objs, q), p, 0) } else { apply_ops(Seq::empty(), p, 0) },
            None => apply_ops(Seq::empty(), p, 0),
        },
        None => Seq::empty(),
    }
}
pub open spec fn order_opt(m: RevMap, objs: Objs, a: Option<Revision>) -> Seq<Value> {
    match a { Some(q) => spec_order(m, objs, q), None => Seq::empty() }
}
/// well-formed chain: every descriptor from r up to (and including) the first full descriptor is readable and parses,
/// and every edit script is in range for the order it is applied to
pub open spec fn chain_ok(m: RevMap, objs: Objs, r: Revision) -> bool
    decreases r.index
{
    match desc_at(objs, r) {
        Some(DescV::Full(o)) => true,
        Some(DescV::Diff(p)) => ops_ok(order_opt(m, objs, parent_of(m, r)), p, 0) && (match parent_of(m, r) {
            Some(q) => q.index < r.index && chain_ok(m, objs, q),
            None => true,
        }),
        None => false,
    }
}
/// k-th ancestor
pub open spec fn anc(m: RevMap, r: Revision, k: nat) -> Option<Revision>
    decreases k
{
    if k == 0 { Some(r) } else { match anc(m, r, (k - 1) as nat) { Some(x) => parent_of(m, x), None => None } }
}
/// unfolding of the specification at an edit-script revision
pub proof fn lemma_order_unfold(m: RevMap, objs: Objs, r: Revision, p: Seq<Value>)
    requires tree_wf(m), desc_at(objs, r) == Some(DescV::Diff(p)),
    ensures spec_order(m, objs, r) == apply_ops(order_opt(m, objs, parent_of(m, r)), p, 0),
{
    match parent_of(m, r) {
        Some(q) => { assert(m.contains_key(r)); assert(q.index < r.index); }
        None => {}
    }
}
/// the j-th collected descriptor is the edit script stored at the j-th ancestor, whose chain is well formed
pub open spec fn diff_link(m: RevMap, objs: Objs, base: Revision, d: ArrayDescriptor, j: int) -> bool {
    j >= 0 && match anc(m, base, j as nat) {
        Some(a) => d.patch.is_some() && desc_at(objs, a) == Some(DescV::Diff(d.patch.unwrap()@)) && chain_ok(m, objs, a),
        None => false,
    }
}
/// a well-formed chain at an edit-script revision continues at its parent
pub proof fn lemma_chain_step(m: RevMap, objs: Objs, base: Revision, d: ArrayDescriptor, j: int)
    requires diff_link(m, objs, base, d, j),
    ensures anc(m, base, (j + 1) as nat).is_some() ==> chain_ok(m, objs, anc(m, base, (j + 1) as nat).unwrap()),
{
    let a = anc(m, base, j as nat).unwrap();
    assert(anc(m, base, (j + 1) as nat) == parent_of(m, a));
}

// ---------------------------------------------------------------- the LRU cache as an invariant-carrying shim (R6 + lru crate)
// Its CONTENT is arbitrary (any capacity, any eviction order): `cview` is whatever subset of earlier puts survived.
#[verifier::external_body]
pub struct LruShim { c: () }
impl LruShim {
    pub uninterp spec fn cview(&self) -> Map<Revision, ArrayDescriptor>;
    /// ASSUMED (lru::LruCache::get, `&mut self`): changes recency only — never evicts — and agrees with `contains`
    #[verifier::external_body]
    pub fn get(&mut self, k: &Revision) -> (r: Option<&ArrayDescriptor>)
        ensures
            final(self).cview() == old(self).cview(),
            match r { Some(v) => old(self).cview().contains_key(*k) && *v == old(self).cview()[*k], None => !old(self).cview().contains_key(*k) },
    { unimplemented!() }
    /// ASSUMED (lru::LruCache::contains)
    #[verifier::external_body]
    pub fn contains(&self, k: &Revision) -> (r: bool)
        ensures r == self.cview().contains_key(*k),
    { unimplemented!() }
    /// ASSUMED (lru::LruCache::put): afterwards the cache holds a SUBSET of (old content + the new entry): eviction is unconstrained
    #[verifier::external_body]
    pub fn put(&mut self, k: Revision, v: ArrayDescriptor) -> (r: Option<ArrayDescriptor>)
        ensures forall|x: Revision| #[trigger] final(self).cview().contains_key(x) ==>
            (x == k && final(self).cview()[x] == v) || (old(self).cview().contains_key(x) && final(self).cview()[x] == old(self).cview()[x]),
    { unimplemented!() }
}
/// cache invariant: whatever the cache holds for a revision is the FULL order of that revision (and only revisions with a
/// well-formed chain are cached: this makes the invariant stable when the tree / the store grow, lemma_cache_inv_grows)
pub open spec fn cache_inv(c: LruShim, m: RevMap, objs: Objs) -> bool {
    forall|k: Revision| #[trigger] c.cview().contains_key(k) ==>
        c.cview()[k].patch.is_none() && c.cview()[k].order.is_some() && c.cview()[k].order.unwrap()@ == spec_order(m, objs, k)
        && chain_ok(m, objs, k)
}

// ---------------------------------------------------------------- submitting a new version (create_delta_array_descriptor)
/// the array submitted as a full descriptor object
pub open spec fn submitted(obj: JObj) -> Seq<Value> {
    match obj_desc(obj) { Some(DescV::Full(n)) => n, _ => Seq::empty() }
}
/// o is an edit script which turns `base` into exactly `target`
pub open spec fn delta_of(o: JObj, base: Seq<Value>, target: Seq<Value>) -> bool {
    match obj_desc(o) {
        Some(DescV::Diff(p)) => is_patch_of(p, base, target) && ops_ok(base, p, 0) && apply_ops(base, p, 0) == target,
        _ => false,
    }
}
/// the edit script stored in o is not empty
pub open spec fn script_nonempty(o: JObj) -> bool {
    match obj_desc(o) {
        Some(DescV::Diff(p)) => p.len() > 0,
        _ => false,
    }
}

// ---------------------------------------------------------------- C16 end to end: storing a version and reading it back
/// (m2, objs2) is (m, objs) after recording the fresh revision r: nothing recorded / readable before is changed
pub open spec fn grows(m: RevMap, objs: Objs, m2: RevMap, objs2: Objs, r: Revision) -> bool {
    &&& !m.contains_key(r) && !is_parent(m, r)
    &&& forall|k: Revision| k != r ==> (#[trigger] m2.contains_key(k) <==> m.contains_key(k))
    &&& forall|k: Revision| #[trigger] m.contains_key(k) ==> m2[k] == m[k]
    &&& forall|k: Revision| #[trigger] objs.contains_key(k) ==> objs2.contains_key(k) && objs2[k] == objs[k]
}
/// frame: the order of an existing revision with a well-formed chain does not depend on later additions
pub proof fn lemma_frame(m: RevMap, objs: Objs, m2: RevMap, objs2: Objs, r: Revision, x: Revision)
    requires tree_wf(m), grows(m, objs, m2, objs2, r), x != r, chain_ok(m, objs, x),
    ensures chain_ok(m2, objs2, x), spec_order(m2, objs2, x) == spec_order(m, objs, x),
    decreases x.index
{
    assert(objs.contains_key(x));
    assert(desc_at(objs2, x) == desc_at(objs, x));
    match desc_at(objs, x) {
        Some(DescV::Diff(p)) => {
            assert(m2.contains_key(x) <==> m.contains_key(x));
            if m.contains_key(x) { assert(m2[x] == m[x]); }
            assert(parent_of(m2, x) == parent_of(m, x));
            match parent_of(m, x) {
                Some(q) => {
                    assert(m.contains_key(x) && m[x].parent == Some(q));
                    assert(q != r) by { if q == r { assert(is_parent(m, r)); } }
                    lemma_frame(m, objs, m2, objs2, r, q);
                }
                None => {}
            }
        }
        _ => {}
    }
}
/// every stored version reconstructs to exactly the array that was submitted: when the object produced by
/// `create_delta_array_descriptor` (an edit script against the order of w) is stored at a fresh child r of w,
/// the order of r is the submitted array, and the chain of r is well formed (so `rebuild_array_order` returns it,
/// whatever the cache holds and however long the chain below w is)
pub proof fn lemma_stored_version_reconstructs(m: RevMap, objs: Objs, m2: RevMap, objs2: Objs, w: Revision, r: Revision, o: JObj, n: Seq<Value>)
    requires
        tree_wf(m), grows(m, objs, m2, objs2, r), chain_ok(m, objs, w),
        w.index < r.index, m2.contains_key(r) && m2[r].parent == Some(w),
        objs2.contains_key(r) && objs2[r] == o,
        delta_of(o, spec_order(m, objs, w), n),
    ensures chain_ok(m2, objs2, r), spec_order(m2, objs2, r) == n,
{
    lemma_frame(m, objs, m2, objs2, r, w);
}
/// ... and a full descriptor reconstructs to itself
pub proof fn lemma_stored_full_reconstructs(m2: RevMap, objs2: Objs, r: Revision, o: JObj)
    requires objs2.contains_key(r) && objs2[r] == o, obj_desc(o).is_some() && obj_desc(o).unwrap() is Full,
    ensures chain_ok(m2, objs2, r), spec_order(m2, objs2, r) == submitted(o),
{ }
/// the cache invariant survives the growth of the tree and of the store (no invalidation is needed)
pub proof fn lemma_cache_inv_grows(c: LruShim, m: RevMap, objs: Objs, m2: RevMap, objs2: Objs, r: Revision)
    requires tree_wf(m), grows(m, objs, m2, objs2, r), cache_inv(c, m, objs), !c.cview().contains_key(r),
    ensures cache_inv(c, m2, objs2),
{
    assert forall|k: Revision| #[trigger] c.cview().contains_key(k) implies
        c.cview()[k].patch.is_none() && c.cview()[k].order.is_some() && c.cview()[k].order.unwrap()@ == spec_order(m2, objs2, k) && chain_ok(m2, objs2, k) by {
        lemma_frame(m, objs, m2, objs2, r, k);
    }
}
