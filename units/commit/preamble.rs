// ---- unit `commit`: Melda::commit (src/melda.rs) — one block per commit on top of the previous heads (C13), pack before block,
// nothing is lost by a failed write (C09), nothing stays staged after a successful one (C15) ----
//
// Included unit: `tree` (RevisionTree / RevisionTreeEntry mirrors, `RevisionTree::commit`, `has_staging`, `get_revisions`,
// `get_winner`, `get_leafs`, `RevisionTreeEntry::is_staging/get_parent` — all RE-VERIFIED from the real code in this file;
// `tree` includes `rev`: Revision, `digest_string`, `dec`).
// Proved FROM THE REAL CODE here: Melda::commit, DataStorage::write_raw_item, DeltaId::new / new_from_anchors / key.
// The committing pass of commit (step 8) is recognised by its exact shape and replaced by the VERIFIED helper
// `vx_docs_commit_all`, which calls the real RevisionTree::commit on every tree.
// ASSUMED (every `#[verifier::external_body]` item below, each with its source):
//   * the Adapter contract on `AdapterBox::write_object`         — unit `pack` (assumed there too), PROVED for MemoryAdapter & wrappers in unit `adapter`
//   * `DataStorage::pack`                                         — PROVED in unit `pack` (a consequence of its contract is used)
//   * `Melda::get_anchors`                                        — PROVED in unit `delta`
//   * `Melda::resolve_as`                                         — NOT under contract anywhere: frame-style assumption, see below
//   * `Melda::has_staging` (rayon `par_iter().any`)               — replaced by its meaning
//   * `Delta::to_json_string`                                     — the text is a FUNCTION of the block (`block_text`), shape proved in unit `block`
//   * iteration over `documents` (entry snapshot for the first pass; key enumeration + `&mut` access to the tree of a key for
//     the passes that lock each tree first) / over a tree's revisions, std set constructors, clones, sha256, utf-8 — assumed of std / sha2
// Modelling (R6, lock erasure): `RwLock<T>` / `Mutex<T>` -> `T`, single-threaded semantics, blocking and poisoning dropped.
// NOTE the real `commit` holds the tree mutex and the documents read guard while it calls `resolve_as`, which re-locks both:
// with more than one leaf in an array descriptor the real call never returns (finding D5, property C08).  The contract below
// is about the sequential meaning of the body.  PANICS are not outcomes of the contract (partial correctness): the
// `.expect(..)` on `resolve_as`'s result is modelled by `vx_expect_ok` (returns only when the result is `Ok`).

// ================================================================ mirrors
/// mirror of `struct DeltaId(u32, String)` (field list checked against /repo); Eq/Ord impls external as in unit `delta`
pub struct DeltaId(pub u32, pub String);
#[verifier::external] impl PartialEq for DeltaId { fn eq(&self, _o: &Self) -> bool { unimplemented!() } }
#[verifier::external] impl Eq for DeltaId {}
#[verifier::external] impl PartialOrd for DeltaId { fn partial_cmp(&self, _o: &Self) -> Option<std::cmp::Ordering> { unimplemented!() } }
#[verifier::external] impl Ord for DeltaId { fn cmp(&self, _o: &Self) -> std::cmp::Ordering { unimplemented!() } }
pub type DidV = (u32, Seq<char>);
impl View for DeltaId {
    type V = DidV;
    open spec fn view(&self) -> DidV { (self.0, self.1@) }
}
/// Assumed of the external Eq/Ord impls of DeltaId as std collection keys (unit `delta` proves `cmp` is a total order
/// consistent with equality for the extracted body)
pub open spec fn did_models() -> bool { vstd::std_specs::btree::key_obeys_cmp_spec::<DeltaId>() }

pub enum Status { Pending, Ready, Applied, Blocked }
/// mirror of `struct Change(String, Revision, Option<Revision>)` (field list checked against /repo)
pub struct Change(pub String, pub Revision, pub Option<Revision>);
/// R8: serde_json::Map<String, Value> (the commit information) is opaque
#[verifier::external_body]
#[verifier::accept_recursive_types]
pub struct JMap { m: () }
/// R8: serde_json::Value is opaque
#[verifier::external_body]
#[verifier::accept_recursive_types]
pub struct Value { v: () }
/// mirror of `struct Delta` (field list checked against /repo); `Map<String, Value>` -> `JMap`
pub struct Delta {
    pub id: Option<DeltaId>,
    pub parents: Option<BTreeSet<DeltaId>>,
    pub info: Option<JMap>,
    pub packs: Option<BTreeSet<String>>,
    pub changes: Option<Vec<Change>>,
    pub status: Status,
}
/// R6: `Mutex<LruCache<Revision, ArrayDescriptor>>` — only `resolve_as` may touch it: opaque
#[verifier::external_body]
pub struct AdcShim { c: () }
/// R6: `Mutex<LruCache<String, Map<String, Value>>>` — opaque
#[verifier::external_body]
pub struct LruShim { c: () }
// R7: anyhow::Error values (messages dropped)
#[verifier::external_body]
pub struct VxError { e: () }
#[verifier::external_body]
pub fn vx_error() -> VxError { unimplemented!() }

/// mirror of `struct Melda` (field list checked against /repo).
/// R6 (lock erasure): `RwLock<T>` / `Mutex<T>` -> `T`; `&self` -> `&mut self` because the body writes through the locks.
pub struct Melda {
    pub documents: BTreeMap<String, RevisionTree>,
    pub data: DataStorage,
    pub deltas: BTreeMap<DeltaId, Delta>,
    pub array_descriptors_cache: AdcShim,
}
/// mirror of `struct DataStorage` (field list checked against /repo), as in unit `pack`
pub struct DataStorage {
    pub adapter: AdapterBox,
    pub stage: HashMap<String, Value>,
    pub committed_objects: HashMap<String, (String, usize, usize)>,
    pub applied_pack_ids: BTreeSet<String>,
    pub cache: LruShim,
}

// ================================================================ the Adapter contract (C17)
// SOURCE: unit `pack` preamble (`AdapterBox`), text copied (keys are `&str` as in the real trait, as in unit `meld`);
// assumed of `dyn Adapter`, proved for MemoryAdapter and the compression wrappers in unit `adapter`.
#[verifier::external_body]
pub struct AdapterBox { a: () }
pub type Store = Map<Seq<char>, Seq<u8>>;
impl AdapterBox {
    pub uninterp spec fn store(&self) -> Store;
    /// write-once; a failed write leaves the store as it was (per-item atomicity is the property's stated assumption)
    #[verifier::external_body]
    pub fn write_object(&mut self, key: &str, data: &[u8]) -> (r: Result<(), VxError>)
        ensures match r {
            Ok(_) => final(self).store() == (if old(self).store().contains_key(key@) { old(self).store() } else { old(self).store().insert(key@, data@) }),
            Err(_) => final(self).store() == old(self).store(),
        },
    { unimplemented!() }
}
/// storage only grows and existing items keep their bytes (SOURCE: unit `pack`)
pub open spec fn store_grows(a: Store, b: Store) -> bool {
    forall|k: Seq<char>| #[trigger] a.contains_key(k) ==> b.contains_key(k) && b[k] == a[k]
}
/// one write-once write (what `write_raw_item` does to the store when it reports success; SOURCE: unit `meld`)
pub open spec fn put_once(s: Store, key: Seq<char>, data: Seq<u8>) -> Store {
    if s.contains_key(key) { s } else { s.insert(key, data) }
}
pub open spec fn pkey(p: Seq<char>) -> Seq<char> { p + PACK_EXTENSION@ }

// R9: SHA-256 + hex of a byte string, uninterpreted; collision freedom is never assumed (unit `pack`: `sha_hex`; unit `delta`: `sha_hex_b`).
// `sha_hex` (unit `rev`, included) is the same digest of a TEXT: `utils::digest_string(s) = digest_bytes(s.as_bytes())`.
pub uninterp spec fn sha_hex_b(b: Seq<u8>) -> Seq<char>;
/// the UTF-8 encoding of a text (`str::as_bytes`)
pub uninterp spec fn utf8(s: Seq<char>) -> Seq<u8>;
/// ASSUMED (std): `String::as_bytes`
#[verifier::external_body]
pub fn vx_str_bytes(s: &String) -> (r: &[u8])
    ensures r@ == utf8(s@),
{ unimplemented!() }

// ================================================================ std collections keyed by string CONTENT (assumed of std; SOURCE: units pack / apply)
pub uninterp spec fn smap<V>(m: HashMap<String, V>) -> Map<Seq<char>, V>;
pub uninterp spec fn sset(s: BTreeSet<String>) -> Set<Seq<char>>;
/// SOURCE: unit `apply`
pub uninterp spec fn dmap(m: BTreeMap<String, RevisionTree>) -> Map<Seq<char>, RevisionTree>;
pub type Docs = Map<Seq<char>, RevisionTree>;

/// R18 + R6 (FIRST pass only, the one that calls `self.resolve_as` while it iterates):
/// `for (uuid, rt) in self.documents.read().unwrap().iter()` = an enumeration of the entries, each key once.
/// In the real code the values are `&Mutex<RevisionTree>` (interior mutability: `&self` methods called in the loop body may
/// change the trees while the iteration goes on); after lock erasure the values are `&RevisionTree`, so the lifetime of the
/// snapshot is NOT tied to the map.  `commit`'s first loop proves that every tree it reads through the snapshot is still
/// the current tree of that object.
#[verifier::external_body]
pub fn vx_docs_entries<'a, 'b>(m: &'a BTreeMap<String, RevisionTree>) -> (v: Vec<(&'b String, &'b RevisionTree)>)
    ensures
        forall|i: int| 0 <= i < v.len() ==> dmap(*m).contains_key(#[trigger] v@[i].0@) && *v@[i].1 == dmap(*m)[v@[i].0@],
        forall|k: Seq<char>| dmap(*m).contains_key(k) ==> exists|i: int| 0 <= i < v.len() && #[trigger] v@[i].0@ == k,
        forall|i: int, j: int| 0 <= i < j < v.len() ==> v@[i].0@ != v@[j].0@,
{ unimplemented!() }
/// R18: `for (rev, rte) in <HashMap<Revision, RevisionTreeEntry>>.iter()` = an ARBITRARY duplicate-free enumeration of the entries
#[verifier::external_body]
pub fn vx_revs_entries<'a>(m: &'a HashMap<Revision, RevisionTreeEntry>) -> (v: Vec<(&'a Revision, &'a RevisionTreeEntry)>)
    ensures
        forall|i: int| 0 <= i < v.len() ==> m@.contains_key(*#[trigger] v@[i].0) && *v@[i].1 == m@[*v@[i].0],
        forall|k: Revision| m@.contains_key(k) ==> exists|i: int| 0 <= i < v.len() && *#[trigger] v@[i].0 == k,
        forall|i: int, j: int| 0 <= i < j < v.len() ==> *v@[i].0 != *v@[j].0,
{ unimplemented!() }

/// what `RevisionTree::commit` guarantees (its `ensures` in unit `tree`, text copied; `vx_docs_commit_all` below calls the real
/// function, re-verified in this file, and PROVES this predicate from its contract)
pub open spec fn tree_commit_post(o: RevisionTree, n: RevisionTree) -> bool {
    &&& forall|k: Revision| n.revisions@.contains_key(k) <==> o.revisions@.contains_key(k)
    &&& forall|k: Revision| #[trigger] n.revisions@.contains_key(k) ==> n.revisions@[k].parent == o.revisions@[k].parent && !n.revisions@[k].staging
    &&& !n.staging
    &&& n.leafs_cache@ == o.leafs_cache@ && n.winner_cache == o.winner_cache && n.state is Validated
}
/// R18 + R6: a pass over `documents` that locks each tree first (`for (uuid, rt) in self.documents.read().unwrap().iter() { let [mut] g =
/// rt.lock().expect(..); ..`) = a pass over an enumeration of the keys (each once; the key set cannot change while the read
/// guard is held), the tree of each key being reached through its mutex: `vx_docs_tree_mut` (ASSUMED of std BTreeMap / Mutex)
#[verifier::external_body]
pub fn vx_docs_keys(m: &BTreeMap<String, RevisionTree>) -> (v: Vec<String>)
    ensures docs_enum(dmap(*m), v@),
{ unimplemented!() }
/// `rt.lock().expect(..)` on the entry of key `k`: exclusive access to the tree stored under `k`; nothing else in the map changes
/// (same shape as `vx_docs_entry` of unit `apply`)
#[verifier::external_body]
pub fn vx_docs_tree_mut<'a>(m: &'a mut BTreeMap<String, RevisionTree>, k: &String) -> (r: &'a mut RevisionTree)
    requires dmap(*old(m)).contains_key(k@),
    ensures *r == dmap(*old(m))[k@], dmap(*final(m)) == dmap(*old(m)).insert(k@, *final(r)),
{ unimplemented!() }

/// R12 + R6: the committing pass `for (_, rt) in documents.iter() { let mut g = rt.lock().expect(..); g.commit(); }`, written as
/// the explicit loop over the keys and VERIFIED here: every tree gets the real `RevisionTree::commit` (re-verified in this
/// file; its precondition is discharged from `docs_inv`), no object is added or removed.  Only the two access shims above
/// are assumed.
pub fn vx_docs_commit_all(m: &mut BTreeMap<String, RevisionTree>)
    requires docs_inv(dmap(*old(m))),
    ensures all_committed(dmap(*old(m)), dmap(*final(m))),
{
    let ghost docs0 = dmap(*m);
    let keys = vx_docs_keys(m);
    let mut i: usize = 0;
    while i < keys.len()
        invariant
            i <= keys.len(), docs_inv(docs0), docs_enum(docs0, keys@),
            forall|k: Seq<char>| dmap(*m).contains_key(k) <==> docs0.contains_key(k),
            forall|j: int| 0 <= j < i ==> tree_commit_post(docs0[(#[trigger] keys@[j])@], dmap(*m)[keys@[j]@]),
            forall|j: int| i <= j < keys.len() ==> dmap(*m)[(#[trigger] keys@[j])@] == docs0[keys@[j]@],
        decreases keys.len() - i
    {
        let ghost docs_b = dmap(*m);
        proof { assert(docs0.contains_key(keys@[i as int]@)); }
        let rt = vx_docs_tree_mut(m, &keys[i]);
        rt.commit();
        proof {
            let key = keys@[i as int]@;
            assert(dmap(*m) =~= docs_b.insert(key, *rt));
            assert forall|j: int| 0 <= j < i + 1 implies tree_commit_post(docs0[(#[trigger] keys@[j])@], dmap(*m)[keys@[j]@]) by {
                if j < i { assert(keys@[j]@ != keys@[i as int]@); }
            }
            assert forall|j: int| i + 1 <= j < keys.len() implies dmap(*m)[(#[trigger] keys@[j])@] == docs0[keys@[j]@] by {
                assert(keys@[i as int]@ != keys@[j]@);
            }
        }
        i += 1;
    }
    proof {
        assert forall|k: Seq<char>| #[trigger] dmap(*m).contains_key(k) implies tree_commit_post(docs0[k], dmap(*m)[k]) by {
            assert(docs0.contains_key(k));
            let j = choose|j: int| 0 <= j < keys.len() && #[trigger] keys@[j]@ == k;
            assert(tree_commit_post(docs0[keys@[j]@], dmap(*m)[keys@[j]@]));
        }
    }
}

/// `BTreeSet::from([x])`
#[verifier::external_body]
pub fn vx_dset_single(x: DeltaId) -> (s: BTreeSet<DeltaId>)
    ensures s@ == Set::<DeltaId>::empty().insert(x),
{ unimplemented!() }
#[verifier::external_body]
pub fn vx_sset_single(x: String) -> (s: BTreeSet<String>)
    ensures sset(s) == Set::<Seq<char>>::empty().insert(x@),
{ unimplemented!() }
/// derive(Clone) on DeltaId / `BTreeSet<DeltaId>::clone` / `BTreeSet::is_empty`
#[verifier::external_body]
pub fn vx_did_clone(k: &DeltaId) -> (r: DeltaId) ensures r == *k { unimplemented!() }
#[verifier::external_body]
pub fn vx_dset_clone(s: &BTreeSet<DeltaId>) -> (r: BTreeSet<DeltaId>) ensures r@ == s@ { unimplemented!() }
#[verifier::external_body]
pub fn vx_dset_is_empty(s: &BTreeSet<DeltaId>) -> (r: bool)
    ensures r == (forall|k: DeltaId| !s@.contains(k)),
{ unimplemented!() }
/// `BTreeSet<Revision>::len() > 1` is only used as a guard of the assumed `resolve_as`: the value is not constrained
#[verifier::external_body]
pub fn vx_rset_len(s: &BTreeSet<Revision>) -> (r: usize) { unimplemented!() }
// R10: string helpers (assumed of std; SOURCE: unit `pack`)
#[verifier::external_body]
pub fn vx_str_concat(a: &str, b: &str) -> (r: String) ensures r@ == a@ + b@ { unimplemented!() }
#[verifier::external_body]
pub fn vx_str_clone(a: &String) -> (r: String) ensures r@ == a@ { unimplemented!() }
/// RCV: the element of a by-value pass over a `Vec<(String, String)>`: owned copies of the two texts (verified from `vx_str_clone`)
pub fn vx_spair_at(v: &Vec<(String, String)>, i: usize) -> (r: (String, String))
    requires i < v.len(),
    ensures r.0@ == v@[i as int].0@, r.1@ == v@[i as int].1@,
{ (vx_str_clone(&v[i].0), vx_str_clone(&v[i].1)) }
/// utils::is_array_descriptor = `starts_with("^")`: only a guard of the assumed `resolve_as`, the value is not constrained
#[verifier::external_body]
pub fn is_array_descriptor(key: &str) -> (r: bool) { unimplemented!() }
/// `Result::expect(..)`: returns the value when the result is `Ok`, PANICS otherwise (partial correctness: a panic is not an
/// outcome the contract speaks about)
#[verifier::external_body]
pub fn vx_expect_ok<T>(r: Result<T, VxError>) -> (t: T)
    ensures r == Ok::<T, VxError>(t),
{ unimplemented!() }

// ================================================================ block identifiers (SOURCE: unit `delta`)
// R11: `impl Display for DeltaId` = "{index}-{digest}" (fmt; link checked by bounded stand-in `deltaid`)
pub open spec fn did_str(v: DidV) -> Seq<char> { dec(v.0 as nat) + seq!['-'] + v.1 }
pub open spec fn did_key(v: DidV) -> Seq<char> { did_str(v) + DELTA_EXTENSION@ }
#[verifier::external_body]
pub fn vx_did_text(d: &DeltaId) -> (s: String) ensures s@ == did_str(d@) { unimplemented!() }
/// R12: `anchors.iter().map(|a| a.index()).max().unwrap_or(0)`: the greatest index among the anchors, 0 if there is none
#[verifier::external_body]
pub fn vx_max_index(anchors: &BTreeSet<DeltaId>) -> (r: u32)
    ensures
        forall|a: DeltaId| anchors@.contains(a) ==> a.0 <= r,
        anchors@.len() == 0 ==> r == 0,
        anchors@.len() > 0 ==> exists|a: DeltaId| anchors@.contains(a) && a.0 == r,
{ unimplemented!() }

/// R12: `anchors.iter().map(|a| a.index()).min().unwrap_or(0)`: the SMALLEST index among the anchors, 0 if there is none.
/// Not used by the pinned code; the rule exists so that a change of the pipeline from `max` to `min` is judged by the
/// contract of `new_from_anchors` instead of being rejected as unsupported syntax.
#[verifier::external_body]
pub fn vx_min_index(anchors: &BTreeSet<DeltaId>) -> (r: u32)
    ensures
        forall|a: DeltaId| anchors@.contains(a) ==> r <= a.0,
        anchors@.len() == 0 ==> r == 0,
        anchors@.len() > 0 ==> exists|a: DeltaId| anchors@.contains(a) && a.0 == r,
{ unimplemented!() }

// ================================================================ the commit graph (SOURCE: unit `delta`, text copied)
pub open spec fn applied(m: Map<DeltaId, Delta>, id: DeltaId) -> bool { m.contains_key(id) && m[id].status is Applied }
pub open spec fn names_parent(d: Delta, id: DeltaId) -> bool {
    match d.parents { Some(ps) => ps@.contains(id), None => false }
}
/// "the heads are exactly the applied blocks that no applied block names as parent"
pub open spec fn is_head(m: Map<DeltaId, Delta>, id: DeltaId) -> bool {
    applied(m, id) && forall|j: DeltaId| #[trigger] applied(m, j) ==> !names_parent(m[j], id)
}

// ================================================================ the text of a block
/// ASSUMED: `serde_json::to_string(&delta.to_json())` is a FUNCTION of the block (serde_json::Map and BTreeSet iterate in
/// key order, the change list is a Vec).  Unit `block` proves the shape of the JSON object (`is_block_text`).
pub uninterp spec fn block_text(d: Delta) -> Seq<char>;
impl Delta {
    #[verifier::external_body]
    pub fn to_json_string(&self) -> (r: Result<String, VxError>)
        ensures match r { Ok(t) => t@ == block_text(*self), Err(_) => true },
    { unimplemented!() }
}
/// the block as it is serialised: without identifier (`id: None`)
pub open spec fn unnamed(d: Delta) -> Delta {
    Delta { id: None, parents: d.parents, info: d.info, packs: d.packs, changes: d.changes, status: d.status }
}

// ================================================================ replica-level predicates
/// replica invariant (precondition of `RevisionTree::commit` / `get_winner` / `get_leafs` for every object): every tree is
/// validated and a staged entry implies the tree-level flag.  Established by `RevisionTree::add` (unit `tree`).
pub open spec fn docs_inv(docs: Docs) -> bool {
    forall|k: Seq<char>| #[trigger] docs.contains_key(k) ==> docs[k].state is Validated && tree_inv(docs[k])
}
/// "some tree has its staging flag set" (what `Melda::has_staging` computes)
pub open spec fn some_staged(docs: Docs) -> bool {
    exists|k: Seq<char>| #[trigger] docs.contains_key(k) && docs[k].staging
}
/// tree `b` is tree `a` plus staged additions: nothing recorded in `a` is lost or altered (staging flags included)
pub open spec fn tree_ext(a: RevisionTree, b: RevisionTree) -> bool {
    &&& forall|r: Revision| #[trigger] a.revisions@.contains_key(r) ==> b.revisions@.contains_key(r) && b.revisions@[r] == a.revisions@[r]
    &&& forall|r: Revision| #[trigger] b.revisions@.contains_key(r) && !a.revisions@.contains_key(r) ==> b.revisions@[r].staging
    &&& a.staging ==> b.staging
}
/// same objects, every tree extended by staged additions only: NO tree has been committed, nothing staged was dropped
pub open spec fn docs_ext(a: Docs, b: Docs) -> bool {
    &&& forall|k: Seq<char>| a.contains_key(k) <==> b.contains_key(k)
    &&& forall|k: Seq<char>| #[trigger] a.contains_key(k) ==> tree_ext(a[k], b[k])
}
pub proof fn lemma_docs_ext_refl(a: Docs)
    ensures docs_ext(a, a),
{ }
pub proof fn lemma_docs_ext_trans(a: Docs, b: Docs, c: Docs)
    requires docs_ext(a, b), docs_ext(b, c),
    ensures docs_ext(a, c),
{
    assert forall|k: Seq<char>| #[trigger] a.contains_key(k) implies tree_ext(a[k], c[k]) by {
        assert(b.contains_key(k));
        assert(tree_ext(a[k], b[k]) && tree_ext(b[k], c[k]));
        assert forall|r: Revision| #[trigger] c[k].revisions@.contains_key(r) && !a[k].revisions@.contains_key(r) implies c[k].revisions@[r].staging by {
            if b[k].revisions@.contains_key(r) { assert(c[k].revisions@[r] == b[k].revisions@[r]); }
        }
    }
}
/// every tree of `n` is the committed form of the same object's tree in `o`
pub open spec fn all_committed(o: Docs, n: Docs) -> bool {
    &&& forall|k: Seq<char>| n.contains_key(k) <==> o.contains_key(k)
    &&& forall|k: Seq<char>| #[trigger] n.contains_key(k) ==> tree_commit_post(o[k], n[k])
}
/// C15: "a successful commit leaves nothing staged"
pub open spec fn nothing_staged(docs: Docs) -> bool {
    &&& !some_staged(docs)
    &&& forall|k: Seq<char>, r: Revision| #[trigger] docs.contains_key(k) && #[trigger] docs[k].revisions@.contains_key(r) ==> !docs[k].revisions@[r].staging
}
pub proof fn lemma_all_committed_nothing_staged(o: Docs, n: Docs)
    requires all_committed(o, n),
    ensures nothing_staged(n),
{
    assert forall|k: Seq<char>| #[trigger] n.contains_key(k) implies !n[k].staging by { assert(tree_commit_post(o[k], n[k])); }
    assert forall|k: Seq<char>, r: Revision| #[trigger] n.contains_key(k) && #[trigger] n[k].revisions@.contains_key(r) implies !n[k].revisions@[r].staging by {
        assert(tree_commit_post(o[k], n[k]));
    }
}
/// the staged objects of the data storage are kept (keys by content digest)
pub open spec fn stage_kept(a: Map<Seq<char>, Value>, b: Map<Seq<char>, Value>) -> bool {
    forall|k: Seq<char>| #[trigger] a.contains_key(k) ==> b.contains_key(k)
}

// ================================================================ assumed contracts of the Melda / DataStorage functions commit calls
impl Melda {
    /// R6 + rayon: `documents.read().unwrap().par_iter().any(|(_, t)| t.lock().unwrap().has_staging())` — replaced by its
    /// meaning (`RevisionTree::has_staging` returns the flag: unit `tree`)
    #[verifier::external_body]
    pub fn has_staging(&self) -> (r: bool)
        ensures r == some_staged(dmap(self.documents)),
    { unimplemented!() }
    /// SOURCE: unit `delta`, `Melda::get_anchors` (PROVED there from the real code, text copied)
    #[verifier::external_body]
    pub fn get_anchors(&self) -> (ret: BTreeSet<DeltaId>)
        requires did_models(),
        ensures forall|id: DeltaId| ret@.contains(id) <==> is_head(self.deltas@, id),
    { unimplemented!() }
    /// ASSUMED, NOT proved anywhere (automatic conflict resolution of an array descriptor; `resolve_as` calls `update_object`).
    /// Only a FRAME is assumed, whatever the result:
    ///  * the blocks and the storage items are not touched (it stages, it never writes);
    ///  * no object is added or removed, only the tree of `uuid` may change, and only by STAGED additions
    ///    (`RevisionTree::add(.., true)`: unit `tree` proves that `add` keeps recorded entries, revalidates and keeps `tree_inv`);
    ///  * no staged object of the data storage is dropped (`DataStorage::write_object` only inserts into the stage).
    #[verifier::external_body]
    pub fn resolve_as(&mut self, uuid: &str, winner: &str) -> (r: Result<String, VxError>)
        ensures
            final(self).deltas == old(self).deltas,
            final(self).data.adapter.store() == old(self).data.adapter.store(),
            docs_ext(dmap(old(self).documents), dmap(final(self).documents)),
            forall|k: Seq<char>| k != uuid@ && #[trigger] dmap(old(self).documents).contains_key(k) ==> dmap(final(self).documents)[k] == dmap(old(self).documents)[k],
            docs_inv(dmap(old(self).documents)) ==> docs_inv(dmap(final(self).documents)),
            stage_kept(smap(old(self).data.stage), smap(final(self).data.stage)),
    { unimplemented!() }
}
/// `p` names (by digest) the bytes `b` written once under `pkey(p)`
pub open spec fn pack_item(s0: Store, s1: Store, p: Seq<char>, b: Seq<u8>) -> bool {
    p == sha_hex_b(b) && s1 == put_once(s0, pkey(p), b)
}
pub open spec fn pack_wrote(s0: Store, s1: Store, p: Seq<char>) -> bool {
    exists|b: Seq<u8>| #[trigger] pack_item(s0, s1, p, b)
}
impl DataStorage {
    /// SOURCE: unit `pack`, `DataStorage::pack` (PROVED there from the real code).  The `Ok(None)` and `Err` clauses are copied;
    /// the `Ok(Some(p))` clause is the CONSEQUENCE of `pack_ok` / `pack_post` that commit needs: the pack is named by the digest
    /// of its bytes, exactly one write-once item `pkey(p)` is written and the stage is emptied (index / applied packs: see unit pack).
    #[verifier::external_body]
    pub fn pack(&mut self) -> (ret: Result<Option<String>, VxError>)
        ensures match ret {
            Ok(None) => smap(old(self).stage) == Map::<Seq<char>, Value>::empty() && *final(self) == *old(self),
            Ok(Some(p)) => pack_wrote(old(self).adapter.store(), final(self).adapter.store(), p@) && smap(final(self).stage) == Map::<Seq<char>, Value>::empty(),
            Err(_) => smap(final(self).stage) == smap(old(self).stage) && smap(final(self).committed_objects) == smap(old(self).committed_objects)
                && sset(final(self).applied_pack_ids) == sset(old(self).applied_pack_ids) && final(self).adapter.store() == old(self).adapter.store(),
        },
    { unimplemented!() }
}

// ================================================================ spec of the property statements
// ---- A (C13, commit graph): one new block on top of exactly the previous heads
/// `parents` names exactly the heads of `m` (`None` when there is none)
pub open spec fn parents_are_heads(m: Map<DeltaId, Delta>, parents: Option<BTreeSet<DeltaId>>) -> bool {
    match parents {
        Some(ps) => (forall|h: DeltaId| ps@.contains(h) <==> is_head(m, h)) && (exists|h: DeltaId| is_head(m, h)),
        None => forall|h: DeltaId| !is_head(m, h),
    }
}
/// the index of the new block: 1 without parents, else greater than every parent's and equal to the highest + 1
pub open spec fn index_rule_new(m: Map<DeltaId, Delta>, idx: u32) -> bool {
    &&& forall|h: DeltaId| is_head(m, h) ==> h.0 < idx
    &&& (forall|h: DeltaId| !is_head(m, h)) ==> idx == 1
    &&& (exists|h: DeltaId| is_head(m, h)) ==> (exists|h: DeltaId| is_head(m, h) && h.0 + 1 == idx)
}
/// block `d` with identifier `id` is what a commit on top of the blocks `m` creates
pub open spec fn new_block(m: Map<DeltaId, Delta>, id: DeltaId, d: Delta) -> bool {
    &&& d.status is Applied
    &&& d.id == Some(id)
    &&& parents_are_heads(m, d.parents)
    &&& index_rule_new(m, id.0)
    // the digest in the identifier is the SHA-256 of the text that is written (the block serialised without identifier)
    &&& id.1@ == sha_hex(block_text(unnamed(d)))
}
// ---- B (C09, order of the writes): at most one pack item, then the block item, both write-once
/// the pack step: nothing when the block names no pack, else exactly one write-once item `pkey(p)` named by the digest of its bytes
pub open spec fn pack_step(s0: Store, s1: Store, packs: Option<BTreeSet<String>>) -> bool {
    match packs {
        None => s1 == s0,
        Some(ps) => exists|p: Seq<char>, b: Seq<u8>| #[trigger] pack_item(s0, s1, p, b) && sset(ps) == Set::<Seq<char>>::empty().insert(p),
    }
}
pub open spec fn packs_of(d: Delta) -> Set<Seq<char>> { match d.packs { Some(ps) => sset(ps), None => Set::<Seq<char>>::empty() } }
// ---- E: the change list = one record per staged entry
pub open spec fn staged_entry(docs: Docs, uuid: Seq<char>, rev: Revision) -> bool {
    docs.contains_key(uuid) && docs[uuid].revisions@.contains_key(rev) && docs[uuid].revisions@[rev].staging
}
/// `c` is the record (creation record when the entry has no parent, update record otherwise) of a staged entry
pub open spec fn is_record(docs: Docs, c: Change) -> bool {
    staged_entry(docs, c.0@, c.1) && c.2 == docs[c.0@].revisions@[c.1].parent
}
pub open spec fn has_record(cs: Seq<Change>, uuid: Seq<char>, rev: Revision) -> bool {
    exists|i: int| 0 <= i < cs.len() && (#[trigger] cs[i]).0@ == uuid && cs[i].1 == rev
}
pub open spec fn same_entry(a: Change, b: Change) -> bool { a.0@ == b.0@ && a.1 == b.1 }
pub open spec fn no_dup(cs: Seq<Change>) -> bool {
    forall|i: int, j: int| 0 <= i < j < cs.len() ==> !same_entry(#[trigger] cs[i], #[trigger] cs[j])
}
/// every record belongs to a staged entry, every staged entry has a record, no entry has two (order irrelevant: hash iteration)
pub open spec fn records_exactly(docs: Docs, cs: Seq<Change>) -> bool {
    &&& forall|i: int| 0 <= i < cs.len() ==> is_record(docs, #[trigger] cs[i])
    &&& forall|uuid: Seq<char>, rev: Revision| #[trigger] staged_entry(docs, uuid, rev) ==> has_record(cs, uuid, rev)
    &&& no_dup(cs)
}
pub open spec fn changes_of(docs: Docs, changes: Option<Vec<Change>>) -> bool {
    match changes { Some(v) => v.len() > 0 && records_exactly(docs, v@), None => records_exactly(docs, Seq::<Change>::empty()) }
}

// ---- the contract of a successful commit, with its witnesses: the new identifier / block, the trees after step (1)
// (`mid`: automatic conflict resolution may have staged more) and the storage after the pack step (`s1`)
pub open spec fn commit_post(o: Melda, n: Melda, info: Option<JMap>, s: Set<DeltaId>, id: DeltaId, d: Delta, mid: Docs, s1: Store) -> bool {
    // A
    &&& d.info == info
    &&& s == Set::<DeltaId>::empty().insert(id)
    &&& n.deltas@ == o.deltas@.insert(id, d)
    &&& new_block(o.deltas@, id, d)
    // B: pack first, then the block
    &&& pack_step(o.data.adapter.store(), s1, d.packs)
    &&& n.data.adapter.store() == put_once(s1, did_key(id@), utf8(block_text(unnamed(d))))
    // C: nothing stays staged
    &&& docs_ext(dmap(o.documents), mid)
    &&& all_committed(mid, dmap(n.documents))
    &&& smap(n.data.stage) == Map::<Seq<char>, Value>::empty()
    // E
    &&& changes_of(mid, d.changes)
}
pub open spec fn commit_ok(o: Melda, n: Melda, info: Option<JMap>, s: Set<DeltaId>) -> bool {
    exists|id: DeltaId, d: Delta, mid: Docs, s1: Store| #[trigger] commit_post(o, n, info, s, id, d, mid, s1)
}
/// a failed commit: no block is recorded, NO tree has been committed (what was staged is still staged; step (1) may have
/// staged more), and the storage is unchanged or has gained exactly the pack item — never the block
pub open spec fn commit_failed(o: Melda, n: Melda) -> bool {
    &&& n.deltas == o.deltas
    &&& docs_ext(dmap(o.documents), dmap(n.documents))
    &&& ({
        ||| n.data.adapter.store() == o.data.adapter.store() && stage_kept(smap(o.data.stage), smap(n.data.stage))
        ||| exists|p: Seq<char>, b: Seq<u8>| #[trigger] pack_item(o.data.adapter.store(), n.data.adapter.store(), p, b)
    })
}
/// precondition of commit: the replica invariant on the trees, and no u32 overflow of the block index
pub open spec fn replica_ok(m: Melda) -> bool {
    &&& docs_inv(dmap(m.documents))
    &&& forall|h: DeltaId| is_head(m.deltas@, h) ==> h.0 < u32::MAX
}

// ================================================================ proof of E: step lemmas for the collecting loops
pub type DocEnts = Seq<String>;
pub type RevEnts<'a> = Seq<(&'a Revision, &'a RevisionTreeEntry)>;
pub open spec fn docs_enum(docs: Docs, ents: DocEnts) -> bool {
    &&& forall|i: int| 0 <= i < ents.len() ==> docs.contains_key(#[trigger] ents[i]@)
    &&& forall|k: Seq<char>| docs.contains_key(k) ==> exists|i: int| 0 <= i < ents.len() && #[trigger] ents[i]@ == k
    &&& forall|i: int, j: int| 0 <= i < j < ents.len() ==> (#[trigger] ents[i])@ != (#[trigger] ents[j])@
}
pub open spec fn revs_enum(m: RevMap, revs: RevEnts) -> bool {
    &&& forall|i: int| 0 <= i < revs.len() ==> m.contains_key(*#[trigger] revs[i].0) && *revs[i].1 == m[*revs[i].0]
    &&& forall|k: Revision| m.contains_key(k) ==> exists|i: int| 0 <= i < revs.len() && *#[trigger] revs[i].0 == k
    &&& forall|i: int, j: int| 0 <= i < j < revs.len() ==> *(#[trigger] revs[i]).0 != *(#[trigger] revs[j]).0
}
pub open spec fn key_upto(ents: DocEnts, n: int, k: Seq<char>) -> bool { exists|j: int| 0 <= j < n && #[trigger] ents[j]@ == k }
pub open spec fn rev_upto(revs: RevEnts, n: int, r: Revision) -> bool { exists|j: int| 0 <= j < n && *#[trigger] revs[j].0 == r }
/// outer loop: the first n objects are done
pub open spec fn collected(docs: Docs, ents: DocEnts, n: int, cs: Seq<Change>) -> bool {
    &&& forall|i: int| 0 <= i < cs.len() ==> is_record(docs, #[trigger] cs[i]) && key_upto(ents, n, cs[i].0@)
    &&& forall|j: int, rev: Revision| 0 <= j < n && #[trigger] staged_entry(docs, ents[j]@, rev) ==> has_record(cs, ents[j]@, rev)
    &&& no_dup(cs)
}
/// inner loop: `cs0` was collected before this object, the first n entries of the object `uuid` are done
pub open spec fn collecting(docs: Docs, uuid: Seq<char>, revs: RevEnts, n: int, cs0: Seq<Change>, cs: Seq<Change>) -> bool {
    &&& cs0.len() <= cs.len()
    &&& forall|i: int| 0 <= i < cs0.len() ==> #[trigger] cs[i] == cs0[i]
    &&& forall|i: int| cs0.len() <= i < cs.len() ==> is_record(docs, #[trigger] cs[i]) && cs[i].0@ == uuid && rev_upto(revs, n, cs[i].1)
    &&& forall|j: int| 0 <= j < n && revs[j].1.staging ==> has_record(cs, uuid, *#[trigger] revs[j].0)
    &&& no_dup(cs)
}
pub proof fn lemma_collecting_start(docs: Docs, ents: DocEnts, a: int, revs: RevEnts, cs0: Seq<Change>)
    requires collected(docs, ents, a, cs0),
    ensures collecting(docs, ents[a]@, revs, 0, cs0, cs0),
{ }
pub proof fn lemma_collecting_skip(docs: Docs, uuid: Seq<char>, revs: RevEnts, b: int, cs0: Seq<Change>, cs: Seq<Change>)
    requires 0 <= b < revs.len(), collecting(docs, uuid, revs, b, cs0, cs), !revs[b].1.staging,
    ensures collecting(docs, uuid, revs, b + 1, cs0, cs),
{
    assert forall|i: int| cs0.len() <= i < cs.len() implies rev_upto(revs, b + 1, (#[trigger] cs[i]).1) by {
        assert(rev_upto(revs, b, cs[i].1));
        let j = choose|j: int| 0 <= j < b && *#[trigger] revs[j].0 == cs[i].1;
        assert(0 <= j < b + 1 && *revs[j].0 == cs[i].1);
    }
}
pub proof fn lemma_collecting_push(docs: Docs, ents: DocEnts, a: int, revs: RevEnts, b: int, cs0: Seq<Change>, cs: Seq<Change>, cs2: Seq<Change>)
    requires
        0 <= a < ents.len(), 0 <= b < revs.len(),
        docs_enum(docs, ents), revs_enum(docs[ents[a]@].revisions@, revs),
        collected(docs, ents, a, cs0), collecting(docs, ents[a]@, revs, b, cs0, cs),
        revs[b].1.staging,
        cs2.len() == cs.len() + 1, forall|i: int| 0 <= i < cs.len() ==> #[trigger] cs2[i] == cs[i],
        cs2[cs.len() as int].0@ == ents[a]@, cs2[cs.len() as int].1 == *revs[b].0, cs2[cs.len() as int].2 == revs[b].1.parent,
    ensures collecting(docs, ents[a]@, revs, b + 1, cs0, cs2),
{
    let uuid = ents[a]@;
    let c = cs2[cs.len() as int];
    assert(docs.contains_key(ents[a]@));
    assert(docs[uuid].revisions@.contains_key(*revs[b].0) && *revs[b].1 == docs[uuid].revisions@[*revs[b].0]);
    assert(is_record(docs, c));
    assert forall|i: int| 0 <= i < cs0.len() implies #[trigger] cs2[i] == cs0[i] by { assert(cs2[i] == cs[i]); }
    assert forall|i: int| cs0.len() <= i < cs2.len() implies is_record(docs, #[trigger] cs2[i]) && cs2[i].0@ == uuid && rev_upto(revs, b + 1, cs2[i].1) by {
        if i < cs.len() {
            assert(cs2[i] == cs[i]);
            assert(rev_upto(revs, b, cs[i].1));
            let j = choose|j: int| 0 <= j < b && *#[trigger] revs[j].0 == cs[i].1;
            assert(0 <= j < b + 1 && *revs[j].0 == cs[i].1);
        } else {
            assert(0 <= b < b + 1 && *revs[b].0 == c.1);
        }
    }
    assert forall|j: int| 0 <= j < b + 1 && revs[j].1.staging implies has_record(cs2, uuid, *#[trigger] revs[j].0) by {
        if j < b {
            assert(has_record(cs, uuid, *revs[j].0));
            let i = choose|i: int| 0 <= i < cs.len() && (#[trigger] cs[i]).0@ == uuid && cs[i].1 == *revs[j].0;
            assert(cs2[i] == cs[i]);
        } else {
            assert(cs2[cs.len() as int].0@ == uuid && cs2[cs.len() as int].1 == *revs[b].0);
        }
    }
    assert forall|i: int, j: int| 0 <= i < j < cs2.len() implies !same_entry(#[trigger] cs2[i], #[trigger] cs2[j]) by {
        if j < cs.len() { assert(cs2[i] == cs[i] && cs2[j] == cs[j]); }
        else {
            assert(cs2[i] == cs[i]);
            if i < cs0.len() {
                assert(cs[i] == cs0[i]);
                assert(key_upto(ents, a, cs0[i].0@));
                let k = choose|k: int| 0 <= k < a && #[trigger] ents[k]@ == cs0[i].0@;
                assert(ents[k]@ != ents[a]@);
            } else {
                assert(rev_upto(revs, b, cs[i].1));
                let k = choose|k: int| 0 <= k < b && *#[trigger] revs[k].0 == cs[i].1;
                assert(*revs[k].0 != *revs[b].0);
            }
        }
    }
}
pub proof fn lemma_collecting_done(docs: Docs, ents: DocEnts, a: int, revs: RevEnts, cs0: Seq<Change>, cs: Seq<Change>)
    requires
        0 <= a < ents.len(),
        docs_enum(docs, ents), revs_enum(docs[ents[a]@].revisions@, revs),
        collected(docs, ents, a, cs0), collecting(docs, ents[a]@, revs, revs.len() as int, cs0, cs),
    ensures collected(docs, ents, a + 1, cs),
{
    let uuid = ents[a]@;
    assert forall|i: int| 0 <= i < cs.len() implies is_record(docs, #[trigger] cs[i]) && key_upto(ents, a + 1, cs[i].0@) by {
        if i < cs0.len() {
            assert(cs[i] == cs0[i]);
            assert(key_upto(ents, a, cs0[i].0@));
            let k = choose|k: int| 0 <= k < a && #[trigger] ents[k]@ == cs0[i].0@;
            assert(0 <= k < a + 1 && ents[k]@ == cs[i].0@);
        } else {
            assert(0 <= a < a + 1 && ents[a]@ == cs[i].0@);
        }
    }
    assert forall|j: int, rev: Revision| 0 <= j < a + 1 && #[trigger] staged_entry(docs, ents[j]@, rev) implies has_record(cs, ents[j]@, rev) by {
        if j < a {
            assert(has_record(cs0, ents[j]@, rev));
            let i = choose|i: int| 0 <= i < cs0.len() && (#[trigger] cs0[i]).0@ == ents[j]@ && cs0[i].1 == rev;
            assert(cs[i] == cs0[i]);
        } else {
            let k = choose|k: int| 0 <= k < revs.len() && *#[trigger] revs[k].0 == rev;
            assert(*revs[k].1 == docs[uuid].revisions@[rev]);
            assert(has_record(cs, uuid, *revs[k].0));
        }
    }
}
/// a tree whose flag is not set has no staged entry (`tree_inv`): nothing to collect for this object
pub proof fn lemma_collected_skip(docs: Docs, ents: DocEnts, a: int, cs: Seq<Change>)
    requires
        0 <= a < ents.len(), docs_enum(docs, ents), collected(docs, ents, a, cs),
        tree_inv(docs[ents[a]@]), !docs[ents[a]@].staging,
    ensures collected(docs, ents, a + 1, cs),
{
    assert forall|i: int| 0 <= i < cs.len() implies key_upto(ents, a + 1, (#[trigger] cs[i]).0@) by {
        assert(key_upto(ents, a, cs[i].0@));
        let k = choose|k: int| 0 <= k < a && #[trigger] ents[k]@ == cs[i].0@;
        assert(0 <= k < a + 1 && ents[k]@ == cs[i].0@);
    }
}
pub proof fn lemma_collected_all(docs: Docs, ents: DocEnts, cs: Seq<Change>)
    requires docs_enum(docs, ents), collected(docs, ents, ents.len() as int, cs),
    ensures records_exactly(docs, cs),
{
    assert forall|uuid: Seq<char>, rev: Revision| #[trigger] staged_entry(docs, uuid, rev) implies has_record(cs, uuid, rev) by {
        let j = choose|j: int| 0 <= j < ents.len() && #[trigger] ents[j]@ == uuid;
        assert(staged_entry(docs, ents[j]@, rev));
    }
}

// ================================================================ corollaries (system level)
/// every parent named by an applied block is itself a known block (blocks are applied only after their parents)
pub open spec fn parents_known(m: Map<DeltaId, Delta>) -> bool {
    forall|j: DeltaId, p: DeltaId| #[trigger] applied(m, j) && #[trigger] names_parent(m[j], p) ==> m.contains_key(p)
}
/// C13: "afterwards that block is the only head".  FRESHNESS HYPOTHESIS: the new identifier is not yet a key of the
/// block map (its index exceeds every head's, its digest is the hash of its text: a clash would need a known block with
/// the same text above all heads).
pub proof fn lemma_new_block_is_only_head(m: Map<DeltaId, Delta>, id: DeltaId, d: Delta)
    requires new_block(m, id, d), !m.contains_key(id), parents_known(m),
    ensures forall|x: DeltaId| is_head(m.insert(id, d), x) <==> x == id,
{
    let m2 = m.insert(id, d);
    assert forall|j: DeltaId| #[trigger] applied(m2, j) implies !names_parent(m2[j], id) by {
        if j == id {
            if names_parent(d, id) { assert(is_head(m, id)); }
        } else {
            assert(applied(m, j) && m2[j] == m[j]);
            if names_parent(m[j], id) { assert(m.contains_key(id)); }
        }
    }
    assert(applied(m2, id));
    assert(is_head(m2, id));
    assert forall|x: DeltaId| x != id && applied(m2, x) implies !is_head(m2, x) by {
        assert(applied(m, x) && m2[x] == m[x]);
        if is_head(m, x) {
            assert(names_parent(d, x));
            assert(applied(m2, id) && names_parent(m2[id], x));
        } else {
            let j = choose|j: DeltaId| #[trigger] applied(m, j) && names_parent(m[j], x);
            assert(j != id);
            assert(applied(m2, j) && m2[j] == m[j]);
        }
    }
}
/// `s` ends with `e` (SOURCE: unit `meld`, with the three lemmas below)
pub open spec fn ends_with(s: Seq<char>, e: Seq<char>) -> bool {
    s.len() >= e.len() && s.subrange(s.len() - e.len(), s.len() as int) == e
}
pub proof fn lemma_ends_with_concat(a: Seq<char>, e: Seq<char>)
    ensures ends_with(a + e, e),
{
    assert((a + e).subrange((a + e).len() - e.len(), (a + e).len() as int) =~= e);
}
/// no key is both a pack key and a block key (".pack" / ".delta" end in different characters)
pub proof fn lemma_ext_differ(s: Seq<char>)
    ensures !(ends_with(s, PACK_EXTENSION@) && ends_with(s, DELTA_EXTENSION@)),
{
    reveal_strlit(".pack"); reveal_strlit(".delta");
    if ends_with(s, PACK_EXTENSION@) && ends_with(s, DELTA_EXTENSION@) {
        let a = s.subrange(s.len() - 5, s.len() as int); let b = s.subrange(s.len() - 6, s.len() as int);
        assert(a[4] == 'k'); assert(b[5] == 'a');
        assert(a[4] == s[s.len() - 1]); assert(b[5] == s[s.len() - 1]);
    }
}
/// C09 (success): storage only grew; the block item is stored; every pack the block names is stored ("a block never
/// reaches storage before the pack it references"); a block item written by this commit holds the block's text
pub proof fn lemma_block_after_its_packs(o: Melda, n: Melda, info: Option<JMap>, s: Set<DeltaId>, id: DeltaId, d: Delta, mid: Docs, s1: Store)
    requires commit_post(o, n, info, s, id, d, mid, s1),
    ensures
        store_grows(o.data.adapter.store(), n.data.adapter.store()),
        n.data.adapter.store().contains_key(did_key(id@)),
        !o.data.adapter.store().contains_key(did_key(id@)) ==> n.data.adapter.store()[did_key(id@)] == utf8(block_text(unnamed(d))),
        forall|p: Seq<char>| packs_of(d).contains(p) ==> n.data.adapter.store().contains_key(pkey(p)),
        nothing_staged(dmap(n.documents)),
{
    lemma_all_committed_nothing_staged(mid, dmap(n.documents));
    let s0 = o.data.adapter.store();
    match d.packs {
        None => { }
        Some(ps) => {
            let (p, b) = choose|p: Seq<char>, b: Seq<u8>| #[trigger] pack_item(s0, s1, p, b) && sset(ps) == Set::<Seq<char>>::empty().insert(p);
            assert(s1.contains_key(pkey(p)));
            lemma_ends_with_concat(p, PACK_EXTENSION@);
            lemma_ends_with_concat(did_str(id@), DELTA_EXTENSION@);
            lemma_ext_differ(pkey(p));
        }
    }
}
/// C09 (failure): "after a failed commit the staged changes are still present" and no block item reached storage
pub proof fn lemma_failed_commit_keeps_staged(o: Melda, n: Melda)
    requires commit_failed(o, n),
    ensures
        forall|uuid: Seq<char>, rev: Revision| #[trigger] staged_entry(dmap(o.documents), uuid, rev) ==> staged_entry(dmap(n.documents), uuid, rev),
        some_staged(dmap(o.documents)) ==> some_staged(dmap(n.documents)),
        store_grows(o.data.adapter.store(), n.data.adapter.store()),
        forall|v: DidV| #[trigger] n.data.adapter.store().contains_key(did_key(v)) ==> o.data.adapter.store().contains_key(did_key(v)),
{
    let od = dmap(o.documents); let nd = dmap(n.documents);
    assert forall|uuid: Seq<char>, rev: Revision| #[trigger] staged_entry(od, uuid, rev) implies staged_entry(nd, uuid, rev) by {
        assert(tree_ext(od[uuid], nd[uuid]));
    }
    if some_staged(od) {
        let k = choose|k: Seq<char>| #[trigger] od.contains_key(k) && od[k].staging;
        assert(tree_ext(od[k], nd[k]));
        assert(nd.contains_key(k) && nd[k].staging);
    }
    let s0 = o.data.adapter.store(); let s1 = n.data.adapter.store();
    assert forall|v: DidV| #[trigger] s1.contains_key(did_key(v)) implies s0.contains_key(did_key(v)) by {
        if s1 != s0 {
            let (p, b) = choose|p: Seq<char>, b: Seq<u8>| #[trigger] pack_item(s0, s1, p, b);
            lemma_ends_with_concat(p, PACK_EXTENSION@);
            lemma_ends_with_concat(did_str(v), DELTA_EXTENSION@);
            lemma_ext_differ(pkey(p));
        }
    }
}
/// `utils::digest_string(s) = digest_bytes(s.as_bytes())`: the digest of a text is the digest of its UTF-8 bytes
/// (hypothesis of the lemma below, true by definition of the two utils functions; NOT assumed by the contract of commit)
pub open spec fn sha_text_is_sha_of_bytes() -> bool { forall|t: Seq<char>| #[trigger] sha_hex(t) == sha_hex_b(utf8(t)) }
/// C10 link: the block item written by a commit passes the hash check of `fetch_raw_delta` (unit `delta`: the bytes stored
/// under the block's key hash to the digest in its name)
pub proof fn lemma_block_item_hash_checked(o: Melda, n: Melda, info: Option<JMap>, s: Set<DeltaId>, id: DeltaId, d: Delta, mid: Docs, s1: Store)
    requires commit_post(o, n, info, s, id, d, mid, s1), sha_text_is_sha_of_bytes(), !o.data.adapter.store().contains_key(did_key(id@)),
    ensures sha_hex_b(n.data.adapter.store()[did_key(id@)]) == id@.1,
{
    lemma_block_after_its_packs(o, n, info, s, id, d, mid, s1);
    assert(sha_hex(block_text(unnamed(d))) == sha_hex_b(utf8(block_text(unnamed(d)))));
}
