// ---- unit `tree`: mirrors of src/revisiontree.rs (field lists checked against /repo on every run) ----
#[verifier::external] impl std::hash::Hash for Revision { fn hash<H: std::hash::Hasher>(&self, _s: &mut H) { unimplemented!() } }
#[verifier::external] impl PartialEq for Revision { fn eq(&self, _o: &Self) -> bool { unimplemented!() } }
#[verifier::external] impl Eq for Revision {}
#[verifier::external] impl PartialOrd for Revision { fn partial_cmp(&self, _o: &Self) -> Option<std::cmp::Ordering> { unimplemented!() } }
#[verifier::external] impl Ord for Revision { fn cmp(&self, _o: &Self) -> std::cmp::Ordering { unimplemented!() } }

pub struct RevisionTreeEntry {
    pub parent: Option<Revision>,
    pub staging: bool,
}

pub enum ValidationState {
    Validated,
    NonValidated,
}

pub struct RevisionTree {
    pub revisions: HashMap<Revision, RevisionTreeEntry>,
    pub staging: bool,
    pub leafs_cache: BTreeSet<Revision>,
    pub winner_cache: Option<Revision>,
    pub state: ValidationState,
}

pub type RevMap = Map<Revision, RevisionTreeEntry>;

/// Assumed of the (external) Hash / Eq / Ord impls of Revision and of the pointer key (R13):
/// they agree with spec equality / are usable as std collection keys.  `Ord` being a total order
/// consistent with equality is *proved* for the extracted `cmp` (lemmas of unit `rev`).
pub open spec fn rev_models() -> bool {
    &&& vstd::std_specs::hash::obeys_key_model::<Revision>()
    &&& vstd::std_specs::hash::obeys_key_model::<PtrKey>()
    &&& vstd::std_specs::btree::key_obeys_cmp_spec::<Revision>()
}

// ---------------------------------------------------------------- spec of the property statement (C05)
/// some recorded revision names r as its parent
pub open spec fn is_parent(m: RevMap, r: Revision) -> bool {
    exists|k: Revision| #[trigger] m.contains_key(k) && m[k].parent == Some(r)
}
/// parent links go to strictly smaller indices (what every constructor call site establishes: index = parent.index + 1)
pub open spec fn tree_wf(m: RevMap) -> bool {
    forall|k: Revision| #[trigger] m.contains_key(k) ==> (match m[k].parent { Some(p) => p.index < k.index, None => true })
}
/// "its ancestry reaches a creation revision": r is recorded and following parent links ends in a
/// recorded revision with index 1 and no parent
pub open spec fn reaches_root(m: RevMap, r: Revision) -> bool
    decreases r.index
{
    m.contains_key(r) && (
        (r.index == 1 && m[r].parent.is_none())
        || (match m[r].parent { Some(p) => p.index < r.index && reaches_root(m, p), None => false })
    )
}
/// live leaf: recorded, not a resolution marker, nobody's parent, ancestry reaches a creation revision
pub open spec fn live(m: RevMap, r: Revision) -> bool {
    m.contains_key(r) && !marker(r@) && !is_parent(m, r) && reaches_root(m, r)
}
/// w is the greatest live leaf under the fixed order
pub open spec fn is_winner(m: RevMap, w: Option<Revision>) -> bool {
    match w {
        Some(x) => live(m, x) && forall|l: Revision| #[trigger] live(m, l) ==> spec_cmp(l@, x@) != std::cmp::Ordering::Greater,
        None => forall|l: Revision| !(#[trigger] live(m, l)),
    }
}
/// caches hold exactly {live leaves} and their maximum: a function of the recorded SET of revisions
pub open spec fn validated_ok(t: RevisionTree) -> bool {
    &&& t.state is Validated
    &&& forall|r: Revision| t.leafs_cache@.contains(r) <==> live(t.revisions@, r)
    &&& is_winner(t.revisions@, t.winner_cache)
}
/// flag invariant: a staged entry implies the tree-level flag
pub open spec fn tree_inv(t: RevisionTree) -> bool {
    forall|k: Revision| #[trigger] t.revisions@.contains_key(k) && t.revisions@[k].staging ==> t.staging
}
/// `out` is `m` without its staged records
pub open spec fn is_unstaged_part(m: RevMap, out: RevMap) -> bool {
    &&& forall|k: Revision| out.contains_key(k) <==> (m.contains_key(k) && !m[k].staging)
    &&& forall|k: Revision| #[trigger] out.contains_key(k) ==> out[k] == m[k]
}

// ---------------------------------------------------------------- lemmas (C01 / C05 / C15)
/// C01 core: recording two change records commutes (first record of a revision wins)
pub open spec fn record(m: RevMap, r: Revision, e: RevisionTreeEntry) -> RevMap {
    if m.contains_key(r) { m } else { m.insert(r, e) }
}
pub proof fn lemma_record_commutes(m: RevMap, r1: Revision, e1: RevisionTreeEntry, r2: Revision, e2: RevisionTreeEntry)
    requires r1 != r2 || e1 == e2,
    ensures record(record(m, r1, e1), r2, e2) =~= record(record(m, r2, e2), r1, e1),
{ }
/// folding a list of records
pub open spec fn record_all(m: RevMap, rs: Seq<(Revision, RevisionTreeEntry)>) -> RevMap
    decreases rs.len()
{
    if rs.len() == 0 { m } else { record_all(record(m, rs[0].0, rs[0].1), rs.drop_first()) }
}
/// records agree on the entry of a revision (a revision determines its parent)
pub open spec fn functional(rs: Seq<(Revision, RevisionTreeEntry)>) -> bool {
    forall|i: int, j: int| 0 <= i < rs.len() && 0 <= j < rs.len() && rs[i].0 == rs[j].0 ==> rs[i].1 == rs[j].1
}
pub open spec fn agrees(m: RevMap, rs: Seq<(Revision, RevisionTreeEntry)>) -> bool {
    forall|i: int| 0 <= i < rs.len() && m.contains_key(#[trigger] rs[i].0) ==> m[rs[i].0] == rs[i].1
}
/// closed form: the built map is the old map plus every record's revision, whatever the order
pub proof fn lemma_record_all_closed_form(m: RevMap, rs: Seq<(Revision, RevisionTreeEntry)>)
    requires functional(rs), agrees(m, rs),
    ensures
        forall|k: Revision| #[trigger] record_all(m, rs).contains_key(k) <==> (m.contains_key(k) || exists|i: int| 0 <= i < rs.len() && rs[i].0 == k),
        forall|k: Revision| m.contains_key(k) ==> #[trigger] record_all(m, rs)[k] == m[k],
        forall|i: int| 0 <= i < rs.len() ==> record_all(m, rs)[#[trigger] rs[i].0] == rs[i].1,
    decreases rs.len()
{
    if rs.len() > 0 {
        let m1 = record(m, rs[0].0, rs[0].1);
        let tl = rs.drop_first();
        assert(functional(tl)) by { assert forall|i: int, j: int| 0 <= i < tl.len() && 0 <= j < tl.len() && tl[i].0 == tl[j].0 implies tl[i].1 == tl[j].1 by { assert(tl[i] == rs[i + 1] && tl[j] == rs[j + 1]); } }
        assert(agrees(m1, tl)) by {
            assert forall|i: int| 0 <= i < tl.len() && m1.contains_key(#[trigger] tl[i].0) implies m1[tl[i].0] == tl[i].1 by {
                assert(tl[i] == rs[i + 1]);
                if m.contains_key(rs[i + 1].0) { } else { assert(rs[i + 1].0 == rs[0].0); }
            }
        }
        lemma_record_all_closed_form(m1, tl);
        let res = record_all(m, rs);
        assert(res == record_all(m1, tl));
        assert forall|k: Revision| #[trigger] res.contains_key(k) <==> (m.contains_key(k) || exists|i: int| 0 <= i < rs.len() && rs[i].0 == k) by {
            if res.contains_key(k) {
                if m1.contains_key(k) { if !m.contains_key(k) { assert(rs[0].0 == k); } }
                else { let i = choose|i: int| 0 <= i < tl.len() && tl[i].0 == k; assert(rs[i + 1].0 == k); }
            }
            if exists|i: int| 0 <= i < rs.len() && rs[i].0 == k {
                let i = choose|i: int| 0 <= i < rs.len() && rs[i].0 == k;
                if i == 0 { assert(m1.contains_key(k)); } else { assert(tl[i - 1].0 == k); }
            }
        }
        assert forall|i: int| 0 <= i < rs.len() implies res[#[trigger] rs[i].0] == rs[i].1 by {
            if i == 0 { assert(m1.contains_key(rs[0].0)); assert(m1[rs[0].0] == rs[0].1); } else { assert(tl[i - 1] == rs[i]); }
        }
    }
}
/// C01: any two orderings (permutations, duplicates allowed) of the same record set build the same map
pub proof fn lemma_build_order_free(m: RevMap, a: Seq<(Revision, RevisionTreeEntry)>, b: Seq<(Revision, RevisionTreeEntry)>)
    requires
        functional(a + b), agrees(m, a), agrees(m, b),
        forall|i: int| 0 <= i < a.len() ==> exists|j: int| 0 <= j < b.len() && #[trigger] a[i] == b[j],
        forall|j: int| 0 <= j < b.len() ==> exists|i: int| 0 <= i < a.len() && a[i] == #[trigger] b[j],
    ensures record_all(m, a) =~= record_all(m, b),
{
    let ab = a + b;
    assert(functional(a)) by { assert forall|i: int, j: int| 0 <= i < a.len() && 0 <= j < a.len() && a[i].0 == a[j].0 implies a[i].1 == a[j].1 by { assert(ab[i] == a[i] && ab[j] == a[j]); } }
    assert(functional(b)) by { assert forall|i: int, j: int| 0 <= i < b.len() && 0 <= j < b.len() && b[i].0 == b[j].0 implies b[i].1 == b[j].1 by { assert(ab[a.len() + i] == b[i] && ab[a.len() + j] == b[j]); } }
    lemma_record_all_closed_form(m, a);
    lemma_record_all_closed_form(m, b);
    let x = record_all(m, a); let y = record_all(m, b);
    assert forall|k: Revision| x.contains_key(k) <==> y.contains_key(k) by {
        if exists|i: int| 0 <= i < a.len() && a[i].0 == k { let i = choose|i: int| 0 <= i < a.len() && a[i].0 == k; let j = choose|j: int| 0 <= j < b.len() && a[i] == b[j]; assert(b[j].0 == k); }
        if exists|j: int| 0 <= j < b.len() && b[j].0 == k { let j = choose|j: int| 0 <= j < b.len() && b[j].0 == k; let i = choose|i: int| 0 <= i < a.len() && a[i] == b[j]; assert(a[i].0 == k); }
    }
    assert forall|k: Revision| x.contains_key(k) implies x[k] == y[k] by {
        if m.contains_key(k) { } else {
            let i = choose|i: int| 0 <= i < a.len() && a[i].0 == k;
            let j = choose|j: int| 0 <= j < b.len() && a[i] == b[j];
            assert(x[a[i].0] == a[i].1); assert(y[b[j].0] == b[j].1);
        }
    }
}
/// C05: the winner is unique on well-formed revisions — two validated views of the same map agree
pub proof fn lemma_winner_unique(m: RevMap, w1: Option<Revision>, w2: Option<Revision>)
    requires is_winner(m, w1), is_winner(m, w2),
        forall|l: Revision| #[trigger] live(m, l) ==> wf(l@),
    ensures match (w1, w2) { (Some(a), Some(b)) => a@ == b@, (None, None) => true, _ => false },
{
    match (w1, w2) {
        (Some(a), Some(b)) => { lemma_cmp_antisym(a@, b@); lemma_cmp_equal_iff_eq(a@, b@); }
        _ => {}
    }
}
/// C05: "in conflict" == more than one live leaf; the conflicting revisions are the live leaves other than the winner
pub open spec fn conflicting(m: RevMap, w: Revision, r: Revision) -> bool { live(m, r) && r != w }
pub proof fn lemma_conflict_iff_two_live_leaves(m: RevMap, w: Revision)
    requires is_winner(m, Some(w)),
    ensures (exists|r: Revision| conflicting(m, w, r)) <==> (exists|a: Revision, b: Revision| live(m, a) && live(m, b) && a != b),
{
    if exists|a: Revision, b: Revision| live(m, a) && live(m, b) && a != b {
        let (a, b) = choose|a: Revision, b: Revision| live(m, a) && live(m, b) && a != b;
        if a != w { assert(conflicting(m, w, a)); } else { assert(conflicting(m, w, b)); }
    }
    if exists|r: Revision| conflicting(m, w, r) {
        let r = choose|r: Revision| conflicting(m, w, r);
        assert(live(m, r) && live(m, w) && r != w);
    }
}
/// C15: staged additions on top of a tree without staged entries are exactly undone by dropping staged entries
pub proof fn lemma_unstage_restores(m0: RevMap, m1: RevMap)
    requires
        forall|k: Revision| #[trigger] m0.contains_key(k) ==> !m0[k].staging && m1.contains_key(k) && m1[k] == m0[k],
        forall|k: Revision| #[trigger] m1.contains_key(k) && !m0.contains_key(k) ==> m1[k].staging,
    ensures is_unstaged_part(m1, m0),
{ }
pub proof fn lemma_unstaged_part_unique(m: RevMap, a: RevMap, b: RevMap)
    requires is_unstaged_part(m, a), is_unstaged_part(m, b),
    ensures a =~= b,
{ }

// ---------------------------------------------------------------- shims (assumed contracts; listed in evidence)
// derive(Clone) on Revision
#[verifier::external_body]
pub fn vx_rev_clone(r: &Revision) -> (c: Revision)
    ensures c == *r,
{ unimplemented!() }

// R17: `&a > b` on Revision goes through PartialOrd -> Ord::cmp; here: the extracted cmp (verified wrapper)
pub fn vx_rev_gt(a: &Revision, b: &Revision) -> (r: bool)
    ensures r == (spec_cmp(a@, b@) == std::cmp::Ordering::Greater),
{
    match a.cmp(b) { std::cmp::Ordering::Greater => true, _ => false }
}

// R13: `r as *const Revision` used as memo key; the key identifies the revision it points to
// (assumes no revision is moved or mutated while validate runs — true: the map is borrowed shared)
#[verifier::external_body]
pub struct PtrKey { p: *const Revision }
#[verifier::external] impl std::hash::Hash for PtrKey { fn hash<H: std::hash::Hasher>(&self, _s: &mut H) { unimplemented!() } }
#[verifier::external] impl PartialEq for PtrKey { fn eq(&self, _o: &Self) -> bool { unimplemented!() } }
#[verifier::external] impl Eq for PtrKey {}
pub uninterp spec fn pointee(k: PtrKey) -> Revision;
#[verifier::external_body]
pub fn vx_ptr_key(r: &Revision) -> (k: PtrKey)
    ensures pointee(k) == *r,
{ unimplemented!() }
pub open spec fn cache_ok(c: Map<PtrKey, bool>, m: RevMap) -> bool {
    forall|k: PtrKey| #[trigger] c.contains_key(k) ==> c[k] == reaches_root(m, pointee(k))
}

// R12: `revisions.values().filter_map(|e| e.get_parent().as_ref()).collect::<HashSet<&Revision>>()`
// replaced by its meaning: the set of all revisions named as parent by some entry
#[verifier::external_body]
pub struct ParentSet<'a> { s: std::collections::HashSet<&'a Revision> }
impl<'a> ParentSet<'a> {
    pub uninterp spec fn has(&self, r: Revision) -> bool;
}
#[verifier::external_body]
pub fn vx_collect_parents<'a>(m: &'a HashMap<Revision, RevisionTreeEntry>) -> (s: ParentSet<'a>)
    ensures forall|r: Revision| #[trigger] s.has(r) <==> is_parent(m@, r),
{ unimplemented!() }
#[verifier::external_body]
pub fn vx_parents_contains(s: &ParentSet, r: &Revision) -> (b: bool)
    ensures b == s.has(*r),
{ unimplemented!() }

// R18: iteration over `HashMap::keys()` = an ARBITRARY duplicate-free enumeration of the key set
#[verifier::external_body]
pub fn vx_keys_snapshot<'a>(m: &'a HashMap<Revision, RevisionTreeEntry>) -> (v: Vec<&'a Revision>)
    ensures
        forall|k: Revision| m@.contains_key(k) <==> (exists|j: int| 0 <= j < v.len() && *#[trigger] v@[j] == k),
        forall|i: int, j: int| 0 <= i < j < v.len() ==> *v@[i] != *v@[j],
{ unimplemented!() }

// R12: `for entry in revisions.values_mut() { entry.commit(); }` — every value gets RevisionTreeEntry::commit's postcondition
#[verifier::external_body]
pub fn vx_values_mut_commit(m: &mut HashMap<Revision, RevisionTreeEntry>)
    ensures
        forall|k: Revision| final(m)@.contains_key(k) <==> old(m)@.contains_key(k),
        forall|k: Revision| #[trigger] final(m)@.contains_key(k) ==> entry_commit_post(old(m)@[k], final(m)@[k]),
{ unimplemented!() }
pub open spec fn entry_commit_post(before: RevisionTreeEntry, after: RevisionTreeEntry) -> bool {
    after.parent == before.parent && !after.staging
}

// R12: `revisions.retain(|_, entry| !entry.is_staging())`
#[verifier::external_body]
pub fn vx_retain_not_staging(m: &mut HashMap<Revision, RevisionTreeEntry>)
    ensures is_unstaged_part(old(m)@, final(m)@),
{ unimplemented!() }

// `panic!(..)`: reaching it is a violated precondition
#[verifier::external_body]
pub fn vx_panic() -> !
    requires false,
{ panic!() }

pub proof fn lemma_cmp_le_trans(a: RevV, b: RevV, c: RevV)
    requires spec_cmp(a, b) != std::cmp::Ordering::Greater, spec_cmp(b, c) != std::cmp::Ordering::Greater,
    ensures spec_cmp(a, c) != std::cmp::Ordering::Greater,
{
    let x = rev_str(a); let y = rev_str(b); let z = rev_str(c);
    lemma_lex_irrefl(x); lemma_lex_irrefl(y); lemma_lex_irrefl(z);
    lemma_lex_total(x, y); lemma_lex_total(y, z); lemma_lex_total(x, z);
    if lex_lt(x, y) && lex_lt(y, z) { lemma_lex_trans(x, y, z); }
    if lex_lt(z, x) && lex_lt(x, y) { lemma_lex_trans(z, x, y); lemma_lex_asym(z, y); }
    if lex_lt(y, z) && lex_lt(z, x) { lemma_lex_trans(y, z, x); lemma_lex_asym(y, x); }
}

/// C18 (hash order): `validate` iterates a HashMap in an arbitrary order, yet ANY two validated trees over the same
/// recorded set expose the same leaves and the same winner
pub proof fn lemma_validate_order_free(t1: RevisionTree, t2: RevisionTree)
    requires
        t1.revisions@ == t2.revisions@, validated_ok(t1), validated_ok(t2),
        forall|l: Revision| #[trigger] live(t1.revisions@, l) ==> wf(l@),
    ensures
        t1.leafs_cache@ =~= t2.leafs_cache@,
        match (t1.winner_cache, t2.winner_cache) { (Some(a), Some(b)) => a@ == b@, (None, None) => true, _ => false },
{
    lemma_winner_unique(t1.revisions@, t1.winner_cache, t2.winner_cache);
    assert forall|r: Revision| t1.leafs_cache@.contains(r) <==> t2.leafs_cache@.contains(r) by {
        assert(t1.leafs_cache@.contains(r) <==> live(t1.revisions@, r));
        assert(t2.leafs_cache@.contains(r) <==> live(t2.revisions@, r));
    }
}
