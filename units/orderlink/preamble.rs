// ---- unit `orderlink`: Melda::get_merged_order_at_revision (src/melda.rs) verified against the PROVED contract of
// Melda::rebuild_array_order (unit `chain`, included and re-verified here) — no assumed contract for rebuild_array_order.
// Included: `chain` (-> `tree` -> `rev`, `patch`): Revision, RevisionTree, Value, VxError, struct Melda (data + LRU shim),
// spec_order / chain_ok / cache_inv, `global size_of usize == 8`.  None of these is redefined here.
//
// utils::merge_arrays is verified here from its real body with the contract of unit `merge` (same [[fn]] entry, same
// lemmas).  Unit `merge` cannot be `include`d next to unit `patch`: both preambles define `struct Value` and `vx_at`
// (the generator concatenates preambles into one module).  Part A below is therefore unit merge's preamble VERBATIM minus
// its `struct Value` (patch's opaque `Value` is used: same assumption, R14) and with its `vx_at` (the version with the
// prefix-membership facts) renamed `vx_at_m` (rule RVA renames the calls in merge_arrays; `vx_at` stays patch's).

// ======================================================================= Part A: from units/merge/preamble.rs
// R14: the array element type is opaque; `==` on it is spec equality, `clone` preserves it (assumed).
#[verifier::external_body]
pub fn vx_elem_eq(a: &Value, b: &Value) -> (r: bool)
    ensures r == (*a == *b),
{ unimplemented!() }

#[verifier::external_body]
pub fn vx_clone(a: &Value) -> (r: Value)
    ensures r == *a,
{ unimplemented!() }

pub open spec fn no_dup(s: Seq<Value>) -> bool { forall|i: int, j: int| 0 <= i < j < s.len() ==> s[i] != s[j] }

// a is a subsequence of b, witnessed by a strictly increasing position map
pub open spec fn embeds(a: Seq<Value>, b: Seq<Value>, pos: Seq<int>) -> bool {
    pos.len() == a.len()
    && (forall|i: int| 0 <= i < a.len() ==> 0 <= #[trigger] pos[i] < b.len() && b[pos[i]] == a[i])
    && (forall|i: int, j: int| 0 <= i < j < a.len() ==> pos[i] < pos[j])
}
pub open spec fn is_subseq(a: Seq<Value>, b: Seq<Value>) -> bool { exists|pos: Seq<int>| embeds(a, b, pos) }

pub proof fn lemma_subseq_insert(a: Seq<Value>, b: Seq<Value>, k: int, v: Value)
    requires is_subseq(a, b), 0 <= k <= b.len(),
    ensures is_subseq(a, b.insert(k, v)),
{
    let pos = choose|pos: Seq<int>| embeds(a, b, pos);
    let pos2 = Seq::new(a.len(), |i: int| if pos[i] >= k { pos[i] + 1 } else { pos[i] });
    assert(embeds(a, b.insert(k, v), pos2));
}

pub proof fn lemma_subseq_refl(a: Seq<Value>)
    ensures is_subseq(a, a),
{
    let pos = Seq::new(a.len(), |i: int| i);
    assert(embeds(a, a, pos));
}

pub proof fn lemma_subseq_empty(b: Seq<Value>)
    ensures is_subseq(Seq::<Value>::empty(), b),
{
    assert(embeds(Seq::<Value>::empty(), b, Seq::<int>::empty()));
}

pub proof fn lemma_insert_props(b: Seq<Value>, k: int, v: Value)
    requires 0 <= k <= b.len(),
    ensures
        forall|x: Value| b.insert(k, v).contains(x) <==> (b.contains(x) || x == v),
        (no_dup(b) && !b.contains(v)) ==> no_dup(b.insert(k, v)),
{
    let c = b.insert(k, v);
    assert forall|x: Value| c.contains(x) <==> (b.contains(x) || x == v) by {
        if c.contains(x) {
            let i = choose|i: int| 0 <= i < c.len() && c[i] == x;
            if i < k { assert(b[i] == x); } else if i == k { } else { assert(b[i - 1] == x); }
        }
        if b.contains(x) {
            let i = choose|i: int| 0 <= i < b.len() && b[i] == x;
            if i < k { assert(c[i] == x); } else { assert(c[i + 1] == x); }
        }
        if x == v { assert(c[k] == v); }
    }
    if no_dup(b) && !b.contains(v) {
        assert forall|i: int, j: int| 0 <= i < j < c.len() implies c[i] != c[j] by {
            let bi = if i < k { i } else { i - 1 };
            let bj = if j < k { j } else { j - 1 };
            if i == k { assert(c[j] == b[bj]); assert(b.contains(b[bj])); }
            else if j == k { assert(c[i] == b[bi]); assert(b.contains(b[bi])); }
            else { assert(c[i] == b[bi] && c[j] == b[bj]); }
        }
    }
}

pub proof fn lemma_subrange_push(m: Seq<Value>, i: int)
    requires 0 <= i < m.len(),
    ensures forall|x: Value| m.subrange(0, i + 1).contains(x) <==> (m.subrange(0, i).contains(x) || x == m[i]),
{
    let a = m.subrange(0, i); let b = m.subrange(0, i + 1);
    assert forall|x: Value| b.contains(x) <==> (a.contains(x) || x == m[i]) by {
        if b.contains(x) { let j = choose|j: int| 0 <= j < b.len() && b[j] == x; if j < i { assert(a[j] == x); } }
        if a.contains(x) { let j = choose|j: int| 0 <= j < a.len() && a[j] == x; assert(b[j] == x); }
        if x == m[i] { assert(b[i] == x); }
    }
}

// R4: `E.iter().position(|e| *e == *t)` — first index holding t, or None (verified against vx_elem_eq)
pub fn vx_position(v: &Vec<Value>, t: &Value) -> (r: Option<usize>)
    ensures match r {
        Some(p) => p < v.len() && v@[p as int] == *t && forall|i:int| 0 <= i < p ==> v@[i] != *t,
        None => !v@.contains(*t),
    }
{
    let mut i: usize = 0;
    while i < v.len()
        invariant i <= v.len(), forall|k:int| 0 <= k < i ==> v@[k] != *t,
        decreases v.len() - i,
    {
        if vx_elem_eq(&v[i], t) { return Some(i); }
        i += 1;
    }
    None
}

// R5: `Vec::insert` with the membership / no-duplicate / subsequence facts callers need (verified against std spec)
pub fn vx_vec_insert(v: &mut Vec<Value>, k: usize, x: Value)
    requires k <= old(v).len(),
    ensures
        final(v)@ == old(v)@.insert(k as int, x),
        final(v).len() == old(v).len() + 1,
        forall|y: Value| final(v)@.contains(y) <==> (old(v)@.contains(y) || y == x),
        (no_dup(old(v)@) && !old(v)@.contains(x)) ==> no_dup(final(v)@),
        forall|a: Seq<Value>| #[trigger] is_subseq(a, old(v)@) ==> is_subseq(a, final(v)@),
{
    proof {
        lemma_insert_props(v@, k as int, x);
        assert forall|a: Seq<Value>| #[trigger] is_subseq(a, v@) implies is_subseq(a, v@.insert(k as int, x)) by {
            lemma_subseq_insert(a, v@, k as int, x);
        }
    }
    v.insert(k, x);
}

// R1/R2: `&E[i]` with the prefix-membership facts loop invariants over E[..i] need (verified)
pub fn vx_at_m<'a>(m: &'a [Value], i: usize) -> (t: &'a Value)
    requires i < m.len(),
    ensures *t == m@[i as int],
        forall|x: Value| m@.subrange(0, i + 1).contains(x) <==> (m@.subrange(0, i as int).contains(x) || x == m@[i as int]),
        m@.subrange(0, m.len() as int) == m@,
{
    proof { lemma_subrange_push(m@, i as int); }
    &m[i]
}

// ==== 4th clause: the order of M is preserved when M and N agree on the order of their common elements ====

// the elements common to a and b appear in the same relative order in both
// (whenever a[i] occurs in b at k and a[j] occurs in b at l, i < j forces k < l)
pub open spec fn compatible(a: Seq<Value>, b: Seq<Value>) -> bool {
    forall|i: int, j: int, k: int, l: int| #![trigger a[i], a[j], b[k], b[l]]
        0 <= i < j < a.len() && 0 <= k < b.len() && 0 <= l < b.len() && a[i] == b[k] && a[j] == b[l] ==> k < l
}

// position of x in s (meaningful when s.contains(x); unique when no_dup(s))
pub open spec fn idx_of(s: Seq<Value>, x: Value) -> int { choose|i: int| 0 <= i < s.len() && s[i] == x }

pub proof fn lemma_idx_of(s: Seq<Value>, x: Value)
    requires s.contains(x),
    ensures 0 <= idx_of(s, x) < s.len(), s[idx_of(s, x)] == x,
{ }

pub proof fn lemma_idx_unique(s: Seq<Value>, k: int)
    requires no_dup(s), 0 <= k < s.len(),
    ensures idx_of(s, s[k]) == k, s.contains(s[k]),
{
    assert(s.contains(s[k]));
    lemma_idx_of(s, s[k]);
}

// inserting a fresh element shifts the positions at or after k by one and leaves the others alone
pub proof fn lemma_idx_insert(s: Seq<Value>, k: int, v: Value, x: Value)
    requires no_dup(s), !s.contains(v), 0 <= k <= s.len(), s.contains(x),
    ensures
        s.insert(k, v).contains(x),
        idx_of(s.insert(k, v), x) == (if idx_of(s, x) >= k { idx_of(s, x) + 1 } else { idx_of(s, x) }),
{
    let s2 = s.insert(k, v);
    lemma_insert_props(s, k, v);
    lemma_idx_of(s, x);
    let i = idx_of(s, x);
    let i2 = if i >= k { i + 1 } else { i };
    assert(s2[i2] == x);
    lemma_idx_unique(s2, i2);
}

pub proof fn lemma_idx_insert_new(s: Seq<Value>, k: int, v: Value)
    requires no_dup(s), !s.contains(v), 0 <= k <= s.len(),
    ensures idx_of(s.insert(k, v), v) == k, no_dup(s.insert(k, v)),
{
    let s2 = s.insert(k, v);
    lemma_insert_props(s, k, v);
    assert(s2[k] == v);
    lemma_idx_unique(s2, k);
}

// a subsequence embedding into a duplicate-free sequence preserves relative order
pub proof fn lemma_order_preserved(a: Seq<Value>, b: Seq<Value>, x: Value, y: Value)
    requires is_subseq(a, b), no_dup(b), a.contains(x), a.contains(y), idx_of(a, x) < idx_of(a, y),
    ensures b.contains(x), b.contains(y), idx_of(b, x) < idx_of(b, y),
{
    let pos = choose|pos: Seq<int>| embeds(a, b, pos);
    lemma_idx_of(a, x); lemma_idx_of(a, y);
    let i = idx_of(a, x); let j = idx_of(a, y);
    assert(b[pos[i]] == x && b[pos[j]] == y);
    lemma_idx_unique(b, pos[i]);
    lemma_idx_unique(b, pos[j]);
}

// compatible, in terms of idx_of
pub proof fn lemma_compatible_idx(a: Seq<Value>, b: Seq<Value>, i: int, j: int)
    requires compatible(a, b), 0 <= i < j < a.len(), b.contains(a[i]), b.contains(a[j]),
    ensures idx_of(b, a[i]) < idx_of(b, a[j]),
{
    lemma_idx_of(b, a[i]); lemma_idx_of(b, a[j]);
    let k = idx_of(b, a[i]); let l = idx_of(b, a[j]);
    assert(a[i] == b[k] && a[j] == b[l]);
}

// State of the main loop of merge_arrays after c elements of m were processed (n0 = N at entry, n = N now,
// ins = ins_pos_in_n, piv = pivot_pos_in_m):
//  c == 0: nothing inserted yet; piv is the first element of m that occurs in n0 (m.len() if none), found at ins
//  c >= 1: I1 n[ins] is the element processed last; the pre-pivot branch is dead (piv == 0)
//  I2: m[0..c] occurs in n in order
//  I3: the elements of m still to come that are already in n all sit strictly after ins
pub open spec fn merge_inv(m: Seq<Value>, n0: Seq<Value>, n: Seq<Value>, c: int, ins: int, piv: int) -> bool {
    &&& 0 <= c <= m.len() && 0 <= ins < n.len()
    &&& (c == 0 ==> n == n0 && 0 <= piv <= m.len()
            && (forall|j: int| 0 <= j < piv ==> !n0.contains(#[trigger] m[j]))
            && (piv < m.len() ==> n[ins] == m[piv]))
    &&& (c >= 1 ==> piv == 0 && n[ins] == m[c - 1])
    &&& (forall|i: int, j: int| 0 <= i < j < c ==> idx_of(n, #[trigger] m[i]) < idx_of(n, #[trigger] m[j]))
    &&& (c >= 1 ==> forall|j: int| c <= j < m.len() && n0.contains(#[trigger] m[j]) ==> idx_of(n, m[j]) > ins)
}

// one iteration of the main loop on t = m[c], as a relation on (n, ins, piv)
pub open spec fn merge_step(t: Value, n: Seq<Value>, c: int, ins: int, piv: int, n2: Seq<Value>, ins2: int, piv2: int) -> bool {
    ||| (0 <= ins2 < n.len() && n[ins2] == t && n2 == n && piv2 == piv)
    ||| (!n.contains(t) && c < piv && n2 == n.insert(ins, t) && ins2 == ins && piv2 == c)
    ||| (!n.contains(t) && c >= piv && n2 == n.insert(ins + 1, t) && ins2 == ins + 1 && piv2 == piv)
}

pub open spec fn merge_members(m: Seq<Value>, n0: Seq<Value>, n: Seq<Value>, c: int) -> bool {
    forall|x: Value| n.contains(x) <==> (n0.contains(x) || m.subrange(0, c).contains(x))
}

pub proof fn lemma_merge_prefix(m: Seq<Value>, n0: Seq<Value>, n: Seq<Value>, c: int)
    requires no_dup(m), 0 <= c <= m.len(), merge_members(m, n0, n, c),
    ensures
        forall|i: int| 0 <= i < c ==> n.contains(#[trigger] m[i]),
        forall|j: int| c <= j < m.len() ==> (n.contains(#[trigger] m[j]) <==> n0.contains(m[j])),
{
    let p = m.subrange(0, c);
    assert forall|i: int| 0 <= i < c implies n.contains(#[trigger] m[i]) by { assert(p[i] == m[i]); assert(p.contains(m[i])); }
    assert forall|j: int| c <= j < m.len() implies (n.contains(#[trigger] m[j]) <==> n0.contains(m[j])) by {
        if p.contains(m[j]) { let i = choose|i: int| 0 <= i < p.len() && p[i] == m[j]; assert(m[i] == m[j]); }
    }
}

pub proof fn lemma_merge_step(m: Seq<Value>, n0: Seq<Value>, n: Seq<Value>, c: int, ins: int, piv: int, n2: Seq<Value>, ins2: int, piv2: int)
    requires
        no_dup(m), no_dup(n0), no_dup(n), 0 <= c < m.len(),
        is_subseq(n0, n), merge_members(m, n0, n, c), compatible(m, n0),
        merge_inv(m, n0, n, c, ins, piv),
        merge_step(m[c], n, c, ins, piv, n2, ins2, piv2),
    ensures merge_inv(m, n0, n2, c + 1, ins2, piv2),
{
    let t = m[c];
    lemma_merge_prefix(m, n0, n, c);
    if c >= 1 { lemma_idx_unique(n, ins); }
    // the processed prefix sits at positions <= ins
    assert forall|i: int| 0 <= i < c implies idx_of(n, #[trigger] m[i]) <= ins by { }
    if 0 <= ins2 < n.len() && n[ins2] == t && n2 == n && piv2 == piv {
        lemma_merge_step_found(m, n0, n, c, ins, piv, ins2);
    } else if !n.contains(t) && c < piv {
        lemma_merge_step_pre(m, n0, n, c, ins, piv);
    } else {
        lemma_merge_step_post(m, n0, n, c, ins, piv);
    }
}

pub proof fn lemma_merge_step_found(m: Seq<Value>, n0: Seq<Value>, n: Seq<Value>, c: int, ins: int, piv: int, ins2: int)
    requires
        no_dup(m), no_dup(n0), no_dup(n), 0 <= c < m.len(),
        is_subseq(n0, n), merge_members(m, n0, n, c), compatible(m, n0),
        merge_inv(m, n0, n, c, ins, piv),
        0 <= ins2 < n.len(), n[ins2] == m[c],
    ensures merge_inv(m, n0, n, c + 1, ins2, piv),
{
    let t = m[c];
    lemma_merge_prefix(m, n0, n, c);
    lemma_idx_unique(n, ins2);
    assert(n0.contains(t));
    if c >= 1 { lemma_idx_unique(n, ins); }
    assert(piv == 0);
    assert forall|i: int, j: int| 0 <= i < j < c + 1 implies idx_of(n, #[trigger] m[i]) < idx_of(n, #[trigger] m[j]) by {
        if j == c {
            assert(idx_of(n, m[c]) > ins);
            if i < c - 1 { assert(idx_of(n, m[i]) < idx_of(n, m[c - 1])); }
        }
    }
    assert forall|j: int| c + 1 <= j < m.len() && n0.contains(#[trigger] m[j]) implies idx_of(n, m[j]) > ins2 by {
        lemma_compatible_idx(m, n0, c, j);
        lemma_order_preserved(n0, n, t, m[j]);
    }
}

pub proof fn lemma_merge_step_pre(m: Seq<Value>, n0: Seq<Value>, n: Seq<Value>, c: int, ins: int, piv: int)
    requires
        no_dup(m), no_dup(n0), no_dup(n), 0 <= c < m.len(),
        is_subseq(n0, n), merge_members(m, n0, n, c), compatible(m, n0),
        merge_inv(m, n0, n, c, ins, piv),
        !n.contains(m[c]), c < piv,
    ensures merge_inv(m, n0, n.insert(ins, m[c]), c + 1, ins, c),
{
    let t = m[c];
    let n2 = n.insert(ins, t);
    assert(c == 0 && n == n0);
    lemma_idx_insert_new(n, ins, t);
    assert(n2[ins] == t);
    assert forall|j: int| 1 <= j < m.len() && n0.contains(#[trigger] m[j]) implies idx_of(n2, m[j]) > ins by {
        lemma_idx_insert(n, ins, t, m[j]);
        assert(j >= piv);
        if j == piv { lemma_idx_unique(n, ins); }
        else {
            assert(n0.contains(m[piv])) by { lemma_idx_unique(n, ins); }
            lemma_compatible_idx(m, n0, piv, j);
            lemma_idx_unique(n, ins);
        }
    }
}

pub proof fn lemma_merge_step_post(m: Seq<Value>, n0: Seq<Value>, n: Seq<Value>, c: int, ins: int, piv: int)
    requires
        no_dup(m), no_dup(n0), no_dup(n), 0 <= c < m.len(),
        is_subseq(n0, n), merge_members(m, n0, n, c), compatible(m, n0),
        merge_inv(m, n0, n, c, ins, piv),
        !n.contains(m[c]), c >= piv,
    ensures merge_inv(m, n0, n.insert(ins + 1, m[c]), c + 1, ins + 1, piv),
{
    let t = m[c];
    let n2 = n.insert(ins + 1, t);
    lemma_merge_prefix(m, n0, n, c);
    if c == 0 { assert(n[ins] == t); assert(n.contains(t)); }
    assert(c >= 1);
    lemma_idx_unique(n, ins);
    lemma_idx_insert_new(n, ins + 1, t);
    assert(n2[ins + 1] == t);
    assert forall|i: int| 0 <= i < c implies idx_of(n2, #[trigger] m[i]) == idx_of(n, m[i]) && idx_of(n, m[i]) <= ins by {
        lemma_idx_insert(n, ins + 1, t, m[i]);
        if i < c - 1 { assert(idx_of(n, m[i]) < idx_of(n, m[c - 1])); }
    }
    assert forall|i: int, j: int| 0 <= i < j < c + 1 implies idx_of(n2, #[trigger] m[i]) < idx_of(n2, #[trigger] m[j]) by { }
    assert forall|j: int| c + 1 <= j < m.len() && n0.contains(#[trigger] m[j]) implies idx_of(n2, m[j]) > ins + 1 by {
        lemma_idx_insert(n, ins + 1, t, m[j]);
    }
}

pub proof fn lemma_merge_final(m: Seq<Value>, n0: Seq<Value>, n: Seq<Value>, ins: int, piv: int)
    requires no_dup(m), no_dup(n), merge_members(m, n0, n, m.len() as int), merge_inv(m, n0, n, m.len() as int, ins, piv),
    ensures is_subseq(m, n),
{
    lemma_merge_prefix(m, n0, n, m.len() as int);
    let pos = Seq::new(m.len(), |i: int| idx_of(n, m[i]));
    assert forall|i: int| 0 <= i < m.len() implies 0 <= #[trigger] pos[i] < n.len() && n[pos[i]] == m[i] by {
        lemma_idx_of(n, m[i]);
    }
    assert(embeds(m, n, pos));
}

// ======================================================================= Part B: from units/order/preamble.rs, adapted
// (`spec_order` is unit chain's DEFINED function of the tree, the store and the revision; `struct Melda`, `VxError` are chain's)

/// R18 for an ORDERED set: `for l in leafs` over a BTreeSet visits every element once, in ascending order of `Ord::cmp`
/// (= spec_cmp, proved for the extracted cmp in unit `rev`)   [ASSUMED, same shim as in unit `order`]
#[verifier::external_body]
pub fn vx_bset_sorted<'a>(s: &'a BTreeSet<Revision>) -> (v: Vec<&'a Revision>)
    ensures
        forall|i: int| 0 <= i < v.len() ==> s@.contains(*#[trigger] v@[i]),
        forall|r: Revision| s@.contains(r) ==> exists|i: int| 0 <= i < v.len() && *#[trigger] v@[i] == r,
        forall|i: int, j: int| 0 <= i < j < v.len() ==> spec_cmp(v@[i]@, v@[j]@) == std::cmp::Ordering::Less,
        v.len() == s@.len(),
{ unimplemented!() }
/// `BTreeSet::len`   [ASSUMED, same shim as in unit `order`]
#[verifier::external_body]
pub fn vx_bset_len(s: &BTreeSet<Revision>) -> (n: usize) ensures n == s@.len() { unimplemented!() }

/// what merge_arrays computes, as a relation (its proved contract): no duplicates, union of elements, base order kept
pub open spec fn merged(m: Seq<Value>, n0: Seq<Value>, n1: Seq<Value>) -> bool {
    &&& no_dup(n1)
    &&& forall|x: Value| n1.contains(x) <==> (n0.contains(x) || m.contains(x))
    &&& is_subseq(n0, n1)
}
/// the fold over the ascending leaf sequence: acc_k is the base order merged with the first k leaf orders
/// (orders are those DEFINED by the stored descriptor chains: `spec_order(tree, store, revision)`)
pub open spec fn fold_ok(t: RevMap, objs: Objs, base: Seq<Value>, leaves: Seq<&Revision>, k: int, acc: Seq<Value>) -> bool {
    &&& no_dup(acc) || k == 0
    &&& forall|x: Value| acc.contains(x) <==> (base.contains(x) || exists|j: int| 0 <= j < k && #[trigger] spec_order(t, objs, *leaves[j]).contains(x))
    &&& is_subseq(base, acc)
}
pub proof fn lemma_subseq_trans(a: Seq<Value>, b: Seq<Value>, c: Seq<Value>)
    requires is_subseq(a, b), is_subseq(b, c),
    ensures is_subseq(a, c),
{
    let p1 = choose|p: Seq<int>| embeds(a, b, p);
    let p2 = choose|p: Seq<int>| embeds(b, c, p);
    let p = Seq::new(a.len(), |i: int| p2[p1[i]]);
    assert(embeds(a, c, p));
}
