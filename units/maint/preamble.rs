// ---- unit `maint`: maintenance operations do not change what a replica shows — property C12 ----
// "Operations that do not express a user edit never change the document a replica shows: committing (including the automatic
//  resolution of array conflicts it performs), taking full snapshots of arrays, melding without refreshing, and refreshing or
//  reloading while storage holds nothing the replica has not already applied all leave the result of reading unchanged."
//
// SCOPE (narrow, stated honestly).  `Melda::read` itself (rayon `par_iter`, recursive `unflatten` over serde_json::Value) is outside
// Verus.  What `read` CONSUMES of the replica is, for every object uuid: whether it is known, the winner of its tree, whether that
// winner is a deletion, and `read_object_at_revision(uuid, tree, winner)` — plain object: an object storage holds for the winner;
// flattened array: the full descriptor of the merged order at the winner.  That is the VISIBLE STATE of this unit (`same_shown` /
// `same_visible`, section 4; for a plain object also the winner's identifier and the set of live leaves, i.e. its conflict status).
// For a flattened array the identity of the winner and the conflict status are NOT part of it: snapshots and the automatic
// resolution change them by design, `read` does not show them.  The unit proves that the visible state is the same before and after
//   (a) `Melda::stage_full_snapshot`   — FROM THE REAL CODE (re-extracted on every run): contract `snap_rel` (sections 1-5, this file),
//                                        then `cor::lemma_snapshot_keeps_visible` (also for arrays IN CONFLICT: `lemma_superseq_same_elems`)
//   (b) `Melda::commit`                — over commit's contract TRANSPORTED from unit `commit` (`cor::commit_via`) and resolve_as's PROVED
//                                        contract (unit resolve, re-verified here) for the automatic resolution: `cor::lemma_commit_keeps_visible`
//   (c) `Melda::meld`                  — over meld's contract TRANSPORTED from unit `meld` (`cor::meld_effect`): `cor::lemma_meld_keeps_visible`
//   (d) `Melda::refresh` / `reload`    — over refreshm's contract TRANSPORTED from unit `refreshm`: `cor::lemma_refresh_nothing_new`,
//                                        `cor::lemma_reload_nothing_new` (order-independence of the fold over blocks, from unit tree's
//                                        lemma_build_order_free), `cor::lemma_same_trees_keep_visible`
// Units commit / meld / refreshm are built on other mirrors of `struct Melda` / `DataStorage` / `Revision` (the preambles collide), so
// their contracts cannot be included; the transported text is quoted at each item ("ASSUMED HERE, PROVED IN unit X as Y").
// LAYOUT: this file = what the extracted function needs; the corollaries (sections 6-10) are the `postamble` of contracts.toml, in a
// module `cor` of their own (Verus builds the solver context per module: the corollaries cannot disturb the proofs of the included
// functions — Melda::resolve_as of unit resolve is sensitive to its context).  The framework's lemma twins cover this file only.
//
// Included: unit `resolve` (-> `edit` -> `tree` -> `rev`), everything re-verified in this file.
// ASSUMED in this unit (every `#[verifier::external_body]` item below, numbered Mx):
//   M1 vx_docs_entries / M2 vx_docs_tree_mut    — iteration of `documents` / access to one tree through its mutex (std; SOURCE: unit commit)
//   M3 Melda::read_array_descriptor, M4 ArrayDescriptor::is_diff — ASSUMED HERE, PROVED IN unit `chain`
//   M5 vx_write_object                          — DataStorage::write_object, ASSUMED HERE, PROVED IN unit `pack` (more of its contract than unit edit's shim states)
//   M6 axiom_order_frame, M7 axiom_cache_frame  — ASSUMED HERE, PROVED IN unit `chain` as lemma_frame / lemma_cache_inv_grows (M6 GENERALISED, see there)
//   M8 axiom_full_reconstructs, M9 axiom_script_reconstructs — ASSUMED HERE, PROVED IN unit `chain` as lemma_stored_full_reconstructs / lemma_stored_version_reconstructs
//   M10 axiom_merged_order                      — the contract of get_merged_order_at_revision (ASSUMED in unit resolve, PROVED IN unit `orderlink`) as a property of the FUNCTION `spec_merged_order`
//   M11 axiom_merged_order_frame                — `spec_merged_order` is a function of the live leaves and of the orders they / the base reconstruct to (determinism of the body)
// and, as named HYPOTHESES of the corollaries (not axioms): `cor::snap_hyp`, `cor::commit_hyp`, the replica invariants of section 9, and the
// transported effects `cor::commit_via` / `cor::auto_rel` / `cor::meld_effect` / `cor::refreshed_trees`.
// Modelling (R6): lock erasure, single-threaded SEQUENTIAL meaning, as in units edit / resolve / commit.

// ================================================================ 1. iteration of `documents`, access to one tree (std + lock erasure)
/// M1.  SOURCE: unit `commit` (`vx_docs_entries`, text copied).  `for (uuid, rt) in self.documents.read().unwrap().iter()` = an
/// enumeration of the entries, each key once.  In the real code the values are `&Mutex<RevisionTree>` (interior mutability: the
/// trees may be changed through their mutex while the iteration goes on); after lock erasure the values are `&RevisionTree`
/// SNAPSHOTS whose lifetime is not tied to the map.  stage_full_snapshot's loop contracts PROVE that every tree read through the
/// snapshot is still the current tree of that object.
#[verifier::external_body]
pub fn vx_docs_entries<'a, 'b>(m: &'a BTreeMap<String, RevisionTree>) -> (v: Vec<(&'b String, &'b RevisionTree)>)
    ensures ents_ok(dmap(*m), v@),
{ unimplemented!() }
pub type Ents<'a> = Seq<(&'a String, &'a RevisionTree)>;
pub open spec fn ents_ok(d: Docs, ents: Ents) -> bool {
    &&& forall|i: int| 0 <= i < ents.len() ==> d.contains_key(#[trigger] ents[i].0@) && *ents[i].1 == d[ents[i].0@]
    &&& forall|k: Seq<char>| d.contains_key(k) ==> exists|i: int| 0 <= i < ents.len() && #[trigger] ents[i].0@ == k
    &&& forall|i: int, j: int| 0 <= i < j < ents.len() ==> (#[trigger] ents[i]).0@ != (#[trigger] ents[j]).0@
}
/// M2.  SOURCE: unit `commit` (`vx_docs_tree_mut`, text copied; key passed as `&str`).  `rt.lock().expect(..)` on the entry of key
/// `k` followed by a mutation through the guard: exclusive access to the tree stored under `k`; nothing else in the map changes.
#[verifier::external_body]
pub fn vx_docs_tree_mut<'a>(m: &'a mut BTreeMap<String, RevisionTree>, k: &str) -> (r: &'a mut RevisionTree)
    requires dmap(*old(m)).contains_key(k@),
    ensures *r == dmap(*old(m))[k@], dmap(*final(m)) == dmap(*old(m)).insert(k@, *final(r)),
{ unimplemented!() }

// ================================================================ 2. storage: what a write keeps readable
/// every revision that can be read from d0 can be read from d1 and reads the same object(s); unit pack's precondition of
/// read_object carries over.  (True of DataStorage::write_object — the stage only gains a digest that was not known, the object
/// index and the stored items are untouched — of `pack()` — staged objects move into the index — and of every growth of the
/// storage items: unit pack.)
pub open spec fn reads_kept(d0: DataStorage, d1: DataStorage) -> bool {
    &&& forall|v: RevV| #[trigger] ds_readable(d0, v) ==> ds_readable(d1, v)
    &&& forall|v: RevV| #[trigger] ds_read_pre(d0, v) ==> ds_read_pre(d1, v)
    &&& forall|v: RevV, o: JMap| #![trigger ds_holds(d0, v, o)] #![trigger ds_holds(d1, v, o)] ds_readable(d0, v) ==> (ds_holds(d1, v, o) <==> ds_holds(d0, v, o))
}
pub proof fn lemma_reads_kept_trans(a: DataStorage, b: DataStorage, c: DataStorage)
    requires reads_kept(a, b), reads_kept(b, c),
    ensures reads_kept(a, c),
{
    assert forall|v: RevV, o: JMap| #![trigger ds_holds(a, v, o)] #![trigger ds_holds(c, v, o)] ds_readable(a, v) implies (ds_holds(c, v, o) <==> ds_holds(a, v, o)) by {
        assert(ds_readable(b, v));
        assert(ds_holds(b, v, o) <==> ds_holds(a, v, o));
        assert(ds_holds(c, v, o) <==> ds_holds(b, v, o));
    }
}
/// M5.  `DataStorage::write_object` — ASSUMED HERE, PROVED IN unit `pack` as `DataStorage::write_object`:
///   `requires cache_inv(*old(self)), !rev.special() ==> digest_of(obj) == rev.rdigest(),`
///   `ensures ret is Ok, cache_inv(*final(self)), final(self).adapter == old(self).adapter, final(self).committed_objects == old(self).committed_objects,`
///   `  final(self).applied_pack_ids == old(self).applied_pack_ids, rev.special() ==> final(self).stage == old(self).stage && ..,`
///   `  !rev.special() ==> smap(final(self).stage) == (if <digest indexed or staged> { smap(old(self).stage) } else { smap(old(self).stage).insert(rev.rdigest(), ..) })`
/// Unit edit's shim of the same function (`DataStorage::write_object`, opaque views) states `r is Ok` and `ds_stage(final) == stage_put(..)`.
/// TRANSPORTED ADDITIONS (consequences of the proved frame `adapter / committed_objects / applied_pack_ids unchanged, stage only gains a
/// digest that was not known`, over unit resolve's opaque reading vocabulary):
///   * nothing that could be read is lost or altered (`reads_kept`);
///   * the object written can be read back under the revision it was written for (staged, or — digest already known — the object
///     storage holds for it, which is `obj` by the content-addressing precondition `ds_write_pre`);
///   * the precondition survives for every (digest, object) that does not clash with what was written.
#[verifier::external_body]
pub fn vx_write_object(d: &mut DataStorage, rev: &Revision, obj: JMap) -> (r: Result<(), VxError>)
    requires ds_write_pre(*old(d), rev@.1, obj),
    ensures write_post(*old(d), *final(d), rev@, obj), r is Ok,
{ unimplemented!() }
pub open spec fn write_post(d0: DataStorage, d1: DataStorage, v: RevV, obj: JMap) -> bool {
    &&& ds_stage(d1) == stage_put(d0, v, obj)
    // first write of a digest wins (unit pack: a digest that is staged is "known"; `ds_known` of unit edit is opaque)
    &&& forall|dg: Seq<char>| #[trigger] ds_stage(d0).contains_key(dg) ==> ds_stage(d1).contains_key(dg) && ds_stage(d1)[dg] == ds_stage(d0)[dg]
    &&& reads_kept(d0, d1)
    &&& !rev_special(v) ==> ds_readable(d1, v) && ds_holds(d1, v, obj)
    &&& forall|dg: Seq<char>, o: JMap| #[trigger] ds_write_pre(d0, dg, o) && (dg == v.1 ==> o == obj) ==> ds_write_pre(d1, dg, o)
}

// ---- array descriptors as they are stored
/// the object is an edit-script descriptor `{"a": [..]}` (unit chain: `obj_desc(o)` is `Some(DescV::Diff(_))`)
pub uninterp spec fn obj_is_diff(o: JMap) -> bool;
/// `ArrayDescriptor::is_diff` (`self.patch.is_some()`), as a function of the (opaque) descriptor
pub uninterp spec fn ad_diff(d: ArrayDescriptor) -> bool;
/// descriptor `d` was parsed from an object storage holds for the revision with identifier `v`
pub open spec fn descr_read(data: DataStorage, v: RevV, d: ArrayDescriptor) -> bool {
    exists|o: JMap| #[trigger] ds_holds(data, v, o) && ad_diff(d) == obj_is_diff(o)
}
impl ArrayDescriptor {
    /// M4.  ASSUMED HERE, PROVED IN unit `chain` as `ArrayDescriptor::is_diff`: `ensures ret == self.patch.is_some()`
    #[verifier::external_body]
    pub fn is_diff(&self) -> (r: bool)
        ensures r == ad_diff(*self),
    { unimplemented!() }
}
impl Melda {
    /// M3.  ASSUMED HERE, PROVED IN unit `chain` as `Melda::read_array_descriptor`:
    ///   `requires self.data.objects().contains_key(*revision),`   (`.expect("cannot_read_base_array_descriptor")`: a PANIC otherwise)
    ///   `ensures match ret { Ok(d) => desc_wf(d) && desc_at(self.data.objects(), *revision) == Some(dview(d)), Err(_) => desc_at(..).is_none() }`
    /// TRANSPORTED to unit resolve's reading vocabulary: readable = `ds_read_pre && ds_readable` (as `read_pre` of unit resolve); of the
    /// parsed descriptor only "is an edit script" is used (`ad_diff` / `obj_is_diff`); `Err` = the object is not a descriptor.
    #[verifier::external_body]
    pub fn read_array_descriptor(&self, revision: &Revision) -> (ret: Result<ArrayDescriptor, VxError>)
        requires ds_read_pre(self.data, revision@), ds_readable(self.data, revision@),
        ensures match ret { Ok(d) => descr_read(self.data, revision@, d), Err(_) => true },
    { unimplemented!() }
}

// ================================================================ 3. array orders: what units chain / orderlink prove, over unit edit's opaque vocabulary
/// every recorded entry of `a` is recorded in `b` with the same parent (staging flags may differ)
pub open spec fn links_kept(a: RevMap, b: RevMap) -> bool {
    forall|k: Revision| #[trigger] a.contains_key(k) ==> b.contains_key(k) && b[k].parent == a[k].parent
}
/// the parent chain of `x` is the same in both trees: same recorded set, or `x` is recorded in the CLOSED tree t0 (every recorded
/// parent is recorded) and t1 keeps every recorded parent link of t0
pub open spec fn chain_kept(t0: RevisionTree, t1: RevisionTree, x: Revision) -> bool {
    ||| t1.revisions@ == t0.revisions@
    ||| (closed(t0.revisions@) && t0.revisions@.contains_key(x) && links_kept(t0.revisions@, t1.revisions@))
}
/// M6.  ASSUMED HERE, PROVED IN unit `chain` as `lemma_frame`:
///   `requires tree_wf(m), grows(m, objs, m2, objs2, r), x != r, chain_ok(m, objs, x),`
///   `ensures chain_ok(m2, objs2, x), spec_order(m2, objs2, x) == spec_order(m, objs, x)`
/// ("the order of an existing revision with a well-formed chain does not depend on later additions"; `grows` = ONE fresh revision
/// that nobody names as parent is recorded, every readable object stays readable and unchanged).
/// GENERALISED here (same induction along the parent chain; unit chain's `spec_order` / `chain_ok` read the tree only through
/// `parent_of` — the staging flags are not read — and the store only through `desc_at`): ANY number of additions to a closed tree,
/// or no addition at all; staging flags may change.  The generalisation is NOT machine-checked.
#[verifier::external_body]
pub proof fn axiom_order_frame(d0: DataStorage, t0: RevisionTree, d1: DataStorage, t1: RevisionTree, x: Revision)
    requires reads_kept(d0, d1), chain_kept(t0, t1, x), chain_ok(d0, t0, x),
    ensures chain_ok(d1, t1, x), spec_order(d1, t1, x) == spec_order(d0, t0, x),
{ }
/// M7.  ASSUMED HERE, PROVED IN unit `chain` as `lemma_cache_inv_grows` (instance: the tree is unchanged, the store grows):
///   `requires tree_wf(m), grows(m, objs, m2, objs2, r), cache_inv(c, m, objs), !c.cview().contains_key(r), ensures cache_inv(c, m2, objs2)`
#[verifier::external_body]
pub proof fn axiom_cache_frame(c: ArrCacheShim, d0: DataStorage, d1: DataStorage, t: RevisionTree)
    requires reads_kept(d0, d1), arr_cache_inv(c, d0, t),
    ensures arr_cache_inv(c, d1, t),
{ }
/// M8.  ASSUMED HERE, PROVED IN unit `chain` as `lemma_stored_full_reconstructs` + `ArrayDescriptor::to_json_object`:
///   `requires objs2.contains_key(r) && objs2[r] == o, obj_desc(o).is_some() && obj_desc(o).unwrap() is Full,`
///   `ensures chain_ok(m2, objs2, r), spec_order(m2, objs2, r) == submitted(o)`   ("a full descriptor reconstructs to itself")
/// `full_descr(order)` is the object of `ArrayDescriptor::new_from_order(order).to_json_object()` (unit resolve), a full descriptor
/// that reads back as `order` (`to_json_object`: `obj_desc(ret) == Some(dview(*self))`).
#[verifier::external_body]
pub proof fn axiom_full_reconstructs(d: DataStorage, t: RevisionTree, r: Revision, order: Seq<Value>)
    requires ds_readable(d, r@), ds_holds(d, r@, full_descr(order)),
    ensures chain_ok(d, t, r), spec_order(d, t, r) == order,
{ }
/// M9.  ASSUMED HERE, PROVED IN unit `chain` as `lemma_stored_version_reconstructs`:
///   `requires tree_wf(m), grows(m, objs, m2, objs2, r), chain_ok(m, objs, w), w.index < r.index, m2.contains_key(r) && m2[r].parent == Some(w),`
///   `  objs2.contains_key(r) && objs2[r] == o, delta_of(o, spec_order(m, objs, w), n),`
///   `ensures chain_ok(m2, objs2, r), spec_order(m2, objs2, r) == n`
/// ("every stored version reconstructs to exactly the array that was submitted").  `script_descr(from, to)` (unit edit) is the
/// object create_delta_array_descriptor returns, for which unit chain proves `delta_of(o, from, to)`.  Growth of the tree
/// generalised as in M6.
#[verifier::external_body]
pub proof fn axiom_script_reconstructs(d0: DataStorage, t0: RevisionTree, d1: DataStorage, t1: RevisionTree, w: Revision, r: Revision, n: Seq<Value>)
    requires
        reads_kept(d0, d1), chain_kept(t0, t1, w), chain_ok(d0, t0, w),
        t1.revisions@.contains_key(r) && t1.revisions@[r].parent == Some(w), w.index < r.index,
        ds_readable(d1, r@), ds_holds(d1, r@, script_descr(spec_order(d0, t0, w), n)),
    ensures chain_ok(d1, t1, r), spec_order(d1, t1, r) == n,
{ }
/// what get_merged_order_at_revision needs, WITHOUT the clause about the descriptor cache (unit resolve: `merged_order_pre`)
pub open spec fn order_pre(data: DataStorage, rt: RevisionTree, base: Revision) -> bool {
    &&& rt.state is Validated && rev_models() && tree_wf(rt.revisions@)
    &&& chain_ok(data, rt, base)
    &&& rt.leafs_cache@.len() > 1 ==> forall|l: Revision| rt.leafs_cache@.contains(l) ==> #[trigger] chain_ok(data, rt, l)
    &&& no_dup(spec_order(data, rt, base))
    &&& forall|l: Revision| rt.leafs_cache@.contains(l) ==> no_dup(#[trigger] spec_order(data, rt, l))
    &&& spec_order(data, rt, base).len() < 0x1000_0000
    &&& forall|l: Revision| rt.leafs_cache@.contains(l) ==> #[trigger] spec_order(data, rt, l).len() < 0x1000_0000
    &&& rt.leafs_cache@.len() < 0x1000_0000
}
pub open spec fn in_some_leaf(data: DataStorage, rt: RevisionTree, x: Value) -> bool {
    exists|l: Revision| rt.leafs_cache@.contains(l) && #[trigger] spec_order(data, rt, l).contains(x)
}
/// the `Ok(v)` clause of get_merged_order_at_revision's contract (unit resolve / orderlink, text copied), with v = `spec_merged_order(..)`
pub open spec fn merged_ok(data: DataStorage, rt: RevisionTree, base: Revision) -> bool {
    let v = spec_merged_order(data, rt, base);
    if rt.leafs_cache@.len() > 1 {
        // every element of every live leaf's order and of the chosen base appears exactly once; the base keeps its order
        &&& no_dup(v)
        &&& forall|x: Value| #[trigger] v.contains(x) <==> (spec_order(data, rt, base).contains(x) || in_some_leaf(data, rt, x))
        &&& is_subseq(spec_order(data, rt, base), v)
    } else { v == spec_order(data, rt, base) }
}
/// M10.  The contract of `Melda::get_merged_order_at_revision` (ASSUMED in unit resolve, PROVED IN unit `orderlink`; "under the stated
/// preconditions the read never fails", "the result is a FUNCTION of storage, tree and revision") as a property of that function.
/// The clause `arr_cache_inv(..)` of `merged_order_pre` is dropped: orderlink proves the contract "for EVERY cache content satisfying
/// the invariant", the empty cache satisfies it, and the result does not depend on the cache.
#[verifier::external_body]
pub proof fn axiom_merged_order(data: DataStorage, rt: RevisionTree, base: Revision)
    requires order_pre(data, rt, base),
    ensures merged_ok(data, rt, base),
{ }
/// M11.  `spec_merged_order` is a function of the live leaves the tree reports and of the orders the base and those leaves
/// reconstruct to (the body of get_merged_order_at_revision reads nothing else: `rt.get_leafs()`, `rebuild_array_order` of the base
/// and of every leaf in the order of the BTreeSet, `merge_arrays`).  ASSUMED HERE (determinism of the body; unit orderlink states
/// the result as a function of storage, tree and revision).
#[verifier::external_body]
pub proof fn axiom_merged_order_frame(d0: DataStorage, t0: RevisionTree, d1: DataStorage, t1: RevisionTree, c: Revision)
    requires
        t1.leafs_cache@ == t0.leafs_cache@,
        spec_order(d1, t1, c) == spec_order(d0, t0, c),
        forall|l: Revision| t0.leafs_cache@.contains(l) ==> #[trigger] spec_order(d1, t1, l) == spec_order(d0, t0, l),
    ensures spec_merged_order(d1, t1, c) == spec_merged_order(d0, t0, c),
{ }

/// a set with at most one element
pub proof fn lemma_single<A>(s: Set<A>, a: A, b: A)
    requires s.len() <= 1, s.contains(a), s.contains(b),
    ensures a == b,
{
    if a != b {
        let s1 = s.remove(a);
        assert(s1.contains(b));
        assert(s1.len() == s.len() - 1);
        let s2 = s1.remove(b);
        assert(s2.len() == s1.len() - 1);
    }
}
/// reading a flattened array at its winner is not disturbed by storage that only grew (same tree): the preconditions carry over
/// and the merged order is the same
pub proof fn lemma_array_read_kept(m0: Melda, c: Melda, t: RevisionTree, u: Seq<char>, w: Revision)
    requires
        is_arr(u), read_pre(m0, t, u, w), reads_kept(m0.data, c.data), c.array_descriptors_cache == m0.array_descriptors_cache,
        validated_ok(t), t.winner_cache == Some(w),
    ensures read_pre(c, t, u, w), spec_merged_order(c.data, t, w) == spec_merged_order(m0.data, t, w),
{
    let d0 = m0.data; let d1 = c.data;
    axiom_order_frame(d0, t, d1, t, w);
    assert(t.leafs_cache@.contains(w));
    assert forall|l: Revision| t.leafs_cache@.contains(l) implies #[trigger] spec_order(d1, t, l) == spec_order(d0, t, l) by {
        if t.leafs_cache@.len() > 1 { axiom_order_frame(d0, t, d1, t, l); }
        else { lemma_single(t.leafs_cache@, l, w); }
    }
    if t.leafs_cache@.len() > 1 {
        assert forall|l: Revision| t.leafs_cache@.contains(l) implies #[trigger] chain_ok(d1, t, l) by { axiom_order_frame(d0, t, d1, t, l); }
    }
    axiom_merged_order_frame(d0, t, d1, t, w);
    axiom_cache_frame(m0.array_descriptors_cache, d0, d1, t);
}

// ================================================================ 4. THE VISIBLE STATE: what `Melda::read` consumes
/// the object is absent from the document: no winner, or the winner is a deletion (`read`: `if let Some(winner) = rt_r.get_winner() { if !winner.is_deleted() {..`)
pub open spec fn gone(t: RevisionTree) -> bool { match t.winner_cache { Some(w) => deleted(w@), None => true } }
/// `o` is an object `read` may obtain for object `u`: `read_object_at_revision(u, tree, winner)` (unit resolve: `state_at`) —
/// flattened array: the FULL descriptor of the merged order at the winner; any other object: an object storage holds for the winner
pub open spec fn shows_obj(m: Melda, u: Seq<char>, o: JMap) -> bool {
    let t = dmap(m.documents)[u];
    dmap(m.documents).contains_key(u) && !gone(t) && state_at(m.data, t, u, t.winner_cache->0, o)
}
/// some live leaf of the tree has identifier `v`
pub open spec fn live_id(t: RevisionTree, v: RevV) -> bool { exists|r: Revision| r@ == v && #[trigger] live(t.revisions@, r) }
/// THE VISIBLE STATE of object `u` is the same in replicas m0 and m1
pub open spec fn same_shown(m0: Melda, m1: Melda, u: Seq<char>) -> bool {
    let d0 = dmap(m0.documents); let d1 = dmap(m1.documents);
    &&& d0.contains_key(u) <==> d1.contains_key(u)
    &&& d0.contains_key(u) ==> {
        let t0 = d0[u]; let t1 = d1[u];
        // present in / absent from the document alike
        &&& gone(t0) == gone(t1)
        // `read` obtains the same object for it
        &&& forall|o: JMap| #![trigger shows_obj(m0, u, o)] #![trigger shows_obj(m1, u, o)] shows_obj(m0, u, o) <==> shows_obj(m1, u, o)
        // flattened array: the same merged order at the winner
        &&& is_arr(u) && !gone(t0) ==> spec_merged_order(m1.data, t1, t1.winner_cache->0) == spec_merged_order(m0.data, t0, t0.winner_cache->0)
        // any other object: the same winner, the same live leaves (in conflict or not, with the same conflicting revisions)
        &&& !is_arr(u) ==> view_opt(t1.winner_cache) == view_opt(t0.winner_cache) && forall|v: RevV| #![trigger live_id(t0, v)] #![trigger live_id(t1, v)] live_id(t0, v) <==> live_id(t1, v)
    }
}
pub open spec fn same_visible(m0: Melda, m1: Melda) -> bool { forall|u: Seq<char>| #[trigger] same_shown(m0, m1, u) }
/// `read` does not panic on object `u`: its tree is validated (`get_winner`) and, unless the object is absent, the state at the winner
/// can be read (`read_object_at_revision(..).unwrap()`: unit resolve's `read_pre`)
pub open spec fn can_read_obj(m: Melda, u: Seq<char>) -> bool {
    let t = dmap(m.documents)[u];
    dmap(m.documents).contains_key(u) ==> validated_ok(t) && (!gone(t) ==> read_pre(m, t, u, t.winner_cache->0))
}
pub open spec fn can_read(m: Melda) -> bool { forall|u: Seq<char>| #[trigger] can_read_obj(m, u) }

// ================================================================ 5. (a) Melda::stage_full_snapshot — the contract, from the property
/// array `u` is shown by the replica: known, has a winner that is not a deletion
pub open spec fn target(m: Melda, u: Seq<char>) -> bool { dmap(m.documents).contains_key(u) && is_arr(u) && !gone(dmap(m.documents)[u]) }
/// the merged order at the winner of array `u`, its full descriptor, and the identifier of the snapshot revision (child of the
/// winner, identified by the digest of that descriptor)
pub open spec fn snap_order(m: Melda, u: Seq<char>) -> Seq<Value> { let t = dmap(m.documents)[u]; spec_merged_order(m.data, t, t.winner_cache->0) }
pub open spec fn snap_obj(m: Melda, u: Seq<char>) -> JMap { full_descr(snap_order(m, u)) }
pub open spec fn snap_id(m: Melda, u: Seq<char>) -> RevV { edit_rev(obj_digest(snap_obj(m, u)), dmap(m.documents)[u].winner_cache) }
/// one of the live leaves is stored as an edit script
pub open spec fn diff_leaf(data: DataStorage, t: RevisionTree, l: Revision, o: JMap) -> bool {
    t.leafs_cache@.contains(l) && ds_holds(data, l@, o) && obj_is_diff(o)
}
pub open spec fn has_diff_leaf(data: DataStorage, t: RevisionTree) -> bool { exists|l: Revision, o: JMap| #[trigger] diff_leaf(data, t, l, o) }
/// tree `t1` is the tree of array `u` in m0 plus ONE FULL SNAPSHOT: a STAGED child of the old winner whose identifier carries the
/// digest of the FULL descriptor of the merged order at the old winner
pub open spec fn snapshot_of(m0: Melda, t1: RevisionTree, u: Seq<char>) -> bool {
    let t0 = dmap(m0.documents)[u];
    &&& target(m0, u)
    &&& has_diff_leaf(m0.data, t0)
    &&& submitted_order(snap_obj(m0, u)) == snap_order(m0, u)
    &&& edit_recorded(t0.revisions@, t1, snap_id(m0, u), t0.winner_cache)
    &&& validated_ok(t1) && tree_wf(t1.revisions@) && (tree_inv(t0) ==> tree_inv(t1))
}
/// a staged object that this call may add: the full descriptor of the merged order of a shown array, under its own digest
pub open spec fn snap_key(m0: Melda, k: Seq<char>, dg: Seq<char>, o: JMap) -> bool { target(m0, k) && dg == obj_digest(snap_obj(m0, k)) && o == snap_obj(m0, k) }
pub open spec fn snap_written(m0: Melda, dg: Seq<char>, o: JMap) -> bool { exists|k: Seq<char>| #[trigger] snap_key(m0, k, dg, o) }
/// THE CONTRACT (whatever the result — an error is reported between two objects, after some snapshots may have been taken)
pub open spec fn snap_rel(m0: Melda, m1: Melda) -> bool {
    let d0 = dmap(m0.documents); let d1 = dmap(m1.documents);
    // blocks and descriptor cache are not touched; no object appears or disappears
    &&& m1.deltas == m0.deltas && m1.array_descriptors_cache == m0.array_descriptors_cache
    &&& forall|k: Seq<char>| d1.contains_key(k) <==> d0.contains_key(k)
    // an object that is not a flattened array is not touched
    &&& forall|k: Seq<char>| #[trigger] d0.contains_key(k) && !is_arr(k) ==> d1[k] == d0[k]
    // a flattened array: its tree is as before, or has gained exactly one full snapshot, which can be read back
    &&& forall|k: Seq<char>| #[trigger] d0.contains_key(k) && !tree_same(d0[k], d1[k]) ==>
            snapshot_of(m0, d1[k], k) && ds_readable(m1.data, snap_id(m0, k)) && ds_holds(m1.data, snap_id(m0, k), snap_obj(m0, k))
    // storage: nothing that could be read is lost or altered; the staged objects only grow, by full descriptors of merged orders
    &&& reads_kept(m0.data, m1.data)
    &&& forall|dg: Seq<char>| #[trigger] ds_stage(m0.data).contains_key(dg) ==> ds_stage(m1.data).contains_key(dg) && ds_stage(m1.data)[dg] == ds_stage(m0.data)[dg]
    &&& forall|dg: Seq<char>| #[trigger] ds_stage(m1.data).contains_key(dg) && !ds_stage(m0.data).contains_key(dg) ==> snap_written(m0, dg, ds_stage(m1.data)[dg])
}
/// preconditions, per known flattened array (all of them PANICS of the real code)
pub open spec fn arr_snap_pre(m: Melda, u: Seq<char>) -> bool {
    let t = dmap(m.documents)[u];
    // get_winner / get_leafs panic on a non-validated tree; parent links descend (RevisionTree::add)
    &&& validated_ok(t) && tree_wf(t.revisions@)
    &&& !gone(t) ==> {
        let w = t.winner_cache->0;
        // the descriptor of every live leaf can be read (`.expect("cannot_read_base_array_descriptor")`)
        &&& forall|l: Revision| #[trigger] t.leafs_cache@.contains(l) ==> ds_read_pre(m.data, l@) && ds_readable(m.data, l@)
        // the merged order at the winner can be read (`read_object_at_revision(..).unwrap()`)
        &&& read_pre(m, t, u, w)
        // its full descriptor can be digested (`digest_object(..).unwrap()`) and written (unit pack's precondition of write_object)
        &&& digestible(snap_obj(m, u)) && ds_write_pre(m.data, obj_digest(snap_obj(m, u)), snap_obj(m, u))
        // ... and that digest is a plain content digest (digest_object of a `{"A": [..]}` object is a SHA-256 hex digest: 64 hex digits —
        // never a one-letter digest of a deletion / resolution marker / empty object, never a charcode): an ASSUMPTION about digest_object
        &&& !rev_special(snap_id(m, u))
        // no u32 overflow of the index of the snapshot revision (Revision::new_updated)
        &&& w.index < u32::MAX
    }
}
pub open spec fn snap_pre(m: Melda) -> bool {
    &&& forall|u: Seq<char>| #[trigger] dmap(m.documents).contains_key(u) && is_arr(u) ==> arr_snap_pre(m, u)
    // CONTENT ADDRESSING among the objects this call writes: two full descriptors with the same digest are the same object (the
    // precondition of write_object, unit pack, for the second of two writes under one digest)
    &&& forall|k1: Seq<char>, k2: Seq<char>| #[trigger] target(m, k1) && #[trigger] target(m, k2) && obj_digest(snap_obj(m, k1)) == obj_digest(snap_obj(m, k2)) ==> snap_obj(m, k1) == snap_obj(m, k2)
}

// ---------------------------------------------------------------- loop contracts of stage_full_snapshot
/// the first n objects are done: m0 = at entry, c = now
pub open spec fn snap_inv(m0: Melda, c: Melda, ents: Ents, n: int) -> bool {
    &&& snap_rel(m0, c)
    // the trees still to be visited are untouched: what is read through the entry snapshot is the current tree
    &&& forall|j: int| n <= j < ents.len() ==> dmap(c.documents)[(#[trigger] ents[j]).0@] == *ents[j].1
    // write_object's precondition for the snapshots still to be taken
    &&& forall|k: Seq<char>| #[trigger] target(m0, k) ==> ds_write_pre(c.data, obj_digest(snap_obj(m0, k)), snap_obj(m0, k))
}
/// what `RevisionTree::add(rev, parent, staging)` guarantees (its `ensures` in unit tree, text copied; t0 = before, t1 = after, `added` = its result)
pub open spec fn add_post(t0: RevisionTree, t1: RevisionTree, rev: Revision, parent: Option<Revision>, staging: bool, added: bool) -> bool {
    &&& added == !t0.revisions@.contains_key(rev)
    &&& t1.revisions@ == record(t0.revisions@, rev, RevisionTreeEntry { parent, staging })
    &&& t1.staging == (t0.staging || (added && staging))
    &&& added ==> validated_ok(t1)
    &&& !added ==> (t1.state == t0.state && t1.leafs_cache@ == t0.leafs_cache@ && t1.winner_cache == t0.winner_cache)
    &&& tree_wf(t1.revisions@)
    &&& tree_inv(t0) ==> tree_inv(t1)
}
/// ONE SNAPSHOT (the body of the `if base_descriptor.is_diff()` block): b = before, a = after, `u` the array, `rev` the revision that
/// was added, `st` the staging flag it was added with, `l` / `lo` the leaf found stored as an edit script
pub open spec fn snap_step(m0: Melda, b: Melda, a: Melda, u: Seq<char>, rev: Revision, st: bool, added: bool, l: Revision, lo: JMap) -> bool {
    let t = dmap(m0.documents)[u];
    &&& a.deltas == b.deltas && a.array_descriptors_cache == b.array_descriptors_cache
    &&& dmap(a.documents) == dmap(b.documents).insert(u, dmap(a.documents)[u])
    &&& rev@ == snap_id(m0, u)
    &&& add_post(t, dmap(a.documents)[u], rev, t.winner_cache, st, added)
    &&& write_post(b.data, a.data, rev@, snap_obj(m0, u))
    &&& diff_leaf(b.data, t, l, lo)
    &&& submitted_order(snap_obj(m0, u)) == snap_order(m0, u)
}
pub proof fn lemma_snap_start(m0: Melda, ents: Ents)
    requires snap_pre(m0), ents_ok(dmap(m0.documents), ents),
    ensures snap_inv(m0, m0, ents, 0),
{
    assert forall|k: Seq<char>| #[trigger] target(m0, k) implies ds_write_pre(m0.data, obj_digest(snap_obj(m0, k)), snap_obj(m0, k)) by {
        assert(dmap(m0.documents).contains_key(k) && is_arr(k));
        assert(arr_snap_pre(m0, k));
    }
}
/// an object that is left alone
pub proof fn lemma_snap_skip(m0: Melda, c: Melda, ents: Ents, i: int)
    requires snap_inv(m0, c, ents, i), 0 <= i < ents.len(),
    ensures snap_inv(m0, c, ents, i + 1),
{ }
/// what the body needs of array ents[i] in the current state `c`
pub proof fn lemma_snap_reads(m0: Melda, c: Melda, ents: Ents, i: int)
    requires
        snap_pre(m0), ents_ok(dmap(m0.documents), ents), snap_inv(m0, c, ents, i), 0 <= i < ents.len(),
        is_arr(ents[i].0@), !gone(*ents[i].1),
    ensures
        dmap(c.documents).contains_key(ents[i].0@), dmap(c.documents)[ents[i].0@] == *ents[i].1, dmap(m0.documents)[ents[i].0@] == *ents[i].1,
        target(m0, ents[i].0@), validated_ok(*ents[i].1), tree_wf(ents[i].1.revisions@),
        forall|l: Revision| #[trigger] ents[i].1.leafs_cache@.contains(l) ==> ds_read_pre(c.data, l@) && ds_readable(c.data, l@) && ds_readable(m0.data, l@),
        read_pre(c, *ents[i].1, ents[i].0@, ents[i].1.winner_cache->0),
        spec_merged_order(c.data, *ents[i].1, ents[i].1.winner_cache->0) == snap_order(m0, ents[i].0@),
        digestible(snap_obj(m0, ents[i].0@)), ds_write_pre(c.data, obj_digest(snap_obj(m0, ents[i].0@)), snap_obj(m0, ents[i].0@)),
        (ents[i].1.winner_cache->0).index < u32::MAX, !rev_special(snap_id(m0, ents[i].0@)),
{
    let u = ents[i].0@; let t = *ents[i].1;
    assert(dmap(m0.documents).contains_key(u) && dmap(m0.documents)[u] == t);
    assert(arr_snap_pre(m0, u));
    assert(target(m0, u));
    lemma_array_read_kept(m0, c, t, u, t.winner_cache->0);
}
/// one snapshot keeps the loop invariant
pub proof fn lemma_snap_step(m0: Melda, b: Melda, a: Melda, ents: Ents, i: int, rev: Revision, added: bool, l: Revision, lo: JMap)
    requires
        snap_pre(m0), ents_ok(dmap(m0.documents), ents), snap_inv(m0, b, ents, i), 0 <= i < ents.len(),
        is_arr(ents[i].0@), !gone(*ents[i].1),
        snap_step(m0, b, a, ents[i].0@, rev, true, added, l, lo),
    ensures snap_inv(m0, a, ents, i + 1),
{
    let u = ents[i].0@; let t = *ents[i].1;
    let d0 = dmap(m0.documents); let db = dmap(b.documents); let da = dmap(a.documents);
    let t1 = da[u]; let e = snap_obj(m0, u); let v = snap_id(m0, u);
    lemma_snap_reads(m0, b, ents, i);
    lemma_reads_kept_trans(m0.data, b.data, a.data);
    // the leaf stored as an edit script was stored so at entry
    assert(ds_holds(m0.data, l@, lo));
    assert(diff_leaf(m0.data, t, l, lo));
    if !tree_same(t, t1) {
        assert(added);
        assert(edit_by(t.revisions@, t1, v, t.winner_cache, rev));
        assert(snapshot_of(m0, t1, u));
    }
    assert forall|k: Seq<char>| #[trigger] d0.contains_key(k) && !tree_same(d0[k], da[k]) implies
        snapshot_of(m0, da[k], k) && ds_readable(a.data, snap_id(m0, k)) && ds_holds(a.data, snap_id(m0, k), snap_obj(m0, k)) by {
        if k != u { assert(da[k] == db[k]); assert(ds_readable(b.data, snap_id(m0, k))); }
    }
    assert forall|dg: Seq<char>| #[trigger] ds_stage(a.data).contains_key(dg) && !ds_stage(m0.data).contains_key(dg) implies snap_written(m0, dg, ds_stage(a.data)[dg]) by {
        if ds_stage(b.data).contains_key(dg) { assert(ds_stage(a.data)[dg] == ds_stage(b.data)[dg]); }
        else { assert(dg == v.1 && ds_stage(a.data)[dg] == e); assert(snap_key(m0, u, dg, e)); }
    }
    assert forall|j: int| i + 1 <= j < ents.len() implies da[(#[trigger] ents[j]).0@] == *ents[j].1 by {
        assert(ents[i].0@ != ents[j].0@);
    }
    assert forall|k: Seq<char>| #[trigger] target(m0, k) implies ds_write_pre(a.data, obj_digest(snap_obj(m0, k)), snap_obj(m0, k)) by {
        assert(ds_write_pre(b.data, obj_digest(snap_obj(m0, k)), snap_obj(m0, k)));
        assert(target(m0, u));
    }
    assert(a.deltas == m0.deltas && a.array_descriptors_cache == m0.array_descriptors_cache);
    assert(forall|k: Seq<char>| da.contains_key(k) <==> d0.contains_key(k));
    assert(forall|k: Seq<char>| #[trigger] d0.contains_key(k) && !is_arr(k) ==> da[k] == d0[k]);
    assert(reads_kept(m0.data, a.data));
    assert(forall|dg: Seq<char>| #[trigger] ds_stage(m0.data).contains_key(dg) ==> ds_stage(a.data).contains_key(dg) && ds_stage(a.data)[dg] == ds_stage(m0.data)[dg]);
    assert(snap_rel(m0, a));
}

