// ---- unit `adapter`: the write-once key/value contract of C17, stated ONCE as a trait; MemoryAdapter and the two
// compression wrappers are verified as implementations of it (Verus checks every impl method against the trait contract).
pub type Store = Map<Seq<char>, Seq<u8>>;

#[verifier::external_body]
pub struct VxError { e: () }
#[verifier::external_body]
pub fn vx_error() -> VxError { unimplemented!() }

pub open spec fn has_suffix(k: Seq<char>, ext: Seq<char>) -> bool {
    k.len() >= ext.len() && k.subrange(k.len() - ext.len(), k.len() as int) == ext
}
pub open spec fn strip(k: Seq<char>, ext: Seq<char>) -> Seq<char> { k.subrange(0, k.len() - ext.len()) }

/// "listing by suffix returns exactly the matching keys with the suffix removed" (each once, any order)
pub open spec fn is_listing(l: Seq<String>, store: Store, ext: Seq<char>) -> bool {
    &&& forall|i: int| 0 <= i < l.len() ==> store.contains_key(#[trigger] l[i]@ + ext)
    &&& forall|k: Seq<char>| store.contains_key(k) && has_suffix(k, ext) ==> exists|i: int| 0 <= i < l.len() && #[trigger] l[i]@ == strip(k, ext)
    &&& forall|i: int, j: int| 0 <= i < j < l.len() ==> l[i]@ != l[j]@
}

/// R6: `&self` with interior mutability becomes `&mut self` where the body writes (single-threaded semantics)
pub trait Adapter {
    /// abstract content of the back end
    spec fn store(&self) -> Store;
    /// representation invariant of the back end
    spec fn wf(&self) -> bool;
    /// keys the back end may be asked to store (wrappers: the key must not contain the wrapper's own suffix)
    spec fn key_ok(&self, key: Seq<char>) -> bool;

    /// a read returns exactly the bytes of the first write to that key, whole or any non-empty in-range slice
    fn read_object(&self, key: &str, offset: usize, length: usize) -> (r: Result<Vec<u8>, VxError>)
        requires
            self.wf(), offset + length <= usize::MAX, length > 0 || offset == 0,
            // ranged reads are specified for in-range slices only
            (length > 0 && self.store().contains_key(key@)) ==> offset + length <= self.store()[key@].len(),
        ensures
            self.store().contains_key(key@) <==> r is Ok,
            match r {
                Ok(d) => (length == 0 ==> d@ == self.store()[key@]) && (length > 0 ==> d@ == self.store()[key@].subrange(offset as int, offset + length)),
                Err(_) => true,
            };

    /// write-once: the first write of a key wins, later writes change nothing; a failed write changes nothing
    fn write_object(&mut self, key: &str, data: &[u8]) -> (r: Result<(), VxError>)
        requires old(self).wf(), old(self).key_ok(key@),
        ensures
            final(self).wf(), forall|k: Seq<char>| final(self).key_ok(k) == old(self).key_ok(k),
            match r {
                Ok(_) => final(self).store() == (if old(self).store().contains_key(key@) { old(self).store() } else { old(self).store().insert(key@, data@) }),
                Err(_) => final(self).store() == old(self).store(),
            };

    fn list_objects(&self, ext: &str) -> (r: Result<Vec<String>, VxError>)
        requires self.wf(),
        ensures match r { Ok(l) => is_listing(l@, self.store(), ext@), Err(_) => true };
}

// ---------------------------------------------------------------- MemoryAdapter (mirror; R6: Mutex<RefCell<BTreeMap<..>>> -> BTreeMap)
pub struct MemoryAdapter {
    pub data: BTreeMap<String, Vec<u8>>,
}
/// std BTreeMap<String, Vec<u8>> seen as a map keyed by string content (assumed of std)
pub uninterp spec fn bmap(m: BTreeMap<String, Vec<u8>>) -> Map<Seq<char>, Vec<u8>>;
pub open spec fn bstore(m: BTreeMap<String, Vec<u8>>) -> Store {
    bmap(m).map_values(|v: Vec<u8>| v@)
}
#[verifier::external_body]
pub fn vx_bmap_get<'a>(m: &'a BTreeMap<String, Vec<u8>>, k: &str) -> (r: Option<&'a Vec<u8>>)
    ensures match r { Some(v) => bmap(*m).contains_key(k@) && *v == bmap(*m)[k@], None => !bmap(*m).contains_key(k@) },
{ unimplemented!() }
#[verifier::external_body]
pub fn vx_bmap_contains(m: &BTreeMap<String, Vec<u8>>, k: &str) -> (r: bool)
    ensures r == bmap(*m).contains_key(k@),
{ unimplemented!() }
#[verifier::external_body]
pub fn vx_bmap_insert(m: &mut BTreeMap<String, Vec<u8>>, k: String, v: Vec<u8>)
    ensures bmap(*final(m)) == bmap(*old(m)).insert(k@, v),
{ unimplemented!() }
/// R18: `keys()` = an enumeration of the key set without repetition (order irrelevant to the contract)
#[verifier::external_body]
pub fn vx_keys_snapshot<'a>(m: &'a BTreeMap<String, Vec<u8>>) -> (v: Vec<&'a String>)
    ensures
        forall|i: int| 0 <= i < v.len() ==> bmap(*m).contains_key(#[trigger] v@[i]@),
        forall|k: Seq<char>| bmap(*m).contains_key(k) ==> exists|i: int| 0 <= i < v.len() && #[trigger] v@[i]@ == k,
        forall|i: int, j: int| 0 <= i < j < v.len() ==> v@[i]@ != v@[j]@,
{ unimplemented!() }

// R10: std string / slice helpers (assumed of std)
#[verifier::external_body]
pub fn vx_to_vec(d: &[u8]) -> (r: Vec<u8>)
    ensures r@ == d@,
{ unimplemented!() }
#[verifier::external_body]
pub fn vx_vec_clone(d: &Vec<u8>) -> (r: Vec<u8>)
    ensures r@ == d@,
{ unimplemented!() }
#[verifier::external_body]
pub fn vx_ends_with(x: &str, ext: &str) -> (r: bool)
    ensures r == has_suffix(x@, ext@),
{ unimplemented!() }
/// `x.strip_suffix(ext).unwrap().to_string()`
#[verifier::external_body]
pub fn vx_strip_suffix(x: &str, ext: &str) -> (r: String)
    requires has_suffix(x@, ext@),
    ensures r@ == strip(x@, ext@),
{ unimplemented!() }
#[verifier::external_body]
pub fn vx_str_concat(a: &str, b: &str) -> (r: String)
    ensures r@ == a@ + b@,
{ unimplemented!() }
/// `k.trim_end_matches(suffix).to_string()`: removes EVERY trailing repetition of the suffix
#[verifier::external_body]
pub fn vx_trim_end_matches(k: &str, suffix: &str) -> (r: String)
    ensures !has_suffix(k@, suffix@) ==> r@ == k@,
{ unimplemented!() }

pub proof fn lemma_strip_concat(s: Seq<char>, ext: Seq<char>)
    ensures has_suffix(s + ext, ext), strip(s + ext, ext) == s,
{
    assert((s + ext).subrange((s + ext).len() - ext.len(), (s + ext).len() as int) =~= ext);
    assert((s + ext).subrange(0, (s + ext).len() - ext.len()) =~= s);
}
pub proof fn lemma_unstrip(k: Seq<char>, ext: Seq<char>)
    requires has_suffix(k, ext),
    ensures strip(k, ext) + ext == k,
{
    assert(strip(k, ext) + ext =~= k);
}

// ---------------------------------------------------------------- compression wrappers
/// codec of a wrapper: `enc` uninterpreted, the decoder inverts it (assumed codec law)
pub uninterp spec fn enc(tag: Seq<char>, d: Seq<u8>) -> Seq<u8>;
pub uninterp spec fn dec(tag: Seq<char>, c: Seq<u8>) -> Option<Seq<u8>>;
#[verifier::external_body]
pub proof fn axiom_codec(tag: Seq<char>, d: Seq<u8>)
    ensures dec(tag, enc(tag, d)) == Some(d),
{ }
/// what the wrapper exposes: key k iff the back end holds k ++ suffix with a decodable value; the value is the decoded bytes
pub open spec fn wview(b: Store, suffix: Seq<char>, k: Seq<char>) -> Option<Seq<u8>> {
    if b.contains_key(k + suffix) { dec(suffix, b[k + suffix]) } else { None }
}
/// every item carrying the wrapper suffix is decodable (true when all such items were written through the wrapper)
pub open spec fn wrapped_wf(b: Store, suffix: Seq<char>) -> bool {
    forall|k: Seq<char>| #[trigger] b.contains_key(k + suffix) ==> dec(suffix, b[k + suffix]).is_some()
}
/// the wrapper's abstract content.  Definitional axiom (a conservative extension: the map exists because `b` is finite):
/// Map::new over a comprehension is not available for finite sets in the installed vstd.
pub uninterp spec fn wstore(b: Store, suffix: Seq<char>) -> Store;
#[verifier::external_body]
pub proof fn axiom_wstore(b: Store, suffix: Seq<char>)
    ensures
        forall|k: Seq<char>| #[trigger] wstore(b, suffix).contains_key(k) <==> b.contains_key(k + suffix),
        forall|k: Seq<char>| #[trigger] wstore(b, suffix).contains_key(k) ==> Some(wstore(b, suffix)[k]) == dec(suffix, b[k + suffix]) || dec(suffix, b[k + suffix]).is_none(),
{ }
pub proof fn lemma_concat_inj(a: Seq<char>, b: Seq<char>, s: Seq<char>)
    requires a + s == b + s,
    ensures a == b,
{
    assert(a.len() == b.len()) by { assert((a + s).len() == a.len() + s.len()); assert((b + s).len() == b.len() + s.len()); }
    assert(a =~= b) by { assert forall|i: int| 0 <= i < a.len() implies a[i] == b[i] by { assert((a + s)[i] == a[i]); assert((b + s)[i] == b[i]); } }
}

/// some scanned key among the first n carries the suffix and strips to `name`
pub open spec fn src_ok(name: Seq<char>, keys: Seq<&String>, n: int, ext: Seq<char>) -> bool {
    exists|j: int| 0 <= j < n && has_suffix(#[trigger] keys[j]@, ext) && strip(keys[j]@, ext) == name
}
pub open spec fn in_list(list: Seq<String>, name: Seq<char>) -> bool {
    exists|i: int| 0 <= i < list.len() && #[trigger] list[i]@ == name
}
/// the list built from the first n scanned keys: exactly the stripped names of the keys with the suffix, each once
pub open spec fn listed_from(list: Seq<String>, keys: Seq<&String>, n: int, ext: Seq<char>) -> bool {
    &&& forall|i: int| 0 <= i < list.len() ==> src_ok(#[trigger] list[i]@, keys, n, ext)
    &&& forall|j: int| 0 <= j < n && has_suffix(#[trigger] keys[j]@, ext) ==> in_list(list, strip(keys[j]@, ext))
    &&& forall|i: int, j: int| 0 <= i < j < list.len() ==> list[i]@ != list[j]@
}
pub proof fn lemma_listed_skip(list: Seq<String>, keys: Seq<&String>, n: int, ext: Seq<char>)
    requires listed_from(list, keys, n, ext), 0 <= n < keys.len(), !has_suffix(keys[n]@, ext),
    ensures listed_from(list, keys, n + 1, ext),
{
    assert forall|i: int| 0 <= i < list.len() implies src_ok(#[trigger] list[i]@, keys, n + 1, ext) by {
        let j = choose|j: int| 0 <= j < n && has_suffix(#[trigger] keys[j]@, ext) && strip(keys[j]@, ext) == list[i]@;
        assert(has_suffix(keys[j]@, ext));
    }
}
pub proof fn lemma_listed_push(list: Seq<String>, keys: Seq<&String>, n: int, ext: Seq<char>, name: String)
    requires
        listed_from(list, keys, n, ext), 0 <= n < keys.len(), has_suffix(keys[n]@, ext), name@ == strip(keys[n]@, ext),
        forall|i: int, j: int| 0 <= i < j < keys.len() ==> keys[i]@ != keys[j]@,
    ensures listed_from(list.push(name), keys, n + 1, ext),
{
    let l2 = list.push(name);
    assert forall|i: int| 0 <= i < l2.len() implies src_ok(#[trigger] l2[i]@, keys, n + 1, ext) by {
        if i < list.len() {
            assert(l2[i] == list[i]);
            let j = choose|j: int| 0 <= j < n && has_suffix(#[trigger] keys[j]@, ext) && strip(keys[j]@, ext) == list[i]@;
            assert(has_suffix(keys[j]@, ext));
        } else { assert(has_suffix(keys[n]@, ext)); }
    }
    assert forall|j: int| 0 <= j < n + 1 && has_suffix(#[trigger] keys[j]@, ext) implies in_list(l2, strip(keys[j]@, ext)) by {
        if j < n {
            let i = choose|i: int| 0 <= i < list.len() && #[trigger] list[i]@ == strip(keys[j]@, ext);
            assert(l2[i]@ == strip(keys[j]@, ext));
        } else { assert(l2[list.len() as int]@ == name@); }
    }
    assert forall|i: int, j: int| 0 <= i < j < l2.len() implies l2[i]@ != l2[j]@ by {
        if j == list.len() {
            assert(l2[i] == list[i]);
            let k = choose|k: int| 0 <= k < n && has_suffix(#[trigger] keys[k]@, ext) && strip(keys[k]@, ext) == list[i]@;
            if l2[i]@ == l2[j]@ { lemma_unstrip(keys[k]@, ext); lemma_unstrip(keys[n]@, ext); assert(keys[k]@ == keys[n]@); }
        } else { assert(l2[i] == list[i] && l2[j] == list[j]); }
    }
}
pub proof fn lemma_listed_is_listing(list: Seq<String>, keys: Seq<&String>, ext: Seq<char>, store: Store)
    requires
        listed_from(list, keys, keys.len() as int, ext),
        forall|i: int| 0 <= i < keys.len() ==> store.contains_key(#[trigger] keys[i]@),
        forall|k: Seq<char>| store.contains_key(k) ==> exists|i: int| 0 <= i < keys.len() && #[trigger] keys[i]@ == k,
    ensures is_listing(list, store, ext),
{
    assert forall|i: int| 0 <= i < list.len() implies store.contains_key(#[trigger] list[i]@ + ext) by {
        let j = choose|j: int| 0 <= j < keys.len() && has_suffix(#[trigger] keys[j]@, ext) && strip(keys[j]@, ext) == list[i]@;
        lemma_unstrip(keys[j]@, ext);
    }
    assert forall|k: Seq<char>| store.contains_key(k) && has_suffix(k, ext) implies exists|i: int| 0 <= i < list.len() && #[trigger] list[i]@ == strip(k, ext) by {
        let j = choose|j: int| 0 <= j < keys.len() && #[trigger] keys[j]@ == k;
        assert(has_suffix(keys[j]@, ext));
        assert(in_list(list, strip(keys[j]@, ext)));
    }
}

pub const FLATE_SUFFIX: &'static str = ".flate";
pub const BROTLI_SUFFIX: &'static str = ".brotli";
pub struct Flate2Adapter<A: Adapter> { pub backend: A }
pub struct BrotliAdapter<A: Adapter> { pub backend: A }

// R25: flate2 / brotli codecs (assumed codec law: decoding an encoded buffer gives the buffer back)
#[verifier::external_body]
pub fn vx_decode(tag: &str, data: &[u8]) -> (r: Result<Vec<u8>, VxError>)
    ensures match dec(tag@, data@) { Some(d) => (match r { Ok(v) => v@ == d, Err(_) => false }), None => true },
{ unimplemented!() }
#[verifier::external_body]
pub fn vx_encode(tag: &str, data: &[u8]) -> (r: Result<Vec<u8>, VxError>)
    ensures match r { Ok(c) => c@ == enc(tag@, data@), Err(_) => true },
{ unimplemented!() }

/// the wrapper suffix occurs nowhere inside the key
pub open spec fn suffix_free(k: Seq<char>, suffix: Seq<char>) -> bool {
    forall|s: Seq<char>, e: Seq<char>| k == #[trigger] (s + e) ==> !has_suffix(s, suffix)
}
pub open spec fn wrapper_wf(b: Store, suffix: Seq<char>) -> bool {
    &&& wrapped_wf(b, suffix)
    &&& forall|k: Seq<char>| #[trigger] b.contains_key(k + suffix) ==> suffix_free(k, suffix)
}
pub proof fn lemma_wrapped_write(b: Store, b2: Store, suffix: Seq<char>, key: Seq<char>, data: Seq<u8>)
    requires
        wrapper_wf(b, suffix), suffix_free(key, suffix),
        b2 == (if b.contains_key(key + suffix) { b } else { b.insert(key + suffix, enc(suffix, data)) }),
    ensures
        wrapper_wf(b2, suffix),
        wstore(b2, suffix) == (if wstore(b, suffix).contains_key(key) { wstore(b, suffix) } else { wstore(b, suffix).insert(key, data) }),
{
    axiom_wstore(b, suffix); axiom_wstore(b2, suffix); axiom_codec(suffix, data);
    let w = wstore(b, suffix); let w2 = wstore(b2, suffix);
    if b.contains_key(key + suffix) { assert(w2 =~= w); }
    else {
        assert forall|k: Seq<char>| #[trigger] b2.contains_key(k + suffix) implies dec(suffix, b2[k + suffix]).is_some() && suffix_free(k, suffix) by {
            if k + suffix == key + suffix { lemma_concat_inj(k, key, suffix); } else { assert(b.contains_key(k + suffix)); }
        }
        assert(w2 =~= w.insert(key, data)) by {
            assert forall|k: Seq<char>| w2.contains_key(k) <==> w.insert(key, data).contains_key(k) by {
                if k + suffix == key + suffix { lemma_concat_inj(k, key, suffix); }
            }
            assert forall|k: Seq<char>| w2.contains_key(k) implies w2[k] == w.insert(key, data)[k] by {
                if k == key { } else { if k + suffix == key + suffix { lemma_concat_inj(k, key, suffix); } assert(b.contains_key(k + suffix)); assert(w.contains_key(k)); }
            }
        }
    }
}
pub proof fn lemma_wrapped_listing(l: Seq<String>, out: Seq<String>, b: Store, ext: Seq<char>, suffix: Seq<char>)
    requires
        is_listing(l, b, ext + suffix), wrapper_wf(b, suffix),
        out.len() == l.len(), forall|i: int| 0 <= i < l.len() ==> #[trigger] out[i]@ == l[i]@,
    ensures is_listing(out, wstore(b, suffix), ext),
{
    axiom_wstore(b, suffix);
    let w = wstore(b, suffix);
    assert forall|i: int| 0 <= i < out.len() implies w.contains_key(#[trigger] out[i]@ + ext) by {
        assert(b.contains_key(l[i]@ + (ext + suffix)));
        assert(l[i]@ + (ext + suffix) =~= (out[i]@ + ext) + suffix);
    }
    assert forall|k: Seq<char>| w.contains_key(k) && has_suffix(k, ext) implies exists|i: int| 0 <= i < out.len() && #[trigger] out[i]@ == strip(k, ext) by {
        assert(b.contains_key(k + suffix));
        lemma_unstrip(k, ext);
        let s = strip(k, ext);
        assert(k + suffix =~= s + (ext + suffix));
        lemma_strip_concat(s, ext + suffix);
        let i = choose|i: int| 0 <= i < l.len() && #[trigger] l[i]@ == strip(k + suffix, ext + suffix);
        assert(out[i]@ == s);
    }
    assert forall|i: int, j: int| 0 <= i < j < out.len() implies out[i]@ != out[j]@ by { assert(l[i]@ != l[j]@); }
}
/// a listed stem does not end in the wrapper suffix (so `trim_end_matches` leaves it alone)
pub proof fn lemma_stem_untouched(l: Seq<String>, i: int, b: Store, ext: Seq<char>, suffix: Seq<char>)
    requires is_listing(l, b, ext + suffix), wrapper_wf(b, suffix), 0 <= i < l.len(),
    ensures !has_suffix(l[i]@, suffix),
{
    assert(b.contains_key(l[i]@ + (ext + suffix)));
    assert(l[i]@ + (ext + suffix) =~= (l[i]@ + ext) + suffix);
    assert(b.contains_key((l[i]@ + ext) + suffix));
    assert(suffix_free(l[i]@ + ext, suffix));
}

/// by-reference view of a vector of names (`into_iter()` of an owned Vec<String>, elements used by reference)
pub fn vx_strs<'a>(v: &'a Vec<String>) -> (r: Vec<&'a String>)
    ensures r.len() == v.len(), forall|i: int| 0 <= i < v.len() ==> *#[trigger] r@[i] == v@[i],
{
    let mut r: Vec<&String> = Vec::new();
    for i in 0..v.len()
        invariant r.len() == i, forall|j: int| 0 <= j < i ==> *#[trigger] r@[j] == v@[j],
    { r.push(&v[i]); }
    r
}
