// ---- unit `patch`: utils::make_diff_patch / apply_diff_patch (C16) ----
// machine arithmetic: the proofs of the `as usize` casts assume a 64-bit target (listed in evidence)
global size_of usize == 8;
// R14: array elements (serde_json::Value) are opaque; `==` is spec equality.
#[verifier::external_body]
#[verifier::accept_recursive_types]
pub struct Value { v: () }
#[verifier::external_body]
pub struct VxError { e: () }
#[verifier::external_body]
pub fn vx_error() -> VxError { unimplemented!() }

// mirrors of yavomrs::yavom::{OP, Point, Move}
pub enum OP { INSERT, DELETE, _DELETE }
pub struct Point(pub i64, pub i64);
pub struct Move(pub OP, pub Point, pub Point, pub Option<Vec<Value>>);

// ---------------------------------------------------------------- edit paths
/// old[x..x2] and new[y..y2] are equal element-wise (a diagonal of the edit graph)
pub open spec fn snake(a: Seq<Value>, b: Seq<Value>, x: int, y: int, x2: int, y2: int) -> bool {
    &&& 0 <= x <= x2 <= a.len() && 0 <= y <= y2 <= b.len() && x2 - x == y2 - y
    &&& forall|i: int| x <= i < x2 ==> #[trigger] a[i] == b[i - x + y]
}
pub open spec fn is_ins(m: Move) -> bool { m.0 is INSERT }
pub open spec fn is_del(m: Move) -> bool { m.0 is DELETE }
/// ASSUMED CONTRACT of the dependency `yavomrs::yavom::myers_unfilled` (tested by the bounded stand-in `patch`):
/// the moves form an edit path from (0,0) to (|a|,|b|): consecutive moves are joined by diagonals of equal elements,
/// INSERT moves go down (same x), DELETE moves go right (same y), `_DELETE` is never produced
pub open spec fn valid_path(a: Seq<Value>, b: Seq<Value>, ms: Seq<Move>, k: int, x: int, y: int) -> bool
    decreases ms.len() - k
{
    if k >= ms.len() { snake(a, b, x, y, a.len() as int, b.len() as int) }
    else {
        let m = ms[k];
        &&& snake(a, b, x, y, m.1.0 as int, m.1.1 as int)
        &&& (is_ins(m) || is_del(m))
        &&& (is_ins(m) ==> m.2.0 == m.1.0 && m.1.1 < m.2.1 <= b.len())
        &&& (is_del(m) ==> m.2.1 == m.1.1 && m.1.0 < m.2.0 <= a.len())
        &&& valid_path(a, b, ms, k + 1, m.2.0 as int, m.2.1 as int)
    }
}
#[verifier::external_body]
pub fn myers_unfilled(old: &[Value], new: &[Value]) -> (ops: Vec<Move>)
    ensures valid_path(old@, new@, ops@, 0, 0, 0),
{ unimplemented!() }

// ---------------------------------------------------------------- patch operations (JSON arrays ["i", index, [items]] / ["d", count, index])
pub enum OpV {
    Ins { index: int, items: Seq<Value> },
    Del { count: int, index: int },
}
/// the patch operation a JSON value encodes (None if it is not a patch operation)
pub uninterp spec fn op_view(v: Value) -> Option<OpV>;
/// the operation emitted for a move
pub open spec fn enc_move(m: Move, b: Seq<Value>) -> OpV {
    if is_ins(m) { OpV::Ins { index: m.1.1 as int, items: b.subrange(m.1.1 as int, m.2.1 as int) } }
    else if is_del(m) { OpV::Del { count: m.2.0 - m.1.0, index: m.1.1 as int } }
    else { OpV::Del { count: m.1.0 as int, index: m.1.1 as int } }
}
// R8: json!([..]) constructors (assumed: the JSON array built by the macro encodes the operation)
#[verifier::external_body]
pub fn vx_json_ins(index: i64, items: &[Value]) -> (v: Value)
    ensures op_view(v) == Some(OpV::Ins { index: index as int, items: items@ }),
{ unimplemented!() }
#[verifier::external_body]
pub fn vx_json_del(count: i64, index: i64) -> (v: Value)
    ensures op_view(v) == Some(OpV::Del { count: count as int, index: index as int }),
{ unimplemented!() }
// R8: accessors used by apply_diff_patch: `op[0].as_str()`, `op[1].as_u64()`, `op[2].as_u64()`, `op[2].as_array()`
pub enum OpName { I, D, Other }
#[verifier::external_body]
pub fn vx_op_name(op: &Value) -> (r: Option<OpName>)
    ensures match op_view(*op) {
        Some(OpV::Ins { .. }) => r == Some(OpName::I),
        Some(OpV::Del { .. }) => r == Some(OpName::D),
        None => true,
    },
{ unimplemented!() }
pub fn vx_ok_or<T>(o: Option<T>, e: VxError) -> (r: Result<T, VxError>)
    ensures match o { Some(x) => r == Ok::<T, VxError>(x), None => r is Err },
{ match o { Some(x) => Ok(x), None => Err(e) } }
pub fn vx_name_is_d(n: &OpName) -> (r: bool) ensures r == (*n is D) { match n { OpName::D => true, _ => false } }
pub fn vx_name_is_i(n: &OpName) -> (r: bool) ensures r == (*n is I) { match n { OpName::I => true, _ => false } }
#[verifier::external_body]
pub fn vx_op_u64(op: &Value, pos: usize) -> (r: Option<u64>)
    ensures match op_view(*op) {
        Some(OpV::Ins { index, items }) => pos == 1 && 0 <= index <= u64::MAX ==> r == Some(index as u64),
        Some(OpV::Del { count, index }) => (pos == 1 && 0 <= count <= u64::MAX ==> r == Some(count as u64)) && (pos == 2 && 0 <= index <= u64::MAX ==> r == Some(index as u64)),
        None => true,
    },
{ unimplemented!() }
#[verifier::external_body]
pub fn vx_op_items(op: &Value) -> (r: Option<Vec<Value>>)
    ensures match op_view(*op) {
        Some(OpV::Ins { index, items }) => (match r { Some(v) => v@ == items, None => false }),
        _ => true,
    },
{ unimplemented!() }

// R5: Vec::drain(a..b) / Vec::splice(i..i, items) (std; panics when out of range => preconditions)
#[verifier::external_body]
pub fn vx_vec_drain(v: &mut Vec<Value>, a: usize, b: usize)
    requires a <= b <= old(v).len(),
    ensures final(v)@ == old(v)@.subrange(0, a as int) + old(v)@.subrange(b as int, old(v).len() as int),
{ unimplemented!() }
#[verifier::external_body]
pub fn vx_vec_splice(v: &mut Vec<Value>, i: usize, items: Vec<Value>)
    requires i <= old(v).len(),
    ensures final(v)@ == old(v)@.subrange(0, i as int) + items@ + old(v)@.subrange(i as int, old(v).len() as int),
{ unimplemented!() }
pub fn vx_at<'a, T>(m: &'a [T], i: usize) -> (t: &'a T)
    requires i < m.len(),
    ensures *t == m@[i as int],
{ &m[i] }

// ---------------------------------------------------------------- semantics of applying a patch
pub open spec fn op_ok(w: Seq<Value>, o: OpV) -> bool {
    match o {
        OpV::Ins { index, items } => 0 <= index <= w.len(),
        OpV::Del { count, index } => 0 <= index && 0 <= count && index + count <= w.len(),
    }
}
pub open spec fn apply_op(w: Seq<Value>, o: OpV) -> Seq<Value> {
    match o {
        OpV::Ins { index, items } => w.subrange(0, index) + items + w.subrange(index, w.len() as int),
        OpV::Del { count, index } => w.subrange(0, index) + w.subrange(index + count, w.len() as int),
    }
}
/// every element of the patch is a patch operation that is in range when its turn comes
pub open spec fn ops_ok(w: Seq<Value>, p: Seq<Value>, k: int) -> bool
    decreases p.len() - k
{
    if k >= p.len() { true }
    else { op_view(p[k]).is_some() && op_ok(w, op_view(p[k]).unwrap()) && ops_ok(apply_op(w, op_view(p[k]).unwrap()), p, k + 1) }
}
pub open spec fn apply_ops(w: Seq<Value>, p: Seq<Value>, k: int) -> Seq<Value>
    decreases p.len() - k
{
    if k >= p.len() { w } else { apply_ops(apply_op(w, op_view(p[k]).unwrap()), p, k + 1) }
}
/// p encodes the moves ms
pub open spec fn encodes(p: Seq<Value>, ms: Seq<Move>, b: Seq<Value>) -> bool {
    p.len() == ms.len() && forall|j: int| 0 <= j < ms.len() ==> op_view(#[trigger] p[j]) == Some(enc_move(ms[j], b))
}

/// C16: applying the edit script of ANY valid edit path from old to new turns old into new
/// (repeated elements, reorderings, emptying and refilling included: the path contract is all that is used)
pub proof fn lemma_patch_roundtrip(a: Seq<Value>, b: Seq<Value>, ms: Seq<Move>, p: Seq<Value>, k: int, x: int, y: int, w: Seq<Value>)
    requires
        0 <= k <= ms.len(), valid_path(a, b, ms, k, x, y), encodes(p, ms, b),
        0 <= x <= a.len(), 0 <= y <= b.len(),
        w == b.subrange(0, y) + a.subrange(x, a.len() as int),
    ensures ops_ok(w, p, k), apply_ops(w, p, k) == b,
    decreases ms.len() - k
{
    if k >= ms.len() {
        // trailing diagonal: w == b
        assert(w =~= b) by {
            assert(w.len() == b.len());
            assert forall|i: int| 0 <= i < w.len() implies w[i] == b[i] by { if i >= y { assert(a[x + (i - y)] == b[(x + (i - y)) - x + y]); } }
        }
    } else {
        let m = ms[k];
        let sx = m.1.0 as int; let sy = m.1.1 as int; let tx = m.2.0 as int; let ty = m.2.1 as int;
        // slide along the diagonal (x,y) -> (sx,sy): the working array does not change
        let w1 = b.subrange(0, sy) + a.subrange(sx, a.len() as int);
        assert(w =~= w1) by {
            assert(w.len() == w1.len());
            assert forall|i: int| 0 <= i < w.len() implies w[i] == w1[i] by {
                if y <= i < sy { assert(a[x + (i - y)] == b[(x + (i - y)) - x + y]); }
            }
        }
        let o = enc_move(m, b);
        assert(op_view(p[k]) == Some(o));
        let w2 = apply_op(w, o);
        if is_ins(m) {
            assert(w2 =~= b.subrange(0, ty) + a.subrange(tx, a.len() as int));
        } else {
            assert(w2 =~= b.subrange(0, ty) + a.subrange(tx, a.len() as int));
        }
        lemma_patch_roundtrip(a, b, ms, p, k + 1, tx, ty, w2);
    }
}
/// every move of a valid path stays inside the two arrays (needed for the casts and the slice in make_diff_patch)
pub proof fn lemma_path_in_range(a: Seq<Value>, b: Seq<Value>, ms: Seq<Move>, k: int, x: int, y: int, j: int)
    requires 0 <= k <= j < ms.len(), valid_path(a, b, ms, k, x, y),
    ensures
        0 <= ms[j].1.0 <= ms[j].2.0 <= a.len(), 0 <= ms[j].1.1 <= ms[j].2.1 <= b.len(),
        is_ins(ms[j]) || is_del(ms[j]),
    decreases ms.len() - k
{
    if k < j { lemma_path_in_range(a, b, ms, k + 1, ms[k].2.0 as int, ms[k].2.1 as int, j); }
}

/// p is the edit script of some valid edit path from a to b
pub open spec fn is_patch_of(p: Seq<Value>, a: Seq<Value>, b: Seq<Value>) -> bool {
    exists|ms: Seq<Move>| valid_path(a, b, ms, 0, 0, 0) && #[trigger] encodes(p, ms, b)
}
/// C16: every stored edit script reconstructs exactly the array that was submitted
pub proof fn lemma_make_then_apply(p: Seq<Value>, a: Seq<Value>, b: Seq<Value>)
    requires is_patch_of(p, a, b),
    ensures ops_ok(a, p, 0), apply_ops(a, p, 0) == b,
{
    let ms = choose|ms: Seq<Move>| valid_path(a, b, ms, 0, 0, 0) && #[trigger] encodes(p, ms, b);
    assert(a =~= b.subrange(0, 0) + a.subrange(0, a.len() as int));
    lemma_patch_roundtrip(a, b, ms, p, 0, 0, 0, a);
}
