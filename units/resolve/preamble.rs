// ---- unit `resolve`: Melda::resolve_as / Melda::read_object_at_revision (src/melda.rs) — property C07 ----
// "Resolving a conflict on an object in favour of one of its live leaves removes the object from the conflict set and makes
//  its visible state equal to the state at the chosen revision, including being absent from the document when the chosen
//  revision is a deletion; choosing the current winner leaves the document unchanged."
//
// Included: unit `edit` (-> `tree` -> `rev`): Revision, RevisionTree (add / get_leafs / get_winner re-verified from the real code),
// struct Melda (lock-erased mirror), Melda::update_object / delete_object with their PROVED contracts (re-verified here).
// Proved FROM THE REAL CODE here: Melda::resolve_as, Melda::read_object_at_revision.
// ASSUMED (every `#[verifier::external_body]` item below, each with its source):
//   * `Melda::get_merged_order_at_revision`  — ASSUMED HERE, PROVED IN unit `orderlink` (text copied, vocabulary of unit edit; see there)
//   * `DataStorage::read_object`             — ASSUMED HERE, PROVED IN unit `pack` (restated over opaque views) + "a readable revision reads" (no transient failure)
//   * `ArrayDescriptor::new_from_order(..).to_json_object()` — ASSUMED HERE, PROVED IN unit `chain` (to_json_object / new_from_object from the real bodies)
//   * `Revision::from` (regex)               — shim `vx_rev_parse` of unit `block`
//   * shared lookup in `documents`, BTreeSet iteration + clone — assumed of std
// Modelling (R6, lock erasure): single-threaded SEQUENTIAL meaning of the body.  The real function takes and drops the locks in
// three phases; another thread could run between them (not modelled).  The Mutex<LruCache> of array descriptors is interior-mutable
// and its content is not tracked (`get_merged_order_at_revision` takes `&self`): unit edit's `spec_order` is a function of storage and
// tree only; that the cache is transparent is PROVED in units chain / orderlink ("for EVERY cache content satisfying the invariant").
// PANICS (`.expect(..)` on a Result / Option) are preconditions (vstd: `Result::expect` requires `is Ok`), as in unit edit.

// ================================================================ shims
/// `docs_r.get(uuid)` + `rt.lock().expect(..)` in the blocks of resolve_as that only READ the tree: shared lookup
/// (assumed of std BTreeMap::get; same shim as in unit `conflict`)
#[verifier::external_body]
pub fn vx_docs_get<'a>(m: &'a BTreeMap<String, RevisionTree>, k: &str) -> (r: Option<&'a RevisionTree>)
    ensures match r { Some(t) => dmap(*m).contains_key(k@) && *t == dmap(*m)[k@], None => !dmap(*m).contains_key(k@) },
{ unimplemented!() }
/// what `Revision::from` (regexes FULL_REV / FIRST_REV) reads from a text; None = rejected.  Uninterpreted.  (SOURCE: unit `block`)
pub uninterp spec fn rev_parse(s: Seq<char>) -> Option<RevV>;
// ASSUMED (regex): `Revision::from` is a function of the text and does not panic (SOURCE: unit `block`, text copied)
#[verifier::external_body]
pub fn vx_rev_parse(s: &str) -> (r: Result<Revision, VxError>)
    ensures match r { Ok(x) => rev_parse(s@) == Some(x@), Err(_) => rev_parse(s@) is None },
{ unimplemented!() }
/// `leafs.iter().map(|r| (*r).clone()).collect::<Vec<Revision>>()`: every element of the set, cloned (order not used)
#[verifier::external_body]
pub fn vx_leafs_vec(s: &BTreeSet<Revision>) -> (v: Vec<Revision>)
    ensures
        forall|i: int| 0 <= i < v.len() ==> s@.contains(#[trigger] v@[i]),
        forall|r: Revision| s@.contains(r) ==> exists|i: int| 0 <= i < v.len() && #[trigger] v@[i] == r,
{ unimplemented!() }

// ================================================================ reading the state of an object at a revision
/// `o` is an object `DataStorage::read_object` may return for a revision with identifier `v` in storage state `d`
/// (unit pack: the fixed object of a special revision / an object cached under its own digest / the object staged or packed under the digest)
pub uninterp spec fn ds_holds(d: DataStorage, v: RevV, o: JMap) -> bool;
/// unit pack's precondition of read_object (`cache_inv`, `objects_only`), opaque here
pub uninterp spec fn ds_read_pre(d: DataStorage, v: RevV) -> bool;
/// the revision's object can be read (staged, or indexed in a pack whose bytes are there and hash-check): an ASSUMPTION about
/// the storage state — the real code `.expect("cannot_read_object")`s, i.e. PANICS, otherwise
pub uninterp spec fn ds_readable(d: DataStorage, v: RevV) -> bool;
impl DataStorage {
    /// ASSUMED HERE, PROVED IN unit `pack` (DataStorage::read_object: a returned object is one storage holds for the digest; a
    /// special revision never fails), restated over opaque views; PLUS the assumption that a readable revision reads
    /// (deterministic storage: no transient I/O failure — same assumption as unit chain's read shim)
    #[verifier::external_body]
    pub fn read_object(&self, revision: &Revision) -> (r: Result<JMap, VxError>)
        requires ds_read_pre(*self, revision@),
        ensures match r { Ok(o) => ds_holds(*self, revision@, o), Err(_) => !rev_special(revision@) && !ds_readable(*self, revision@) },
    { unimplemented!() }
}
/// mirror-free shim of `struct ArrayDescriptor` (opaque): only the composition `new_from_order(order).to_json_object()` is used
#[verifier::external_body]
pub struct ArrayDescriptor { d: () }
pub uninterp spec fn ad_order(d: ArrayDescriptor) -> Seq<Value>;
/// the full descriptor object `{"A": [..order..]}` of an order
pub uninterp spec fn full_descr(order: Seq<Value>) -> JMap;
impl ArrayDescriptor {
    /// ASSUMED HERE, PROVED IN unit `chain` (real body: `ArrayDescriptor { patch: None, order: Some(order) }`)
    #[verifier::external_body]
    pub fn new_from_order(order: Vec<Value>) -> (d: ArrayDescriptor)
        ensures ad_order(d) == order@,
    { unimplemented!() }
    /// ASSUMED HERE, PROVED IN unit `chain` (to_json_object / new_from_object from the real bodies: the object of a full
    /// descriptor is a function of its order and reads back as that order = unit edit's `submitted_order`)
    #[verifier::external_body]
    pub fn to_json_object(&self) -> (o: JMap)
        ensures o == full_descr(ad_order(*self)), submitted_order(o) == ad_order(*self),
    { unimplemented!() }
}

// ---- Melda::get_merged_order_at_revision: ASSUMED HERE, PROVED IN unit `orderlink` ----
// Text of units/orderlink/contracts.toml copied; substitutions (unit edit's opaque vocabulary instead of unit chain's defined one):
//   spec_order(rt.revisions@, old(self).data.objects(), r)            -> spec_order(self.data, *rt, r)          [unit edit: uninterpreted]
//   chain_ok(rt.revisions@, old(self).data.objects(), r)              -> chain_ok(self.data, *rt, r)            [uninterpreted here]
//   cache_inv(old(self).array_descriptors_cache, rt.revisions@, objs) -> arr_cache_inv(self.array_descriptors_cache, self.data, *rt)
//   `&mut self` (LRU) -> `&self`: the cache content is not tracked (see header); `final(self).data == old(self).data` and
//   `cache_inv(final ..)` therefore have no counterpart.
// ADDED: the result is a FUNCTION of storage, tree and revision (`spec_merged_order`): the code is deterministic (ordered
// iteration of a BTreeSet, pure merge) — needed to speak about "the state of a flattened array at the chosen revision".
pub uninterp spec fn chain_ok(data: DataStorage, t: RevisionTree, r: Revision) -> bool;
pub uninterp spec fn arr_cache_inv(c: ArrCacheShim, data: DataStorage, t: RevisionTree) -> bool;
pub uninterp spec fn spec_merged_order(data: DataStorage, t: RevisionTree, c: Revision) -> Seq<Value>;
pub open spec fn no_dup(s: Seq<Value>) -> bool { forall|i: int, j: int| 0 <= i < j < s.len() ==> s[i] != s[j] }
pub open spec fn embeds(a: Seq<Value>, b: Seq<Value>, pos: Seq<int>) -> bool {
    pos.len() == a.len()
    && (forall|i: int| 0 <= i < a.len() ==> 0 <= #[trigger] pos[i] < b.len() && b[pos[i]] == a[i])
    && (forall|i: int, j: int| 0 <= i < j < a.len() ==> pos[i] < pos[j])
}
pub open spec fn is_subseq(a: Seq<Value>, b: Seq<Value>) -> bool { exists|pos: Seq<int>| embeds(a, b, pos) }
pub open spec fn merged_order_pre(m: Melda, rt: RevisionTree, base: Revision) -> bool {
    &&& rt.state is Validated && rev_models() && tree_wf(rt.revisions@)
    &&& arr_cache_inv(m.array_descriptors_cache, m.data, rt)
    &&& chain_ok(m.data, rt, base)
    &&& rt.leafs_cache@.len() > 1 ==> forall|l: Revision| rt.leafs_cache@.contains(l) ==> #[trigger] chain_ok(m.data, rt, l)
    &&& no_dup(spec_order(m.data, rt, base))
    &&& forall|l: Revision| rt.leafs_cache@.contains(l) ==> no_dup(#[trigger] spec_order(m.data, rt, l))
    &&& spec_order(m.data, rt, base).len() < 0x1000_0000
    &&& forall|l: Revision| rt.leafs_cache@.contains(l) ==> #[trigger] spec_order(m.data, rt, l).len() < 0x1000_0000
    &&& rt.leafs_cache@.len() < 0x1000_0000
}
impl Melda {
    #[verifier::external_body]
    pub fn get_merged_order_at_revision(&self, rt: &RevisionTree, base_revision: &Revision) -> (ret: Result<Vec<Value>, VxError>)
        requires merged_order_pre(*self, *rt, *base_revision),
        ensures match ret {
            Ok(v) => {
                &&& v@ == spec_merged_order(self.data, *rt, *base_revision)
                &&& if rt.leafs_cache@.len() > 1 {
                    // every element of every live leaf's order and of the chosen base appears exactly once; the base keeps its order
                    &&& no_dup(v@)
                    &&& forall|x: Value| v@.contains(x) <==> (spec_order(self.data, *rt, *base_revision).contains(x)
                            || exists|l: Revision| rt.leafs_cache@.contains(l) && #[trigger] spec_order(self.data, *rt, l).contains(x))
                    &&& is_subseq(spec_order(self.data, *rt, *base_revision), v@)
                } else { v@ == spec_order(self.data, *rt, *base_revision) }
            },
            // under the stated preconditions the read never fails
            Err(_) => false,
        },
    { unimplemented!() }
}

/// THE STATE OF OBJECT `u` AT REVISION `c` (tree `t`, storage `data`) is object `o`:
/// a flattened-array descriptor: the FULL descriptor of the merged order at `c`; any other object: an object storage holds for `c`
pub open spec fn state_at(data: DataStorage, t: RevisionTree, u: Seq<char>, c: Revision, o: JMap) -> bool {
    if is_arr(u) { o == full_descr(spec_merged_order(data, t, c)) && submitted_order(o) == spec_merged_order(data, t, c) }
    else { ds_holds(data, c@, o) }
}
/// what reading that state needs (panics of the real code, as preconditions)
pub open spec fn read_pre(m: Melda, t: RevisionTree, u: Seq<char>, c: Revision) -> bool {
    if is_arr(u) { merged_order_pre(m, t, c) } else { ds_read_pre(m.data, c@) && ds_readable(m.data, c@) }
}

// ================================================================ spec of the property statement (C07)
pub open spec fn deleted(v: RevV) -> bool { v.1 == DELETED_HASH@ }
/// `c` is the chosen revision: it has the identifier the caller wrote and is one of the live leaves the tree reports
pub open spec fn chosen(t0: RevisionTree, cv: RevV, c: Revision) -> bool { c@ == cv && t0.leafs_cache@.contains(c) }
/// preconditions of resolve_as on a KNOWN object (all of them what the callees need; nothing is required of an unknown object)
pub open spec fn resolve_pre(m0: Melda, u: Seq<char>, cv: RevV) -> bool {
    let d0 = dmap(m0.documents);
    d0.contains_key(u) ==> {
        let t0 = d0[u];
        // the tree is validated (get_leafs / get_winner panic otherwise), parent links go to smaller indices (`add`)
        &&& known_pre(t0)
        // no u32 overflow of the index of the update child and of the resolution markers
        &&& forall|k: Revision| #[trigger] t0.revisions@.contains_key(k) ==> k.index < u32::MAX - 1
        // every recorded parent is recorded (replica invariant: blocks are applied after their parents).  With it the tree
        // still has a live leaf after the edit, whatever the guards did (`get_winner().expect("revision_tree_invalid_state")`)
        &&& closed(t0.revisions@)
        // the state at the chosen revision can be read ...
        &&& forall|c: Revision| c@ == cv && #[trigger] t0.leafs_cache@.contains(c) ==> read_pre(m0, t0, u, c)
        // ... and submitted as an update (preconditions of update_object: digestible, DataStorage::write_object's precondition)
        &&& forall|c: Revision, o: JMap| chosen(t0, cv, c) && #[trigger] state_at(m0.data, t0, u, c, o) ==> update_known_pre(m0.data, t0, u, o)
        // ... and the content that gets stored then has a plain digest (digest_object: a SHA-256 hex digest, or the `#` field of
        // a charcode object — never the one-letter digest of a resolution marker or of a deletion)
        &&& forall|c: Revision, o: JMap| chosen(t0, cv, c) && #[trigger] state_at(m0.data, t0, u, c, o) ==> stored_plain(m0.data, t0, u, o)
    }
}
pub open spec fn stored_plain(data: DataStorage, t0: RevisionTree, u: Seq<char>, o: JMap) -> bool {
    match t0.winner_cache {
        Some(w0) => match edit_content(data, t0, w0, u, o) { Some(e) => plain(obj_digest(e)), None => true },
        None => true,
    }
}
/// every recorded parent is recorded (blocks are applied after their parents)
pub open spec fn closed(m: RevMap) -> bool {
    forall|k: Revision| #[trigger] m.contains_key(k) ==> (match m[k].parent { Some(p) => m.contains_key(p), None => true })
}
/// recorded revisions are identified by their identifiers (true of the real Eq / Hash impls of Revision; stated because spec
/// equality of `String` is not content equality in Verus)
pub open spec fn keys_by_view(m: RevMap) -> bool {
    forall|a: Revision, b: Revision| #[trigger] m.contains_key(a) && #[trigger] m.contains_key(b) && a@ == b@ ==> a == b
}
pub open spec fn tail_of(pv: RevV) -> Seq<char> { take7(sha_hex(rev_str(pv))) }
/// identifier `kv` has the form of a child of identifier `pv` (index + 1, tail = 7 hex digits of the hash of the parent's text)
pub open spec fn id_child(kv: RevV, pv: RevV) -> bool { kv.0 == pv.0 + 1 && kv.2 == Some(tail_of(pv)) }
/// NO COLLISION of the 7-digit tails WITHIN THIS TREE: a recorded revision whose identifier has the form of a child of a
/// recorded revision p is recorded as a child of p, and two recorded revisions of the same index with the same tail-of-text are
/// the same.  (Collision freedom of SHA-256 prefixes is never assumed globally; this is the freshness hypothesis of C07: the
/// identifiers resolve_as creates — the update child of the winner, the markers of the other leaves — are new.)
pub open spec fn ids_consistent(m: RevMap) -> bool {
    &&& forall|k: Revision, p: Revision| m.contains_key(k) && m.contains_key(p) && #[trigger] id_child(k@, p@) ==> m[k].parent == Some(p)
    &&& forall|p1: Revision, p2: Revision| #[trigger] m.contains_key(p1) && #[trigger] m.contains_key(p2) && p1.index == p2.index && tail_of(p1@) == tail_of(p2@) ==> p1@ == p2@
}
/// a content digest that is none of the one-letter digests of resolution markers / deletions (every SHA-256 hex digest is one)
pub open spec fn plain(d: Seq<char>) -> bool { d != RESOLVED_HASH@ && d != DELETED_HASH@ }
/// HYPOTHESES of the C07 clauses (1)-(3) (NOT preconditions: the frame and the error clauses hold without them)
pub open spec fn c07_hyp(m0: Melda, u: Seq<char>, cv: RevV) -> bool {
    let t0 = dmap(m0.documents)[u];
    &&& keys_by_view(t0.revisions@) && ids_consistent(t0.revisions@)
    // CONTENT ADDRESSING: the object storage holds for a revision that is not a deletion has the revision's digest as content digest
    &&& !is_arr(u) && !deleted(cv) ==> forall|c: Revision, o: JMap| chosen(t0, cv, c) && #[trigger] state_at(m0.data, t0, u, c, o) ==> obj_digest(o) == cv.1
}

/// every recorded entry of `a` is recorded unchanged in `b`
pub open spec fn sub(a: RevMap, b: RevMap) -> bool {
    forall|k: Revision| #[trigger] a.contains_key(k) ==> b.contains_key(k) && b[k] == a[k]
}
/// tree `b` is tree `a` plus STAGED additions (nothing recorded is lost or altered)
pub open spec fn tree_grows(a: RevisionTree, b: RevisionTree) -> bool {
    &&& sub(a.revisions@, b.revisions@)
    &&& forall|r: Revision| #[trigger] b.revisions@.contains_key(r) && !a.revisions@.contains_key(r) ==> b.revisions@[r].staging
}
pub open spec fn put_is(d0: DataStorage, v: RevV, o: JMap, s1: Map<Seq<char>, JMap>) -> bool { s1 == stage_put(d0, v, o) }
/// the staged objects change by at most ONE `DataStorage::write_object` (unit pack / edit: first write of a digest wins, special
/// revisions store nothing: nothing staged is dropped)
pub open spec fn stage_step(d0: DataStorage, s1: Map<Seq<char>, JMap>) -> bool {
    s1 == ds_stage(d0) || exists|v: RevV, o: JMap| #[trigger] put_is(d0, v, o, s1)
}
/// (4) FRAME: blocks untouched; no object other than `u` appears, disappears or changes; `u` is neither added nor removed; its
/// tree only gains staged entries, is validated afterwards (caches = leaves / winner of the recorded set) and keeps the flag
/// invariant; the staged objects change by at most one write_object
pub open spec fn res_frame(m0: Melda, m1: Melda, u: Seq<char>) -> bool {
    let d0 = dmap(m0.documents); let d1 = dmap(m1.documents);
    &&& m1.deltas == m0.deltas
    &&& others_unchanged(d0, d1, u)
    &&& (d1.contains_key(u) <==> d0.contains_key(u))
    &&& d0.contains_key(u) ==> {
        &&& tree_grows(d0[u], d1[u])
        &&& validated_ok(d1[u]) && tree_wf(d1[u].revisions@)
        &&& (tree_inv(d0[u]) ==> tree_inv(d1[u]))
    }
    &&& stage_step(m0.data, ds_stage(m1.data))
}
/// (1) NOT IN CONFLICT: the tree has exactly one live leaf (up to identifier equality), it is the cached winner and `s` is its text
pub open spec fn not_in_conflict(t: RevisionTree, s: Seq<char>) -> bool {
    &&& t.winner_cache is Some
    &&& live(t.revisions@, t.winner_cache->0)
    &&& rev_str(t.winner_cache->0@) == s
    &&& forall|l: Revision| #[trigger] live(t.revisions@, l) ==> l@ == t.winner_cache->0@
}
/// flattened array, order `mo` chosen: either the previous winner w0 is a LIVE version with exactly that order and nothing was
/// recorded for it, or the new winner is the child of w0 whose stored content is the edit script from w0's order to `mo` (unit
/// chain, C16: that revision reconstructs to exactly `mo`) — also when w0 is a DELETION whose (empty) order equals `mo`: the
/// script is then empty, but the array is a version again
pub open spec fn array_shows(m0: Melda, m1: Melda, t0: RevisionTree, w0: Revision, wv: RevV, mo: Seq<Value>) -> bool {
    if mo == spec_order(m0.data, t0, w0) && !deleted(w0@) { wv == w0@ && m1.data == m0.data }
    else {
        let e = script_descr(spec_order(m0.data, t0, w0), mo);
        wv == edit_rev(obj_digest(e), Some(w0)) && ds_stage(m1.data) == stage_put(m0.data, wv, e)
    }
}
/// (2) + (3) for a chosen revision that is NOT a deletion; `wv` = identifier of the winner afterwards
pub open spec fn shows(m0: Melda, m1: Melda, t0: RevisionTree, wv: RevV, u: Seq<char>, cv: RevV) -> bool {
    let w0 = t0.winner_cache->0;
    // not deleted afterwards
    &&& !deleted(wv)
    // plain object: same content digest as the chosen revision
    &&& !is_arr(u) ==> wv.1 == cv.1
    // (3) choosing the current winner: the winner stays, nothing is stored
    &&& !is_arr(u) && cv == w0@ ==> wv == w0@ && m1.data == m0.data
    // flattened array: the merged order at the chosen revision
    &&& is_arr(u) ==> forall|c: Revision| #[trigger] chosen(t0, cv, c) ==> array_shows(m0, m1, t0, w0, wv, spec_merged_order(m0.data, t0, c))
}
pub open spec fn only_markers_added(a: RevMap, b: RevMap) -> bool {
    forall|k: Revision| #[trigger] b.contains_key(k) && !a.contains_key(k) ==> marker(k@)
}

// ================================================================ phase A (the edit) -> phase B (sealing): what sealing needs
pub open spec fn marker_id(l: Revision) -> RevV { child_of((l.index + 1) as u32, RESOLVED_HASH@, Some(l@)) }
pub open spec fn sealable(m: RevMap, w: Revision) -> bool {
    &&& closed(m) && keys_by_view(m)
    // the markers of the live leaves other than the winner are new ...
    &&& forall|l: Revision, k: Revision| #[trigger] live(m, l) && l@ != w@ && #[trigger] m.contains_key(k) ==> k@ != marker_id(l)
    // ... and pairwise different
    &&& forall|l1: Revision, l2: Revision| #[trigger] live(m, l1) && #[trigger] live(m, l2) && l1@ != w@ && l2@ != w@ && marker_id(l1) == marker_id(l2) ==> l1 == l2
}
/// summary of phase A: `m1` is the replica after the edit (update_object or delete_object) of resolve_as
pub open spec fn edited(m0: Melda, m1: Melda, u: Seq<char>, cv: RevV) -> bool {
    let t0 = dmap(m0.documents)[u]; let t1 = dmap(m1.documents)[u];
    &&& dmap(m0.documents).contains_key(u) && dmap(m1.documents).contains_key(u)
    &&& res_frame(m0, m1, u)
    &&& t0.winner_cache is Some && t1.winner_cache is Some
    &&& bounded(t1.revisions@)
    &&& c07_hyp(m0, u, cv) ==> {
        &&& sealable(t1.revisions@, t1.winner_cache->0)
        &&& !deleted(cv) ==> shows(m0, m1, t0, t1.winner_cache->0@, u, cv)
        &&& !deleted(cv) && !is_arr(u) && cv == t0.winner_cache->0@ ==> t1.revisions@ == t0.revisions@
    }
}
/// what the DELETION path adds: the winner after the edit is a deletion; choosing the current (deleted) winner records nothing
pub open spec fn del_ok(m0: Melda, m1: Melda, u: Seq<char>, cv: RevV) -> bool {
    let t0 = dmap(m0.documents)[u]; let t1 = dmap(m1.documents)[u];
    &&& deleted(t1.winner_cache->0@)
    &&& cv == t0.winner_cache->0@ ==> t1.revisions@ == t0.revisions@ && m1.data == m0.data
}

// ---------------------------------------------------------------- lemmas about `reaches_root` / `live` under extension
pub proof fn lemma_rr_mono(a: RevMap, b: RevMap, r: Revision)
    requires sub(a, b), reaches_root(a, r),
    ensures reaches_root(b, r),
    decreases r.index
{
    if !(r.index == 1 && a[r].parent.is_none()) {
        match a[r].parent { Some(p) => { lemma_rr_mono(a, b, p); } None => {} }
    }
}
pub proof fn lemma_rr_back(a: RevMap, b: RevMap, r: Revision)
    requires sub(a, b), closed(a), a.contains_key(r), reaches_root(b, r),
    ensures reaches_root(a, r),
    decreases r.index
{
    if !(r.index == 1 && b[r].parent.is_none()) {
        match b[r].parent { Some(p) => { assert(a[r].parent == Some(p)); lemma_rr_back(a, b, p); } None => {} }
    }
}
pub proof fn lemma_live_back(a: RevMap, b: RevMap, r: Revision)
    requires sub(a, b), closed(a), a.contains_key(r), live(b, r),
    ensures live(a, r),
{
    lemma_rr_back(a, b, r);
    if is_parent(a, r) {
        let k = choose|k: Revision| #[trigger] a.contains_key(k) && a[k].parent == Some(r);
        assert(b.contains_key(k) && b[k].parent == Some(r));
    }
}
/// spec_cmp on two non-markers is decided by the index first
pub proof fn lemma_cmp_index(a: RevV, b: RevV)
    requires !marker(a), !marker(b), a.0 < b.0,
    ensures spec_cmp(b, a) == std::cmp::Ordering::Greater, spec_cmp(a, b) == std::cmp::Ordering::Less,
{ }
/// recording a NEW non-marker child `x` of the winner `w0` (index + 1) makes `x` the winner; the other live leaves are old live leaves
pub proof fn lemma_winner_after_child(a: RevMap, w0: Revision, x: Revision, st: bool, b: RevMap, wopt: Option<Revision>)
    requires
        is_winner(a, Some(w0)), closed(a), !a.contains_key(x),
        b == a.insert(x, RevisionTreeEntry { parent: Some(w0), staging: st }),
        x.index == w0.index + 1, !marker(x@),
        is_winner(b, wopt),
    ensures
        wopt == Some(x), live(b, x), closed(b),
        forall|l: Revision| #[trigger] live(b, l) && l != x ==> live(a, l) && l != w0,
{
    assert(sub(a, b));
    lemma_rr_mono(a, b, w0);
    assert(reaches_root(b, x));
    if is_parent(b, x) {
        let k = choose|k: Revision| #[trigger] b.contains_key(k) && b[k].parent == Some(x);
        if k != x { assert(a.contains_key(k) && a[k].parent == Some(x)); }
    }
    assert(live(b, x));
    assert forall|l: Revision| #[trigger] live(b, l) && l != x implies live(a, l) && l != w0 by {
        lemma_live_back(a, b, l);
        if l == w0 { assert(b.contains_key(x) && b[x].parent == Some(w0)); }
    }
    match wopt {
        None => { assert(false); }
        Some(w) => {
            if w != x {
                assert(live(a, w));
                assert(spec_cmp(w@, w0@) != std::cmp::Ordering::Greater);
                if w.index > w0.index { lemma_cmp_index(w0@, w@); }
                lemma_cmp_index(w@, x@);
                assert(false);
            }
        }
    }
}
/// the hypotheses make a tree sealable w.r.t. its winner
pub open spec fn bounded(m: RevMap) -> bool { forall|k: Revision| #[trigger] m.contains_key(k) ==> k.index < u32::MAX }
pub proof fn lemma_sealable_same(m: RevMap, w: Revision)
    requires closed(m), keys_by_view(m), ids_consistent(m), bounded(m),
    ensures sealable(m, w),
{
    assert forall|l: Revision, k: Revision| #[trigger] live(m, l) && l@ != w@ && #[trigger] m.contains_key(k) implies k@ != marker_id(l) by {
        if k@ == marker_id(l) { assert(id_child(k@, l@)); assert(m[k].parent == Some(l)); assert(is_parent(m, l)); }
    }
    assert forall|l1: Revision, l2: Revision| #[trigger] live(m, l1) && #[trigger] live(m, l2) && l1@ != w@ && l2@ != w@ && marker_id(l1) == marker_id(l2) implies l1 == l2 by {
        assert(tail_of(l1@) == tail_of(l2@));
    }
}
/// ... and stay so after a new non-marker child of the winner has been recorded
pub proof fn lemma_sealable_child(a: RevMap, w0: Revision, x: Revision, st: bool, b: RevMap)
    requires
        is_winner(a, Some(w0)), closed(a), keys_by_view(a), ids_consistent(a),
        b == a.insert(x, RevisionTreeEntry { parent: Some(w0), staging: st }),
        x.index == w0.index + 1, !marker(x@), id_child(x@, w0@),
        is_winner(b, Some(x)), bounded(a),
    ensures !a.contains_key(x), sealable(b, x),
{
    lemma_child_is_new(a, w0, x);
    lemma_winner_after_child(a, w0, x, st, b, Some(x));
    assert forall|p: Revision, q: Revision| #[trigger] b.contains_key(p) && #[trigger] b.contains_key(q) && p@ == q@ implies p == q by {
        if p == x && q != x { lemma_child_is_new_view(a, w0, x, q); }
        if q == x && p != x { lemma_child_is_new_view(a, w0, x, p); }
    }
    assert forall|l: Revision, k: Revision| #[trigger] live(b, l) && l@ != x@ && #[trigger] b.contains_key(k) implies k@ != marker_id(l) by {
        assert(live(a, l));
        if k@ == marker_id(l) {
            if k == x { assert(marker(x@)); }
            else { assert(id_child(k@, l@)); assert(a[k].parent == Some(l)); assert(is_parent(a, l)); }
        }
    }
    assert forall|l1: Revision, l2: Revision| #[trigger] live(b, l1) && #[trigger] live(b, l2) && l1@ != x@ && l2@ != x@ && marker_id(l1) == marker_id(l2) implies l1 == l2 by {
        assert(live(a, l1) && live(a, l2));
        assert(tail_of(l1@) == tail_of(l2@));
    }
}
/// no recorded revision has the identifier of a child of a live leaf
pub proof fn lemma_child_is_new_view(a: RevMap, w0: Revision, x: Revision, k: Revision)
    requires live(a, w0), ids_consistent(a), id_child(x@, w0@), a.contains_key(k),
    ensures k@ != x@,
{
    if k@ == x@ { assert(id_child(k@, w0@)); assert(a[k].parent == Some(w0)); assert(is_parent(a, w0)); }
}
pub proof fn lemma_child_is_new(a: RevMap, w0: Revision, x: Revision)
    requires live(a, w0), ids_consistent(a), id_child(x@, w0@),
    ensures !a.contains_key(x),
{
    if a.contains_key(x) { lemma_child_is_new_view(a, w0, x, x); }
}
pub proof fn lemma_special_digests()
    ensures DELETED_HASH@ != RESOLVED_HASH@,
{
    reveal_strlit("d"); reveal_strlit("r");
    assert(DELETED_HASH@[0] == 'd'); assert(RESOLVED_HASH@[0] == 'r');
}

// ---------------------------------------------------------------- phase A: from the PROVED contracts of update_object / delete_object (unit edit)
pub open spec fn room(m: RevMap) -> bool { forall|k: Revision| #[trigger] m.contains_key(k) ==> k.index < u32::MAX - 1 }
/// what `child_recorded` (unit edit: a staged child of winner w0 with content digest dg was recorded) means for resolve_as
pub proof fn lemma_child_summary(m0: Melda, m1: Melda, u: Seq<char>, w0: Revision, dg: Seq<char>, ret: Result<Option<String>, VxError>)
    requires
        dmap(m0.documents).contains_key(u),
        validated_ok(dmap(m0.documents)[u]), dmap(m0.documents)[u].winner_cache == Some(w0),
        closed(dmap(m0.documents)[u].revisions@), room(dmap(m0.documents)[u].revisions@),
        child_recorded(m0, m1, u, w0, dg, ret), stage_step(m0.data, ds_stage(m1.data)),
        dg != RESOLVED_HASH@,
    ensures
        res_frame(m0, m1, u), dmap(m1.documents).contains_key(u),
        bounded(dmap(m1.documents)[u].revisions@), dmap(m1.documents)[u].winner_cache is Some,
        keys_by_view(dmap(m0.documents)[u].revisions@) && ids_consistent(dmap(m0.documents)[u].revisions@) ==>
            sealable(dmap(m1.documents)[u].revisions@, dmap(m1.documents)[u].winner_cache->0)
            && dmap(m1.documents)[u].winner_cache->0@ == edit_rev(dg, Some(w0))
            && dmap(m1.documents)[u].revisions@ != dmap(m0.documents)[u].revisions@,
{
    let t0 = dmap(m0.documents)[u]; let t1 = dmap(m1.documents)[u];
    let a = t0.revisions@; let b = t1.revisions@;
    let v = edit_rev(dg, Some(w0));
    let x = choose|r: Revision| #[trigger] edit_by(a, t1, v, Some(w0), r);
    let e = RevisionTreeEntry { parent: Some(w0), staging: true };
    assert(live(a, w0));
    assert(x.index == w0.index + 1 && id_child(x@, w0@) && !marker(x@));
    assert(bounded(b));
    if a.contains_key(x) {
        assert(b == a);
        if keys_by_view(a) && ids_consistent(a) { lemma_child_is_new(a, w0, x); }
        assert(is_winner(a, t1.winner_cache));
    } else {
        assert(b == a.insert(x, e));
        lemma_winner_after_child(a, w0, x, true, b, t1.winner_cache);
        if keys_by_view(a) && ids_consistent(a) {
            assert(bounded(a));
            lemma_sealable_child(a, w0, x, true, b);
            assert(b.contains_key(x));
        }
    }
    assert(tree_grows(t0, t1));
}
/// the replica is unchanged (unit edit's `nothing_changes`): same summary
pub proof fn lemma_same_summary(m0: Melda, m1: Melda, u: Seq<char>)
    requires
        dmap(m0.documents).contains_key(u),
        validated_ok(dmap(m0.documents)[u]), tree_wf(dmap(m0.documents)[u].revisions@),
        closed(dmap(m0.documents)[u].revisions@), room(dmap(m0.documents)[u].revisions@),
        nothing_changes(m0, m1, u),
    ensures
        res_frame(m0, m1, u), dmap(m1.documents).contains_key(u),
        bounded(dmap(m1.documents)[u].revisions@),
        dmap(m1.documents)[u].winner_cache == dmap(m0.documents)[u].winner_cache,
        dmap(m1.documents)[u].revisions@ == dmap(m0.documents)[u].revisions@,
        keys_by_view(dmap(m0.documents)[u].revisions@) && ids_consistent(dmap(m0.documents)[u].revisions@) && dmap(m0.documents)[u].winner_cache is Some ==>
            sealable(dmap(m1.documents)[u].revisions@, dmap(m1.documents)[u].winner_cache->0),
{
    let t0 = dmap(m0.documents)[u]; let t1 = dmap(m1.documents)[u];
    assert(tree_same(t0, t1));
    assert(forall|r: Revision| t1.leafs_cache@.contains(r) <==> t0.leafs_cache@.contains(r));
    assert(validated_ok(t1));
    assert(bounded(t1.revisions@));
    if keys_by_view(t0.revisions@) && ids_consistent(t0.revisions@) && t0.winner_cache is Some {
        lemma_sealable_same(t1.revisions@, t1.winner_cache->0);
    }
}
/// a chosen revision is a live leaf, so the tree has a winner
pub proof fn lemma_chosen_live(t0: RevisionTree, cv: RevV, c: Revision)
    requires validated_ok(t0), chosen(t0, cv, c),
    ensures live(t0.revisions@, c), t0.winner_cache is Some, live(t0.revisions@, t0.winner_cache->0), !marker(cv),
{ }
/// PHASE A by `update_object(uuid, obj)`, obj = the state at the chosen revision c
pub proof fn lemma_edit_update(m0: Melda, m1: Melda, u: Seq<char>, cv: RevV, c: Revision, obj: JMap, r: Result<Option<String>, VxError>)
    requires
        dmap(m0.documents).contains_key(u), resolve_pre(m0, u, cv),
        chosen(dmap(m0.documents)[u], cv, c), state_at(m0.data, dmap(m0.documents)[u], u, c, obj),
        update_post(m0, m1, u, obj, r),
    ensures r is Ok, edited(m0, m1, u, cv),
{
    let t0 = dmap(m0.documents)[u]; let t1 = dmap(m1.documents)[u];
    lemma_chosen_live(t0, cv, c);
    let w0 = t0.winner_cache->0;
    assert(stored_plain(m0.data, t0, u, obj));
    if must_record(m0.data, t0, w0, u, obj) {
        let e = edit_content(m0.data, t0, w0, u, obj)->0;
        assert(put_is(m0.data, edit_rev(obj_digest(e), Some(w0)), e, ds_stage(m1.data)));
        lemma_child_summary(m0, m1, u, w0, obj_digest(e), r);
    } else {
        lemma_same_summary(m0, m1, u);
    }
    if c07_hyp(m0, u, cv) && !deleted(cv) {
        let wv = t1.winner_cache->0@;
        if is_arr(u) {
            assert forall|c2: Revision| #[trigger] chosen(t0, cv, c2) implies array_shows(m0, m1, t0, w0, wv, spec_merged_order(m0.data, t0, c2)) by {
                lemma_chosen_live(t0, cv, c2);
                assert(c2 == c);
            }
        }
        assert(shows(m0, m1, t0, wv, u, cv));
    }
}
/// PHASE A by `delete_object(uuid)` (the chosen revision is a deletion)
pub proof fn lemma_edit_delete(m0: Melda, m1: Melda, u: Seq<char>, cv: RevV, c: Revision, r: Result<Option<String>, VxError>)
    requires
        dmap(m0.documents).contains_key(u), resolve_pre(m0, u, cv),
        chosen(dmap(m0.documents)[u], cv, c), deleted(cv),
        delete_post(m0, m1, u, r),
    ensures r is Ok, edited(m0, m1, u, cv), c07_hyp(m0, u, cv) ==> del_ok(m0, m1, u, cv),
{
    let t0 = dmap(m0.documents)[u]; let t1 = dmap(m1.documents)[u];
    lemma_chosen_live(t0, cv, c);
    lemma_special_digests();
    let w0 = t0.winner_cache->0;
    if w0@.1 == DELETED_HASH@ || marker(w0@) {
        lemma_same_summary(m0, m1, u);
    } else {
        lemma_child_summary(m0, m1, u, w0, DELETED_HASH@, r);
    }
}
/// neither edit can fail (the tree has a winner): stated for EVERY result state, so that it is available before the edit is made
pub proof fn lemma_edit_never_fails(m0: Melda, u: Seq<char>, cv: RevV)
    requires resolve_pre(m0, u, cv),
    ensures
        forall|m1: Melda, obj: JMap, r: Result<Option<String>, VxError>, c: Revision|
            dmap(m0.documents).contains_key(u) && #[trigger] update_post(m0, m1, u, obj, r) && c@ == cv && dmap(m0.documents)[u].leafs_cache@.contains(c) && #[trigger] state_at(m0.data, dmap(m0.documents)[u], u, c, obj)
            ==> r is Ok,
        forall|m1: Melda, r: Result<Option<String>, VxError>, c: Revision|
            dmap(m0.documents).contains_key(u) && #[trigger] delete_post(m0, m1, u, r) && c@ == cv && #[trigger] dmap(m0.documents)[u].leafs_cache@.contains(c) && deleted(cv)
            ==> r is Ok,
{
    assert forall|m1: Melda, obj: JMap, r: Result<Option<String>, VxError>, c: Revision|
            dmap(m0.documents).contains_key(u) && #[trigger] update_post(m0, m1, u, obj, r) && c@ == cv && dmap(m0.documents)[u].leafs_cache@.contains(c) && #[trigger] state_at(m0.data, dmap(m0.documents)[u], u, c, obj)
            implies r is Ok by { lemma_edit_update(m0, m1, u, cv, c, obj, r); }
    assert forall|m1: Melda, r: Result<Option<String>, VxError>, c: Revision|
            dmap(m0.documents).contains_key(u) && #[trigger] delete_post(m0, m1, u, r) && c@ == cv && #[trigger] dmap(m0.documents)[u].leafs_cache@.contains(c) && deleted(cv)
            implies r is Ok by { lemma_edit_delete(m0, m1, u, cv, c, r); }
}
/// both paths, in the form the body of resolve_as uses them: whatever edit the body performed, if it was `update_object` with
/// the state at a chosen revision, or `delete_object` for a chosen deletion, phase A is summarised by `edited` (+ `del_ok`)
pub proof fn lemma_edit_paths(m0: Melda, m1: Melda, u: Seq<char>, cv: RevV)
    requires dmap(m0.documents).contains_key(u), resolve_pre(m0, u, cv),
    ensures
        forall|obj: JMap, r: Result<Option<String>, VxError>, c: Revision|
            #[trigger] update_post(m0, m1, u, obj, r) && c@ == cv && dmap(m0.documents)[u].leafs_cache@.contains(c) && #[trigger] state_at(m0.data, dmap(m0.documents)[u], u, c, obj)
            ==> r is Ok && edited(m0, m1, u, cv),
        forall|r: Result<Option<String>, VxError>, c: Revision|
            #[trigger] delete_post(m0, m1, u, r) && c@ == cv && #[trigger] dmap(m0.documents)[u].leafs_cache@.contains(c) && deleted(cv)
            ==> r is Ok && edited(m0, m1, u, cv) && (c07_hyp(m0, u, cv) ==> del_ok(m0, m1, u, cv)),
{
    assert forall|obj: JMap, r: Result<Option<String>, VxError>, c: Revision|
            #[trigger] update_post(m0, m1, u, obj, r) && c@ == cv && dmap(m0.documents)[u].leafs_cache@.contains(c) && #[trigger] state_at(m0.data, dmap(m0.documents)[u], u, c, obj)
            implies r is Ok && edited(m0, m1, u, cv) by { lemma_edit_update(m0, m1, u, cv, c, obj, r); }
    assert forall|r: Result<Option<String>, VxError>, c: Revision|
            #[trigger] delete_post(m0, m1, u, r) && c@ == cv && #[trigger] dmap(m0.documents)[u].leafs_cache@.contains(c) && deleted(cv)
            implies r is Ok && edited(m0, m1, u, cv) && (c07_hyp(m0, u, cv) ==> del_ok(m0, m1, u, cv)) by { lemma_edit_delete(m0, m1, u, cv, c, r); }
}

// ---------------------------------------------------------------- phase B: sealing the other leaves
/// `k` is the resolution marker recorded for one of the first n leaves (other than the winner)
pub open spec fn seal_key(cm: RevMap, leafs: Seq<Revision>, n: int, w1: Revision, k: Revision) -> bool {
    marker(k@) && exists|j: int| 0 <= j < n && (#[trigger] leafs[j])@ != w1@ && cm[k].parent == Some(leafs[j]) && k@ == marker_id(leafs[j])
}
/// loop invariant of the seal loop: `t1` = tree after phase A, `cur` = tree now, the first n leaves are done
pub open spec fn seal_inv(t1: RevisionTree, cur: RevisionTree, leafs: Seq<Revision>, n: int, w1: Revision) -> bool {
    &&& tree_wf(cur.revisions@) && validated_ok(cur)
    &&& tree_grows(t1, cur)
    &&& (tree_inv(t1) ==> tree_inv(cur))
    &&& forall|k: Revision| #[trigger] cur.revisions@.contains_key(k) && !t1.revisions@.contains_key(k) ==> seal_key(cur.revisions@, leafs, n, w1, k)
    &&& sealable(t1.revisions@, w1) ==> forall|j: int| 0 <= j < n && (#[trigger] leafs[j])@ != w1@ ==> is_parent(cur.revisions@, leafs[j])
}
pub proof fn lemma_seal_skip(t1: RevisionTree, a: RevisionTree, leafs: Seq<Revision>, i: int, w1: Revision)
    requires seal_inv(t1, a, leafs, i, w1), 0 <= i < leafs.len(), leafs[i]@ == w1@,
    ensures seal_inv(t1, a, leafs, i + 1, w1),
{
    assert forall|k: Revision| #[trigger] a.revisions@.contains_key(k) && !t1.revisions@.contains_key(k) implies seal_key(a.revisions@, leafs, i + 1, w1, k) by {
        assert(seal_key(a.revisions@, leafs, i, w1, k));
        let j = choose|j: int| 0 <= j < i && (#[trigger] leafs[j])@ != w1@ && a.revisions@[k].parent == Some(leafs[j]) && k@ == marker_id(leafs[j]);
        assert(0 <= j < i + 1 && leafs[j]@ != w1@);
    }
}
pub proof fn lemma_seal_step(t1: RevisionTree, a: RevisionTree, b: RevisionTree, leafs: Seq<Revision>, i: int, w1: Revision, mk: Revision)
    requires
        seal_inv(t1, a, leafs, i, w1), 0 <= i < leafs.len(), leafs[i]@ != w1@,
        leafs_live(t1, leafs), bounded(t1.revisions@),
        mk@ == marker_id(leafs[i]), marker(mk@),
        b.revisions@ == record(a.revisions@, mk, RevisionTreeEntry { parent: Some(leafs[i]), staging: true }),
        tree_wf(b.revisions@), validated_ok(b), tree_inv(a) ==> tree_inv(b),
    ensures seal_inv(t1, b, leafs, i + 1, w1),
{
    let am = a.revisions@; let bm = b.revisions@; let l = leafs[i];
    assert forall|k: Revision| #[trigger] bm.contains_key(k) && !t1.revisions@.contains_key(k) implies seal_key(bm, leafs, i + 1, w1, k) by {
        if am.contains_key(k) {
            assert(seal_key(am, leafs, i, w1, k));
            let j = choose|j: int| 0 <= j < i && (#[trigger] leafs[j])@ != w1@ && am[k].parent == Some(leafs[j]) && k@ == marker_id(leafs[j]);
            assert(0 <= j < i + 1 && leafs[j]@ != w1@ && bm[k].parent == Some(leafs[j]));
        } else {
            assert(k == mk);
            assert(0 <= i < i + 1 && leafs[i]@ != w1@ && bm[k].parent == Some(leafs[i]));
        }
    }
    if sealable(t1.revisions@, w1) {
        assert forall|j: int| 0 <= j < i + 1 && (#[trigger] leafs[j])@ != w1@ implies is_parent(bm, leafs[j]) by {
            if j < i {
                let k = choose|k: Revision| #[trigger] am.contains_key(k) && am[k].parent == Some(leafs[j]);
                assert(bm.contains_key(k) && bm[k].parent == Some(leafs[j]));
            } else if am.contains_key(mk) {
                // the marker is already there: it is not a revision of t1 (fresh), so it was recorded for an earlier leaf with the
                // same marker identifier — that leaf is this one
                assert(!t1.revisions@.contains_key(mk));
                assert(seal_key(am, leafs, i, w1, mk));
                let j2 = choose|j2: int| 0 <= j2 < i && (#[trigger] leafs[j2])@ != w1@ && am[mk].parent == Some(leafs[j2]) && mk@ == marker_id(leafs[j2]);
                assert(is_parent(am, leafs[j2]));
                lemma_same_marker_same_leaf(t1, a, leafs, i, w1, j2);
                assert(bm.contains_key(mk) && bm[mk].parent == Some(l));
            } else {
                assert(bm.contains_key(mk) && bm[mk].parent == Some(l));
            }
        }
    }
    assert(tree_grows(t1, b));
}
/// all leaves handed to the loop are live leaves of t1: two of them with the same marker identifier are the same
pub open spec fn leafs_live(t1: RevisionTree, leafs: Seq<Revision>) -> bool {
    forall|i: int| 0 <= i < leafs.len() ==> live(t1.revisions@, #[trigger] leafs[i])
}
pub proof fn lemma_same_marker_same_leaf(t1: RevisionTree, a: RevisionTree, leafs: Seq<Revision>, i: int, w1: Revision, j2: int)
    requires
        sealable(t1.revisions@, w1), 0 <= j2 < i < leafs.len(), leafs[i]@ != w1@, leafs[j2]@ != w1@,
        live(t1.revisions@, leafs[i]), marker_id(leafs[j2]) == marker_id(leafs[i]),
        leafs_live(t1, leafs),
    ensures leafs[j2] == leafs[i],
{
    assert(live(t1.revisions@, leafs[j2]));
}

/// after the loop: exactly one live leaf (up to identifier equality), it has the identifier of the winner of phase A and it is
/// what the caches report; everything recorded by the loop is a resolution marker
pub proof fn lemma_sealed(t1: RevisionTree, t: RevisionTree, leafs: Seq<Revision>, w1: Revision)
    requires
        seal_inv(t1, t, leafs, leafs.len() as int, w1), validated_ok(t1), t1.winner_cache == Some(w1),
        forall|r: Revision| t1.leafs_cache@.contains(r) ==> exists|i: int| 0 <= i < leafs.len() && #[trigger] leafs[i] == r,
    ensures
        only_markers_added(t1.revisions@, t.revisions@),
        sealable(t1.revisions@, w1) ==> not_in_conflict(t, rev_str(w1@)) && t.winner_cache->0@ == w1@,
{
    let a = t1.revisions@; let b = t.revisions@;
    assert forall|k: Revision| #[trigger] b.contains_key(k) && !a.contains_key(k) implies marker(k@) by { assert(seal_key(b, leafs, leafs.len() as int, w1, k)); }
    if sealable(a, w1) {
        assert(live(a, w1));
        lemma_rr_mono(a, b, w1);
        if is_parent(b, w1) {
            let k = choose|k: Revision| #[trigger] b.contains_key(k) && b[k].parent == Some(w1);
            if a.contains_key(k) { assert(is_parent(a, w1)); }
            else { assert(seal_key(b, leafs, leafs.len() as int, w1, k)); }
        }
        assert(live(b, w1));
        assert forall|l: Revision| #[trigger] live(b, l) implies l@ == w1@ by {
            if !a.contains_key(l) { assert(seal_key(b, leafs, leafs.len() as int, w1, l)); }
            lemma_live_back(a, b, l);
            assert(t1.leafs_cache@.contains(l));
            let i = choose|i: int| 0 <= i < leafs.len() && #[trigger] leafs[i] == l;
            if l@ != w1@ { assert(is_parent(b, leafs[i])); }
        }
        assert(is_winner(b, t.winner_cache));
    }
}
pub open spec fn res_text_of(ret: Result<String, VxError>) -> Seq<char> { match ret { Ok(s) => s@, Err(_) => Seq::<char>::empty() } }
