// NATIVE REPLAY of the finding behind the clause `// C07-array-revive` of Melda::resolve_as (unit `resolve`).
// Not framework code.  Bin crate with `melda = { path = "/repo", default-features = false }`, `serde_json = "1"`; builds offline.
// Flattened-array descriptor "^x": replica A records [] -> ["a"] -> [] -> DELETED (4 revisions, the winner: longest history),
// replica B records [] -> ["b"] -> [] (3 revisions: a live leaf that is NOT a deletion, order empty).  After meld the object is in
// conflict; `resolve_as("^x", <B's leaf>)` computes the merged order [] at the chosen revision, which EQUALS the (empty) order of
// the deleted winner, so update_object records nothing (empty edit script), the other leaf is sealed and the object STAYS DELETED:
//   A delete -> Ok(Some("4-d_01f9a66"))
//   conflicts={"^x"}
//   winner=4-d_01f9a66 conflicting={"3-1936084b51fae3026c2c838a5d791d24bdcbd5423ac02d90a4db530efe4c3f54_e4a4ac9"}
//   resolve_as(3-1936084b...) -> Ok("4-d_01f9a66")
//   winner after=4-d_01f9a66 deleted=true conflicts={}
// REPAIRED in /repo by a48eb1b (create_delta_array_descriptor records an empty script on a deleted winner); the clause is PROVED since.
// (output of the run of 2026-09-25 on the then unchanged /repo; the repair `if winner.is_deleted() { delete_object } else { .. }` does not touch this path)
use melda::{adapter::Adapter, melda::Melda, memoryadapter::MemoryAdapter};
use serde_json::json;
use std::sync::{Arc, RwLock};
fn mk() -> Melda {
    let a: Box<dyn Adapter> = Box::new(MemoryAdapter::new());
    Melda::new(Arc::new(RwLock::new(a))).unwrap()
}
fn o(v: serde_json::Value) -> serde_json::Map<String, serde_json::Value> { v.as_object().unwrap().clone() }
fn main() {
    // replica A: array descriptor "^x": [] -> ["a"] -> [] -> deleted   (4 revisions)
    // replica B: same creation, then ["b"] -> []                      (3 revisions, leaf with EMPTY order, not deleted)
    let a = mk(); let mut b = mk();
    a.create_object("^x", o(json!({"A": []}))).unwrap();
    a.commit(None).unwrap();
    b.meld(&a).unwrap(); b.refresh().unwrap();
    a.update_object("^x", o(json!({"A": ["a"]}))).unwrap();
    a.update_object("^x", o(json!({"A": []}))).unwrap();
    println!("A delete -> {:?}", a.delete_object("^x"));
    a.commit(None).unwrap();
    b.update_object("^x", o(json!({"A": ["b"]}))).unwrap();
    b.update_object("^x", o(json!({"A": []}))).unwrap();
    b.commit(None).unwrap();
    b.meld(&a).unwrap(); b.refresh().unwrap();
    println!("conflicts={:?}", b.in_conflict());
    let w = b.get_winner("^x").unwrap();
    let cs = b.get_conflicting("^x").unwrap();
    println!("winner={} conflicting={:?}", w, cs);
    let c = cs.iter().find(|s| !s.contains("-d_")).unwrap().clone();
    println!("value at chosen {} = {:?}", c, b.get_value("^x", Some(&c)).map(|m| serde_json::to_string(&m).unwrap()).map_err(|e| e.to_string()));
    println!("resolve_as({}) -> {:?}", c, b.resolve_as("^x", &c).map_err(|e| e.to_string()));
    let w2 = b.get_winner("^x").unwrap();
    println!("winner after={} deleted={} conflicts={:?}", w2, w2.contains("-d_"), b.in_conflict());
}
