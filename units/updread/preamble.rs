// ---- unit `updread`: Melda::update / Melda::read (src/melda.rs) — C04 at the public API ----
// "After a document is submitted with update, reading the replica returns that document exactly (same keys, values, array
//  order and nesting) with only the identifier field added to each tracked object — from any prior state (committed or not,
//  merged or not, objects in conflict or not) in which no flattened array is in conflict."
//
// Included: unit `flat` (the REAL utils::flatten / unflatten and helpers, re-verified here; the JSON model `JV`, `flat_post`,
// `stored`, `reads`, `with_ids`, `add_ids`, `lemma_bridge_obj`, `lemma_reads_unique`).
// Proved FROM THE REAL CODE here: Melda::update (`update_ok`), Melda::read (`read_ok`) — rules RL / RPASS / RU of contracts.toml, R7;
// and, on the two extracted functions, the executable witness `update_then_read` (postamble of contracts.toml).
// TRANSPORTED (module `tr` below: text copied from units rev / tree / edit / resolve; a `mod` so that the lemmas get their own solver
// context; `live` of unit tree is renamed `rlive` and `sub` of unit resolve `rsub`, unit flat has functions of these names):
//   * mirrors `Revision`, `RevisionTreeEntry`, `RevisionTree`, `Melda` (field lists checked against /repo on every run);
//     DEFINITIONS of unit rev (`marker`, `spec_cmp`, `child_of`; `rev_str` / `lex_cmp` uninterpreted here), unit tree (`is_parent`,
//     `tree_wf`, `reaches_root`, `live`, `is_winner`, `validated_ok`, `tree_inv`, `record`), unit edit (`update_post`, `delete_post`,
//     `create_post`, `child_recorded`, `nothing_changes`, `edit_content`, `must_record`, `edit_rev`, `known_pre`, `update_known_pre`, ..),
//     unit resolve (`state_at`, `read_pre`, `closed`, `keys_by_view`, `ids_consistent`, `room`; `merged_order_pre` opaque here);
//     unit edit's opaque `JMap` / `Value` / `VxError` ARE unit flat's types of the same names;
//   * LEMMAS of unit resolve re-proved here from the copied text (lemma_rr_mono, lemma_rr_back, lemma_live_back, lemma_cmp_index,
//     lemma_winner_after_child, lemma_child_is_new[_view]);
//   * the callees as `external_body` twins, each "ASSUMED HERE, PROVED IN unit <u> as <fn>": Melda::{create_object, update_object,
//     delete_object} (edit), Melda::read_object_at_revision (resolve), RevisionTree::{get_winner, get_leafs} (tree),
//     Revision::is_deleted (rev); and in `cor`: `assumed_merged_order_single` (orderlink: get_merged_order_at_revision).
// Modelling (conventions of UNIT_AUTHORING.md): lock erasure (`RwLock<T>` / `Mutex<T>` -> `T`, `&self` -> `&mut self` for update:
// blocking, poisoning and re-entrancy dropped); the `Mutex<HashMap>` `c` of read -> a plain collection; every `par_iter` pass ->
// a sequential pass over an ARBITRARY duplicate-free enumeration of the entries (proved for every enumeration; the closures
// only call `&self` methods that lock one tree each: erased); `.expect(..)` / `.unwrap()` -> preconditions (`update_pre`: `edits_ok`,
// `read_pre`) or proved.
// The composition (module `cor`): `lemma_update_read` / `update_then_read` under `c04_hyp` — tree hypotheses on the prior state
// (`trees_ok`, `no_array_conflict`), plain content digests, and TWO STORAGE HYPOTHESES on the state update leaves that this unit
// does not prove: `content_faithful` (C03: content addressing) and `arrays_faithful` (C16: array chains reconstruct the submitted
// order).  Proved here on the way: the winner after one update_object / delete_object (`lemma_update_post_winner`,
// `lemma_delete_post_winner`), "no array conflict" is preserved, the collected map after update is `add_ids` of flatten's collection.

pub mod tr {
    use vstd::prelude::*;
    use std::collections::{BTreeMap, BTreeSet, HashMap};
    use super::{JMap, Value, VxError, Obj, jm, DELETED_HASH, RESOLVED_HASH, EMPTY_HASH, ARRAY_DESCRIPTOR_PREFIX};

    // ================================================================ unit `rev` (text copied)
    pub struct Revision {
        pub index: u32,
        pub digest: String,
        pub tail: Option<String>,
    }
    /// abstract value of a revision: (index, digest text, optional tail text)
    pub type RevV = (u32, Seq<char>, Option<Seq<char>>);
    impl View for Revision {
        type V = RevV;
        open spec fn view(&self) -> RevV {
            (self.index, self.digest@, match self.tail { Some(t) => Some(t@), None => None })
        }
    }
    /// SUBSTITUTION: `rev_str` (the identifier text "{index}-{digest}[_{tail}]", defined in unit rev) and `lex_cmp` (byte-wise
    /// comparison) are UNINTERPRETED here: nothing in this unit depends on their form
    pub uninterp spec fn rev_str(v: RevV) -> Seq<char>;
    pub uninterp spec fn lex_cmp(a: Seq<char>, b: Seq<char>) -> std::cmp::Ordering;
    pub open spec fn marker(v: RevV) -> bool { v.1 == RESOLVED_HASH@ }
    /// "longer history first, ties broken by byte-wise comparison of the revision identifier", resolution markers lowest
    pub open spec fn spec_cmp(a: RevV, b: RevV) -> std::cmp::Ordering {
        if marker(a) && marker(b) { lex_cmp(rev_str(a), rev_str(b)) }
        else if marker(a) { std::cmp::Ordering::Less }
        else if marker(b) { std::cmp::Ordering::Greater }
        else if a.0 < b.0 { std::cmp::Ordering::Less }
        else if a.0 > b.0 { std::cmp::Ordering::Greater }
        else { lex_cmp(rev_str(a), rev_str(b)) }
    }
    pub uninterp spec fn sha_hex(s: Seq<char>) -> Seq<char>;
    pub open spec fn take7(s: Seq<char>) -> Seq<char> { s.subrange(0, 7) }
    /// the identifier of a child is a function of (index, content digest, parent identifier TEXT) only
    pub open spec fn child_of(index: u32, digest: Seq<char>, parent: Option<RevV>) -> RevV {
        (index, digest, match parent { Some(p) => Some(take7(sha_hex(rev_str(p)))), None => None })
    }
    impl Revision {
        /// ASSUMED HERE, PROVED IN unit `rev` as Revision::is_deleted: `ensures ret == (self@.1 == DELETED_HASH@)`
        #[verifier::external_body]
        pub fn is_deleted(&self) -> (ret: bool) ensures ret == (self@.1 == DELETED_HASH@) { unimplemented!() }
    }

    // ================================================================ unit `tree` (text copied)
    #[verifier::external] impl std::hash::Hash for Revision { fn hash<H: std::hash::Hasher>(&self, _s: &mut H) { unimplemented!() } }
    #[verifier::external] impl PartialEq for Revision { fn eq(&self, _o: &Self) -> bool { unimplemented!() } }
    #[verifier::external] impl Eq for Revision {}
    #[verifier::external] impl PartialOrd for Revision { fn partial_cmp(&self, _o: &Self) -> Option<std::cmp::Ordering> { unimplemented!() } }
    #[verifier::external] impl Ord for Revision { fn cmp(&self, _o: &Self) -> std::cmp::Ordering { unimplemented!() } }
    pub struct RevisionTreeEntry {
        pub parent: Option<Revision>,
        pub staging: bool,
    }
    pub enum ValidationState {
        Validated,
        NonValidated,
    }
    pub struct RevisionTree {
        pub revisions: HashMap<Revision, RevisionTreeEntry>,
        pub staging: bool,
        pub leafs_cache: BTreeSet<Revision>,
        pub winner_cache: Option<Revision>,
        pub state: ValidationState,
    }
    pub type RevMap = Map<Revision, RevisionTreeEntry>;
    /// SUBSTITUTION: the conjunct about the pointer key of `validate` (unit tree, R13) is dropped: that type is not used here
    pub open spec fn rev_models() -> bool {
        &&& vstd::std_specs::hash::obeys_key_model::<Revision>()
        &&& vstd::std_specs::btree::key_obeys_cmp_spec::<Revision>()
    }
    /// some recorded revision names r as its parent
    pub open spec fn is_parent(m: RevMap, r: Revision) -> bool {
        exists|k: Revision| #[trigger] m.contains_key(k) && m[k].parent == Some(r)
    }
    /// parent links go to strictly smaller indices
    pub open spec fn tree_wf(m: RevMap) -> bool {
        forall|k: Revision| #[trigger] m.contains_key(k) ==> (match m[k].parent { Some(p) => p.index < k.index, None => true })
    }
    pub open spec fn reaches_root(m: RevMap, r: Revision) -> bool
        decreases r.index
    {
        m.contains_key(r) && (
            (r.index == 1 && m[r].parent.is_none())
            || (match m[r].parent { Some(p) => p.index < r.index && reaches_root(m, p), None => false })
        )
    }
    /// live leaf: recorded, not a resolution marker, nobody's parent, ancestry reaches a creation revision
    pub open spec fn rlive(m: RevMap, r: Revision) -> bool {
        m.contains_key(r) && !marker(r@) && !is_parent(m, r) && reaches_root(m, r)
    }
    /// w is the greatest live leaf under the fixed order
    pub open spec fn is_winner(m: RevMap, w: Option<Revision>) -> bool {
        match w {
            Some(x) => rlive(m, x) && forall|l: Revision| #[trigger] rlive(m, l) ==> spec_cmp(l@, x@) != std::cmp::Ordering::Greater,
            None => forall|l: Revision| !(#[trigger] rlive(m, l)),
        }
    }
    /// caches hold exactly {live leaves} and their maximum: a function of the recorded SET of revisions
    pub open spec fn validated_ok(t: RevisionTree) -> bool {
        &&& t.state is Validated
        &&& forall|r: Revision| t.leafs_cache@.contains(r) <==> rlive(t.revisions@, r)
        &&& is_winner(t.revisions@, t.winner_cache)
    }
    /// flag invariant: a staged entry implies the tree-level flag
    pub open spec fn tree_inv(t: RevisionTree) -> bool {
        forall|k: Revision| #[trigger] t.revisions@.contains_key(k) && t.revisions@[k].staging ==> t.staging
    }
    pub open spec fn record(m: RevMap, r: Revision, e: RevisionTreeEntry) -> RevMap {
        if m.contains_key(r) { m } else { m.insert(r, e) }
    }
    impl RevisionTree {
        /// ASSUMED HERE, PROVED IN unit `tree` as RevisionTree::get_winner:
        /// `requires self.state is Validated, ensures match (ret, self.winner_cache) { (Some(a), Some(b)) => *a == b, (None, None) => true, _ => false }`
        #[verifier::external_body]
        pub fn get_winner(&self) -> (ret: Option<&Revision>)
            requires self.state is Validated,
            ensures match (ret, self.winner_cache) { (Some(a), Some(b)) => *a == b, (None, None) => true, _ => false },
        { unimplemented!() }
        /// ASSUMED HERE, PROVED IN unit `tree` as RevisionTree::get_leafs: `requires self.state is Validated, ensures ret@ == self.leafs_cache@`
        #[verifier::external_body]
        pub fn get_leafs(&self) -> (ret: &BTreeSet<Revision>)
            requires self.state is Validated,
            ensures ret@ == self.leafs_cache@,
        { unimplemented!() }
    }

    // ================================================================ unit `edit` (text copied)
    /// R6 (lock erasure): mirror of `struct Melda` (field list checked against /repo)
    pub struct Melda {
        pub documents: BTreeMap<String, RevisionTree>,
        pub data: DataStorage,
        pub deltas: DeltasShim,
        pub array_descriptors_cache: ArrCacheShim,
    }
    #[verifier::external_body]
    pub struct DeltasShim { d: () }
    #[verifier::external_body]
    pub struct ArrCacheShim { c: () }
    #[verifier::external_body]
    pub struct DataStorage { d: () }
    // SUBSTITUTION: unit edit's opaque `JMap` / `Value` / `VxError` are unit flat's types of the same names (also external_body;
    // flat additionally gives them the views `jm` / `jv`, which the transported text never uses)

    /// documents seen as a map keyed by string CONTENT
    pub uninterp spec fn dmap(m: BTreeMap<String, RevisionTree>) -> Map<Seq<char>, RevisionTree>;
    pub type Docs = Map<Seq<char>, RevisionTree>;
    /// the recorded revisions of object `uuid` (empty when the object is unknown)
    pub open spec fn tree_of(docs: Docs, uuid: Seq<char>) -> RevMap {
        if docs.contains_key(uuid) { docs[uuid].revisions@ } else { Map::<Revision, RevisionTreeEntry>::empty() }
    }
    /// the content digest of a JSON object (utils::digest_object); uninterpreted, a function of the object only
    pub uninterp spec fn obj_digest(o: JMap) -> Seq<char>;
    pub uninterp spec fn digestible(o: JMap) -> bool;
    pub uninterp spec fn ds_stage(d: DataStorage) -> Map<Seq<char>, JMap>;
    pub uninterp spec fn ds_known(d: DataStorage, digest: Seq<char>) -> bool;
    pub uninterp spec fn ds_write_pre(d: DataStorage, digest: Seq<char>, obj: JMap) -> bool;
    pub uninterp spec fn charcode(digest: Seq<char>) -> bool;
    pub open spec fn rev_special(v: RevV) -> bool {
        v.1 == RESOLVED_HASH@ || v.1 == DELETED_HASH@ || v.1 == EMPTY_HASH@ || charcode(v.1)
    }
    pub open spec fn stage_put(d: DataStorage, v: RevV, obj: JMap) -> Map<Seq<char>, JMap> {
        if rev_special(v) || ds_known(d, v.1) { ds_stage(d) } else { ds_stage(d).insert(v.1, obj) }
    }
    pub open spec fn is_arr(uuid: Seq<char>) -> bool { ARRAY_DESCRIPTOR_PREFIX@.is_prefix_of(uuid) }
    pub uninterp spec fn submitted_order(o: JMap) -> Seq<Value>;
    pub uninterp spec fn spec_order(data: DataStorage, t: RevisionTree, w: Revision) -> Seq<Value>;
    pub uninterp spec fn script_descr(from: Seq<Value>, to: Seq<Value>) -> JMap;
    pub uninterp spec fn array_edit_pre(data: DataStorage, t: RevisionTree, obj: JMap) -> bool;
    pub open spec fn edit_content(data: DataStorage, t: RevisionTree, w: Revision, uuid: Seq<char>, obj: JMap) -> Option<JMap> {
        if is_arr(uuid) {
            if submitted_order(obj) == spec_order(data, t, w) && w@.1 != DELETED_HASH@ { None }
            else { Some(script_descr(spec_order(data, t, w), submitted_order(obj))) }
        } else { Some(obj) }
    }
    pub open spec fn must_record(data: DataStorage, t: RevisionTree, w: Revision, uuid: Seq<char>, obj: JMap) -> bool {
        match edit_content(data, t, w, uuid, obj) {
            None => false,
            Some(o) => is_arr(uuid) || obj_digest(o) != w@.1,
        }
    }
    pub open spec fn edit_rev(digest: Seq<char>, parent: Option<Revision>) -> RevV {
        match parent {
            Some(p) => child_of((p.index + 1) as u32, digest, Some(p@)),
            None => child_of(1, digest, None),
        }
    }
    pub open spec fn edit_by(m0: RevMap, t1: RevisionTree, v: RevV, parent: Option<Revision>, r: Revision) -> bool {
        &&& r@ == v
        &&& t1.revisions@ == record(m0, r, RevisionTreeEntry { parent, staging: true })
        &&& t1.revisions@.contains_key(r)
    }
    pub open spec fn edit_recorded(m0: RevMap, t1: RevisionTree, v: RevV, parent: Option<Revision>) -> bool {
        exists|r: Revision| #[trigger] edit_by(m0, t1, v, parent, r)
    }
    pub open spec fn edit_by_fresh(m0: RevMap, t1: RevisionTree, v: RevV, parent: Option<Revision>, r: Revision) -> bool {
        edit_by(m0, t1, v, parent, r) && !m0.contains_key(r) && t1.staging
    }
    pub open spec fn edit_recorded_fresh(m0: RevMap, t1: RevisionTree, v: RevV, parent: Option<Revision>) -> bool {
        exists|r: Revision| #[trigger] edit_by_fresh(m0, t1, v, parent, r)
    }
    pub open spec fn has_rev(m0: RevMap, v: RevV, r: Revision) -> bool { r@ == v && m0.contains_key(r) }
    pub open spec fn already_recorded(m0: RevMap, v: RevV) -> bool { exists|r: Revision| #[trigger] has_rev(m0, v, r) }
    pub open spec fn tree_same(a: RevisionTree, b: RevisionTree) -> bool {
        a.revisions@ == b.revisions@ && a.staging == b.staging && a.state == b.state && a.leafs_cache@ == b.leafs_cache@ && a.winner_cache == b.winner_cache
    }
    pub open spec fn others_unchanged(d0: Docs, d1: Docs, uuid: Seq<char>) -> bool {
        forall|k: Seq<char>| k != uuid ==> (#[trigger] d1.contains_key(k) <==> d0.contains_key(k)) && (d0.contains_key(k) ==> d1[k] == d0[k])
    }
    pub open spec fn no_tree_change(d0: Docs, d1: Docs, uuid: Seq<char>) -> bool {
        &&& others_unchanged(d0, d1, uuid)
        &&& (d1.contains_key(uuid) <==> d0.contains_key(uuid))
        &&& (d0.contains_key(uuid) ==> tree_same(d0[uuid], d1[uuid]))
    }
    pub open spec fn known_pre(t0: RevisionTree) -> bool {
        &&& validated_ok(t0) && tree_wf(t0.revisions@)
        &&& match t0.winner_cache { Some(w) => w.index < u32::MAX, None => true }
    }
    pub open spec fn update_known_pre(data: DataStorage, t0: RevisionTree, uuid: Seq<char>, obj: JMap) -> bool {
        &&& known_pre(t0)
        &&& match t0.winner_cache {
            Some(w) => {
                &&& is_arr(uuid) ==> array_edit_pre(data, t0, obj)
                &&& !is_arr(uuid) ==> digestible(obj)
                &&& match edit_content(data, t0, w, uuid, obj) { Some(o) => ds_write_pre(data, obj_digest(o), o), None => true }
            },
            None => true,
        }
    }
    pub open spec fn create_post(m0: Melda, m1: Melda, uuid: Seq<char>, obj: JMap, ret: Result<Option<String>, VxError>) -> bool {
        let d0 = dmap(m0.documents);
        let d1 = dmap(m1.documents);
        let v = edit_rev(obj_digest(obj), None);
        &&& m1.deltas == m0.deltas && m1.array_descriptors_cache == m0.array_descriptors_cache
        &&& ds_stage(m1.data) == stage_put(m0.data, v, obj)
        &&& others_unchanged(d0, d1, uuid)
        &&& d1.contains_key(uuid)
        &&& tree_wf(d1[uuid].revisions@)
        &&& match ret {
            Ok(Some(s)) => s@ == rev_str(v)
                && edit_recorded_fresh(tree_of(d0, uuid), d1[uuid], v, None) && validated_ok(d1[uuid]),
            Ok(None) => already_recorded(tree_of(d0, uuid), v) && no_tree_change(d0, d1, uuid),
            Err(_) => false,
        }
    }
    pub open spec fn nothing_changes(m0: Melda, m1: Melda, uuid: Seq<char>) -> bool {
        m1.deltas == m0.deltas && m1.data == m0.data && no_tree_change(dmap(m0.documents), dmap(m1.documents), uuid)
    }
    pub open spec fn child_recorded(m0: Melda, m1: Melda, uuid: Seq<char>, w: Revision, digest: Seq<char>, ret: Result<Option<String>, VxError>) -> bool {
        let d0 = dmap(m0.documents);
        let d1 = dmap(m1.documents);
        let v = edit_rev(digest, Some(w));
        &&& m1.deltas == m0.deltas
        &&& others_unchanged(d0, d1, uuid)
        &&& d1.contains_key(uuid)
        &&& edit_recorded(d0[uuid].revisions@, d1[uuid], v, Some(w))
        &&& validated_ok(d1[uuid]) && tree_wf(d1[uuid].revisions@)
        &&& (tree_inv(d0[uuid]) ==> tree_inv(d1[uuid]))
        &&& res_text(ret, rev_str(v))
    }
    pub open spec fn update_post(m0: Melda, m1: Melda, uuid: Seq<char>, obj: JMap, ret: Result<Option<String>, VxError>) -> bool {
        let d0 = dmap(m0.documents);
        if !d0.contains_key(uuid) { create_post(m0, m1, uuid, obj, ret) }
        else {
            let t0 = d0[uuid];
            match t0.winner_cache {
                None => ret is Err && nothing_changes(m0, m1, uuid),
                Some(w) =>
                    if must_record(m0.data, t0, w, uuid, obj) {
                        let o = edit_content(m0.data, t0, w, uuid, obj)->0;
                        child_recorded(m0, m1, uuid, w, obj_digest(o), ret)
                        && ds_stage(m1.data) == stage_put(m0.data, edit_rev(obj_digest(o), Some(w)), o)
                    } else {
                        nothing_changes(m0, m1, uuid) && res_text(ret, rev_str(w@))
                    },
            }
        }
    }
    pub open spec fn res_none(ret: Result<Option<String>, VxError>) -> bool { match ret { Ok(None) => true, _ => false } }
    pub open spec fn res_text(ret: Result<Option<String>, VxError>, s: Seq<char>) -> bool { match ret { Ok(Some(x)) => x@ == s, _ => false } }
    pub open spec fn delete_post(m0: Melda, m1: Melda, uuid: Seq<char>, ret: Result<Option<String>, VxError>) -> bool {
        let d0 = dmap(m0.documents);
        &&& m1.data == m0.data && m1.array_descriptors_cache == m0.array_descriptors_cache
        &&& if !d0.contains_key(uuid) { res_none(ret) && nothing_changes(m0, m1, uuid) }
            else {
                match d0[uuid].winner_cache {
                    None => ret is Err && nothing_changes(m0, m1, uuid),
                    Some(w) =>
                        if w@.1 == DELETED_HASH@ || marker(w@) { res_none(ret) && nothing_changes(m0, m1, uuid) }
                        else { child_recorded(m0, m1, uuid, w, DELETED_HASH@, ret) },
                }
            }
    }
    impl Melda {
        /// ASSUMED HERE, PROVED IN unit `edit` as Melda::create_object (text of units/edit/contracts.toml; `&self` -> `&mut self` there too)
        #[verifier::external_body]
        pub fn create_object(&mut self, uuid: &str, obj: JMap) -> (ret: Result<Option<String>, VxError>)
            requires
                rev_models(),
                digestible(obj),
                ds_write_pre(old(self).data, obj_digest(obj), obj),
                dmap(old(self).documents).contains_key(uuid@) ==> tree_wf(dmap(old(self).documents)[uuid@].revisions@),
            ensures
                create_post(*old(self), *final(self), uuid@, obj, ret),
        { unimplemented!() }
        /// ASSUMED HERE, PROVED IN unit `edit` as Melda::update_object
        #[verifier::external_body]
        pub fn update_object(&mut self, uuid: &str, obj: JMap) -> (ret: Result<Option<String>, VxError>)
            requires
                rev_models(),
                !dmap(old(self).documents).contains_key(uuid@) ==> digestible(obj) && ds_write_pre(old(self).data, obj_digest(obj), obj),
                dmap(old(self).documents).contains_key(uuid@) ==> update_known_pre(old(self).data, dmap(old(self).documents)[uuid@], uuid@, obj),
            ensures
                update_post(*old(self), *final(self), uuid@, obj, ret),
        { unimplemented!() }
        /// ASSUMED HERE, PROVED IN unit `edit` as Melda::delete_object
        #[verifier::external_body]
        pub fn delete_object(&mut self, uuid: &str) -> (ret: Result<Option<String>, VxError>)
            requires
                rev_models(),
                dmap(old(self).documents).contains_key(uuid@) ==> known_pre(dmap(old(self).documents)[uuid@]),
            ensures
                delete_post(*old(self), *final(self), uuid@, ret),
        { unimplemented!() }
    }

    // ================================================================ unit `resolve` (text copied)
    pub uninterp spec fn ds_holds(d: DataStorage, v: RevV, o: JMap) -> bool;
    pub uninterp spec fn ds_read_pre(d: DataStorage, v: RevV) -> bool;
    pub uninterp spec fn ds_readable(d: DataStorage, v: RevV) -> bool;
    /// the full descriptor object `{"A": [..order..]}` of an order
    pub uninterp spec fn full_descr(order: Seq<Value>) -> JMap;
    /// SUBSTITUTION: `merged_order_pre` (the preconditions of get_merged_order_at_revision, unit orderlink, as restated in unit
    /// resolve: validated tree, cache invariant, well-formed chains, duplicate-free orders, size bounds) is OPAQUE here
    pub uninterp spec fn merged_order_pre(m: Melda, rt: RevisionTree, base: Revision) -> bool;
    pub uninterp spec fn spec_merged_order(data: DataStorage, t: RevisionTree, c: Revision) -> Seq<Value>;
    /// THE STATE OF OBJECT `u` AT REVISION `c` (tree `t`, storage `data`) is object `o`:
    /// a flattened-array descriptor: the FULL descriptor of the merged order at `c`; any other object: an object storage holds for `c`
    pub open spec fn state_at(data: DataStorage, t: RevisionTree, u: Seq<char>, c: Revision, o: JMap) -> bool {
        if is_arr(u) { o == full_descr(spec_merged_order(data, t, c)) && submitted_order(o) == spec_merged_order(data, t, c) }
        else { ds_holds(data, c@, o) }
    }
    /// what reading that state needs (panics of the real code, as preconditions)
    pub open spec fn read_pre(m: Melda, t: RevisionTree, u: Seq<char>, c: Revision) -> bool {
        if is_arr(u) { merged_order_pre(m, t, c) } else { ds_read_pre(m.data, c@) && ds_readable(m.data, c@) }
    }
    impl Melda {
        /// ASSUMED HERE, PROVED IN unit `resolve` as Melda::read_object_at_revision (text of units/resolve/contracts.toml)
        #[verifier::external_body]
        pub fn read_object_at_revision(&self, uuid: &str, rt: &RevisionTree, rev: &Revision) -> (ret: Result<JMap, VxError>)
            requires read_pre(*self, *rt, uuid@, *rev),
            ensures match ret { Ok(o) => state_at(self.data, *rt, uuid@, *rev, o), Err(_) => false },
        { unimplemented!() }
    }
    /// every recorded parent is recorded (blocks are applied after their parents)
    pub open spec fn closed(m: RevMap) -> bool {
        forall|k: Revision| #[trigger] m.contains_key(k) ==> (match m[k].parent { Some(p) => m.contains_key(p), None => true })
    }
    pub open spec fn keys_by_view(m: RevMap) -> bool {
        forall|a: Revision, b: Revision| #[trigger] m.contains_key(a) && #[trigger] m.contains_key(b) && a@ == b@ ==> a == b
    }
    pub open spec fn tail_of(pv: RevV) -> Seq<char> { take7(sha_hex(rev_str(pv))) }
    pub open spec fn id_child(kv: RevV, pv: RevV) -> bool { kv.0 == pv.0 + 1 && kv.2 == Some(tail_of(pv)) }
    /// NO COLLISION of the 7-digit tails WITHIN THIS TREE (see unit resolve)
    pub open spec fn ids_consistent(m: RevMap) -> bool {
        &&& forall|k: Revision, p: Revision| m.contains_key(k) && m.contains_key(p) && #[trigger] id_child(k@, p@) ==> m[k].parent == Some(p)
        &&& forall|p1: Revision, p2: Revision| #[trigger] m.contains_key(p1) && #[trigger] m.contains_key(p2) && p1.index == p2.index && tail_of(p1@) == tail_of(p2@) ==> p1@ == p2@
    }
    pub open spec fn rsub(a: RevMap, b: RevMap) -> bool {
        forall|k: Revision| #[trigger] a.contains_key(k) ==> b.contains_key(k) && b[k] == a[k]
    }
    pub open spec fn room(m: RevMap) -> bool { forall|k: Revision| #[trigger] m.contains_key(k) ==> k.index < u32::MAX - 1 }
    pub proof fn lemma_rr_mono(a: RevMap, b: RevMap, r: Revision)
        requires rsub(a, b), reaches_root(a, r),
        ensures reaches_root(b, r),
        decreases r.index
    {
        if !(r.index == 1 && a[r].parent.is_none()) {
            match a[r].parent { Some(p) => { lemma_rr_mono(a, b, p); } None => {} }
        }
    }
    pub proof fn lemma_rr_back(a: RevMap, b: RevMap, r: Revision)
        requires rsub(a, b), closed(a), a.contains_key(r), reaches_root(b, r),
        ensures reaches_root(a, r),
        decreases r.index
    {
        if !(r.index == 1 && b[r].parent.is_none()) {
            match b[r].parent { Some(p) => { assert(a[r].parent == Some(p)); lemma_rr_back(a, b, p); } None => {} }
        }
    }
    pub proof fn lemma_live_back(a: RevMap, b: RevMap, r: Revision)
        requires rsub(a, b), closed(a), a.contains_key(r), rlive(b, r),
        ensures rlive(a, r),
    {
        lemma_rr_back(a, b, r);
        if is_parent(a, r) {
            let k = choose|k: Revision| #[trigger] a.contains_key(k) && a[k].parent == Some(r);
            assert(b.contains_key(k) && b[k].parent == Some(r));
        }
    }
    pub proof fn lemma_cmp_index(a: RevV, b: RevV)
        requires !marker(a), !marker(b), a.0 < b.0,
        ensures spec_cmp(b, a) == std::cmp::Ordering::Greater, spec_cmp(a, b) == std::cmp::Ordering::Less,
    { }
    /// recording a NEW non-marker child `x` of the winner `w0` (index + 1) makes `x` the winner; the other live leaves are old live leaves
    pub proof fn lemma_winner_after_child(a: RevMap, w0: Revision, x: Revision, st: bool, b: RevMap, wopt: Option<Revision>)
        requires
            is_winner(a, Some(w0)), closed(a), !a.contains_key(x),
            b == a.insert(x, RevisionTreeEntry { parent: Some(w0), staging: st }),
            x.index == w0.index + 1, !marker(x@),
            is_winner(b, wopt),
        ensures
            wopt == Some(x), rlive(b, x), closed(b),
            forall|l: Revision| #[trigger] rlive(b, l) && l != x ==> rlive(a, l) && l != w0,
    {
        assert(rsub(a, b));
        lemma_rr_mono(a, b, w0);
        assert(reaches_root(b, x));
        if is_parent(b, x) {
            let k = choose|k: Revision| #[trigger] b.contains_key(k) && b[k].parent == Some(x);
            if k != x { assert(a.contains_key(k) && a[k].parent == Some(x)); }
        }
        assert(rlive(b, x));
        assert forall|l: Revision| #[trigger] rlive(b, l) && l != x implies rlive(a, l) && l != w0 by {
            lemma_live_back(a, b, l);
            if l == w0 { assert(b.contains_key(x) && b[x].parent == Some(w0)); }
        }
        match wopt {
            None => { assert(false); }
            Some(w) => {
                if w != x {
                    assert(rlive(a, w));
                    assert(spec_cmp(w@, w0@) != std::cmp::Ordering::Greater);
                    if w.index > w0.index { lemma_cmp_index(w0@, w@); }
                    lemma_cmp_index(w@, x@);
                    assert(false);
                }
            }
        }
    }
    pub proof fn lemma_child_is_new_view(a: RevMap, w0: Revision, x: Revision, k: Revision)
        requires rlive(a, w0), ids_consistent(a), id_child(x@, w0@), a.contains_key(k),
        ensures k@ != x@,
    {
        if k@ == x@ { assert(id_child(k@, w0@)); assert(a[k].parent == Some(w0)); assert(is_parent(a, w0)); }
    }
    pub proof fn lemma_child_is_new(a: RevMap, w0: Revision, x: Revision)
        requires rlive(a, w0), ids_consistent(a), id_child(x@, w0@),
        ensures !a.contains_key(x),
    {
        if a.contains_key(x) { lemma_child_is_new_view(a, w0, x, x); }
    }
}
// (re-exported so that the vacuity twins of the lemmas of `tr` / `cor`, which the canary run emits at top level, resolve)
pub use tr::*;

// ================================================================ shims of this unit (std collections by key text; lock erasure)
/// `self.documents.read().expect(..).contains_key(start)` (assumed of std BTreeMap::contains_key, by key text)
#[verifier::external_body]
pub fn vx_docs_contains(m: &BTreeMap<String, RevisionTree>, k: &str) -> (r: bool)
    ensures r == tr::dmap(*m).contains_key(k@),
{ unimplemented!() }
pub open spec fn kviews(keys: Seq<String>) -> Seq<Seq<char>> { keys.map_values(|k: String| k@) }
pub open spec fn no_dup_keys(ks: Seq<Seq<char>>) -> bool { forall|i: int, j: int| 0 <= i < j < ks.len() ==> #[trigger] ks[i] != #[trigger] ks[j] }
/// a `par_iter` pass over `documents` that only uses the KEYS: an ARBITRARY duplicate-free enumeration of the key set (cloned:
/// the closure then calls `&self` methods that take the per-tree locks themselves)
#[verifier::external_body]
pub fn vx_docs_keys(m: &BTreeMap<String, RevisionTree>) -> (v: Vec<String>)
    ensures
        no_dup_keys(kviews(v@)),
        forall|i: int| 0 <= i < v.len() ==> tr::dmap(*m).contains_key(#[trigger] v@[i]@),
        forall|k: Seq<char>| tr::dmap(*m).contains_key(k) ==> exists|i: int| 0 <= i < v.len() && #[trigger] v@[i]@ == k,
{ unimplemented!() }
/// a `par_iter` pass over `documents` that reads the trees: an ARBITRARY duplicate-free enumeration of the entries
#[verifier::external_body]
pub fn vx_docs_entries<'a>(m: &'a BTreeMap<String, RevisionTree>) -> (v: Vec<(&'a String, &'a RevisionTree)>)
    ensures
        forall|i: int, j: int| 0 <= i < j < v.len() ==> #[trigger] v@[i].0@ != #[trigger] v@[j].0@,
        forall|i: int| 0 <= i < v.len() ==> tr::dmap(*m).contains_key(#[trigger] v@[i].0@) && *v@[i].1 == tr::dmap(*m)[v@[i].0@],
        forall|k: Seq<char>| tr::dmap(*m).contains_key(k) ==> exists|i: int| 0 <= i < v.len() && #[trigger] v@[i].0@ == k,
{ unimplemented!() }
/// `extracted_objects.into_par_iter()`: the map is consumed; an ARBITRARY duplicate-free enumeration of its (key, object) pairs
pub open spec fn cents_ok(ents: Seq<(String, JMap)>, c: Coll) -> bool {
    &&& forall|i: int, j: int| 0 <= i < j < ents.len() ==> #[trigger] ents[i].0@ != #[trigger] ents[j].0@
    &&& forall|i: int| 0 <= i < ents.len() ==> c.contains_key(#[trigger] ents[i].0@) && jm(ents[i].1) == c[ents[i].0@]
    &&& forall|k: Seq<char>| c.contains_key(k) ==> exists|i: int| 0 <= i < ents.len() && #[trigger] ents[i].0@ == k
}
#[verifier::external_body]
pub fn vx_coll_into_entries(c: HashMap<String, JMap>) -> (v: Vec<(String, JMap)>)
    ensures cents_ok(v@, cmap(c)),
{ unimplemented!() }
/// the closure of the pass receives the pair BY VALUE: entry `i` is moved out of the enumeration (the others stay)
#[verifier::external_body]
pub fn vx_entry_take(v: &mut Vec<(String, JMap)>, i: usize) -> (r: (String, JMap))
    requires i < old(v).len(),
    ensures r == old(v)@[i as int], final(v)@.len() == old(v)@.len(), forall|j: int| 0 <= j < old(v)@.len() && j != i ==> #[trigger] final(v)@[j] == old(v)@[j],
{ unimplemented!() }
/// `Vec::<String>::new()`
pub fn vx_path_new() -> (v: Vec<String>) ensures v@.len() == 0, strs(v@) == empty_path() { let v: Vec<String> = Vec::new(); proof { assert(strs(v@) =~= empty_path()); } v }
impl VxClone for JMap {
    open spec fn vx_same(&self, r: &Self) -> bool { jm(*r) == jm(*self) }
    #[verifier::external_body] fn vx_clone(&self) -> (r: Self) { unimplemented!() }
}
/// the first element of `get_leafs().iter()` (BTreeSet iteration: SOME element of the set, if any)
#[verifier::external_body]
pub fn vx_first_leaf<'a>(s: &'a BTreeSet<Revision>) -> (r: Option<&'a Revision>)
    ensures match r { Some(x) => s@.contains(*x), None => s@.len() == 0 },
{ unimplemented!() }

// ================================================================ Melda::update: what the two passes do, for ANY enumeration order
pub open spec fn known(m: Melda, u: Seq<char>) -> bool { tr::dmap(m.documents).contains_key(u) }
/// the tree of object `u`, if the replica knows the object
pub open spec fn tree_at(m: Melda, u: Seq<char>) -> Option<RevisionTree> {
    if known(m, u) { Some(tr::dmap(m.documents)[u]) } else { None }
}
/// the `.expect(..)`s of the passes (R22) + the preconditions unit edit proves update_object / delete_object under
pub open spec fn upd_call_pre(m: Melda, u: Seq<char>, ob: JMap) -> bool {
    &&& !known(m, u) ==> tr::digestible(ob) && tr::ds_write_pre(m.data, tr::obj_digest(ob), ob)
    &&& known(m, u) ==> tr::update_known_pre(m.data, tr::dmap(m.documents)[u], u, ob) && tr::dmap(m.documents)[u].winner_cache is Some
}
pub open spec fn del_call_pre(m: Melda, u: Seq<char>) -> bool {
    known(m, u) ==> tr::known_pre(tr::dmap(m.documents)[u]) && tr::dmap(m.documents)[u].winner_cache is Some
}
/// ONE call of the passes on key `u`: `update_object(u, the flattened object)` if the collection has `u`, `delete_object(u)` on a
/// known object otherwise; it does not fail (`.expect(..)`)
pub open spec fn upd_step(ma: Melda, mb: Melda, cc: Coll, u: Seq<char>) -> bool {
    cc.contains_key(u) && exists|ob: JMap, ret: Result<Option<String>, VxError>| #[trigger] tr::update_post(ma, mb, u, ob, ret) && ret is Ok && jm(ob) == cc[u]
}
pub open spec fn del_step(ma: Melda, mb: Melda, cc: Coll, u: Seq<char>) -> bool {
    !cc.contains_key(u) && known(ma, u) && exists|ret: Result<Option<String>, VxError>| #[trigger] tr::delete_post(ma, mb, u, ret) && ret is Ok
}
pub open spec fn edit_step(ma: Melda, mb: Melda, cc: Coll, u: Seq<char>) -> bool { upd_step(ma, mb, cc, u) || del_step(ma, mb, cc, u) }
/// `m` is reachable from `m0` by `n` such calls (any keys, any order)
pub open spec fn reach(m0: Melda, cc: Coll, m: Melda, n: nat) -> bool
    decreases n
{
    if n == 0 { m == m0 } else { exists|mp: Melda, u: Seq<char>| reach(m0, cc, mp, (n - 1) as nat) && #[trigger] edit_step(mp, m, cc, u) }
}
pub open spec fn pre_all(m: Melda, cc: Coll) -> bool {
    &&& forall|u: Seq<char>, ob: JMap| cc.contains_key(u) && jm(ob) == cc[u] ==> #[trigger] upd_call_pre(m, u, ob)
    &&& forall|u: Seq<char>| !cc.contains_key(u) ==> #[trigger] del_call_pre(m, u)
}
/// PRECONDITION of update w.r.t. the collection `cc` flatten produces: in every state the edits of this update can lead to, the
/// callee preconditions hold (trees validated with a winner, index room, storage accepts the writes, array edits well-formed):
/// none of the `.expect(..)`s of the two passes panics, in whatever order the parallel iterators run the closures
pub open spec fn edits_ok(m0: Melda, cc: Coll) -> bool {
    tr::rev_models() && forall|n: nat, m: Melda| #[trigger] reach(m0, cc, m, n) ==> pre_all(m, cc)
}
/// the tree of `u` went through exactly ONE `update_object(u, ob)` with `ob` the flattened object `o` (in some intermediate state of
/// the storage): unit edit's `update_post` says what that is — `create_post` for an unknown object; nothing changes when the
/// content is the winner's (plain object: same digest; array: same order on a live winner: `must_record`); otherwise a staged
/// child of the winner with the content's digest is recorded (`child_recorded`, `edit_content`)
pub open spec fn upd_wit(m0: Melda, m1: Melda, u: Seq<char>, o: Obj, ma: Melda, mb: Melda, ob: JMap, ret: Result<Option<String>, VxError>) -> bool {
    tree_at(ma, u) == tree_at(m0, u) && tree_at(mb, u) == tree_at(m1, u) && jm(ob) == o && ret is Ok && tr::update_post(ma, mb, u, ob, ret)
}
pub open spec fn key_updated(m0: Melda, m1: Melda, u: Seq<char>, o: Obj) -> bool {
    exists|ma: Melda, mb: Melda, ob: JMap, ret: Result<Option<String>, VxError>| #[trigger] upd_wit(m0, m1, u, o, ma, mb, ob, ret)
}
/// the tree of `u` went through exactly ONE `delete_object(u)` (unit edit's `delete_post`: a staged deletion child of the winner,
/// or nothing when the winner already is a deletion)
pub open spec fn del_wit(m0: Melda, m1: Melda, u: Seq<char>, ma: Melda, mb: Melda, ret: Result<Option<String>, VxError>) -> bool {
    tree_at(ma, u) == tree_at(m0, u) && tree_at(mb, u) == tree_at(m1, u) && ret is Ok && tr::delete_post(ma, mb, u, ret)
}
pub open spec fn key_deleted(m0: Melda, m1: Melda, u: Seq<char>) -> bool {
    exists|ma: Melda, mb: Melda, ret: Result<Option<String>, VxError>| #[trigger] del_wit(m0, m1, u, ma, mb, ret)
}
/// INVARIANT of both passes (`dd` / `du`: keys deleted / updated so far, `g` calls made): blocks untouched, untouched keys keep
/// their trees, every touched key went through exactly its one call
pub open spec fn upd_inv(m0: Melda, m: Melda, cc: Coll, dd: Set<Seq<char>>, du: Set<Seq<char>>, g: nat) -> bool {
    &&& reach(m0, cc, m, g)
    &&& m.deltas == m0.deltas
    &&& forall|u: Seq<char>| !dd.contains(u) && !du.contains(u) ==> #[trigger] tree_at(m, u) == tree_at(m0, u)
    &&& forall|u: Seq<char>| #[trigger] du.contains(u) ==> cc.contains_key(u) && key_updated(m0, m, u, cc[u])
    &&& forall|u: Seq<char>| #[trigger] dd.contains(u) ==> !cc.contains_key(u) && known(m0, u) && key_deleted(m0, m, u)
}
/// the RESULT of update w.r.t. the collection `cc`: blocks untouched; every key of the collection went through one
/// update_object with its flattened object; every other known object through one delete_object; nothing else exists or changed
pub open spec fn upd_result(m0: Melda, m1: Melda, cc: Coll) -> bool {
    &&& m1.deltas == m0.deltas
    &&& forall|u: Seq<char>| #[trigger] cc.contains_key(u) ==> key_updated(m0, m1, u, cc[u])
    &&& forall|u: Seq<char>| !cc.contains_key(u) && #[trigger] known(m0, u) ==> key_deleted(m0, m1, u)
    &&& forall|u: Seq<char>| !cc.contains_key(u) && !known(m0, u) ==> !(#[trigger] known(m1, u))
}
pub open spec fn empty_coll() -> Coll { Map::<Seq<char>, Obj>::empty() }
pub open spec fn empty_path() -> Path { Seq::<Seq<char>>::empty() }
/// precondition / postcondition of Melda::update(obj), `d` = the submitted document
pub open spec fn update_pre(m0: Melda, d: JV) -> bool {
    &&& ids_ok(d)
    &&& forall|cc: Coll, r: JV| #[trigger] flat_post(empty_coll(), cc, d, empty_path(), r) ==> edits_ok(m0, cc)
}
pub open spec fn update_ok(m0: Melda, m1: Melda, d: JV, root: Seq<char>) -> bool {
    exists|cc: Coll| #[trigger] flat_post(empty_coll(), cc, d, empty_path(), JV::Str(root)) && upd_result(m0, m1, cc)
}

pub proof fn lemma_upd_frame(ma: Melda, mb: Melda, u: Seq<char>, ob: JMap, ret: Result<Option<String>, VxError>)
    requires tr::update_post(ma, mb, u, ob, ret), ret is Ok,
    ensures mb.deltas == ma.deltas, known(mb, u), forall|x: Seq<char>| x != u ==> #[trigger] tree_at(mb, x) == tree_at(ma, x),
{
    let d0 = tr::dmap(ma.documents); let d1 = tr::dmap(mb.documents);
    assert(tr::others_unchanged(d0, d1, u));
    assert forall|x: Seq<char>| x != u implies #[trigger] tree_at(mb, x) == tree_at(ma, x) by { assert(d1.contains_key(x) <==> d0.contains_key(x)); }
}
pub proof fn lemma_del_frame(ma: Melda, mb: Melda, u: Seq<char>, ret: Result<Option<String>, VxError>)
    requires tr::delete_post(ma, mb, u, ret), ret is Ok, known(ma, u),
    ensures mb.deltas == ma.deltas, known(mb, u), forall|x: Seq<char>| x != u ==> #[trigger] tree_at(mb, x) == tree_at(ma, x),
{
    let d0 = tr::dmap(ma.documents); let d1 = tr::dmap(mb.documents);
    assert(tr::others_unchanged(d0, d1, u));
    assert forall|x: Seq<char>| x != u implies #[trigger] tree_at(mb, x) == tree_at(ma, x) by { assert(d1.contains_key(x) <==> d0.contains_key(x)); }
}
pub proof fn lemma_upd_inv_init(m0: Melda, cc: Coll)
    ensures upd_inv(m0, m0, cc, Set::<Seq<char>>::empty(), Set::<Seq<char>>::empty(), 0),
{ }
/// the callee preconditions at the current state of a pass
pub proof fn lemma_call_pre(m0: Melda, cc: Coll, m: Melda, dd: Set<Seq<char>>, du: Set<Seq<char>>, g: nat)
    requires edits_ok(m0, cc), upd_inv(m0, m, cc, dd, du, g),
    ensures pre_all(m, cc), tr::rev_models(),
{ }
/// one call inside a pass keeps the invariant
pub proof fn lemma_pass_step(m0: Melda, mb: Melda, me: Melda, cc: Coll, u: Seq<char>, dd: Set<Seq<char>>, du: Set<Seq<char>>, g: nat)
    requires
        upd_inv(m0, mb, cc, dd, du, g), edit_step(mb, me, cc, u), !dd.contains(u), !du.contains(u),
        !cc.contains_key(u) ==> known(m0, u),
    ensures
        cc.contains_key(u) ==> upd_inv(m0, me, cc, dd, du.insert(u), g + 1),
        !cc.contains_key(u) ==> upd_inv(m0, me, cc, dd.insert(u), du, g + 1),
{
    assert(reach(m0, cc, me, g + 1)) by { assert(reach(m0, cc, mb, ((g + 1) - 1) as nat)); }
    let dd2 = if cc.contains_key(u) { dd } else { dd.insert(u) };
    let du2 = if cc.contains_key(u) { du.insert(u) } else { du };
    assert(tree_at(mb, u) == tree_at(m0, u));
    if cc.contains_key(u) {
        let (ob, ret) = choose|ob: JMap, ret: Result<Option<String>, VxError>| #[trigger] tr::update_post(mb, me, u, ob, ret) && ret is Ok && jm(ob) == cc[u];
        lemma_upd_frame(mb, me, u, ob, ret);
        assert(upd_wit(m0, me, u, cc[u], mb, me, ob, ret));
    } else {
        let ret = choose|ret: Result<Option<String>, VxError>| #[trigger] tr::delete_post(mb, me, u, ret) && ret is Ok;
        lemma_del_frame(mb, me, u, ret);
        assert(del_wit(m0, me, u, mb, me, ret));
    }
    assert forall|x: Seq<char>| #[trigger] du2.contains(x) implies cc.contains_key(x) && key_updated(m0, me, x, cc[x]) by {
        if x != u {
            let (ma, mx, o2, r2) = choose|ma: Melda, mx: Melda, o2: JMap, r2: Result<Option<String>, VxError>| #[trigger] upd_wit(m0, mb, x, cc[x], ma, mx, o2, r2);
            assert(tree_at(me, x) == tree_at(mb, x));
            assert(upd_wit(m0, me, x, cc[x], ma, mx, o2, r2));
        }
    }
    assert forall|x: Seq<char>| #[trigger] dd2.contains(x) implies !cc.contains_key(x) && known(m0, x) && key_deleted(m0, me, x) by {
        if x != u {
            let (ma, mx, r2) = choose|ma: Melda, mx: Melda, r2: Result<Option<String>, VxError>| #[trigger] del_wit(m0, mb, x, ma, mx, r2);
            assert(tree_at(me, x) == tree_at(mb, x));
            assert(del_wit(m0, me, x, ma, mx, r2));
        }
    }
    assert forall|x: Seq<char>| !dd2.contains(x) && !du2.contains(x) implies #[trigger] tree_at(me, x) == tree_at(m0, x) by {
        assert(tree_at(me, x) == tree_at(mb, x)); assert(tree_at(mb, x) == tree_at(m0, x));
    }
}
/// objects are never forgotten by the passes
pub proof fn lemma_inv_known(m0: Melda, m: Melda, cc: Coll, dd: Set<Seq<char>>, du: Set<Seq<char>>, g: nat, u: Seq<char>)
    requires upd_inv(m0, m, cc, dd, du, g), known(m0, u),
    ensures known(m, u),
{
    if du.contains(u) {
        let (ma, mx, o2, r2) = choose|ma: Melda, mx: Melda, o2: JMap, r2: Result<Option<String>, VxError>| #[trigger] upd_wit(m0, m, u, cc[u], ma, mx, o2, r2);
        lemma_upd_frame(ma, mx, u, o2, r2);
    } else if dd.contains(u) {
        let (ma, mx, r2) = choose|ma: Melda, mx: Melda, r2: Result<Option<String>, VxError>| #[trigger] del_wit(m0, m, u, ma, mx, r2);
        lemma_del_frame(ma, mx, u, r2);
    } else { assert(tree_at(m, u) == tree_at(m0, u)); }
}
/// `du` / `dd` = the keys visited so far by the updating / deleting pass
pub open spec fn visited(keys: Seq<Seq<char>>, n: int, x: Seq<char>) -> bool { exists|j: int| 0 <= j < n && #[trigger] keys[j] == x }
pub open spec fn ekeys2(ents: Seq<(String, JMap)>) -> Seq<Seq<char>> { ents.map_values(|e: (String, JMap)| e.0@) }
/// the deleting pass after `n` keys of the enumeration `keys` (of the objects known when the pass started)
pub open spec fn pass_del(m0: Melda, m: Melda, cc: Coll, keys: Seq<Seq<char>>, n: int, dd: Set<Seq<char>>, du: Set<Seq<char>>, g: nat) -> bool {
    &&& 0 <= n <= keys.len() && no_dup_keys(keys)
    &&& upd_inv(m0, m, cc, dd, du, g)
    &&& forall|x: Seq<char>| #[trigger] dd.contains(x) <==> (visited(keys, n, x) && !cc.contains_key(x))
    &&& forall|j: int| 0 <= j < keys.len() && !cc.contains_key(#[trigger] keys[j]) ==> known(m0, keys[j])
    &&& forall|x: Seq<char>| #[trigger] known(m0, x) ==> visited(keys, keys.len() as int, x)
}
/// the updating pass after `n` entries of the enumeration `keys` of the collection
pub open spec fn pass_upd(m0: Melda, m: Melda, cc: Coll, keys: Seq<Seq<char>>, n: int, dd: Set<Seq<char>>, du: Set<Seq<char>>, g: nat) -> bool {
    &&& 0 <= n <= keys.len() && no_dup_keys(keys)
    &&& upd_inv(m0, m, cc, dd, du, g)
    &&& forall|x: Seq<char>| #[trigger] du.contains(x) <==> visited(keys, n, x)
    &&& forall|j: int| 0 <= j < keys.len() ==> cc.contains_key(#[trigger] keys[j])
    &&& forall|x: Seq<char>| #[trigger] cc.contains_key(x) ==> visited(keys, keys.len() as int, x)
}
pub proof fn lemma_visited_step(keys: Seq<Seq<char>>, n: int, x: Seq<char>)
    requires 0 <= n < keys.len(),
    ensures visited(keys, n + 1, x) <==> (visited(keys, n, x) || x == keys[n]),
{
    if visited(keys, n, x) { let j = choose|j: int| 0 <= j < n && #[trigger] keys[j] == x; assert(0 <= j < n + 1 && keys[j] == x); }
    if x == keys[n] { assert(0 <= n < n + 1 && keys[n] == x); }
}
pub proof fn lemma_not_visited(keys: Seq<Seq<char>>, n: int)
    requires 0 <= n < keys.len(), no_dup_keys(keys),
    ensures !visited(keys, n, keys[n]),
{
    if visited(keys, n, keys[n]) { let j = choose|j: int| 0 <= j < n && #[trigger] keys[j] == keys[n]; assert(keys[j] != keys[n]); }
}
/// one iteration of the deleting pass (key number `n` of the enumeration)
pub proof fn lemma_pass_del_step(m0: Melda, mb: Melda, me: Melda, cc: Coll, keys: Seq<Seq<char>>, n: int, dd_b: Set<Seq<char>>, dd_e: Set<Seq<char>>, du: Set<Seq<char>>, g_b: nat, g_e: nat)
    requires
        pass_del(m0, mb, cc, keys, n, dd_b, du, g_b), n < keys.len(),
        // only objects that are NOT in the collection are deleted, each by one delete_object; the others are not touched
        !cc.contains_key(keys[n]) ==> del_step(mb, me, cc, keys[n]) && dd_e == dd_b.insert(keys[n]) && g_e == g_b + 1,
        cc.contains_key(keys[n]) ==> me == mb && dd_e == dd_b && g_e == g_b,
    ensures pass_del(m0, me, cc, keys, n + 1, dd_e, du, g_e),
{
    let u = keys[n];
    lemma_not_visited(keys, n);
    assert forall|x: Seq<char>| visited(keys, n + 1, x) <==> (visited(keys, n, x) || x == u) by { lemma_visited_step(keys, n, x); }
    if !cc.contains_key(u) {
        assert(!dd_b.contains(u));
        assert(!du.contains(u));
        lemma_pass_step(m0, mb, me, cc, u, dd_b, du, g_b);
    }
}
/// one iteration of the updating pass (entry number `n` of the enumeration)
pub proof fn lemma_pass_upd_step(m0: Melda, mb: Melda, me: Melda, cc: Coll, keys: Seq<Seq<char>>, n: int, dd: Set<Seq<char>>, du_b: Set<Seq<char>>, du_e: Set<Seq<char>>, g_b: nat, g_e: nat)
    requires
        pass_upd(m0, mb, cc, keys, n, dd, du_b, g_b), n < keys.len(),
        // every entry of the collection is submitted by one update_object
        upd_step(mb, me, cc, keys[n]) && du_e == du_b.insert(keys[n]) && g_e == g_b + 1,
    ensures pass_upd(m0, me, cc, keys, n + 1, dd, du_e, g_e),
{
    let u = keys[n];
    lemma_not_visited(keys, n);
    assert forall|x: Seq<char>| visited(keys, n + 1, x) <==> (visited(keys, n, x) || x == u) by { lemma_visited_step(keys, n, x); }
    assert(!du_b.contains(u));
    assert(!dd.contains(u));
    lemma_pass_step(m0, mb, me, cc, u, dd, du_b, g_b);
}
pub proof fn lemma_kviews(keys: Seq<String>)
    ensures kviews(keys).len() == keys.len(), forall|i: int| 0 <= i < keys.len() ==> #[trigger] kviews(keys)[i] == keys[i]@,
{ }
pub proof fn lemma_ekeys2(ents: Seq<(String, JMap)>)
    ensures ekeys2(ents).len() == ents.len(), forall|i: int| 0 <= i < ents.len() ==> #[trigger] ekeys2(ents)[i] == ents[i].0@,
{ }
/// the deleting pass may start: nothing deleted yet, the enumeration covers the objects known so far (hence those known at first)
pub proof fn lemma_pass_del_start(m0: Melda, m: Melda, cc: Coll, keys: Seq<String>, dd: Set<Seq<char>>, du: Set<Seq<char>>, g: nat)
    requires
        upd_inv(m0, m, cc, dd, du, g), dd == Set::<Seq<char>>::empty(),
        no_dup_keys(kviews(keys)),
        forall|i: int| 0 <= i < keys.len() ==> known(m, #[trigger] keys[i]@),
        forall|k: Seq<char>| known(m, k) ==> exists|i: int| 0 <= i < keys.len() && #[trigger] keys[i]@ == k,
    ensures pass_del(m0, m, cc, kviews(keys), 0, dd, du, g),
{
    let ks = kviews(keys);
    lemma_kviews(keys);
    assert forall|j: int| 0 <= j < ks.len() && !cc.contains_key(#[trigger] ks[j]) implies known(m0, ks[j]) by {
        let x = ks[j];
        assert(known(m, keys[j]@));
        assert(!du.contains(x) && !dd.contains(x));
        assert(tree_at(m, x) == tree_at(m0, x));
    }
    assert forall|x: Seq<char>| #[trigger] known(m0, x) implies visited(ks, ks.len() as int, x) by {
        lemma_inv_known(m0, m, cc, dd, du, g, x);
        let i = choose|i: int| 0 <= i < keys.len() && #[trigger] keys[i]@ == x;
        assert(ks[i] == x);
    }
}
pub proof fn lemma_pass_upd_start(m0: Melda, m: Melda, cc: Coll, ents: Seq<(String, JMap)>, dd: Set<Seq<char>>, du: Set<Seq<char>>, g: nat)
    requires upd_inv(m0, m, cc, dd, du, g), du == Set::<Seq<char>>::empty(), cents_ok(ents, cc),
    ensures pass_upd(m0, m, cc, ekeys2(ents), 0, dd, du, g),
{
    let ks = ekeys2(ents);
    lemma_ekeys2(ents);
    assert forall|x: Seq<char>| #[trigger] cc.contains_key(x) implies visited(ks, ks.len() as int, x) by {
        let i = choose|i: int| 0 <= i < ents.len() && #[trigger] ents[i].0@ == x;
        assert(ks[i] == x);
    }
}
/// all coverage facts together give the result
pub proof fn lemma_update_done(m0: Melda, m: Melda, cc: Coll, dd: Set<Seq<char>>, du: Set<Seq<char>>, g: nat)
    requires
        upd_inv(m0, m, cc, dd, du, g),
        forall|x: Seq<char>| #[trigger] cc.contains_key(x) ==> du.contains(x),
        forall|x: Seq<char>| #[trigger] known(m0, x) && !cc.contains_key(x) ==> dd.contains(x),
    ensures upd_result(m0, m, cc),
{
    assert forall|u: Seq<char>| !cc.contains_key(u) && !known(m0, u) implies !(#[trigger] known(m, u)) by {
        assert(!dd.contains(u) && !du.contains(u));
        assert(tree_at(m, u) == tree_at(m0, u));
    }
}

// ================================================================ Melda::read: the collected map is a function of the VISIBLE state
/// object `u` is visible: known, its tree has a winner, and the winner is not a deletion
pub open spec fn visible(m: Melda, u: Seq<char>) -> bool {
    known(m, u) && tr::dmap(m.documents)[u].winner_cache is Some && (tr::dmap(m.documents)[u].winner_cache->0)@.1 != DELETED_HASH@
}
pub open spec fn winner_at(m: Melda, u: Seq<char>) -> Revision { tr::dmap(m.documents)[u].winner_cache->0 }
/// what read collects for `u`: the state of `u` at its winner (unit resolve's `state_at`) plus the identifier field
pub open spec fn collects(m: Melda, u: Seq<char>, e: Obj) -> bool {
    exists|o: JMap| #[trigger] tr::state_at(m.data, tr::dmap(m.documents)[u], u, winner_at(m, u), o) && e == jm(o).insert(ID_FIELD@, JV::Str(u))
}
/// THE COLLECTED MAP: exactly the visible objects, each with the state at its winner + `_id`.  It depends on the replica only
/// through the winners and the states at the winners (C12's `same_visible`), and not on the order in which the entries of
/// `documents` are visited (C18): `read_pass` below is proved for every enumeration
pub open spec fn collected_is(m: Melda, cm: Coll) -> bool {
    &&& forall|u: Seq<char>| #[trigger] cm.contains_key(u) <==> visible(m, u)
    &&& forall|u: Seq<char>| #[trigger] cm.contains_key(u) ==> collects(m, u, cm[u])
}
/// the `.expect(..)`s / `.unwrap()`s inside the pass (R22): every tree is validated (`get_winner`), the state at every visible
/// winner can be read (unit resolve's `read_pre`)
pub open spec fn read_pre_all(m: Melda) -> bool {
    forall|u: Seq<char>| #[trigger] known(m, u) ==> tr::dmap(m.documents)[u].state is Validated
        && (visible(m, u) ==> tr::read_pre(m, tr::dmap(m.documents)[u], u, winner_at(m, u)))
}
pub open spec fn start_of(root: Option<&str>) -> Seq<char> { match root { Some(s) => s@, None => ROOT_ID@ } }
/// ... and after it: the start object is visible (`.expect("root_object_not_found")`) and the collected map is readable from
/// it (the three panic sites of unflatten, as in unit flat)
pub open spec fn read_pre(m: Melda, start: Seq<char>) -> bool {
    &&& read_pre_all(m)
    &&& known(m, start) ==> visible(m, start)
    &&& forall|cm: Coll| #[trigger] collected_is(m, cm) ==> descriptors_present(cm, JV::Obj(cm[start]))
}
pub open spec fn read_ok(m: Melda, start: Seq<char>, r: Obj) -> bool {
    exists|cm: Coll| #[trigger] collected_is(m, cm) && reads(cm, JV::Obj(cm[start]), JV::Obj(r))
}
pub open spec fn docs_ents_ok(ents: Seq<(&String, &RevisionTree)>, m: Melda) -> bool {
    &&& forall|i: int, j: int| 0 <= i < j < ents.len() ==> #[trigger] ents[i].0@ != #[trigger] ents[j].0@
    &&& forall|i: int| 0 <= i < ents.len() ==> known(m, #[trigger] ents[i].0@) && *ents[i].1 == tr::dmap(m.documents)[ents[i].0@]
    &&& forall|k: Seq<char>| known(m, k) ==> exists|i: int| 0 <= i < ents.len() && #[trigger] ents[i].0@ == k
}
pub open spec fn seen(ents: Seq<(&String, &RevisionTree)>, n: int, x: Seq<char>) -> bool { exists|j: int| 0 <= j < n && #[trigger] ents[j].0@ == x }
/// the collecting pass after `n` entries
pub open spec fn read_pass(m: Melda, c: Coll, ents: Seq<(&String, &RevisionTree)>, n: int) -> bool {
    &&& 0 <= n <= ents.len()
    &&& forall|u: Seq<char>| #[trigger] c.contains_key(u) <==> (seen(ents, n, u) && visible(m, u))
    &&& forall|u: Seq<char>| #[trigger] c.contains_key(u) ==> collects(m, u, c[u])
}
/// one iteration: a visible entry is collected (state at the WINNER, identifier added), any other entry is skipped
pub open spec fn read_step(m: Melda, c1: Coll, c2: Coll, u: Seq<char>) -> bool {
    if visible(m, u) {
        exists|o: JMap| #[trigger] tr::state_at(m.data, tr::dmap(m.documents)[u], u, winner_at(m, u), o) && c2 == c1.insert(u, jm(o).insert(ID_FIELD@, JV::Str(u)))
    } else { c2 == c1 }
}
pub proof fn lemma_read_step(m: Melda, c1: Coll, c2: Coll, ents: Seq<(&String, &RevisionTree)>, n: int)
    requires read_pass(m, c1, ents, n), docs_ents_ok(ents, m), n < ents.len(), read_step(m, c1, c2, ents[n].0@),
    ensures read_pass(m, c2, ents, n + 1),
{
    let u = ents[n].0@;
    assert forall|x: Seq<char>| seen(ents, n + 1, x) <==> (seen(ents, n, x) || x == u) by {
        if seen(ents, n, x) { let j = choose|j: int| 0 <= j < n && #[trigger] ents[j].0@ == x; assert(0 <= j < n + 1 && ents[j].0@ == x); }
        if x == u { assert(0 <= n < n + 1 && ents[n].0@ == x); }
    }
    assert(!seen(ents, n, u)) by { if seen(ents, n, u) { let j = choose|j: int| 0 <= j < n && #[trigger] ents[j].0@ == u; assert(ents[j].0@ != ents[n].0@); } }
    if visible(m, u) {
        let o = choose|o: JMap| #[trigger] tr::state_at(m.data, tr::dmap(m.documents)[u], u, winner_at(m, u), o) && c2 == c1.insert(u, jm(o).insert(ID_FIELD@, JV::Str(u)));
        assert(collects(m, u, c2[u]));
        assert forall|x: Seq<char>| #[trigger] c2.contains_key(x) implies collects(m, x, c2[x]) by { if x != u { assert(c1.contains_key(x)); } }
    }
}
pub proof fn lemma_read_done(m: Melda, c: Coll, ents: Seq<(&String, &RevisionTree)>)
    requires read_pass(m, c, ents, ents.len() as int), docs_ents_ok(ents, m),
    ensures collected_is(m, c),
{
    assert forall|u: Seq<char>| #[trigger] c.contains_key(u) <==> visible(m, u) by {
        if visible(m, u) { let i = choose|i: int| 0 <= i < ents.len() && #[trigger] ents[i].0@ == u; assert(seen(ents, ents.len() as int, u)); }
    }
}
/// a stored object reads as an object
pub proof fn lemma_reads_obj(c: Coll, s: Obj, v: JV)
    requires reads(c, JV::Obj(s), v),
    ensures v is Obj,
{ }

pub mod cor {
    use vstd::prelude::*;
    use super::*;

// ================================================================ what one update_object / delete_object does to the WINNER of its tree
// (tree-level consequences of unit edit's postconditions, proved here over the transported definitions; the argument is the one
// of unit resolve's lemma_child_summary: the new child of the winner has a larger index than every live leaf)
/// hypotheses on a tree the update touches: validated with a winner, every recorded parent recorded, index room, and — as in unit
/// resolve (C07) — recorded revisions identified by their identifiers and no collision of the 7-digit tails WITHIN the tree
pub open spec fn tree_ok(t: RevisionTree) -> bool {
    &&& tr::validated_ok(t) && t.winner_cache is Some
    &&& tr::closed(t.revisions@) && tr::keys_by_view(t.revisions@) && tr::ids_consistent(t.revisions@) && tr::room(t.revisions@)
}
pub open spec fn trees_ok(m: Melda) -> bool { forall|u: Seq<char>| #[trigger] known(m, u) ==> tree_ok(tr::dmap(m.documents)[u]) }
/// a content digest that is neither the digest of a resolution marker nor of a deletion (every SHA-256 hex digest is one)
pub open spec fn plain_dg(dg: Seq<char>) -> bool { dg != RESOLVED_HASH@ && dg != DELETED_HASH@ }
pub proof fn lemma_special_digests()
    ensures DELETED_HASH@ != RESOLVED_HASH@,
{
    reveal_strlit("d"); reveal_strlit("r");
    assert(DELETED_HASH@[0] == 'd'); assert(RESOLVED_HASH@[0] == 'r');
}
/// a staged child of the winner `w0` with content digest `dg` was recorded (unit edit's `child_recorded`, tree part): it is the
/// winner afterwards, and every other live leaf was a live leaf other than `w0` before
pub proof fn lemma_child_winner(t0: RevisionTree, t1: RevisionTree, w0: Revision, dg: Seq<char>)
    requires
        tree_ok(t0), t0.winner_cache == Some(w0), dg != RESOLVED_HASH@,
        tr::edit_recorded(t0.revisions@, t1, tr::edit_rev(dg, Some(w0)), Some(w0)), tr::validated_ok(t1),
    ensures
        t1.winner_cache is Some, (t1.winner_cache->0)@ == tr::edit_rev(dg, Some(w0)), (t1.winner_cache->0)@.1 == dg,
        forall|l: Revision| #[trigger] tr::rlive(t1.revisions@, l) && l != t1.winner_cache->0 ==> tr::rlive(t0.revisions@, l) && l != w0,
{
    let a = t0.revisions@; let b = t1.revisions@;
    let v = tr::edit_rev(dg, Some(w0));
    let x = choose|r: Revision| #[trigger] tr::edit_by(a, t1, v, Some(w0), r);
    let e = tr::RevisionTreeEntry { parent: Some(w0), staging: true };
    assert(tr::rlive(a, w0));
    assert(a.contains_key(w0));
    assert(x.index == w0.index + 1 && tr::id_child(x@, w0@) && !tr::marker(x@));
    tr::lemma_child_is_new(a, w0, x);
    assert(b == a.insert(x, e));
    tr::lemma_winner_after_child(a, w0, x, true, b, t1.winner_cache);
}
/// an unknown object was created (unit edit's `create_post`, tree part): the creation revision is the winner and the only live leaf
pub proof fn lemma_create_winner(t1: RevisionTree, dg: Seq<char>)
    requires
        dg != RESOLVED_HASH@,
        tr::edit_recorded_fresh(Map::<Revision, tr::RevisionTreeEntry>::empty(), t1, tr::edit_rev(dg, None), None), tr::validated_ok(t1),
    ensures
        t1.winner_cache is Some, (t1.winner_cache->0)@.1 == dg,
        forall|l: Revision| #[trigger] tr::rlive(t1.revisions@, l) ==> l == t1.winner_cache->0,
{
    let a = Map::<Revision, tr::RevisionTreeEntry>::empty();
    let b = t1.revisions@;
    let v = tr::edit_rev(dg, None);
    let x = choose|r: Revision| #[trigger] tr::edit_by_fresh(a, t1, v, None, r);
    let e = tr::RevisionTreeEntry { parent: None, staging: true };
    assert(b == a.insert(x, e));
    assert(x.index == 1 && !tr::marker(x@));
    assert(tr::reaches_root(b, x));
    if tr::is_parent(b, x) { let k = choose|k: Revision| #[trigger] b.contains_key(k) && b[k].parent == Some(x); assert(k == x); }
    assert(tr::rlive(b, x));
    assert forall|l: Revision| #[trigger] tr::rlive(b, l) implies l == x by { assert(b.contains_key(l)); }
}
/// OUTCOME of `update_object(u, ob)` for the winner: the object is visible afterwards; its winner carries the digest of the
/// stored content (`edit_content`: the object itself, or the edit script of an array); an array keeps a single live leaf
pub open spec fn winner_shows(t1: RevisionTree, u: Seq<char>, ob: JMap) -> bool {
    &&& t1.winner_cache is Some && (t1.winner_cache->0)@.1 != DELETED_HASH@
    &&& !tr::is_arr(u) ==> (t1.winner_cache->0)@.1 == tr::obj_digest(ob)
}
pub open spec fn single_leaf(t: RevisionTree) -> bool { forall|l: Revision| #[trigger] tr::rlive(t.revisions@, l) ==> Some(l) == t.winner_cache }
/// the digests of what this update stores are plain: of every flattened object, and of every array edit script
pub open spec fn digests_plain(cc: Coll) -> bool {
    &&& forall|u: Seq<char>, ob: JMap| #![trigger cc.contains_key(u), tr::obj_digest(ob)] cc.contains_key(u) && jm(ob) == cc[u] ==> plain_dg(tr::obj_digest(ob))
    &&& forall|a: Seq<Value>, b: Seq<Value>| plain_dg(tr::obj_digest(#[trigger] tr::script_descr(a, b)))
}
pub proof fn lemma_update_post_winner(ma: Melda, mb: Melda, u: Seq<char>, ob: JMap, ret: Result<Option<String>, VxError>)
    requires
        tr::update_post(ma, mb, u, ob, ret), ret is Ok,
        known(ma, u) ==> tree_ok(tr::dmap(ma.documents)[u]),
        plain_dg(tr::obj_digest(ob)), forall|a: Seq<Value>, b: Seq<Value>| plain_dg(tr::obj_digest(#[trigger] tr::script_descr(a, b))),
    ensures
        known(mb, u), winner_shows(tr::dmap(mb.documents)[u], u, ob), tr::validated_ok(tr::dmap(mb.documents)[u]),
        // NO ARRAY CONFLICT is preserved: an object with a single live leaf (or a new one) has a single live leaf afterwards
        (known(ma, u) ==> single_leaf(tr::dmap(ma.documents)[u])) ==> single_leaf(tr::dmap(mb.documents)[u]),
{
    lemma_special_digests();
    let d0 = tr::dmap(ma.documents); let d1 = tr::dmap(mb.documents);
    if !d0.contains_key(u) {
        let v = tr::edit_rev(tr::obj_digest(ob), None);
        match ret {
            Ok(Some(s)) => { lemma_create_winner(d1[u], tr::obj_digest(ob)); }
            _ => {
                let r = choose|r: Revision| #[trigger] tr::has_rev(tr::tree_of(d0, u), v, r);
                assert(false);
            }
        }
    } else {
        let t0 = d0[u]; let t1 = d1[u];
        let w = t0.winner_cache->0;
        assert(tr::rlive(t0.revisions@, w));
        if tr::must_record(ma.data, t0, w, u, ob) {
            let o = tr::edit_content(ma.data, t0, w, u, ob)->0;
            assert(plain_dg(tr::obj_digest(o)));
            lemma_child_winner(t0, t1, w, tr::obj_digest(o));
        } else {
            assert(tr::tree_same(t0, t1));
            assert(forall|r: Revision| t1.leafs_cache@.contains(r) <==> t0.leafs_cache@.contains(r));
            if !tr::is_arr(u) { assert(tr::obj_digest(ob) == w@.1); }
        }
    }
}
/// OUTCOME of `delete_object(u)` on a known object: it is not visible afterwards (its winner is a deletion)
pub proof fn lemma_delete_post_winner(ma: Melda, mb: Melda, u: Seq<char>, ret: Result<Option<String>, VxError>)
    requires tr::delete_post(ma, mb, u, ret), ret is Ok, known(ma, u), tree_ok(tr::dmap(ma.documents)[u]),
    ensures known(mb, u), tr::dmap(mb.documents)[u].winner_cache is Some, (tr::dmap(mb.documents)[u].winner_cache->0)@.1 == DELETED_HASH@,
{
    lemma_special_digests();
    let t0 = tr::dmap(ma.documents)[u]; let t1 = tr::dmap(mb.documents)[u];
    let w = t0.winner_cache->0;
    assert(tr::rlive(t0.revisions@, w));
    if w@.1 == DELETED_HASH@ || tr::marker(w@) { assert(tr::tree_same(t0, t1)); }
    else { lemma_child_winner(t0, t1, w, DELETED_HASH@); }
}

// ================================================================ the composition: update, then read
/// NO FLATTENED ARRAY IS IN CONFLICT (hypothesis of the property): every known array descriptor has a single live leaf
pub open spec fn no_array_conflict(m: Melda) -> bool {
    forall|u: Seq<char>| #[trigger] known(m, u) && tr::is_arr(u) ==> single_leaf(tr::dmap(m.documents)[u])
}
/// STORAGE HYPOTHESIS 1 (content addressing; C03's territory, not proved here): an object the storage holds for a revision whose
/// digest is the digest of `ob` has the content of `ob` (pack invariant "an object is stored under its own content digest" +
/// the digest identifies the content: SHA-256 of the printed object, the fixed objects of the special digests)
pub open spec fn content_faithful(data: tr::DataStorage) -> bool {
    forall|v: tr::RevV, x: JMap, ob: JMap| #![trigger tr::ds_holds(data, v, x), tr::obj_digest(ob)] tr::ds_holds(data, v, x) && tr::obj_digest(ob) == v.1 ==> jm(x) == jm(ob)
}
/// STORAGE HYPOTHESIS 2 (array chains; C16's territory — unit chain: `lemma_stored_version_reconstructs`, `lemma_frame`,
/// to_json_object — not proved here): the order the winner of a submitted array reconstructs to, as a full descriptor, IS the
/// submitted descriptor
pub open spec fn arrays_faithful(m1: Melda, cc: Coll) -> bool {
    forall|u: Seq<char>| #[trigger] cc.contains_key(u) && tr::is_arr(u) && visible(m1, u) ==>
        jm(tr::full_descr(tr::spec_order(m1.data, tr::dmap(m1.documents)[u], winner_at(m1, u)))) == cc[u]
}
/// ASSUMED HERE, PROVED IN unit `orderlink` as Melda::get_merged_order_at_revision (as restated in unit resolve): its `ensures` says
/// `v@ == spec_merged_order(self.data, *rt, *base)` and, when `rt.leafs_cache@.len() > 1` does NOT hold, `v@ == spec_order(self.data,
/// *rt, *base)`; `Err(_) => false`: under `merged_order_pre` the function returns, so the two orders are equal
#[verifier::external_body]
pub proof fn assumed_merged_order_single(m: Melda, t: RevisionTree, c: Revision)
    requires tr::merged_order_pre(m, t, c), t.leafs_cache@.len() <= 1,
    ensures tr::spec_merged_order(m.data, t, c) == tr::spec_order(m.data, t, c),
{ }
pub proof fn lemma_single_leaf_len(t: RevisionTree)
    requires tr::validated_ok(t), single_leaf(t), t.winner_cache is Some,
    ensures t.leafs_cache@.len() <= 1,
{
    let w = t.winner_cache->0;
    let s = t.leafs_cache@;
    assert(s.subset_of(set![w])) by { assert forall|l: Revision| s.contains(l) implies set![w].contains(l) by { assert(tr::rlive(t.revisions@, l)); } }
    vstd::set_lib::lemma_len_subset(s, set![w]);
}
/// what the replica looks like after update (from `upd_result` and the tree-level lemmas): exactly the keys of the collection are
/// visible; the winner of each carries the digest of the flattened object (plain objects); arrays still have a single live leaf
pub open spec fn shows_obj(m1: Melda, u: Seq<char>, o: Obj) -> bool {
    exists|ob: JMap| jm(ob) == o && #[trigger] winner_shows(tr::dmap(m1.documents)[u], u, ob)
}
pub open spec fn after_update(m1: Melda, cc: Coll) -> bool {
    &&& forall|u: Seq<char>| #[trigger] cc.contains_key(u) ==> visible(m1, u) && shows_obj(m1, u, cc[u]) && tr::validated_ok(tr::dmap(m1.documents)[u])
            && (tr::is_arr(u) ==> single_leaf(tr::dmap(m1.documents)[u]))
    &&& forall|u: Seq<char>| !cc.contains_key(u) ==> !(#[trigger] visible(m1, u))
}
pub proof fn lemma_after_update(m0: Melda, m1: Melda, cc: Coll)
    requires upd_result(m0, m1, cc), trees_ok(m0), no_array_conflict(m0), digests_plain(cc),
    ensures after_update(m1, cc),
{
    assert forall|u: Seq<char>| #[trigger] cc.contains_key(u) implies visible(m1, u) && shows_obj(m1, u, cc[u]) && tr::validated_ok(tr::dmap(m1.documents)[u])
            && (tr::is_arr(u) ==> single_leaf(tr::dmap(m1.documents)[u])) by {
        let (ma, mb, ob, ret) = choose|ma: Melda, mb: Melda, ob: JMap, ret: Result<Option<String>, VxError>| #[trigger] upd_wit(m0, m1, u, cc[u], ma, mb, ob, ret);
        assert(known(ma, u) <==> known(m0, u));
        if known(ma, u) { assert(tr::dmap(ma.documents)[u] == tr::dmap(m0.documents)[u]); assert(known(m0, u)); }
        assert(plain_dg(tr::obj_digest(ob)));
        lemma_update_post_winner(ma, mb, u, ob, ret);
        assert(tr::dmap(mb.documents)[u] == tr::dmap(m1.documents)[u]);
        assert(winner_shows(tr::dmap(m1.documents)[u], u, ob));
    }
    assert forall|u: Seq<char>| !cc.contains_key(u) implies !(#[trigger] visible(m1, u)) by {
        if known(m0, u) {
            let (ma, mb, ret) = choose|ma: Melda, mb: Melda, ret: Result<Option<String>, VxError>| #[trigger] del_wit(m0, m1, u, ma, mb, ret);
            assert(known(ma, u) && tr::dmap(ma.documents)[u] == tr::dmap(m0.documents)[u]);
            lemma_delete_post_winner(ma, mb, u, ret);
            assert(tr::dmap(mb.documents)[u] == tr::dmap(m1.documents)[u]);
        }
    }
}
/// AFTER update, the map read collects is `add_ids` of the collection flatten produced — under the two storage hypotheses
pub proof fn lemma_collected_after_update(m1: Melda, cc: Coll, cm: Coll)
    requires after_update(m1, cc), read_pre_all(m1), content_faithful(m1.data), arrays_faithful(m1, cc), collected_is(m1, cm),
    ensures cm == add_ids(cc),
{
    let ai = add_ids(cc);
    assert forall|u: Seq<char>| cm.contains_key(u) <==> ai.contains_key(u) by { }
    assert forall|u: Seq<char>| #[trigger] cm.contains_key(u) implies cm[u] == ai[u] by {
        let t1 = tr::dmap(m1.documents)[u];
        let w1 = winner_at(m1, u);
        let x = choose|o: JMap| #[trigger] tr::state_at(m1.data, t1, u, w1, o) && cm[u] == jm(o).insert(ID_FIELD@, JV::Str(u));
        let ob = choose|ob: JMap| jm(ob) == cc[u] && #[trigger] winner_shows(t1, u, ob);
        if tr::is_arr(u) {
            lemma_single_leaf_len(t1);
            assert(tr::read_pre(m1, t1, u, w1));
            assumed_merged_order_single(m1, t1, w1);
        } else {
            assert(tr::ds_holds(m1.data, w1@, x) && tr::obj_digest(ob) == w1@.1);
        }
        assert(jm(x) == cc[u]);
    }
    assert(cm =~= ai);
}
/// C04 at the public API, as a statement about the contracts of update and read: after `update(d)` (result state `m1`, collection
/// `cc`), every map read can collect is `add_ids(cc)`, it is readable from the root, and what it reads as is `with_ids(d)`
pub proof fn lemma_update_read(m0: Melda, m1: Melda, cc: Coll, d: JV)
    requires
        wf_doc(d), oid(d->Obj_0, empty_path()) == ROOT_ID@,
        flat_post(empty_coll(), cc, d, empty_path(), JV::Str(ROOT_ID@)), upd_result(m0, m1, cc),
        trees_ok(m0), no_array_conflict(m0), digests_plain(cc),
        read_pre_all(m1), content_faithful(m1.data), arrays_faithful(m1, cc),
    ensures
        known(m1, ROOT_ID@), visible(m1, ROOT_ID@),
        forall|cm: Coll| #[trigger] collected_is(m1, cm) ==> cm == add_ids(cc) && descriptors_present(cm, JV::Obj(cm[ROOT_ID@])),
        forall|cm: Coll, v: JV| #![trigger collected_is(m1, cm), reads(cm, JV::Obj(cm[ROOT_ID@]), v)] collected_is(m1, cm) && reads(cm, JV::Obj(cm[ROOT_ID@]), v) ==> v == with_ids(d, empty_path()),
{
    lemma_after_update(m0, m1, cc);
    let p0 = empty_path();
    assert(kin(d, p0, ROOT_ID@));
    assert(cc.contains_key(ROOT_ID@));
    assert(stored(cc, JV::Str(ROOT_ID@), d, p0));
    lemma_bridge_obj(cc, d, p0);
    let ai = add_ids(cc);
    assert forall|cm: Coll| #[trigger] collected_is(m1, cm) implies cm == ai && descriptors_present(cm, JV::Obj(cm[ROOT_ID@])) by {
        lemma_collected_after_update(m1, cc, cm);
        assert(reads(ai, JV::Obj(ai[ROOT_ID@]), with_ids(d, p0)));
    }
    assert forall|cm: Coll, v: JV| #![trigger collected_is(m1, cm), reads(cm, JV::Obj(cm[ROOT_ID@]), v)] collected_is(m1, cm) && reads(cm, JV::Obj(cm[ROOT_ID@]), v) implies v == with_ids(d, p0) by {
        lemma_collected_after_update(m1, cc, cm);
        lemma_reads_unique(ai, JV::Obj(ai[ROOT_ID@]), v, with_ids(d, p0));
    }
}
/// HYPOTHESES of the end-to-end statement, on the replica BEFORE update and the submitted document `d`
pub open spec fn c04_hyp(m0: Melda, d: JV) -> bool {
    // the document is well-formed for tracking and has no identifier of its own other than ROOT_ID (unit flat)
    &&& wf_doc(d) && oid(d->Obj_0, empty_path()) == ROOT_ID@
    // none of the `.expect(..)`s of update panics (callee preconditions in every state its edits lead to)
    &&& update_pre(m0, d)
    // ANY prior state (committed or not, merged or not, objects in conflict or not) whose trees are validated, closed, with index
    // room and collision-free tails, in which NO FLATTENED ARRAY IS IN CONFLICT
    &&& trees_ok(m0) && no_array_conflict(m0)
    &&& forall|cc: Coll| #[trigger] flat_post(empty_coll(), cc, d, empty_path(), JV::Str(ROOT_ID@)) ==> {
            // content digests are SHA-256 digests (never the one-letter digests of markers / deletions)
            &&& digests_plain(cc)
            // in the state update leaves: the visible states can be read (R22 of read), and the two storage hypotheses
            &&& forall|m1: Melda| #[trigger] upd_result(m0, m1, cc) ==> read_pre_all(m1) && content_faithful(m1.data) && arrays_faithful(m1, cc)
        }
}
} // mod cor
pub use cor::*;
