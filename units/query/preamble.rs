// ---- unit `query`: the read-only queries of `Melda` (src/melda.rs) — C05 (winner / conflict reporting), C14 (historical value and
// parent lookup), C15 (meaning of `has_staging`) ----
//   Melda::in_conflict, get_winner, get_conflicting, get_value, get_parent_revision, get_all_objects, has_staging, get_delta
// (Melda::get_anchors is under contract in unit `delta`; Melda::get_adapter hands out the Arc of the adapter and has no state to speak of.)
//
// Included: unit `resolve` (-> `edit` -> `tree` -> `rev`): Revision / RevisionTree with `RevisionTree::{get_winner, get_leafs, get_parent,
// get_revisions, has_staging}` RE-VERIFIED from the real code in this file, the lock-erased mirror `struct Melda`, `state_at` and the
// proved `Melda::read_object_at_revision`, the shims `vx_docs_get`, `vx_rev_parse` / `rev_parse`, `DataStorage::read_object`.
//
// Modelling (R6, lock erasure): all eight functions take `&self` and stay `&self` here: a read guard is shared access to the
// field, a tree guard is the tree reference, an entry guard of the block map is the block reference.  So the FRAME (a query changes
// nothing) holds by construction of the mirror — what is dropped is what the locks add: blocking, re-entrancy, poisoning
// (`.expect(..)` / `.unwrap()` on a lock result), and the interior mutability behind `&self` (no query writes through a lock:
// after erasure every access is through `&`, which Verus checks).
// `par_iter` passes (in_conflict: filter/map/collect, has_staging: any) are sequential passes over an ARBITRARY duplicate-free
// enumeration of the entries (`vx_docs_entries`); the pass contracts are proved for every such enumeration.  rayon's `any` may stop
// early: for a closure without effects that is not observable.
// PANICS (`.expect(..)` on a Result / Option, `panic!` of get_winner / get_leafs on a non-validated tree) are preconditions.
//
// ASSUMED (every `#[verifier::external_body]` item below; nothing else):
//   * std: BTreeMap<String,_> iteration / keys (any order), BTreeSet<String> insertion, BTreeSet<Revision> iteration, String / Delta clone
//   * `Revision::to_string` (Display) == `rev_str`                       — as `vx_rev_text` of unit rev (R11; stand-in `revision`)
//   * `Revision::from` == `vx_rev_parse` / `rev_parse`                   — shim of unit block (in resolve's preamble)
//   * `DataStorage::read_object`                                         — ASSUMED in unit resolve's preamble, PROVED IN unit pack
//   * `DataStorage::has_staging`                                         — ASSUMED HERE, PROVED IN unit pack; NOT USED by the pinned bodies
//   * lookup in the block map (`vx_deltas_get`)                          — assumed of std BTreeMap::get / RwLock::read
// HYPOTHESIS `rev_ident()` (a `requires`, not an axiom): revisions are identified by their identifier (index, digest, tail) — true of
// the real `PartialEq` / `Hash` impls (field-wise); stated because Verus' spec equality of `String` is not content equality, and
// needed only for the NEGATIVE clauses ("no recorded revision has this identifier").

// ================================================================ hypotheses and small vocabulary
/// revisions are identified by their identifier (see header)
pub open spec fn rev_ident() -> bool { forall|a: Revision, b: Revision| (#[trigger] a@) == (#[trigger] b@) ==> a == b }
pub proof fn lemma_ident(a: Revision, b: Revision)
    requires rev_ident(), a@ == b@,
    ensures a == b,
{ }
pub open spec fn has_obj(m: Melda, u: Seq<char>) -> bool { dmap(m.documents).contains_key(u) }
pub open spec fn tree_at(m: Melda, u: Seq<char>) -> RevisionTree { dmap(m.documents)[u] }
/// the tree records a revision with identifier `v`
pub open spec fn recorded(m: RevMap, v: RevV) -> bool { exists|c: Revision| #[trigger] m.contains_key(c) && c@ == v }
/// THE recorded revision with identifier `v` (unique under `rev_ident`)
pub open spec fn rec_of(m: RevMap, v: RevV) -> Revision { choose|c: Revision| #[trigger] m.contains_key(c) && c@ == v }
pub open spec fn opt_str(o: Option<String>) -> Option<Seq<char>> { match o { Some(s) => Some(s@), None => None } }

// ================================================================ std shims (assumed contracts)
/// std BTreeSet<String> seen as keyed by string CONTENT (as in units conflict / commit)
pub uninterp spec fn sset(s: BTreeSet<String>) -> Set<Seq<char>>;
#[verifier::external_body]
pub fn vx_sset_new() -> (s: BTreeSet<String>) ensures sset(s) == Set::<Seq<char>>::empty() { unimplemented!() }
#[verifier::external_body]
pub fn vx_sset_insert(s: &mut BTreeSet<String>, k: String) ensures sset(*final(s)) == sset(*old(s)).insert(k@) { unimplemented!() }
/// R18: iteration over the leaf set visits every element (order irrelevant here; same shim as in unit conflict)
#[verifier::external_body]
pub fn vx_bset_elems<'a>(s: &'a BTreeSet<Revision>) -> (v: Vec<&'a Revision>)
    ensures
        forall|i: int| 0 <= i < v.len() ==> s@.contains(*#[trigger] v@[i]),
        forall|r: Revision| s@.contains(r) ==> exists|i: int| 0 <= i < v.len() && *#[trigger] v@[i] == r,
{ unimplemented!() }
/// the first element of `get_leafs().iter()` (BTreeSet iteration: SOME element of the set, if any; same shim as in unit updread).
/// NOT USED by the pinned bodies: reachable only when a query is changed to look at the leaves instead of the winner.
#[verifier::external_body]
pub fn vx_first_leaf<'a>(s: &'a BTreeSet<Revision>) -> (r: Option<&'a Revision>)
    ensures match r { Some(x) => s@.contains(*x), None => s@.len() == 0 },
{ unimplemented!() }
/// derive(Clone) / `String::clone`: the clone is the same value (strings: the same content)
pub trait QClone: Sized {
    spec fn q_same(&self, r: &Self) -> bool;
    fn q_clone(&self) -> (r: Self) ensures self.q_same(&r);
}
impl QClone for String {
    open spec fn q_same(&self, r: &Self) -> bool { r@ == self@ }
    #[verifier::external_body] fn q_clone(&self) -> (r: Self) { unimplemented!() }
}
impl QClone for Delta {
    open spec fn q_same(&self, r: &Self) -> bool { *r == *self }
    #[verifier::external_body] fn q_clone(&self) -> (r: Self) { unimplemented!() }
}
impl Revision {
    /// R11: `Revision::to_string()` (impl Display, write!) == rev_str — the same assumption as `vx_rev_text` of unit rev (method form,
    /// so that the receiver may be a reference or an owned value); link checked by the bounded stand-in `revision`
    #[verifier::external_body]
    pub fn q_text(&self) -> (s: String)
        ensures s@ == rev_str(self@),
    { unimplemented!() }
}
impl DataStorage {
    /// ASSUMED HERE, PROVED IN unit `pack` as DataStorage::has_staging: `ensures ret == (smap(self.stage) != Map::<Seq<char>, Value>::empty())`
    /// (substitution: `smap(self.stage)` -> unit edit's `ds_stage(*self)`).  NOT USED by the pinned bodies: reachable only when
    /// `Melda::has_staging` is changed to consult the storage.
    #[verifier::external_body]
    pub fn has_staging(&self) -> (r: bool)
        ensures r == (ds_stage(*self) != Map::<Seq<char>, JMap>::empty()),
    { unimplemented!() }
}

// ---------------------------------------------------------------- enumerations of `documents` (par_iter / keys)
/// `ents` is a duplicate-free enumeration of the entries of `d`, in ANY order
pub open spec fn docs_enum(ents: Seq<(&String, &RevisionTree)>, d: Docs) -> bool {
    &&& forall|i: int, j: int| 0 <= i < j < ents.len() ==> (#[trigger] ents[i]).0@ != (#[trigger] ents[j]).0@
    &&& forall|i: int| 0 <= i < ents.len() ==> d.contains_key((#[trigger] ents[i]).0@) && *ents[i].1 == d[ents[i].0@]
    &&& forall|k: Seq<char>| d.contains_key(k) ==> exists|i: int| 0 <= i < ents.len() && (#[trigger] ents[i]).0@ == k
}
/// a `par_iter` pass over `documents` that reads the trees (each tree through its own Mutex): an ARBITRARY duplicate-free
/// enumeration of the entries (assumed of std BTreeMap / rayon: every entry is visited exactly once; same shim as in unit updread)
#[verifier::external_body]
pub fn vx_docs_entries<'a>(m: &'a BTreeMap<String, RevisionTree>) -> (v: Vec<(&'a String, &'a RevisionTree)>)
    ensures docs_enum(v@, dmap(*m)),
{ unimplemented!() }
pub open spec fn keys_enum(ks: Seq<&String>, d: Docs) -> bool {
    &&& forall|i: int| 0 <= i < ks.len() ==> d.contains_key((#[trigger] ks[i])@)
    &&& forall|k: Seq<char>| d.contains_key(k) ==> exists|i: int| 0 <= i < ks.len() && (#[trigger] ks[i])@ == k
}
/// `documents.keys()`: an enumeration of the key set (any order)
#[verifier::external_body]
pub fn vx_docs_keys<'a>(m: &'a BTreeMap<String, RevisionTree>) -> (v: Vec<&'a String>)
    ensures keys_enum(v@, dmap(*m)),
{ unimplemented!() }

// ---------------------------------------------------------------- the block map (opaque: unit delta / block have the contents)
#[verifier::external_body]
pub struct DeltaId { d: () }
#[verifier::external_body]
pub struct Delta { d: () }
/// the block map `RwLock<BTreeMap<DeltaId, RwLock<Delta>>>` (unit edit's opaque `DeltasShim`) seen as a map
pub uninterp spec fn blocks(d: DeltasShim) -> Map<DeltaId, Delta>;
/// `deltas_r.get(delta_id)` + `b.read().expect(..)`: shared lookup (assumed of std BTreeMap::get / RwLock::read; key equality of
/// `DeltaId` = equality of the identifier, unit delta)
#[verifier::external_body]
pub fn vx_deltas_get<'a>(d: &'a DeltasShim, id: &DeltaId) -> (r: Option<&'a Delta>)
    ensures match r { Some(b) => blocks(*d).contains_key(*id) && *b == blocks(*d)[*id], None => !blocks(*d).contains_key(*id) },
{ unimplemented!() }

// ================================================================ C05: winner / conflict reporting
/// the tree has a winner and `x` is its identifier text
pub open spec fn winner_text(m: RevMap, x: Seq<char>) -> bool {
    exists|w: Revision| #[trigger] is_winner(m, Some(w)) && rev_str(w@) == x
}
/// "more than one live leaf" (the phrasing of unit tree's `lemma_conflict_iff_two_live_leaves`)
pub open spec fn many_live(m: RevMap) -> bool { exists|a: Revision, b: Revision| live(m, a) && live(m, b) && a != b }
/// the replica invariant the C05 queries rely on (established by `RevisionTree::add` / `validate`, unit tree): the caches of every
/// tree are {live leaves} / their maximum
pub open spec fn all_validated(d: Docs) -> bool { forall|k: Seq<char>| #[trigger] d.contains_key(k) ==> validated_ok(d[k]) }
/// C05 "the objects reported in conflict are exactly those with more than one live leaf": set `s` is that set (both inclusions)
pub open spec fn is_conflict_set(d: Docs, s: Set<Seq<char>>) -> bool {
    forall|x: Seq<char>| s.contains(x) <==> (d.contains_key(x) && many_live(d[x].revisions@))
}
pub proof fn lemma_two<A>(s: Set<A>)
    ensures s.len() > 1 <==> exists|a: A, b: A| s.contains(a) && s.contains(b) && a != b,
{
    if s.len() > 1 {
        let a = s.choose();
        assert(s.contains(a));
        let s2 = s.remove(a);
        assert(s2.len() == s.len() - 1);
        let b = s2.choose();
        assert(s2.contains(b));
        assert(s.contains(a) && s.contains(b) && a != b);
    }
    if exists|a: A, b: A| s.contains(a) && s.contains(b) && a != b {
        let (a, b) = choose|a: A, b: A| s.contains(a) && s.contains(b) && a != b;
        let s2 = s.remove(a);
        assert(s2.contains(b));
        assert(s2.len() >= 1) by { if s2.len() == 0 { assert(s2 =~= Set::empty()); } }
    }
}
/// on a validated tree "the leaf cache has more than one element" IS "more than one live leaf"
pub proof fn lemma_many_live(t: RevisionTree)
    requires validated_ok(t),
    ensures (t.leafs_cache@.len() > 1) <==> many_live(t.revisions@),
{
    let s = t.leafs_cache@; let m = t.revisions@;
    lemma_two(s);
    if s.len() > 1 {
        let (a, b) = choose|a: Revision, b: Revision| s.contains(a) && s.contains(b) && a != b;
        assert(live(m, a) && live(m, b) && a != b);
    }
    if many_live(m) {
        let (a, b) = choose|a: Revision, b: Revision| live(m, a) && live(m, b) && a != b;
        assert(s.contains(a) && s.contains(b) && a != b);
    }
}
/// the pass of in_conflict after `n` entries: the keys selected so far
pub open spec fn sel_upto(ents: Seq<(&String, &RevisionTree)>, n: int, x: Seq<char>) -> bool {
    exists|j: int| 0 <= j < n && (#[trigger] ents[j]).0@ == x && many_live(ents[j].1.revisions@)
}
pub proof fn lemma_sel_step(ents: Seq<(&String, &RevisionTree)>, n: int, x: Seq<char>)
    requires 0 <= n < ents.len(),
    ensures sel_upto(ents, n + 1, x) <==> (sel_upto(ents, n, x) || (ents[n].0@ == x && many_live(ents[n].1.revisions@))),
{
    if sel_upto(ents, n + 1, x) { let j = choose|j: int| 0 <= j < n + 1 && (#[trigger] ents[j]).0@ == x && many_live(ents[j].1.revisions@); if j < n { assert(ents[j].0@ == x); } }
    if sel_upto(ents, n, x) { let j = choose|j: int| 0 <= j < n && (#[trigger] ents[j]).0@ == x && many_live(ents[j].1.revisions@); assert(0 <= j < n + 1 && ents[j].0@ == x); }
    if ents[n].0@ == x && many_live(ents[n].1.revisions@) { assert(0 <= n < n + 1 && ents[n].0@ == x); }
}
/// ... and after ALL entries, whatever the enumeration order: exactly the objects with more than one live leaf
pub proof fn lemma_sel_done(ents: Seq<(&String, &RevisionTree)>, d: Docs, s: Set<Seq<char>>)
    requires docs_enum(ents, d), forall|x: Seq<char>| #[trigger] s.contains(x) <==> sel_upto(ents, ents.len() as int, x),
    ensures is_conflict_set(d, s),
{
    assert forall|x: Seq<char>| s.contains(x) <==> (d.contains_key(x) && many_live(d[x].revisions@)) by {
        if sel_upto(ents, ents.len() as int, x) {
            let j = choose|j: int| 0 <= j < ents.len() && (#[trigger] ents[j]).0@ == x && many_live(ents[j].1.revisions@);
            assert(d.contains_key(ents[j].0@) && *ents[j].1 == d[ents[j].0@]);
        }
        if d.contains_key(x) && many_live(d[x].revisions@) {
            let i = choose|i: int| 0 <= i < ents.len() && (#[trigger] ents[i]).0@ == x;
            assert(d.contains_key(ents[i].0@) && *ents[i].1 == d[ents[i].0@]);
            assert(sel_upto(ents, ents.len() as int, x));
        }
    }
}
/// C05, the two reports agree: an object is reported by `in_conflict` exactly when `get_conflicting` reports at least one revision
/// for it (composition of the two contracts through unit tree's `lemma_conflict_iff_two_live_leaves`)
pub proof fn lemma_reports_agree(t: RevisionTree)
    requires validated_ok(t), rev_ident(), t.winner_cache is Some,
    ensures many_live(t.revisions@) <==> (exists|x: Seq<char>| is_conflicting_text(t.revisions@, t.winner_cache->0, x)),
{
    let m = t.revisions@; let w = t.winner_cache->0;
    lemma_conflict_iff_two_live_leaves(m, w);
    if many_live(m) {
        let r = choose|r: Revision| conflicting(m, w, r);
        if r@ == w@ { lemma_ident(r, w); }
        assert(live(m, r) && r@ != w@ && rev_str(r@) == rev_str(r@));
        assert(is_conflicting_text(m, w, rev_str(r@)));
    }
    if exists|x: Seq<char>| is_conflicting_text(m, w, x) {
        let x = choose|x: Seq<char>| is_conflicting_text(m, w, x);
        let r = choose|r: Revision| #[trigger] live(m, r) && r@ != w@ && rev_str(r@) == x;
        assert(conflicting(m, w, r));
    }
}
// ---- get_conflicting (vocabulary of unit conflict, text copied)
/// x is the identifier text of a live leaf other than the winner
pub open spec fn is_conflicting_text(m: RevMap, w: Revision, x: Seq<char>) -> bool {
    exists|r: Revision| #[trigger] live(m, r) && r@ != w@ && rev_str(r@) == x
}
pub open spec fn text_of_some(elems: Seq<&Revision>, n: int, w: Revision, x: Seq<char>) -> bool {
    exists|i: int| 0 <= i < n && (#[trigger] elems[i])@ != w@ && rev_str(elems[i]@) == x
}
pub proof fn lemma_text_step(elems: Seq<&Revision>, n: int, w: Revision, x: Seq<char>)
    requires 0 <= n < elems.len(),
    ensures text_of_some(elems, n + 1, w, x) <==> (text_of_some(elems, n, w, x) || (elems[n]@ != w@ && rev_str(elems[n]@) == x)),
{
    if text_of_some(elems, n + 1, w, x) { let i = choose|i: int| 0 <= i < n + 1 && (#[trigger] elems[i])@ != w@ && rev_str(elems[i]@) == x; if i < n { assert(elems[i]@ != w@); } }
    if text_of_some(elems, n, w, x) { let i = choose|i: int| 0 <= i < n && (#[trigger] elems[i])@ != w@ && rev_str(elems[i]@) == x; assert(elems[i]@ != w@); }
    if elems[n]@ != w@ && rev_str(elems[n]@) == x { assert(0 <= n < n + 1 && elems[n]@ != w@); }
}

/// the pass of get_conflicting after ALL leaves, whatever the enumeration order: exactly the live leaves other than the winner
pub proof fn lemma_conflicting_done(elems: Seq<&Revision>, t: RevisionTree, s: Set<Seq<char>>)
    requires
        validated_ok(t), t.winner_cache is Some,
        forall|i: int| 0 <= i < elems.len() ==> t.leafs_cache@.contains(*#[trigger] elems[i]),
        forall|r: Revision| t.leafs_cache@.contains(r) ==> exists|i: int| 0 <= i < elems.len() && *#[trigger] elems[i] == r,
        forall|x: Seq<char>| #[trigger] s.contains(x) <==> text_of_some(elems, elems.len() as int, t.winner_cache->0, x),
    ensures forall|x: Seq<char>| s.contains(x) <==> is_conflicting_text(t.revisions@, t.winner_cache->0, x),
{
    let m = t.revisions@; let w = t.winner_cache->0;
    assert forall|x: Seq<char>| s.contains(x) <==> is_conflicting_text(m, w, x) by {
        if text_of_some(elems, elems.len() as int, w, x) {
            let i = choose|i: int| 0 <= i < elems.len() && (#[trigger] elems[i])@ != w@ && rev_str(elems[i]@) == x;
            assert(t.leafs_cache@.contains(*elems[i])); assert(live(m, *elems[i]));
        }
        if is_conflicting_text(m, w, x) {
            let r = choose|r: Revision| #[trigger] live(m, r) && r@ != w@ && rev_str(r@) == x;
            assert(t.leafs_cache@.contains(r));
            let i = choose|i: int| 0 <= i < elems.len() && *#[trigger] elems[i] == r;
            assert(elems[i]@ != w@);
        }
    }
}

// ================================================================ get_all_objects
pub open spec fn key_upto(ks: Seq<&String>, n: int, x: Seq<char>) -> bool { exists|j: int| 0 <= j < n && (#[trigger] ks[j])@ == x }
pub proof fn lemma_key_step(ks: Seq<&String>, n: int, x: Seq<char>)
    requires 0 <= n < ks.len(),
    ensures key_upto(ks, n + 1, x) <==> (key_upto(ks, n, x) || ks[n]@ == x),
{
    if key_upto(ks, n + 1, x) { let j = choose|j: int| 0 <= j < n + 1 && (#[trigger] ks[j])@ == x; if j < n { assert(ks[j]@ == x); } }
    if key_upto(ks, n, x) { let j = choose|j: int| 0 <= j < n && (#[trigger] ks[j])@ == x; assert(0 <= j < n + 1 && ks[j]@ == x); }
    if ks[n]@ == x { assert(0 <= n < n + 1 && ks[n]@ == x); }
}
/// exactly the known identifiers
pub open spec fn is_key_set(d: Docs, s: Set<Seq<char>>) -> bool { forall|x: Seq<char>| s.contains(x) <==> d.contains_key(x) }
pub proof fn lemma_key_done(ks: Seq<&String>, d: Docs, s: Set<Seq<char>>)
    requires keys_enum(ks, d), forall|x: Seq<char>| #[trigger] s.contains(x) <==> key_upto(ks, ks.len() as int, x),
    ensures is_key_set(d, s),
{
    assert forall|x: Seq<char>| s.contains(x) <==> d.contains_key(x) by {
        if key_upto(ks, ks.len() as int, x) { let j = choose|j: int| 0 <= j < ks.len() && (#[trigger] ks[j])@ == x; assert(d.contains_key(ks[j]@)); }
        if d.contains_key(x) { let i = choose|i: int| 0 <= i < ks.len() && (#[trigger] ks[i])@ == x; assert(key_upto(ks, ks.len() as int, x)); }
    }
}

// ================================================================ C15: has_staging
/// "some tree has its staging flag set" — the meaning units commit (`some_staged`, text copied) / refreshm / until (`docs_staged`)
/// ASSUME for `Melda::has_staging`; PROVED here from the real body
pub open spec fn some_staged(docs: Docs) -> bool {
    exists|k: Seq<char>| #[trigger] docs.contains_key(k) && docs[k].staging
}
pub open spec fn staged_upto(ents: Seq<(&String, &RevisionTree)>, n: int) -> bool {
    exists|j: int| 0 <= j < n && (#[trigger] ents[j]).1.staging
}
pub proof fn lemma_staged_step(ents: Seq<(&String, &RevisionTree)>, n: int)
    requires 0 <= n < ents.len(),
    ensures staged_upto(ents, n + 1) <==> (staged_upto(ents, n) || ents[n].1.staging),
{
    if staged_upto(ents, n + 1) { let j = choose|j: int| 0 <= j < n + 1 && (#[trigger] ents[j]).1.staging; if j < n { assert(ents[j].1.staging); } }
    if staged_upto(ents, n) { let j = choose|j: int| 0 <= j < n && (#[trigger] ents[j]).1.staging; assert(0 <= j < n + 1 && ents[j].1.staging); }
    if ents[n].1.staging { assert(0 <= n < n + 1 && ents[n].1.staging); }
}
pub proof fn lemma_staged_done(ents: Seq<(&String, &RevisionTree)>, d: Docs)
    requires docs_enum(ents, d),
    ensures staged_upto(ents, ents.len() as int) <==> some_staged(d),
{
    if staged_upto(ents, ents.len() as int) {
        let j = choose|j: int| 0 <= j < ents.len() && (#[trigger] ents[j]).1.staging;
        assert(d.contains_key(ents[j].0@) && *ents[j].1 == d[ents[j].0@]);
    }
    if some_staged(d) {
        let k = choose|k: Seq<char>| #[trigger] d.contains_key(k) && d[k].staging;
        let i = choose|i: int| 0 <= i < ents.len() && (#[trigger] ents[i]).0@ == k;
        assert(d.contains_key(ents[i].0@) && *ents[i].1 == d[ents[i].0@]);
        assert(ents[i].1.staging);
    }
}

// ================================================================ C14: historical value and parent lookup
/// the identifier `get_value` reads at: the parsed text, or the winner the tree reports when no revision is given
pub open spec fn target_id(t: RevisionTree, revision: Option<&str>) -> RevV {
    match revision { Some(s) => rev_parse(s@)->0, None => t.winner_cache->0@ }
}
/// C14 "retrievable with the same value": `o` is an object storage holds for the revision IDENTIFIER `v` — a function of the
/// identifier and the storage, not of the tree or of how much history there is (unit pack: content addressed).  For an object that
/// is not a flattened array this IS unit resolve's `state_at` (the contract of `read_object_at_revision`), see `lemma_value_is_state`.
pub open spec fn value_at(data: DataStorage, v: RevV, o: JMap) -> bool { ds_holds(data, v, o) }
pub proof fn lemma_value_is_state(data: DataStorage, t: RevisionTree, u: Seq<char>, c: Revision, o: JMap)
    requires !is_arr(u),
    ensures value_at(data, c@, o) <==> state_at(data, t, u, c, o),
{ }
/// what the read of the target needs / when it may fail (vocabulary of unit resolve's `DataStorage::read_object`)
pub open spec fn unreadable(data: DataStorage, v: RevV) -> bool { !rev_special(v) && !ds_readable(data, v) }
/// C14 "and the same parent": THE parent text of the revision with identifier `v` — a pure function of the recorded map
pub open spec fn parent_text_of(m: RevMap, v: RevV) -> Option<Seq<char>> {
    if recorded(m, v) { match m[rec_of(m, v)].parent { Some(q) => Some(rev_str(q@)), None => None } } else { None }
}
pub proof fn lemma_rec_of(m: RevMap, c: Revision)
    requires rev_ident(), m.contains_key(c),
    ensures recorded(m, c@), rec_of(m, c@) == c,
{
    assert(m.contains_key(c) && c@ == c@);
    let r = rec_of(m, c@);
    assert(m.contains_key(r) && r@ == c@);
    lemma_ident(r, c);
}
pub proof fn lemma_not_recorded(m: RevMap, c: Revision)
    requires rev_ident(), !m.contains_key(c),
    ensures !recorded(m, c@),
{
    if recorded(m, c@) {
        let r = choose|r: Revision| #[trigger] m.contains_key(r) && r@ == c@;
        lemma_ident(r, c);
    }
}
