// ---- unit `rev`: mirror of src/revision.rs `struct Revision` (field list checked against /repo on every run) ----
pub struct Revision {
    pub index: u32,
    pub digest: String,
    pub tail: Option<String>,
}

/// abstract value of a revision: (index, digest text, optional tail text)
pub type RevV = (u32, Seq<char>, Option<Seq<char>>);

impl View for Revision {
    type V = RevV;
    open spec fn view(&self) -> RevV {
        (self.index, self.digest@, match self.tail { Some(t) => Some(t@), None => None })
    }
}

// ---------------------------------------------------------------- text form (spec of `impl Display`)
pub open spec fn digit(d: nat) -> char
    recommends d < 10
{
    if d == 0 { '0' } else if d == 1 { '1' } else if d == 2 { '2' } else if d == 3 { '3' } else if d == 4 { '4' }
    else if d == 5 { '5' } else if d == 6 { '6' } else if d == 7 { '7' } else if d == 8 { '8' } else { '9' }
}
pub open spec fn is_digit(c: char) -> bool {
    c == '0' || c == '1' || c == '2' || c == '3' || c == '4' || c == '5' || c == '6' || c == '7' || c == '8' || c == '9'
}
pub open spec fn digit_val(c: char) -> nat {
    if c == '0' { 0 } else if c == '1' { 1 } else if c == '2' { 2 } else if c == '3' { 3 } else if c == '4' { 4 }
    else if c == '5' { 5 } else if c == '6' { 6 } else if c == '7' { 7 } else if c == '8' { 8 } else { 9 }
}
/// decimal text of n (what `{}` prints for a u32)
pub open spec fn dec(n: nat) -> Seq<char>
    decreases n
{
    if n < 10 { seq![digit(n)] } else { dec(n / 10).push(digit(n % 10)) }
}
pub open spec fn dec_val(s: Seq<char>) -> nat
    decreases s.len()
{
    if s.len() == 0 { 0 } else { dec_val(s.drop_last()) * 10 + digit_val(s.last()) }
}
pub open spec fn all_digits(s: Seq<char>) -> bool { forall|i: int| 0 <= i < s.len() ==> is_digit(#[trigger] s[i]) }

pub proof fn lemma_dec(n: nat)
    ensures dec(n).len() >= 1, all_digits(dec(n)), dec_val(dec(n)) == n,
    decreases n
{
    if n < 10 {
        assert(dec(n).drop_last() =~= Seq::<char>::empty());
        assert(dec_val(dec(n).drop_last()) == 0);
        assert(dec(n).last() == digit(n));
    } else {
        lemma_dec(n / 10);
        let s = dec(n);
        assert(s.drop_last() =~= dec(n / 10));
        assert(s.last() == digit(n % 10));
        assert(digit_val(digit(n % 10)) == n % 10);
        assert(is_digit(digit(n % 10)));
    }
}

pub open spec fn opt_text(t: Option<Seq<char>>) -> Seq<char> { match t { Some(x) => x, None => Seq::empty() } }

/// the identifier text: "{index}-{digest}" for index <= 1, "{index}-{digest}_{tail}" otherwise
pub open spec fn rev_str(v: RevV) -> Seq<char> {
    if v.0 > 1 { dec(v.0 as nat) + seq!['-'] + v.1 + seq!['_'] + opt_text(v.2) }
    else { dec(v.0 as nat) + seq!['-'] + v.1 }
}

/// well-formed = what the constructors produce from system digests:
/// index >= 1, a tail exactly when index > 1, digest free of '_'
pub open spec fn wf(v: RevV) -> bool {
    &&& v.0 >= 1
    &&& (v.0 > 1 <==> v.2.is_some())
    &&& !v.1.contains('_')
}

// ---------------------------------------------------------------- byte-wise text order
pub open spec fn lex_lt(a: Seq<char>, b: Seq<char>) -> bool
    decreases a.len()
{
    if b.len() == 0 { false }
    else if a.len() == 0 { true }
    else if (a[0] as u32) < (b[0] as u32) { true }
    else if (a[0] as u32) > (b[0] as u32) { false }
    else { lex_lt(a.drop_first(), b.drop_first()) }
}
pub open spec fn lex_cmp(a: Seq<char>, b: Seq<char>) -> std::cmp::Ordering {
    if a == b { std::cmp::Ordering::Equal } else if lex_lt(a, b) { std::cmp::Ordering::Less } else { std::cmp::Ordering::Greater }
}
pub proof fn lemma_lex_irrefl(a: Seq<char>) ensures !lex_lt(a, a) decreases a.len()
{ if a.len() > 0 { lemma_lex_irrefl(a.drop_first()); } }
pub proof fn lemma_lex_trans(a: Seq<char>, b: Seq<char>, c: Seq<char>)
    requires lex_lt(a, b), lex_lt(b, c) ensures lex_lt(a, c) decreases a.len()
{
    if a.len() > 0 && b.len() > 0 && c.len() > 0 && a[0] == b[0] && b[0] == c[0] {
        lemma_lex_trans(a.drop_first(), b.drop_first(), c.drop_first());
    }
}
pub proof fn lemma_lex_total(a: Seq<char>, b: Seq<char>)
    ensures a == b || lex_lt(a, b) || lex_lt(b, a) decreases a.len()
{
    if a.len() > 0 && b.len() > 0 && a[0] == b[0] {
        lemma_lex_total(a.drop_first(), b.drop_first());
        if a.drop_first() == b.drop_first() { assert(a =~= seq![a[0]] + a.drop_first()); assert(b =~= seq![b[0]] + b.drop_first()); }
    } else if a.len() == 0 && b.len() == 0 { assert(a =~= b); }
}
pub proof fn lemma_lex_asym(a: Seq<char>, b: Seq<char>)
    requires lex_lt(a, b) ensures !lex_lt(b, a)
{ if lex_lt(b, a) { lemma_lex_trans(a, b, a); lemma_lex_irrefl(a); } }

// ---------------------------------------------------------------- the order of the property statement (C05 / C19)
pub open spec fn marker(v: RevV) -> bool { v.1 == RESOLVED_HASH@ }

/// "longer history first, ties broken by byte-wise comparison of the revision identifier",
/// resolution markers lowest (ordered among themselves by identifier text)
pub open spec fn spec_cmp(a: RevV, b: RevV) -> std::cmp::Ordering {
    if marker(a) && marker(b) { lex_cmp(rev_str(a), rev_str(b)) }
    else if marker(a) { std::cmp::Ordering::Less }
    else if marker(b) { std::cmp::Ordering::Greater }
    else if a.0 < b.0 { std::cmp::Ordering::Less }
    else if a.0 > b.0 { std::cmp::Ordering::Greater }
    else { lex_cmp(rev_str(a), rev_str(b)) }
}

// ---------------------------------------------------------------- identifier text is injective on well-formed revisions
pub proof fn lemma_prefix_digits_eq(p: Seq<char>, q: Seq<char>, x: Seq<char>, y: Seq<char>)
    requires all_digits(p), all_digits(q), p + seq!['-'] + x == q + seq!['-'] + y,
    ensures p == q, x == y,
{
    let l = p + seq!['-'] + x; let r = q + seq!['-'] + y;
    if p.len() < q.len() { assert(l[p.len() as int] == '-'); assert(r[p.len() as int] == q[p.len() as int]); assert(is_digit(q[p.len() as int])); }
    if q.len() < p.len() { assert(r[q.len() as int] == '-'); assert(l[q.len() as int] == p[q.len() as int]); assert(is_digit(p[q.len() as int])); }
    assert(p.len() == q.len());
    assert(p =~= q) by { assert forall|i: int| 0 <= i < p.len() implies p[i] == q[i] by { assert(l[i] == p[i]); assert(r[i] == q[i]); } }
    assert(x =~= y) by {
        assert(x.len() == y.len()) by { assert(l.len() == r.len()); }
        assert forall|i: int| 0 <= i < x.len() implies x[i] == y[i] by { assert(l[p.len() + 1 + i] == x[i]); assert(r[q.len() + 1 + i] == y[i]); }
    }
}
pub proof fn lemma_split_underscore(d1: Seq<char>, t1: Seq<char>, d2: Seq<char>, t2: Seq<char>)
    requires !d1.contains('_'), !d2.contains('_'), d1 + seq!['_'] + t1 == d2 + seq!['_'] + t2,
    ensures d1 == d2, t1 == t2,
{
    let l = d1 + seq!['_'] + t1; let r = d2 + seq!['_'] + t2;
    if d1.len() < d2.len() { assert(l[d1.len() as int] == '_'); assert(r[d1.len() as int] == d2[d1.len() as int]); assert(d2.contains(d2[d1.len() as int])); }
    if d2.len() < d1.len() { assert(r[d2.len() as int] == '_'); assert(l[d2.len() as int] == d1[d2.len() as int]); assert(d1.contains(d1[d2.len() as int])); }
    assert(d1 =~= d2) by { assert forall|i: int| 0 <= i < d1.len() implies d1[i] == d2[i] by { assert(l[i] == d1[i]); assert(r[i] == d2[i]); } }
    assert(t1 =~= t2) by {
        assert(t1.len() == t2.len()) by { assert(l.len() == r.len()); }
        assert forall|i: int| 0 <= i < t1.len() implies t1[i] == t2[i] by { assert(l[d1.len() + 1 + i] == t1[i]); assert(r[d2.len() + 1 + i] == t2[i]); }
    }
}
pub proof fn lemma_rev_str_injective(a: RevV, b: RevV)
    requires wf(a), wf(b), rev_str(a) == rev_str(b),
    ensures a == b,
{
    lemma_dec(a.0 as nat); lemma_dec(b.0 as nat);
    let pa = dec(a.0 as nat); let pb = dec(b.0 as nat);
    let xa = if a.0 > 1 { a.1 + seq!['_'] + opt_text(a.2) } else { a.1 };
    let xb = if b.0 > 1 { b.1 + seq!['_'] + opt_text(b.2) } else { b.1 };
    assert(rev_str(a) =~= pa + seq!['-'] + xa);
    assert(rev_str(b) =~= pb + seq!['-'] + xb);
    lemma_prefix_digits_eq(pa, pb, xa, xb);
    assert(a.0 == b.0);
    if a.0 > 1 {
        lemma_split_underscore(a.1, opt_text(a.2), b.1, opt_text(b.2));
        assert(a.2 == b.2);
    }
    assert(a.1 == b.1);
}

// ---------------------------------------------------------------- C19: strict total order consistent with equality
pub proof fn lemma_cmp_refl(a: RevV) ensures spec_cmp(a, a) == std::cmp::Ordering::Equal { }

pub proof fn lemma_cmp_equal_iff_eq(a: RevV, b: RevV)
    requires wf(a), wf(b),
    ensures (spec_cmp(a, b) == std::cmp::Ordering::Equal) <==> a == b,
{
    if spec_cmp(a, b) == std::cmp::Ordering::Equal { lemma_rev_str_injective(a, b); }
}
pub proof fn lemma_cmp_antisym(a: RevV, b: RevV)
    ensures
        spec_cmp(a, b) == std::cmp::Ordering::Less <==> spec_cmp(b, a) == std::cmp::Ordering::Greater,
        spec_cmp(a, b) == std::cmp::Ordering::Equal <==> spec_cmp(b, a) == std::cmp::Ordering::Equal,
{
    let x = rev_str(a); let y = rev_str(b);
    lemma_lex_total(x, y);
    if lex_lt(x, y) { lemma_lex_asym(x, y); lemma_lex_irrefl(x); }
    if lex_lt(y, x) { lemma_lex_asym(y, x); lemma_lex_irrefl(y); }
    lemma_lex_irrefl(x);
}
pub proof fn lemma_cmp_trans(a: RevV, b: RevV, c: RevV)
    requires spec_cmp(a, b) == std::cmp::Ordering::Less, spec_cmp(b, c) == std::cmp::Ordering::Less,
    ensures spec_cmp(a, c) == std::cmp::Ordering::Less,
{
    let x = rev_str(a); let y = rev_str(b); let z = rev_str(c);
    lemma_lex_irrefl(x); lemma_lex_irrefl(y); lemma_lex_irrefl(z);
    if lex_lt(x, y) && lex_lt(y, z) { lemma_lex_trans(x, y, z); lemma_lex_irrefl(x); if x == z { lemma_lex_asym(x, y); } }
}
pub proof fn lemma_cmp_total(a: RevV, b: RevV)
    ensures spec_cmp(a, b) == std::cmp::Ordering::Less || spec_cmp(a, b) == std::cmp::Ordering::Equal || spec_cmp(a, b) == std::cmp::Ordering::Greater,
{ }

// ---------------------------------------------------------------- identifier construction (C19, C01)
/// SHA-256 hex of a text; uninterpreted (R9).  Collision freedom is never assumed.
pub uninterp spec fn sha_hex(s: Seq<char>) -> Seq<char>;
pub open spec fn take7(s: Seq<char>) -> Seq<char> { s.subrange(0, 7) }
/// the identifier of a child is a function of (index, content digest, parent identifier TEXT) only
pub open spec fn child_of(index: u32, digest: Seq<char>, parent: Option<RevV>) -> RevV {
    (index, digest, match parent { Some(p) => Some(take7(sha_hex(rev_str(p)))), None => None })
}

// ---------------------------------------------------------------- shims (assumed contracts; listed in evidence)
// R9: utils::digest_string = SHA-256 + hex (sha2, hex crates)
#[verifier::external_body]
pub fn digest_string(content: &String) -> (r: String)
    ensures r@ == sha_hex(content@), r@.len() == 64, r.is_ascii(),
{ unimplemented!() }

// R11: `Revision::to_string()` (impl Display, write!) == rev_str — link checked by bounded stand-in `revision`
#[verifier::external_body]
pub fn vx_rev_text(r: &Revision) -> (s: String)
    ensures s@ == rev_str(r@),
{ unimplemented!() }

// R10: `&s[..n]` + to_string on an ASCII string (verified against vstd's substring_ascii)
pub fn vx_prefix(s: &String, n: usize) -> (r: String)
    requires n <= s@.len(), s.is_ascii(),
    ensures r@ == s@.subrange(0, n as int),
{
    s.as_str().substring_ascii(0, n).to_string()
}

// R10: String == &str constant (verified)
pub fn vx_str_is(a: &String, lit: &str) -> (r: bool)
    ensures r == (a@ == lit@),
{ a.as_str() == lit }

// R10: String != String (verified)
pub fn vx_str_eq(a: &String, b: &String) -> (r: bool)
    ensures r == (a@ == b@),
{ a.eq(b) }

// R10: Option<String>::eq (verified)
pub fn vx_opt_str_eq(a: &Option<String>, b: &Option<String>) -> (r: bool)
    ensures r == (match (*a, *b) { (Some(x), Some(y)) => x@ == y@, (None, None) => true, _ => false }),
{
    match (a, b) {
        (Some(x), Some(y)) => x.eq(y),
        (None, None) => true,
        _ => false,
    }
}

// R10: `String::cmp` is byte-wise on UTF-8 == code-point-wise lexicographic (assumed of std)
#[verifier::external_body]
pub fn vx_str_cmp(a: &String, b: &String) -> (o: std::cmp::Ordering)
    ensures o == lex_cmp(a@, b@),
{ unimplemented!() }
