// ---- unit `meld`: Melda::meld (src/melda.rs) — melding copies items; storage is append-only, content-addressed and
// byte-identical everywhere; meld touches storage only ----
//
// Proved FROM THE REAL CODE here: Melda::meld and the five DataStorage functions it calls
// (read_raw_item, write_raw_item, list_raw_items, applied_packs, try_load_pack: one-line forwards to the adapter).
// ASSUMED (every `#[verifier::external_body]` item below, each with its source):
//   * the Adapter contract on `AdapterBox`          — unit `pack` (assumed there too), PROVED for MemoryAdapter & wrappers in unit `adapter`
//   * `Melda::fetch_raw_delta`  (predicate `fetched`) — PROVED in unit `delta`
//   * `DeltaId::key`                                  — PROVED in unit `delta`
//   * `Melda::load_raw_delta`, `Delta::to_json_string` — PROVED in unit `block` with richer contracts; only their SHAPE is
//     assumed here, and `load_raw_delta`'s precondition `inputs_bounded` is NOT established by meld (see the shim)
//   * std collections seen through content-keyed views, string helpers, sha256 — assumed of std / sha2 as in units pack, delta
// Modelling assumption: the two replicas own DISTINCT adapters (`AdapterBox` is owned by value in the mirror); melding a
// replica with another replica that shares the same `Arc<RwLock<Box<dyn Adapter>>>` is not covered.

// ================================================================ mirrors
/// mirror of `struct DeltaId(u32, String)` (field list checked against /repo); Eq/Ord impls external as in unit `delta`
pub struct DeltaId(pub u32, pub String);
#[verifier::external] impl PartialEq for DeltaId { fn eq(&self, _o: &Self) -> bool { unimplemented!() } }
#[verifier::external] impl Eq for DeltaId {}
#[verifier::external] impl PartialOrd for DeltaId { fn partial_cmp(&self, _o: &Self) -> Option<std::cmp::Ordering> { unimplemented!() } }
#[verifier::external] impl Ord for DeltaId { fn cmp(&self, _o: &Self) -> std::cmp::Ordering { unimplemented!() } }
pub type DidV = (u32, Seq<char>);
impl View for DeltaId {
    type V = DidV;
    open spec fn view(&self) -> DidV { (self.0, self.1@) }
}
/// Assumed of the external Eq/Ord impls of DeltaId as std collection keys (unit `delta` proves `cmp` is a total order
/// consistent with equality for the extracted body)
pub open spec fn did_models() -> bool { vstd::std_specs::btree::key_obeys_cmp_spec::<DeltaId>() }

/// a parsed block; opaque here (unit `block` mirrors its fields)
#[verifier::external_body]
#[verifier::accept_recursive_types]
pub struct Delta { d: () }
/// R8: serde_json::Map<String, Value> (opaque) — the raw block object between fetch_raw_delta and load_raw_delta
#[verifier::external_body]
#[verifier::accept_recursive_types]
pub struct JMap { m: () }
/// R8: serde_json::Value is opaque
#[verifier::external_body]
#[verifier::accept_recursive_types]
pub struct Value { v: () }
/// R6: `RwLock<BTreeMap<String, Mutex<RevisionTree>>>` — never touched by meld: opaque
#[verifier::external_body]
pub struct DocsShim { d: () }
/// R6: `Mutex<LruCache<Revision, ArrayDescriptor>>` — never touched by meld: opaque
#[verifier::external_body]
pub struct AdcShim { c: () }
/// R6: `Mutex<LruCache<String, Map<String, Value>>>` — never touched by meld: opaque
#[verifier::external_body]
pub struct LruShim { c: () }
// R7: anyhow::Error values (messages dropped)
#[verifier::external_body]
pub struct VxError { e: () }
#[verifier::external_body]
pub fn vx_error() -> VxError { unimplemented!() }

/// mirror of `struct Melda` (field list checked against /repo).
/// R6 (lock erasure): `RwLock<T>` / `Mutex<T>` -> `T`, single-threaded semantics; `&self` -> `&mut self` because the body
/// writes through `self.data.write()`; `other` stays `&Melda`, so NOTHING of `other` can change.
pub struct Melda {
    pub documents: DocsShim,
    pub data: DataStorage,
    pub deltas: BTreeMap<DeltaId, Delta>,
    pub array_descriptors_cache: AdcShim,
}
/// mirror of `struct DataStorage` (field list checked against /repo), as in unit `pack`
pub struct DataStorage {
    pub adapter: AdapterBox,
    pub stage: HashMap<String, Value>,
    pub committed_objects: HashMap<String, (String, usize, usize)>,
    pub applied_pack_ids: BTreeSet<String>,
    pub cache: LruShim,
}

// ================================================================ the Adapter contract (C17)
// SOURCE: unit `pack` preamble (`AdapterBox`), text copied; assumed of `dyn Adapter`, proved for MemoryAdapter and the
// compression wrappers in unit `adapter`.  Keys are `&str` as in the real trait.
#[verifier::external_body]
pub struct AdapterBox { a: () }
pub type Store = Map<Seq<char>, Seq<u8>>;
impl AdapterBox {
    pub uninterp spec fn store(&self) -> Store;

    #[verifier::external_body]
    pub fn read_object(&self, key: &str, offset: usize, length: usize) -> (r: Result<Vec<u8>, VxError>)
        ensures match r {
            Ok(d) => self.store().contains_key(key@)
                && (offset == 0 && length == 0 ==> d@ == self.store()[key@])
                && (length > 0 ==> offset + length <= self.store()[key@].len() && d@ == self.store()[key@].subrange(offset as int, offset + length)),
            Err(_) => true,
        },
    { unimplemented!() }

    /// write-once; a failed write leaves the store as it was (per-item atomicity is the property's stated assumption)
    #[verifier::external_body]
    pub fn write_object(&mut self, key: &str, data: &[u8]) -> (r: Result<(), VxError>)
        ensures match r {
            Ok(_) => final(self).store() == (if old(self).store().contains_key(key@) { old(self).store() } else { old(self).store().insert(key@, data@) }),
            Err(_) => final(self).store() == old(self).store(),
        },
    { unimplemented!() }

    /// listing by suffix: exactly the keys with that suffix, suffix removed, each once, in ANY order
    #[verifier::external_body]
    pub fn list_objects(&self, ext: &str) -> (r: Result<Vec<String>, VxError>)
        ensures match r {
            Ok(l) => (forall|i: int| 0 <= i < l.len() ==> self.store().contains_key(#[trigger] l@[i]@ + ext@))
                && (forall|s: Seq<char>| self.store().contains_key(s + ext@) ==> exists|i: int| 0 <= i < l.len() && #[trigger] l@[i]@ == s)
                && (forall|i: int, j: int| 0 <= i < j < l.len() ==> l@[i]@ != l@[j]@),
            Err(_) => true,
        },
    { unimplemented!() }
}
/// storage only grows and existing items keep their bytes (SOURCE: unit `pack`)
pub open spec fn store_grows(a: Store, b: Store) -> bool {
    forall|k: Seq<char>| #[trigger] a.contains_key(k) ==> b.contains_key(k) && b[k] == a[k]
}
/// one write-once write (what `write_raw_item` does to the store when it reports success)
pub open spec fn put_once(s: Store, key: Seq<char>, data: Seq<u8>) -> Store {
    if s.contains_key(key) { s } else { s.insert(key, data) }
}
pub open spec fn pkey(p: Seq<char>) -> Seq<char> { p + PACK_EXTENSION@ }

// R9: SHA-256 + hex, uninterpreted; collision freedom is never assumed (SOURCE: unit `pack`; unit `delta` calls it `sha_hex_b`)
pub uninterp spec fn sha_hex(b: Seq<u8>) -> Seq<char>;
#[verifier::external_body]
pub fn digest_bytes(content: &[u8]) -> (r: String)
    ensures r@ == sha_hex(content@),
{ unimplemented!() }

// ================================================================ std collections keyed by string CONTENT (assumed of std; SOURCE: unit `pack`)
pub uninterp spec fn smap<V>(m: HashMap<String, V>) -> Map<Seq<char>, V>;
pub uninterp spec fn sset(s: BTreeSet<String>) -> Set<Seq<char>>;
pub uninterp spec fn hset(s: HashSet<String>) -> Set<Seq<char>>;
#[verifier::external_body]
pub fn vx_sset_contains(s: &BTreeSet<String>, k: &String) -> (r: bool)
    ensures r == sset(*s).contains(k@),
{ unimplemented!() }
/// R18: iteration over a BTreeSet<String> visits every element (order irrelevant here)
#[verifier::external_body]
pub fn vx_sset_elems<'a>(s: &'a BTreeSet<String>) -> (v: Vec<&'a String>)
    ensures
        forall|i: int| 0 <= i < v.len() ==> sset(*s).contains(#[trigger] v@[i]@),
        forall|k: Seq<char>| sset(*s).contains(k) ==> exists|i: int| 0 <= i < v.len() && #[trigger] v@[i]@ == k,
{ unimplemented!() }
/// `v.into_iter().collect::<HashSet<String>>()`: the set of the vector's elements
#[verifier::external_body]
pub fn vx_hset_collect(v: Vec<String>) -> (s: HashSet<String>)
    ensures forall|k: Seq<char>| hset(s).contains(k) <==> exists|i: int| 0 <= i < v.len() && #[trigger] v@[i]@ == k,
{ unimplemented!() }
#[verifier::external_body]
pub fn vx_hset_contains(s: &HashSet<String>, k: &String) -> (r: bool)
    ensures r == hset(*s).contains(k@),
{ unimplemented!() }
/// R18: iteration over a HashSet<String> visits every element (hash order: arbitrary)
#[verifier::external_body]
pub fn vx_hset_elems<'a>(s: &'a HashSet<String>) -> (v: Vec<&'a String>)
    ensures
        forall|i: int| 0 <= i < v.len() ==> hset(*s).contains(#[trigger] v@[i]@),
        forall|k: Seq<char>| hset(*s).contains(k) ==> exists|i: int| 0 <= i < v.len() && #[trigger] v@[i]@ == k,
{ unimplemented!() }
/// R18: iteration over a BTreeMap<DeltaId, _> = an enumeration of its entries (SOURCE: unit `delta`)
#[verifier::external_body]
pub fn vx_dmap_entries<'a>(m: &'a BTreeMap<DeltaId, Delta>) -> (v: Vec<(&'a DeltaId, &'a Delta)>)
    ensures
        forall|i: int| 0 <= i < v.len() ==> m@.contains_key(*#[trigger] v@[i].0) && *v@[i].1 == m@[*v@[i].0],
        forall|k: DeltaId| m@.contains_key(k) ==> exists|i: int| 0 <= i < v.len() && *#[trigger] v@[i].0 == k,
{ unimplemented!() }

// R10: string helpers (assumed of std; SOURCE: unit `pack`, `vx_ends_with` new)
#[verifier::external_body]
pub fn vx_str_concat(a: &str, b: &str) -> (r: String)
    ensures r@ == a@ + b@,
{ unimplemented!() }
pub fn vx_str_is(a: &String, lit: &str) -> (r: bool)
    ensures r == (a@ == lit@),
{ a.as_str() == lit }
#[verifier::external_body]
pub fn vx_str_clone(a: &String) -> (r: String)
    ensures r@ == a@,
{ unimplemented!() }
/// `s` ends with `e`
pub open spec fn ends_with(s: Seq<char>, e: Seq<char>) -> bool {
    s.len() >= e.len() && s.subrange(s.len() - e.len(), s.len() as int) == e
}
/// `str::ends_with(&str)`
#[verifier::external_body]
pub fn vx_ends_with(s: &str, e: &str) -> (r: bool)
    ensures r == ends_with(s@, e@),
{ unimplemented!() }

// ================================================================ blocks: identifiers, fetch, parse, re-serialise
// R11: `impl Display for DeltaId` = "{index}-{digest}".  Unit `delta` defines did_str(v) = dec(v.0) + "-" + v.1; only the
// NAME of the function is needed here (no property of the text is used).
pub uninterp spec fn did_str(v: DidV) -> Seq<char>;
/// the storage key of a block
pub open spec fn did_key(v: DidV) -> Seq<char> { did_str(v) + DELTA_EXTENSION@ }
impl DeltaId {
    /// SOURCE: unit `delta`, `DeltaId::key` (PROVED there): `ensures ret@ == did_str(self@) + DELTA_EXTENSION@`
    #[verifier::external_body]
    pub fn key(&self) -> (ret: String)
        ensures ret@ == did_str(self@) + DELTA_EXTENSION@,
    { unimplemented!() }
}
// R8: serde_json parsing as a relation (SOURCE: unit `delta`)
pub uninterp spec fn parses_to(bytes: Seq<u8>, v: Value) -> bool;
pub uninterp spec fn as_obj(v: Value) -> Option<JMap>;
/// the block text stored under `key` hashes to the identifier's digest and parses to the returned object
/// (SOURCE: unit `delta`, text copied; `sha_hex_b` there = `sha_hex` here)
pub open spec fn fetched(store: Store, key: Seq<char>, digest: Seq<char>, o: JMap) -> bool {
    store.contains_key(key) && sha_hex(store[key]) == digest
    && exists|v: Value| #[trigger] parses_to(store[key], v) && as_obj(v) == Some(o)
}
/// ASSUMED SHAPE (unit `block`): `d` is the parsed form of the raw block object `raw` under identifier `id`; holds only
/// if `id` is consistent with the content (`id.index == 1 + max parent index`, `DeltaId::new_from_anchors`).
pub uninterp spec fn loaded(id: DidV, raw: JMap, d: Delta) -> bool;
/// ASSUMED SHAPE (unit `block`): `b` is (the UTF-8 bytes of) a JSON text `serde_json::to_string(&d.to_json())` of the parsed
/// block `d`.  A RELATION, as in unit `block` (`is_block_text(d, text)` = the text of SOME object with `is_block_json(d, o)`).
pub uninterp spec fn is_block_bytes(d: Delta, b: Seq<u8>) -> bool;
/// a `String` together with its UTF-8 bytes (SOURCE: unit `pack`, `JsonText`)
#[verifier::external_body]
pub struct JsonText { s: String }
impl JsonText {
    pub uninterp spec fn bytes(&self) -> Seq<u8>;
    #[verifier::external_body]
    pub fn as_bytes(&self) -> (r: &[u8])
        ensures r@ == self.bytes(),
    { unimplemented!() }
}
impl Delta {
    /// ASSUMED; LINK: unit `block` PROVES `Ok(text) => is_block_text(*self, text@)`, `Err(_) => false` for the real body
    /// (text as Seq<char>); here the String is kept together with its UTF-8 bytes (`JsonText`, as in unit `pack`) and
    /// `is_block_bytes(d, b)` stands for `exists text. is_block_text(d, text) && b == utf8(text)`.
    #[verifier::external_body]
    pub fn to_json_string(&self) -> (r: Result<JsonText, VxError>)
        ensures match r { Ok(t) => is_block_bytes(*self, t.bytes()), Err(_) => true },
    { unimplemented!() }
}
impl Melda {
    /// SOURCE: unit `delta`, `Melda::fetch_raw_delta` (PROVED there from the real code; `self.data.store()` there is
    /// `self.data.adapter.store()` here): a block is interpreted only if its bytes hash to the digest in its name (C10).
    /// `&self`: takes only the `data` read lock — reads storage, changes nothing.
    #[verifier::external_body]
    pub fn fetch_raw_delta(&self, deltaid: &DeltaId) -> (ret: Result<JMap, VxError>)
        ensures match ret {
            Ok(o) => fetched(self.data.adapter.store(), did_str(deltaid@) + DELTA_EXTENSION@, deltaid@.1, o),
            Err(_) => true,
        },
    { unimplemented!() }
    /// ASSUMED; LINK: unit `block` PROVES `Ok(d) => loaded(b_id@, jm(raw_delta), d) && loadable(..)`, `Err(_) => !loadable(..)`
    /// for the real body (its `loaded` is an open spec fn over the JSON model `jm(raw_delta)`; here it is uninterpreted over
    /// the opaque JMap: weaker).  GAP: unit `block` needs `requires did_models(), inputs_bounded(jm(raw_delta))` (pack
    /// entries are strings — `p.as_str().unwrap()`; parent indices < u32::MAX; bounded change records) for PANIC FREEDOM.
    /// This shim has no `requires`: that the call inside `meld` does not panic on a hash-checked but otherwise arbitrary
    /// block object is ASSUMED here, not proved (the other replica has already loaded the same object with the same function).
    /// The real body never mentions `self` (no lock is taken): `&self` reads and changes nothing.
    #[verifier::external_body]
    pub fn load_raw_delta(&self, b_id: &DeltaId, raw_delta: JMap) -> (ret: Result<Delta, VxError>)
        ensures match ret { Ok(d) => loaded(b_id@, raw_delta, d), Err(_) => true },
    { unimplemented!() }
}

// ================================================================ spec of the property statement
/// (a) a pack applied in `other` and not applied here, byte-identical to `other`'s item and named by the digest of its bytes
pub open spec fn melded_pack(mine_applied: Set<Seq<char>>, other: Melda, k: Seq<char>, bytes: Seq<u8>) -> bool {
    exists|p: Seq<char>| #[trigger] sset(other.data.applied_pack_ids).contains(p) && !mine_applied.contains(p) && k == pkey(p)
        && other.data.adapter.store().contains_key(k) && bytes == other.data.adapter.store()[k] && sha_hex(bytes) == p
}
/// witness form of (b)
pub open spec fn melded_block_by(mine: Map<DeltaId, Delta>, other: Melda, k: Seq<char>, bytes: Seq<u8>, did: DeltaId, o: JMap, d: Delta) -> bool {
    other.deltas@.contains_key(did) && !mine.contains_key(did) && k == did_key(did@)
        && fetched(other.data.adapter.store(), k, did@.1, o) && loaded(did@, o, d) && is_block_bytes(d, bytes)
}
/// (b) a block loaded in `other` and unknown to this replica: the re-serialised text of the block parsed from `other`'s
/// item, whose bytes hash to the digest in the block's name
pub open spec fn melded_block(mine: Map<DeltaId, Delta>, other: Melda, k: Seq<char>, bytes: Seq<u8>) -> bool {
    exists|did: DeltaId, o: JMap, d: Delta| #[trigger] melded_block_by(mine, other, k, bytes, did, o, d)
}
/// (c) any other item (neither block nor pack), copied verbatim
pub open spec fn melded_plain(other: Melda, k: Seq<char>, bytes: Seq<u8>) -> bool {
    !ends_with(k, DELTA_EXTENSION@) && !ends_with(k, PACK_EXTENSION@)
        && other.data.adapter.store().contains_key(k) && bytes == other.data.adapter.store()[k]
}
pub open spec fn melded_item(mine_applied: Set<Seq<char>>, mine: Map<DeltaId, Delta>, other: Melda, k: Seq<char>, bytes: Seq<u8>) -> bool {
    melded_pack(mine_applied, other, k, bytes) || melded_block(mine, other, k, bytes) || melded_plain(other, k, bytes)
}
/// every item of `now` that `before` lacks is a melded item of `other`
pub open spec fn only_melded(before: Store, now: Store, mine_applied: Set<Seq<char>>, mine: Map<DeltaId, Delta>, other: Melda) -> bool {
    forall|k: Seq<char>| #[trigger] now.contains_key(k) && !before.contains_key(k) ==> melded_item(mine_applied, mine, other, k, now[k])
}
/// `k` is one of the returned keys
pub open spec fn named(l: Seq<String>, k: Seq<char>) -> bool { exists|i: int| 0 <= i < l.len() && #[trigger] l[i]@ == k }
/// the returned list: every returned key is stored, every new item is returned
pub open spec fn reported(before: Store, now: Store, l: Seq<String>) -> bool {
    &&& forall|i: int| 0 <= i < l.len() ==> now.contains_key(#[trigger] l[i]@)
    &&& forall|k: Seq<char>| #[trigger] now.contains_key(k) && !before.contains_key(k) ==> named(l, k)
}
/// one more returned key keeps `reported` across one write-once write of that key
pub proof fn lemma_reported_push(before: Store, now: Store, l: Seq<String>, l2: Seq<String>, key: Seq<char>, data: Seq<u8>)
    requires
        reported(before, now, l),
        l2.len() == l.len() + 1, forall|i: int| 0 <= i < l.len() ==> l2[i] == l[i], l2[l.len() as int]@ == key,
    ensures reported(before, put_once(now, key, data), l2),
{
    let now2 = put_once(now, key, data);
    assert forall|i: int| 0 <= i < l2.len() implies now2.contains_key(#[trigger] l2[i]@) by {
        if i < l.len() { assert(l2[i] == l[i]); assert(now.contains_key(l[i]@)); }
    }
    assert forall|k: Seq<char>| #[trigger] now2.contains_key(k) && !before.contains_key(k) implies named(l2, k) by {
        if k == key { assert(l2[l.len() as int]@ == k); }
        else { assert(now.contains_key(k)); let i = choose|i: int| 0 <= i < l.len() && #[trigger] l[i]@ == k; assert(l2[i]@ == k); }
    }
}

// ================================================================ corollaries (system level)
/// every pack item is named by the digest of its bytes
pub open spec fn packs_addressed(s: Store) -> bool {
    forall|p: Seq<char>| #[trigger] s.contains_key(pkey(p)) ==> sha_hex(s[pkey(p)]) == p
}
pub proof fn lemma_concat_cancel(a: Seq<char>, b: Seq<char>, e: Seq<char>)
    requires a + e == b + e,
    ensures a == b,
{
    assert((a + e).len() == (b + e).len());
    assert(a =~= (a + e).subrange(0, a.len() as int));
    assert(b =~= (b + e).subrange(0, b.len() as int));
}
pub proof fn lemma_ends_with_concat(a: Seq<char>, e: Seq<char>)
    ensures ends_with(a + e, e),
{
    assert((a + e).subrange((a + e).len() - e.len(), (a + e).len() as int) =~= e);
}
/// no key is both a pack key and a block key (".pack" / ".delta" end in different characters)
pub proof fn lemma_ext_differ(s: Seq<char>)
    ensures !(ends_with(s, PACK_EXTENSION@) && ends_with(s, DELTA_EXTENSION@)),
{
    reveal_strlit(".pack"); reveal_strlit(".delta");
    if ends_with(s, PACK_EXTENSION@) && ends_with(s, DELTA_EXTENSION@) {
        let a = s.subrange(s.len() - 5, s.len() as int); let b = s.subrange(s.len() - 6, s.len() as int);
        assert(a[4] == 'k'); assert(b[5] == 'a');
        assert(a[4] == s[s.len() - 1]); assert(b[5] == s[s.len() - 1]);
    }
}
/// C11 (content addressing is preserved): if every pack item of this replica's storage is named by the digest of its
/// bytes before a meld, the same holds after it — whatever the other replica's storage contains
pub proof fn lemma_meld_keeps_packs_addressed(before: Store, now: Store, mine_applied: Set<Seq<char>>, mine: Map<DeltaId, Delta>, other: Melda)
    requires packs_addressed(before), store_grows(before, now), only_melded(before, now, mine_applied, mine, other),
    ensures packs_addressed(now),
{
    assert forall|p: Seq<char>| #[trigger] now.contains_key(pkey(p)) implies sha_hex(now[pkey(p)]) == p by {
        let k = pkey(p);
        lemma_ends_with_concat(p, PACK_EXTENSION@);
        if before.contains_key(k) { assert(now[k] == before[k]); } else {
            assert(melded_item(mine_applied, mine, other, k, now[k]));
            if melded_pack(mine_applied, other, k, now[k]) {
                let q = choose|q: Seq<char>| #[trigger] sset(other.data.applied_pack_ids).contains(q) && !mine_applied.contains(q) && k == pkey(q)
                    && other.data.adapter.store().contains_key(k) && now[k] == other.data.adapter.store()[k] && sha_hex(now[k]) == q;
                lemma_concat_cancel(p, q, PACK_EXTENSION@);
            } else if melded_block(mine, other, k, now[k]) {
                let (did, o, d) = choose|did: DeltaId, o: JMap, d: Delta| #[trigger] melded_block_by(mine, other, k, now[k], did, o, d);
                lemma_ends_with_concat(did_str(did@), DELTA_EXTENSION@);
                lemma_ext_differ(k);
            }
        }
    }
}
/// ROUND TRIP (to be discharged by unit `block`, NOT assumed anywhere here): re-serialising the block parsed from a stored
/// item gives back the item's bytes.  Holds for items written by `commit` (serde_json prints what it parsed: sorted keys).
pub open spec fn block_roundtrip(store: Store) -> bool {
    forall|k: Seq<char>, dig: Seq<char>, o: JMap, id: DidV, d: Delta, b: Seq<u8>|
        #[trigger] fetched(store, k, dig, o) && #[trigger] loaded(id, o, d) && #[trigger] is_block_bytes(d, b) ==> b == store[k]
}
/// under the round-trip hypothesis a melded block is byte-identical to the other replica's item and named by the digest of its bytes
pub proof fn lemma_melded_block_identical(mine: Map<DeltaId, Delta>, other: Melda, k: Seq<char>, bytes: Seq<u8>, did: DeltaId, o: JMap, d: Delta)
    requires melded_block_by(mine, other, k, bytes, did, o, d), block_roundtrip(other.data.adapter.store()),
    ensures bytes == other.data.adapter.store()[k], sha_hex(bytes) == did@.1,
{ }
