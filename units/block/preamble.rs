// ---- unit `block`: a block (delta) as a JSON object and back: Delta::to_json / Melda::load_raw_delta (src/melda.rs) ----
// The DeltaId pieces are those of unit `delta`, re-declared here because this unit needs the TRANSPARENT mirror of `Change`
// (unit `delta` declares it opaque); the four DeltaId functions used are re-extracted and re-verified in this unit.
pub struct DeltaId(pub u32, pub String);
#[verifier::external] impl PartialEq for DeltaId { fn eq(&self, _o: &Self) -> bool { unimplemented!() } }
#[verifier::external] impl Eq for DeltaId {}
#[verifier::external] impl PartialOrd for DeltaId { fn partial_cmp(&self, _o: &Self) -> Option<std::cmp::Ordering> { unimplemented!() } }
#[verifier::external] impl Ord for DeltaId { fn cmp(&self, _o: &Self) -> std::cmp::Ordering { unimplemented!() } }
pub type DidV = (u32, Seq<char>);
impl View for DeltaId {
    type V = DidV;
    open spec fn view(&self) -> DidV { (self.0, self.1@) }
}
/// Assumed of the external Eq/Ord impls of DeltaId as std collection keys (proved a total order in unit `delta`).
pub open spec fn did_models() -> bool { vstd::std_specs::btree::key_obeys_cmp_spec::<DeltaId>() }

pub enum Status { Pending, Ready, Applied, Blocked }
/// mirror of `struct Change(String, Revision, Option<Revision>)` (field list checked against /repo)
pub struct Change(pub String, pub Revision, pub Option<Revision>);
/// mirror of `struct Delta` (field list checked against /repo); `Map<String, Value>` -> `JMap`
pub struct Delta {
    pub id: Option<DeltaId>,
    pub parents: Option<BTreeSet<DeltaId>>,
    pub info: Option<JMap>,
    pub packs: Option<BTreeSet<String>>,
    pub changes: Option<Vec<Change>>,
    pub status: Status,
}
/// `load_raw_delta` takes `&self` but reads no field of `Melda`
pub struct Melda {}
#[verifier::external_body]
pub struct VxError { e: () }
#[verifier::external] impl std::fmt::Debug for VxError { fn fmt(&self, _f: &mut std::fmt::Formatter<'_>) -> std::fmt::Result { unimplemented!() } }
// ASSUMED: anyhow error values carry no information the contracts depend on
#[verifier::external_body]
pub fn vx_error() -> VxError { unimplemented!() }

// ================================================================ R8: a small model of serde_json::Value / Map<String, Value>
/// JSON numbers are never inspected by the two functions
#[verifier::external_body]
pub struct JNum { n: () }
/// the JSON data model (objects as maps from key text to value: serde_json::Map keeps one value per key)
pub enum JV { Null, Bool(bool), Num(JNum), Str(Seq<char>), Arr(Seq<JV>), Obj(Map<Seq<char>, JV>) }
#[verifier::external_body]
#[verifier::accept_recursive_types]
pub struct Value { v: () }
#[verifier::external_body]
#[verifier::accept_recursive_types]
pub struct JMap { m: () }
/// the JSON value a `serde_json::Value` holds
pub uninterp spec fn jv(v: Value) -> JV;
/// the key -> value mapping a `serde_json::Map<String, Value>` holds
pub uninterp spec fn jm(m: JMap) -> Map<Seq<char>, JV>;
pub open spec fn jvs(s: Seq<Value>) -> Seq<JV> { s.map_values(|x: Value| jv(x)) }
pub open spec fn strs_jv(s: Seq<String>) -> Seq<JV> { s.map_values(|x: String| JV::Str(x@)) }

impl JMap {
    // ASSUMED (serde_json): `Map::new()` is the empty object
    #[verifier::external_body]
    pub fn new() -> (m: JMap) ensures jm(m) == Map::<Seq<char>, JV>::empty() { unimplemented!() }
    // ASSUMED (serde_json): `Map::insert` binds the key to the value, replacing a previous binding, other keys unchanged
    #[verifier::external_body]
    pub fn insert(&mut self, k: String, v: Value) -> (r: Option<Value>)
        ensures jm(*final(self)) == jm(*old(self)).insert(k@, jv(v)),
    { unimplemented!() }
    // ASSUMED (serde_json): `Map::contains_key` by key text
    #[verifier::external_body]
    pub fn contains_key(&self, k: &str) -> (r: bool) ensures r == jm(*self).contains_key(k@) { unimplemented!() }
    // ASSUMED (serde_json): `Map::get` by key text
    #[verifier::external_body]
    pub fn get(&self, k: &str) -> (r: Option<&Value>)
        ensures match r { Some(v) => jm(*self).contains_key(k@) && jv(*v) == jm(*self)[k@], None => !jm(*self).contains_key(k@) },
    { unimplemented!() }
    // ASSUMED (serde_json): `Map::clone` copies the mapping
    #[verifier::external_body]
    pub fn clone(&self) -> (r: JMap) ensures jm(r) == jm(*self) { unimplemented!() }
}
/// `Value::from(x)` for the three argument types the block code uses (impls of serde_json's `From`)
pub trait ToJV { spec fn to_jv(&self) -> JV; }
impl ToJV for Vec<String> { open spec fn to_jv(&self) -> JV { JV::Arr(strs_jv(self@)) } }
impl ToJV for Vec<Value> { open spec fn to_jv(&self) -> JV { JV::Arr(jvs(self@)) } }
impl ToJV for JMap { open spec fn to_jv(&self) -> JV { JV::Obj(jm(*self)) } }
impl Value {
    // ASSUMED (serde_json): `Value::is_object`
    #[verifier::external_body]
    pub fn is_object(&self) -> (r: bool) ensures r == (jv(*self) is Obj) { unimplemented!() }
    // ASSUMED (serde_json): `Value::as_object` = the mapping of an object, None for anything else
    #[verifier::external_body]
    pub fn as_object(&self) -> (r: Option<&JMap>)
        ensures match r { Some(m) => jv(*self) == JV::Obj(jm(*m)), None => !(jv(*self) is Obj) },
    { unimplemented!() }
    // ASSUMED (serde_json): `Value::is_array`
    #[verifier::external_body]
    pub fn is_array(&self) -> (r: bool) ensures r == (jv(*self) is Arr) { unimplemented!() }
    // ASSUMED (serde_json): `Value::as_array` = the element vector of an array, None for anything else
    #[verifier::external_body]
    pub fn as_array(&self) -> (r: Option<&Vec<Value>>)
        ensures match r { Some(a) => jv(*self) == JV::Arr(jvs(a@)), None => !(jv(*self) is Arr) },
    { unimplemented!() }
    // ASSUMED (serde_json): `Value::as_str` = the text of a string, None for anything else
    #[verifier::external_body]
    pub fn as_str(&self) -> (r: Option<&str>)
        ensures match r { Some(s) => jv(*self) == JV::Str(s@), None => !(jv(*self) is Str) },
    { unimplemented!() }
    // ASSUMED (serde_json): `Value::from(Vec<String>)` = array of strings, `from(Vec<Value>)` = array, `from(Map)` = object
    #[verifier::external_body]
    pub fn from<T: ToJV>(t: T) -> (v: Value) ensures jv(v) == t.to_jv() { unimplemented!() }
}
/// the JSON text serde_json prints for a value (uninterpreted: a function of the value)
pub uninterp spec fn json_text(v: JV) -> Seq<char>;
// ASSUMED (serde_json): `to_string` of an object with string keys cannot fail and prints the text of the value
#[verifier::external_body]
pub fn vx_json_text(m: &JMap) -> (r: Result<String, VxError>)
    ensures match r { Ok(t) => t@ == json_text(JV::Obj(jm(*m))), Err(_) => false },
{ unimplemented!() }

// ================================================================ std collections / strings
/// content view of a `BTreeSet<String>` (String spec equality is not text equality: content-keyed shim as in unit pack)
pub uninterp spec fn sset(s: BTreeSet<String>) -> Set<Seq<char>>;
// ASSUMED (std): `BTreeSet::new()` is empty
#[verifier::external_body]
pub fn vx_sset_new() -> (s: BTreeSet<String>) ensures sset(s) == Set::<Seq<char>>::empty() { unimplemented!() }
// ASSUMED (std): `BTreeSet<String>::insert` adds the text (`collect()` into a set = insert every item)
#[verifier::external_body]
pub fn vx_sset_insert(s: &mut BTreeSet<String>, k: String) ensures sset(*final(s)) == sset(*old(s)).insert(k@) { unimplemented!() }
// ASSUMED (std): `set.iter().cloned().collect::<Vec<String>>()` enumerates the texts of the set, each once
#[verifier::external_body]
pub fn vx_sset_to_vec(s: &BTreeSet<String>) -> (v: Vec<String>)
    ensures
        forall|i: int| 0 <= i < v.len() ==> sset(*s).contains(#[trigger] v@[i]@),
        forall|k: Seq<char>| sset(*s).contains(k) ==> exists|i: int| 0 <= i < v.len() && #[trigger] v@[i]@ == k,
        forall|i: int, j: int| 0 <= i < j < v.len() ==> v@[i]@ != v@[j]@,
{ unimplemented!() }
// ASSUMED (std, R18): iteration over a `BTreeSet<DeltaId>` enumerates its elements, each once
#[verifier::external_body]
pub fn vx_dset_elems<'a>(s: &'a BTreeSet<DeltaId>) -> (v: Vec<&'a DeltaId>)
    ensures
        forall|i: int| 0 <= i < v.len() ==> s@.contains(*#[trigger] v@[i]),
        forall|k: DeltaId| s@.contains(k) ==> exists|i: int| 0 <= i < v.len() && *#[trigger] v@[i] == k,
        forall|i: int, j: int| 0 <= i < j < v.len() ==> *v@[i] != *v@[j],
{ unimplemented!() }
/// R12: `max` of the indices (as in unit delta)
// ASSUMED (std): `anchors.iter().map(|a| a.index()).max().unwrap_or(0)` = the greatest index, 0 if there is none
#[verifier::external_body]
pub fn vx_max_index(anchors: &BTreeSet<DeltaId>) -> (r: u32)
    ensures
        forall|a: DeltaId| anchors@.contains(a) ==> a.0 <= r,
        anchors@.len() == 0 ==> r == 0,
        anchors@.len() > 0 ==> exists|a: DeltaId| anchors@.contains(a) && a.0 == r,
{ unimplemented!() }
/// `v.iter()` over a vector: the references to its elements, in order (verified)
pub fn vx_refs<'a, T>(v: &'a Vec<T>) -> (r: Vec<&'a T>)
    ensures r.len() == v.len(), forall|i: int| 0 <= i < v.len() ==> *#[trigger] r@[i] == v@[i],
{
    let mut out: Vec<&'a T> = Vec::new();
    let mut i = 0;
    while i < v.len()
        invariant i <= v.len(), out.len() == i, forall|j: int| 0 <= j < i ==> *#[trigger] out@[j] == v@[j],
        decreases v.len() - i,
    { out.push(&v[i]); i += 1; }
    out
}
pub fn vx_at<'a, T>(m: &'a [T], i: usize) -> (t: &'a T)
    requires i < m.len(),
    ensures *t == m@[i as int],
{ &m[i] }
// ASSUMED (std): `String::clone` copies the text
#[verifier::external_body]
pub fn vx_str_clone(a: &String) -> (r: String) ensures r@ == a@ { unimplemented!() }

// ================================================================ identifiers as text (fmt / regex: outside Verus)
/// R11: `impl Display for DeltaId` = "{index}-{digest}" (as in unit delta)
pub open spec fn did_str(v: DidV) -> Seq<char> { dec(v.0 as nat) + seq!['-'] + v.1 }
// ASSUMED (fmt): `DeltaId::to_string()` prints did_str (link checked by bounded stand-in `deltaid`)
#[verifier::external_body]
pub fn vx_did_text(d: &DeltaId) -> (s: String) ensures s@ == did_str(d@) { unimplemented!() }
// ASSUMED (derive(Clone)): a cloned DeltaId has the same index and digest text
#[verifier::external_body]
pub fn vx_did_clone(k: &DeltaId) -> (r: DeltaId) ensures r@ == k@ { unimplemented!() }
/// `#[derive(PartialEq)]` on DeltaId = field-wise equality (verified against that reading of the derive)
pub fn vx_did_eq(a: &DeltaId, b: &DeltaId) -> (r: bool) ensures r == (a@ == b@) { a.0 == b.0 && a.1.eq(&b.1) }

/// what `DeltaId::from` (regex DELTA_ID + `parse::<u32>()?`) reads from a text; None = rejected.  Uninterpreted.
pub uninterp spec fn did_parse(s: Seq<char>) -> Option<DidV>;
// ASSUMED (regex): `DeltaId::from` is a function of the text and does not panic (on this tree the index is parsed with `?`)
#[verifier::external_body]
pub fn vx_did_parse(s: &str) -> (r: Result<DeltaId, VxError>)
    ensures match r { Ok(d) => did_parse(s@) == Some(d@), Err(_) => did_parse(s@) is None },
{ unimplemented!() }
/// what `Revision::from` (regexes FULL_REV / FIRST_REV) reads from a text; None = rejected.  Uninterpreted.
pub uninterp spec fn rev_parse(s: Seq<char>) -> Option<RevV>;
/// `Revision::from` PANICS on this text: the digit group does not fit a u32 (`parse::<u32>().unwrap()`).  Uninterpreted.
pub uninterp spec fn rev_parse_panics(s: Seq<char>) -> bool;
// ASSUMED (regex): `Revision::from` is a function of the text; it is only called on texts on which it does not panic
#[verifier::external_body]
pub fn vx_rev_parse(s: &str) -> (r: Result<Revision, VxError>)
    requires !rev_parse_panics(s@),
    ensures match r { Ok(x) => rev_parse(s@) == Some(x@), Err(_) => rev_parse(s@) is None },
{ unimplemented!() }

pub open spec fn is_word_char(c: char) -> bool {
    ('0' <= c && c <= '9') || ('a' <= c && c <= 'z') || ('A' <= c && c <= 'Z') || c == '_'
}
/// a non-empty text of ASCII letters and digits (what the regex class `\w` minus `_` accepts; every system digest is one)
pub open spec fn is_token(s: Seq<char>) -> bool {
    s.len() > 0 && forall|i: int| 0 <= i < s.len() ==> is_word_char(#[trigger] s[i]) && s[i] != '_'
}
/// identifiers the system itself produces: block ids with a token digest
pub open spec fn did_sys(v: DidV) -> bool { is_token(v.1) }
/// revisions the system itself produces: well-formed (unit rev) with token digest and tail
pub open spec fn rev_sys(v: RevV) -> bool {
    wf(v) && is_token(v.1) && (v.2 matches Some(t) ==> is_token(t))
}
// ASSUMED, EXPLICITLY (print/parse are inverse on system-produced identifiers): the regex DELTA_ID reads "{index}-{digest}"
// back as (index, digest) when the digest is a token.  Checked by the bounded stand-in `deltaid`, not proved.
#[verifier::external_body]
pub proof fn assume_did_print_parse(v: DidV)
    requires did_sys(v),
    ensures did_parse(did_str(v)) == Some(v),
{ }
// ASSUMED, EXPLICITLY (print/parse are inverse on system-produced identifiers): FULL_REV / FIRST_REV read the text of a
// well-formed revision with token digest/tail back as that revision, without panicking.  Checked by the stand-in `revision`.
#[verifier::external_body]
pub proof fn assume_rev_print_parse(v: RevV)
    requires rev_sys(v),
    ensures rev_parse(rev_str(v)) == Some(v), !rev_parse_panics(rev_str(v)),
{ }
