// ---- unit `block`: a block (delta) as a JSON object and back: Delta::to_json / Melda::load_raw_delta (src/melda.rs) ----
// The DeltaId pieces are those of unit `delta`, re-declared here because this unit needs the TRANSPARENT mirror of `Change`
// (unit `delta` declares it opaque); the four DeltaId functions used are re-extracted and re-verified in this unit.
pub struct DeltaId(pub u32, pub String);
#[verifier::external] impl PartialEq for DeltaId { fn eq(&self, _o: &Self) -> bool { unimplemented!() } }
#[verifier::external] impl Eq for DeltaId {}
#[verifier::external] impl PartialOrd for DeltaId { fn partial_cmp(&self, _o: &Self) -> Option<std::cmp::Ordering> { unimplemented!() } }
#[verifier::external] impl Ord for DeltaId { fn cmp(&self, _o: &Self) -> std::cmp::Ordering { unimplemented!() } }
pub type DidV = (u32, Seq<char>);
impl View for DeltaId {
    type V = DidV;
    open spec fn view(&self) -> DidV { (self.0, self.1@) }
}
/// Assumed of the external Eq/Ord impls of DeltaId as std collection keys (proved a total order in unit `delta`).
pub open spec fn did_models() -> bool { vstd::std_specs::btree::key_obeys_cmp_spec::<DeltaId>() }

pub enum Status { Pending, Ready, Applied, Blocked }
/// mirror of `struct Change(String, Revision, Option<Revision>)` (field list checked against /repo)
pub struct Change(pub String, pub Revision, pub Option<Revision>);
/// mirror of `struct Delta` (field list checked against /repo); `Map<String, Value>` -> `JMap`
pub struct Delta {
    pub id: Option<DeltaId>,
    pub parents: Option<BTreeSet<DeltaId>>,
    pub info: Option<JMap>,
    pub packs: Option<BTreeSet<String>>,
    pub changes: Option<Vec<Change>>,
    pub status: Status,
}
/// `load_raw_delta` takes `&self` but reads no field of `Melda`
pub struct Melda {}
#[verifier::external_body]
pub struct VxError { e: () }
// (needed by `Result::unwrap` in the extracted code; never executed)
#[verifier::external] impl std::fmt::Debug for VxError { fn fmt(&self, _f: &mut std::fmt::Formatter<'_>) -> std::fmt::Result { unimplemented!() } }
// ASSUMED: anyhow error values carry no information the contracts depend on
#[verifier::external_body]
pub fn vx_error() -> VxError { unimplemented!() }

// ================================================================ R8: a small model of serde_json::Value / Map<String, Value>
/// JSON numbers are never inspected by the two functions
#[verifier::external_body]
pub struct JNum { n: () }
/// the JSON data model (objects as maps from key text to value: serde_json::Map keeps one value per key)
pub enum JV { Null, Bool(bool), Num(JNum), Str(Seq<char>), Arr(Seq<JV>), Obj(Map<Seq<char>, JV>) }
#[verifier::external_body]
#[verifier::accept_recursive_types]
pub struct Value { v: () }
#[verifier::external_body]
#[verifier::accept_recursive_types]
pub struct JMap { m: () }
/// the JSON value a `serde_json::Value` holds
pub uninterp spec fn jv(v: Value) -> JV;
/// the key -> value mapping a `serde_json::Map<String, Value>` holds
pub uninterp spec fn jm(m: JMap) -> Map<Seq<char>, JV>;
pub open spec fn jvs(s: Seq<Value>) -> Seq<JV> { s.map_values(|x: Value| jv(x)) }
pub open spec fn strs_jv(s: Seq<String>) -> Seq<JV> { s.map_values(|x: String| JV::Str(x@)) }

impl JMap {
    // ASSUMED (serde_json): `Map::new()` is the empty object
    #[verifier::external_body]
    pub fn new() -> (m: JMap) ensures jm(m) == Map::<Seq<char>, JV>::empty() { unimplemented!() }
    // ASSUMED (serde_json): `Map::insert` binds the key to the value, replacing a previous binding, other keys unchanged
    #[verifier::external_body]
    pub fn insert(&mut self, k: String, v: Value) -> (r: Option<Value>)
        ensures jm(*final(self)) == jm(*old(self)).insert(k@, jv(v)),
    { unimplemented!() }
    // ASSUMED (serde_json): `Map::contains_key` by key text
    #[verifier::external_body]
    pub fn contains_key(&self, k: &str) -> (r: bool) ensures r == jm(*self).contains_key(k@) { unimplemented!() }
    // ASSUMED (serde_json): `Map::get` by key text
    #[verifier::external_body]
    pub fn get(&self, k: &str) -> (r: Option<&Value>)
        ensures match r { Some(v) => jm(*self).contains_key(k@) && jv(*v) == jm(*self)[k@], None => !jm(*self).contains_key(k@) },
    { unimplemented!() }
    // ASSUMED (serde_json): `Map::clone` copies the mapping
    #[verifier::external_body]
    pub fn clone(&self) -> (r: JMap) ensures jm(r) == jm(*self) { unimplemented!() }
}
/// `Value::from(x)` for the three argument types the block code uses (impls of serde_json's `From`)
pub trait ToJV { spec fn to_jv(&self) -> JV; }
impl ToJV for Vec<String> { open spec fn to_jv(&self) -> JV { JV::Arr(strs_jv(self@)) } }
impl ToJV for Vec<Value> { open spec fn to_jv(&self) -> JV { JV::Arr(jvs(self@)) } }
impl ToJV for JMap { open spec fn to_jv(&self) -> JV { JV::Obj(jm(*self)) } }
impl Value {
    // ASSUMED (serde_json): `Value::is_object`
    #[verifier::external_body]
    pub fn is_object(&self) -> (r: bool) ensures r == (jv(*self) is Obj) { unimplemented!() }
    // ASSUMED (serde_json): `Value::as_object` = the mapping of an object, None for anything else
    #[verifier::external_body]
    pub fn as_object(&self) -> (r: Option<&JMap>)
        ensures match r { Some(m) => jv(*self) == JV::Obj(jm(*m)), None => !(jv(*self) is Obj) },
    { unimplemented!() }
    // ASSUMED (serde_json): `Value::is_array`
    #[verifier::external_body]
    pub fn is_array(&self) -> (r: bool) ensures r == (jv(*self) is Arr) { unimplemented!() }
    // ASSUMED (serde_json): `Value::as_array` = the element vector of an array, None for anything else
    #[verifier::external_body]
    pub fn as_array(&self) -> (r: Option<&Vec<Value>>)
        ensures match r { Some(a) => jv(*self) == JV::Arr(jvs(a@)), None => !(jv(*self) is Arr) },
    { unimplemented!() }
    // ASSUMED (serde_json): `Value::as_str` = the text of a string, None for anything else
    #[verifier::external_body]
    pub fn as_str(&self) -> (r: Option<&str>)
        ensures match r { Some(s) => jv(*self) == JV::Str(s@), None => !(jv(*self) is Str) },
    { unimplemented!() }
    // ASSUMED (serde_json): `Value::from(Vec<String>)` = array of strings, `from(Vec<Value>)` = array, `from(Map)` = object
    #[verifier::external_body]
    pub fn from<T: ToJV>(t: T) -> (v: Value) ensures jv(v) == t.to_jv() { unimplemented!() }
}
/// the JSON text serde_json prints for a value (uninterpreted: a function of the value)
pub uninterp spec fn json_text(v: JV) -> Seq<char>;
// ASSUMED (serde_json): `to_string` of an object with string keys cannot fail and prints the text of the value
#[verifier::external_body]
pub fn vx_json_text(m: &JMap) -> (r: Result<String, VxError>)
    ensures match r { Ok(t) => t@ == json_text(JV::Obj(jm(*m))), Err(_) => false },
{ unimplemented!() }

// ================================================================ std collections / strings
/// content view of a `BTreeSet<String>` (String spec equality is not text equality: content-keyed shim as in unit pack)
pub uninterp spec fn sset(s: BTreeSet<String>) -> Set<Seq<char>>;
// ASSUMED (std): `BTreeSet::new()` is empty
#[verifier::external_body]
pub fn vx_sset_new() -> (s: BTreeSet<String>) ensures sset(s) == Set::<Seq<char>>::empty() { unimplemented!() }
// ASSUMED (std): `BTreeSet<String>::insert` adds the text (`collect()` into a set = insert every item)
#[verifier::external_body]
pub fn vx_sset_insert(s: &mut BTreeSet<String>, k: String) ensures sset(*final(s)) == sset(*old(s)).insert(k@) { unimplemented!() }
// ASSUMED (std): `set.iter().cloned().collect::<Vec<String>>()` enumerates the texts of the set, each once
#[verifier::external_body]
pub fn vx_sset_to_vec(s: &BTreeSet<String>) -> (v: Vec<String>)
    ensures
        forall|i: int| 0 <= i < v.len() ==> sset(*s).contains(#[trigger] v@[i]@),
        forall|k: Seq<char>| sset(*s).contains(k) ==> exists|i: int| 0 <= i < v.len() && #[trigger] v@[i]@ == k,
        forall|i: int, j: int| 0 <= i < j < v.len() ==> v@[i]@ != v@[j]@,
{ unimplemented!() }
// ASSUMED (std, R18): iteration over a `BTreeSet<DeltaId>` enumerates its elements, each once
#[verifier::external_body]
pub fn vx_dset_elems<'a>(s: &'a BTreeSet<DeltaId>) -> (v: Vec<&'a DeltaId>)
    ensures
        forall|i: int| 0 <= i < v.len() ==> s@.contains(*#[trigger] v@[i]),
        forall|k: DeltaId| s@.contains(k) ==> exists|i: int| 0 <= i < v.len() && *#[trigger] v@[i] == k,
        forall|i: int, j: int| 0 <= i < j < v.len() ==> *v@[i] != *v@[j],
{ unimplemented!() }
/// R12: `max` of the indices (as in unit delta)
// ASSUMED (std): `anchors.iter().map(|a| a.index()).max().unwrap_or(0)` = the greatest index, 0 if there is none
#[verifier::external_body]
pub fn vx_max_index(anchors: &BTreeSet<DeltaId>) -> (r: u32)
    ensures
        forall|a: DeltaId| anchors@.contains(a) ==> a.0 <= r,
        anchors@.len() == 0 ==> r == 0,
        anchors@.len() > 0 ==> exists|a: DeltaId| anchors@.contains(a) && a.0 == r,
{ unimplemented!() }
/// `v.iter()` over a vector: the references to its elements, in order (verified)
pub fn vx_refs<'a, T>(v: &'a Vec<T>) -> (r: Vec<&'a T>)
    ensures r.len() == v.len(), forall|i: int| 0 <= i < v.len() ==> *#[trigger] r@[i] == v@[i],
{
    let mut out: Vec<&'a T> = Vec::new();
    let mut i = 0;
    while i < v.len()
        invariant i <= v.len(), out.len() == i, forall|j: int| 0 <= j < i ==> *#[trigger] out@[j] == v@[j],
        decreases v.len() - i,
    { out.push(&v[i]); i += 1; }
    out
}
pub fn vx_at<'a, T>(m: &'a [T], i: usize) -> (t: &'a T)
    requires i < m.len(),
    ensures *t == m@[i as int],
{ &m[i] }
/// `o.map(|s| s.to_string())` on an `Option<&str>` (verified)
pub fn vx_opt_to_string(o: Option<&str>) -> (r: Option<String>)
    ensures match o { Some(s) => r matches Some(t) && t@ == s@, None => r is None },
{
    match o { Some(s) => Some(s.to_string()), None => None }
}
// ASSUMED (std): `String::clone` copies the text
#[verifier::external_body]
pub fn vx_str_clone(a: &String) -> (r: String) ensures r@ == a@ { unimplemented!() }

// ================================================================ identifiers as text (fmt / regex: outside Verus)
/// R11: `impl Display for DeltaId` = "{index}-{digest}" (as in unit delta)
pub open spec fn did_str(v: DidV) -> Seq<char> { dec(v.0 as nat) + seq!['-'] + v.1 }
// ASSUMED (fmt): `DeltaId::to_string()` prints did_str (link checked by bounded stand-in `deltaid`)
#[verifier::external_body]
pub fn vx_did_text(d: &DeltaId) -> (s: String) ensures s@ == did_str(d@) { unimplemented!() }
// ASSUMED (derive(Clone)): a cloned DeltaId has the same index and digest text
#[verifier::external_body]
pub fn vx_did_clone(k: &DeltaId) -> (r: DeltaId) ensures r@ == k@ { unimplemented!() }
/// `#[derive(PartialEq)]` on DeltaId = field-wise equality (verified against that reading of the derive)
pub fn vx_did_eq(a: &DeltaId, b: &DeltaId) -> (r: bool) ensures r == (a@ == b@) { a.0 == b.0 && a.1.eq(&b.1) }

/// what `DeltaId::from` (regex DELTA_ID + `parse::<u32>()?`) reads from a text; None = rejected.  Uninterpreted.
pub uninterp spec fn did_parse(s: Seq<char>) -> Option<DidV>;
// ASSUMED (regex): `DeltaId::from` is a function of the text and does not panic (on this tree the index is parsed with `?`)
#[verifier::external_body]
pub fn vx_did_parse(s: &str) -> (r: Result<DeltaId, VxError>)
    ensures match r { Ok(d) => did_parse(s@) == Some(d@), Err(_) => did_parse(s@) is None },
{ unimplemented!() }
/// what `Revision::from` (regexes FULL_REV / FIRST_REV) reads from a text; None = rejected.  Uninterpreted.
pub uninterp spec fn rev_parse(s: Seq<char>) -> Option<RevV>;
// ASSUMED (regex): `Revision::from` is a function of the text and does not panic (on this tree the index is parsed with `?`)
#[verifier::external_body]
pub fn vx_rev_parse(s: &str) -> (r: Result<Revision, VxError>)
    ensures match r { Ok(x) => rev_parse(s@) == Some(x@), Err(_) => rev_parse(s@) is None },
{ unimplemented!() }

pub open spec fn is_word_char(c: char) -> bool {
    ('0' <= c && c <= '9') || ('a' <= c && c <= 'z') || ('A' <= c && c <= 'Z') || c == '_'
}
/// a non-empty text of ASCII letters and digits (what the regex class `\w` minus `_` accepts; every system digest is one)
pub open spec fn is_token(s: Seq<char>) -> bool {
    s.len() > 0 && forall|i: int| 0 <= i < s.len() ==> is_word_char(#[trigger] s[i]) && s[i] != '_'
}
/// identifiers the system itself produces: block ids with a token digest
pub open spec fn did_sys(v: DidV) -> bool { is_token(v.1) }
/// revisions the system itself produces: well-formed (unit rev) with token digest and tail
pub open spec fn rev_sys(v: RevV) -> bool {
    wf(v) && is_token(v.1) && (v.2 matches Some(t) ==> is_token(t))
}
// ASSUMED, EXPLICITLY (print/parse are inverse on system-produced identifiers): the regex DELTA_ID reads "{index}-{digest}"
// back as (index, digest) when the digest is a token.  Checked by the bounded stand-in `deltaid`, not proved.
#[verifier::external_body]
pub proof fn assume_did_print_parse(v: DidV)
    requires did_sys(v),
    ensures did_parse(did_str(v)) == Some(v),
{ }
// ASSUMED, EXPLICITLY (print/parse are inverse on system-produced identifiers): FULL_REV / FIRST_REV read the text of a
// well-formed revision with token digest/tail back as that revision.  Checked by the stand-in `revision`.
#[verifier::external_body]
pub proof fn assume_rev_print_parse(v: RevV)
    requires rev_sys(v),
    ensures rev_parse(rev_str(v)) == Some(v),
{ }

// ================================================================ spec of the property statement: a block as a JSON object
pub type ChangeV = (Seq<char>, RevV, Option<RevV>);
pub open spec fn opt_rev_view(o: Option<Revision>) -> Option<RevV> { match o { Some(r) => Some(r@), None => None } }
/// a change record: (object uuid, new revision, previous revision if the record is an update)
pub open spec fn change_view(c: Change) -> ChangeV { (c.0@, c.1@, opt_rev_view(c.2)) }
pub open spec fn changes_view(cs: Seq<Change>) -> Seq<ChangeV> { cs.map_values(|c: Change| change_view(c)) }
pub open spec fn opt_changes_view(o: Option<Vec<Change>>) -> Seq<ChangeV> {
    match o { Some(cs) => changes_view(cs@), None => Seq::<ChangeV>::empty() }
}
/// creation record `[uuid, digest]`, update record `[uuid, text of the previous revision, digest]`
pub open spec fn record_jv(c: ChangeV) -> JV {
    match c.2 {
        None => JV::Arr(seq![JV::Str(c.0), JV::Str(c.1.1)]),
        Some(p) => JV::Arr(seq![JV::Str(c.0), JV::Str(rev_str(p)), JV::Str(c.1.1)]),
    }
}
pub open spec fn records_jv(cs: Seq<ChangeV>) -> Seq<JV> { cs.map_values(|c: ChangeV| record_jv(c)) }
/// `arr` lists the identifier text of every element of `ps`, each once (`ids`: the enumeration order)
pub open spec fn is_p_enum(ps: Set<DeltaId>, ids: Seq<DeltaId>, arr: Seq<JV>) -> bool {
    &&& ids.len() == arr.len()
    &&& forall|i: int| 0 <= i < ids.len() ==> ps.contains(#[trigger] ids[i])
    &&& forall|i: int| 0 <= i < ids.len() ==> #[trigger] arr[i] == JV::Str(did_str(ids[i]@))
    &&& forall|a: DeltaId| ps.contains(a) ==> exists|i: int| 0 <= i < ids.len() && #[trigger] ids[i] == a
    &&& forall|i: int, j: int| 0 <= i < j < ids.len() ==> ids[i] != ids[j]
}
pub open spec fn p_enum(ps: Set<DeltaId>, arr: Seq<JV>) -> bool { exists|ids: Seq<DeltaId>| is_p_enum(ps, ids, arr) }
/// `arr` lists every pack name of `ks` as a string, each once
pub open spec fn k_enum(ks: Set<Seq<char>>, arr: Seq<JV>) -> bool {
    &&& forall|i: int| 0 <= i < arr.len() ==> (#[trigger] arr[i]) is Str && ks.contains(arr[i]->Str_0)
    &&& forall|k: Seq<char>| ks.contains(k) ==> exists|i: int| 0 <= i < arr.len() && #[trigger] arr[i] == JV::Str(k)
    &&& forall|i: int, j: int| 0 <= i < j < arr.len() ==> arr[i] != arr[j]
}
/// THE PROPERTY (writer side): `o` is the JSON object of block `d` —
/// "c" iff there are change records (one array per record, in order), "i" iff there is an info object (that object),
/// "p" iff there are parents (the identifier text of each, once), "k" iff there are packs (each name, once); no other key
pub open spec fn is_block_json(d: Delta, o: Map<Seq<char>, JV>) -> bool {
    &&& (o.contains_key(CHANGESETS_FIELD@) <==> d.changes is Some)
    &&& (d.changes matches Some(cs) ==> o[CHANGESETS_FIELD@] == JV::Arr(records_jv(changes_view(cs@))))
    &&& (o.contains_key(INFORMATION_FIELD@) <==> d.info is Some)
    &&& (d.info matches Some(m) ==> o[INFORMATION_FIELD@] == JV::Obj(jm(m)))
    &&& (o.contains_key(PARENTS_FIELD@) <==> d.parents is Some)
    &&& (d.parents matches Some(ps) ==> o[PARENTS_FIELD@] is Arr && p_enum(ps@, o[PARENTS_FIELD@]->Arr_0))
    &&& (o.contains_key(PACK_FIELD@) <==> d.packs is Some)
    &&& (d.packs matches Some(ks) ==> o[PACK_FIELD@] is Arr && k_enum(sset(ks), o[PACK_FIELD@]->Arr_0))
    &&& forall|k: Seq<char>| o.contains_key(k) ==> k == CHANGESETS_FIELD@ || k == INFORMATION_FIELD@ || k == PARENTS_FIELD@ || k == PACK_FIELD@
}
/// the four field names are pairwise different one-character texts
pub proof fn lemma_field_names()
    ensures
        CHANGESETS_FIELD@ != INFORMATION_FIELD@, CHANGESETS_FIELD@ != PARENTS_FIELD@, CHANGESETS_FIELD@ != PACK_FIELD@,
        INFORMATION_FIELD@ != PARENTS_FIELD@, INFORMATION_FIELD@ != PACK_FIELD@, PARENTS_FIELD@ != PACK_FIELD@,
{
    reveal_strlit("c"); reveal_strlit("i"); reveal_strlit("p"); reveal_strlit("k");
    assert(CHANGESETS_FIELD@[0] == 'c' && INFORMATION_FIELD@[0] == 'i' && PARENTS_FIELD@[0] == 'p' && PACK_FIELD@[0] == 'k');
}
/// a JSON array of strings with the texts of record `c` is the record's array
pub proof fn lemma_record_jv(v: JV, c: Change)
    requires
        v is Arr,
        match c.2 {
            Some(p) => v->Arr_0.len() == 3 && v->Arr_0[0] == JV::Str(c.0@) && v->Arr_0[1] == JV::Str(rev_str(p@)) && v->Arr_0[2] == JV::Str(c.1@.1),
            None => v->Arr_0.len() == 2 && v->Arr_0[0] == JV::Str(c.0@) && v->Arr_0[1] == JV::Str(c.1@.1),
        },
    ensures v == record_jv(change_view(c)),
{
    match c.2 {
        Some(p) => { assert(v->Arr_0 =~= seq![JV::Str(c.0@), JV::Str(rev_str(p@)), JV::Str(c.1@.1)]); }
        None => { assert(v->Arr_0 =~= seq![JV::Str(c.0@), JV::Str(c.1@.1)]); }
    }
}

// ================================================================ spec of the property statement: reading a block back
/// the elements of the array stored under key k (None when the key is absent or its value is not an array)
pub open spec fn arr_of(raw: Map<Seq<char>, JV>, k: Seq<char>) -> Option<Seq<JV>> {
    if raw.contains_key(k) && raw[k] is Arr { Some(raw[k]->Arr_0) } else { None }
}
/// a "p" entry read as a block identifier
pub open spec fn p_entry(e: JV) -> Option<DidV> { match e { JV::Str(s) => did_parse(s), _ => None } }
/// v is the parsed form of one of the first n entries
pub open spec fn p_upto(a: Seq<JV>, n: int, v: DidV) -> bool { exists|i: int| 0 <= i < n && p_entry(#[trigger] a[i]) == Some(v) }
/// v is the parsed form of one of the "p" entries of the object
pub open spec fn p_has(raw: Map<Seq<char>, JV>, v: DidV) -> bool {
    arr_of(raw, PARENTS_FIELD@) matches Some(a) && p_upto(a, a.len() as int, v)
}
pub open spec fn has_view(s: Set<DeltaId>, v: DidV) -> bool { exists|a: DeltaId| s.contains(a) && a@ == v }
pub open spec fn opt_has_view(o: Option<BTreeSet<DeltaId>>, v: DidV) -> bool { match o { Some(ps) => has_view(ps@, v), None => false } }
/// IDENTIFIER CONSISTENCY: index 1 when there is no parent, otherwise one more than the greatest parent index
pub open spec fn index_rule(b_index: u32, is_parent: spec_fn(DidV) -> bool) -> bool {
    &&& forall|v: DidV| #[trigger] is_parent(v) ==> v.0 < b_index
    &&& (forall|v: DidV| !#[trigger] is_parent(v)) ==> b_index == 1
    &&& (exists|v: DidV| #[trigger] is_parent(v)) ==> exists|v: DidV| #[trigger] is_parent(v) && v.0 + 1 == b_index
}
pub open spec fn index_consistent(b: DidV, parents: Option<BTreeSet<DeltaId>>) -> bool {
    match parents {
        None => b.0 == 1,                                              // origin block
        Some(ps) => index_rule(b.0, |v: DidV| has_view(ps@, v)),       // 1 + max parent index
    }
}
pub open spec fn idx_ok(raw: Map<Seq<char>, JV>, b: DidV) -> bool { index_rule(b.0, |v: DidV| p_has(raw, v)) }
/// the "i" object
pub open spec fn i_obj(raw: Map<Seq<char>, JV>) -> Option<Map<Seq<char>, JV>> {
    if raw.contains_key(INFORMATION_FIELD@) && raw[INFORMATION_FIELD@] is Obj { Some(raw[INFORMATION_FIELD@]->Obj_0) } else { None }
}
pub open spec fn opt_jm(o: Option<JMap>) -> Option<Map<Seq<char>, JV>> { match o { Some(m) => Some(jm(m)), None => None } }
/// s is one of the first n pack names
pub open spec fn k_upto(a: Seq<JV>, n: int, s: Seq<char>) -> bool { exists|i: int| 0 <= i < n && #[trigger] a[i] == JV::Str(s) }
pub open spec fn k_has(raw: Map<Seq<char>, JV>, s: Seq<char>) -> bool {
    arr_of(raw, PACK_FIELD@) matches Some(a) && k_upto(a, a.len() as int, s)
}
pub open spec fn opt_sset_has(o: Option<BTreeSet<String>>, s: Seq<char>) -> bool { match o { Some(ks) => sset(ks).contains(s), None => false } }
/// a change record read back: 2 elements = creation `(uuid, Revision::new(1, digest, None), None)`,
/// 3 elements = update `(uuid, Revision::new(prev.index + 1, digest, Some(prev)), Some(prev))`, prev parsed from the 2nd element
pub open spec fn decode_rec(r: Seq<JV>) -> ChangeV {
    if r.len() == 2 { (r[0]->Str_0, child_of(1, r[1]->Str_0, None), None) }
    else {
        let p = rev_parse(r[1]->Str_0)->Some_0;
        (r[0]->Str_0, child_of((p.0 + 1) as u32, r[2]->Str_0, Some(p)), Some(p))
    }
}
/// the records among the first n elements of the "c" array, in order (elements that are not arrays are skipped)
pub open spec fn decode_changes(a: Seq<JV>, n: int) -> Seq<ChangeV>
    decreases n
{
    if n <= 0 { Seq::<ChangeV>::empty() }
    else {
        let pre = decode_changes(a, n - 1);
        match a[n - 1] { JV::Arr(r) => pre.push(decode_rec(r)), _ => pre }
    }
}
pub open spec fn c_decoded(raw: Map<Seq<char>, JV>) -> Seq<ChangeV> {
    match arr_of(raw, CHANGESETS_FIELD@) { Some(a) => decode_changes(a, a.len() as int), None => Seq::<ChangeV>::empty() }
}
/// THE PROPERTY (reader side): `d` is what block object `raw` named `b` reads back as
pub open spec fn loaded(b: DidV, raw: Map<Seq<char>, JV>, d: Delta) -> bool {
    &&& d.id matches Some(x) && x@ == b
    // parents = the set of parsed "p" entries, None if there is none
    &&& forall|v: DidV| #[trigger] opt_has_view(d.parents, v) <==> p_has(raw, v)
    &&& (d.parents matches Some(ps) ==> exists|a: DeltaId| ps@.contains(a))
    // identifier consistency, for origin blocks and for blocks with parents
    &&& index_consistent(b, d.parents)
    &&& (d.parents is None ==> b.0 == 1)
    &&& opt_jm(d.info) == i_obj(raw)
    // packs = the "k" names, None if absent or empty
    &&& forall|s: Seq<char>| #[trigger] opt_sset_has(d.packs, s) <==> k_has(raw, s)
    &&& (d.packs is Some <==> (arr_of(raw, PACK_FIELD@) matches Some(a) && a.len() > 0))
    // change records in order, None if there is none
    &&& opt_changes_view(d.changes) == c_decoded(raw)
    &&& (d.changes matches Some(cs) ==> cs@.len() > 0)
    &&& d.status is Pending
}
/// what `load_raw_delta` REQUIRES of the object (a violation makes the real code overflow a u32 `+ 1` — finding F3):
/// parsed parent indices and the indices of parsed previous revisions are below u32::MAX
pub open spec fn rec_bounded(e: JV) -> bool {
    match e {
        JV::Arr(r) => r.len() == 3 ==> match r[1] {
            JV::Str(s) => match rev_parse(s) { Some(p) => p.0 < u32::MAX, None => true },
            _ => true,
        },
        _ => true,
    }
}
pub open spec fn inputs_bounded(raw: Map<Seq<char>, JV>) -> bool {
    &&& forall|v: DidV| #[trigger] p_has(raw, v) ==> v.0 < u32::MAX
    &&& (arr_of(raw, CHANGESETS_FIELD@) matches Some(a) ==> forall|i: int| 0 <= i < a.len() ==> rec_bounded(#[trigger] a[i]))
}
/// a syntactically acceptable record: 2 strings, or 3 strings the second of which parses as a revision
pub open spec fn rec_ok(e: JV) -> bool {
    e matches JV::Arr(r) ==> (r.len() == 2 && r[0] is Str && r[1] is Str)
        || (r.len() == 3 && r[0] is Str && r[1] is Str && r[2] is Str && rev_parse(r[1]->Str_0) is Some)
}
/// COMPLETENESS: the objects `load_raw_delta` must accept (it may fail ONLY when this is false)
pub open spec fn loadable(raw: Map<Seq<char>, JV>, b: DidV) -> bool {
    &&& (raw.contains_key(INFORMATION_FIELD@) ==> raw[INFORMATION_FIELD@] is Obj)
    &&& (raw.contains_key(PARENTS_FIELD@) ==> raw[PARENTS_FIELD@] is Arr
            && forall|i: int| 0 <= i < raw[PARENTS_FIELD@]->Arr_0.len() ==> p_entry(#[trigger] raw[PARENTS_FIELD@]->Arr_0[i]) is Some)
    &&& idx_ok(raw, b)
    &&& (raw.contains_key(PACK_FIELD@) ==> raw[PACK_FIELD@] is Arr
            && forall|i: int| 0 <= i < raw[PACK_FIELD@]->Arr_0.len() ==> (#[trigger] raw[PACK_FIELD@]->Arr_0[i]) is Str)
    &&& (arr_of(raw, CHANGESETS_FIELD@) matches Some(a) ==> forall|i: int| 0 <= i < a.len() ==> rec_ok(#[trigger] a[i]))
}

pub proof fn lemma_p_step(a: Seq<JV>, n: int, v: DidV)
    requires 0 <= n < a.len(),
    ensures p_upto(a, n + 1, v) <==> (p_upto(a, n, v) || p_entry(a[n]) == Some(v)),
{
    if p_upto(a, n + 1, v) { let i = choose|i: int| 0 <= i < n + 1 && p_entry(#[trigger] a[i]) == Some(v); if i < n { assert(p_entry(a[i]) == Some(v)); } }
    if p_upto(a, n, v) { let i = choose|i: int| 0 <= i < n && p_entry(#[trigger] a[i]) == Some(v); assert(0 <= i < n + 1 && p_entry(a[i]) == Some(v)); }
    if p_entry(a[n]) == Some(v) { assert(0 <= n < n + 1 && p_entry(a[n]) == Some(v)); }
}
pub proof fn lemma_k_step(a: Seq<JV>, n: int, s: Seq<char>)
    requires 0 <= n < a.len(),
    ensures k_upto(a, n + 1, s) <==> (k_upto(a, n, s) || a[n] == JV::Str(s)),
{
    if k_upto(a, n + 1, s) { let i = choose|i: int| 0 <= i < n + 1 && #[trigger] a[i] == JV::Str(s); if i < n { assert(a[i] == JV::Str(s)); } }
    if k_upto(a, n, s) { let i = choose|i: int| 0 <= i < n && #[trigger] a[i] == JV::Str(s); assert(0 <= i < n + 1 && a[i] == JV::Str(s)); }
    if a[n] == JV::Str(s) { assert(0 <= n < n + 1 && a[n] == JV::Str(s)); }
}
pub proof fn lemma_has_view_insert(s: Set<DeltaId>, d: DeltaId, v: DidV)
    ensures has_view(s.insert(d), v) <==> (has_view(s, v) || d@ == v),
{
    if has_view(s.insert(d), v) { let a = choose|a: DeltaId| s.insert(d).contains(a) && a@ == v; if a != d { assert(s.contains(a) && a@ == v); } }
    if has_view(s, v) { let a = choose|a: DeltaId| s.contains(a) && a@ == v; assert(s.insert(d).contains(a) && a@ == v); }
    if d@ == v { assert(s.insert(d).contains(d) && d@ == v); }
}
/// what `DeltaId::new_from_anchors` guarantees is the index rule over the parents' views
pub proof fn lemma_expected_index(ps: Set<DeltaId>, e: u32)
    requires
        forall|a: DeltaId| ps.contains(a) ==> a.0 < e,
        exists|a: DeltaId| ps.contains(a) && a.0 + 1 == e,
    ensures index_rule(e, |v: DidV| has_view(ps, v)),
{
    let f = |v: DidV| has_view(ps, v);
    assert forall|v: DidV| #[trigger] f(v) implies v.0 < e by { let a = choose|a: DeltaId| ps.contains(a) && a@ == v; }
    let a = choose|a: DeltaId| ps.contains(a) && a.0 + 1 == e;
    assert(has_view(ps, a@));
    assert(f(a@) && a@.0 + 1 == e);
}
/// the index rule determines the index
pub proof fn lemma_index_rule_unique(e1: u32, e2: u32, f: spec_fn(DidV) -> bool)
    requires index_rule(e1, f), index_rule(e2, f),
    ensures e1 == e2,
{
    if exists|v: DidV| #[trigger] f(v) {
        let v1 = choose|v: DidV| #[trigger] f(v) && v.0 + 1 == e1;
        let v2 = choose|v: DidV| #[trigger] f(v) && v.0 + 1 == e2;
        assert(v1.0 < e2 && v2.0 < e1);
    }
}
pub proof fn lemma_index_rule_ext(e: u32, f: spec_fn(DidV) -> bool, g: spec_fn(DidV) -> bool)
    requires index_rule(e, f), forall|v: DidV| #![trigger f(v)] #![trigger g(v)] f(v) <==> g(v),
    ensures index_rule(e, g),
{
    assert(f =~= g);
}
/// `t` is the JSON text of (one of the enumeration orders of) block `d`'s object
pub open spec fn is_block_text(d: Delta, t: Seq<char>) -> bool {
    exists|o: Map<Seq<char>, JV>| #[trigger] is_block_json(d, o) && t == json_text(JV::Obj(o))
}

// ================================================================ write-then-read (C03/C13 completeness: the defect class of D2)
/// a change record as the system builds it: a creation record names a first revision, an update record names the child
/// (index + 1) of a system-produced previous revision
pub open spec fn wf_change(c: ChangeV) -> bool {
    match c.2 {
        None => c.1 == child_of(1, c.1.1, None),
        Some(p) => rev_sys(p) && p.0 < u32::MAX && c.1 == child_of((p.0 + 1) as u32, c.1.1, Some(p)),
    }
}
/// a block as the system builds it: ANY mix of creation and update records, WITH OR WITHOUT parents
pub open spec fn wf_delta(d: Delta) -> bool {
    &&& (d.parents matches Some(ps) ==> forall|a: DeltaId| ps@.contains(a) ==> did_sys(a@) && a.0 < u32::MAX)
    &&& (d.changes matches Some(cs) ==> forall|i: int| 0 <= i < cs@.len() ==> wf_change(change_view(#[trigger] cs@[i])))
}
/// `d` carries the same parents, info, packs and change records as `d0` (empty collections read back as absent)
pub open spec fn same_block(d0: Delta, d: Delta) -> bool {
    &&& forall|v: DidV| #[trigger] opt_has_view(d.parents, v) <==> opt_has_view(d0.parents, v)
    &&& opt_jm(d.info) == opt_jm(d0.info)
    &&& forall|s: Seq<char>| #[trigger] opt_sset_has(d.packs, s) <==> opt_sset_has(d0.packs, s)
    &&& opt_changes_view(d.changes) == opt_changes_view(d0.changes)
}
pub proof fn lemma_decode_record(c: ChangeV)
    requires wf_change(c),
    ensures record_jv(c) is Arr, decode_rec(record_jv(c)->Arr_0) == c, rec_ok(record_jv(c)), rec_bounded(record_jv(c)),
{
    let r = record_jv(c)->Arr_0;
    match c.2 {
        None => { assert(r.len() == 2 && r[0] == JV::Str(c.0) && r[1] == JV::Str(c.1.1)); }
        Some(p) => {
            assume_rev_print_parse(p);
            assert(r.len() == 3 && r[0] == JV::Str(c.0) && r[1] == JV::Str(rev_str(p)) && r[2] == JV::Str(c.1.1));
        }
    }
}
pub proof fn lemma_decode_all(cs: Seq<ChangeV>, n: int)
    requires 0 <= n <= cs.len(), forall|i: int| 0 <= i < cs.len() ==> wf_change(#[trigger] cs[i]),
    ensures decode_changes(records_jv(cs), n) == cs.subrange(0, n),
    decreases n
{
    if n > 0 {
        lemma_decode_all(cs, n - 1);
        lemma_decode_record(cs[n - 1]);
        assert(records_jv(cs)[n - 1] == record_jv(cs[n - 1]));
        assert(cs.subrange(0, n) =~= cs.subrange(0, n - 1).push(cs[n - 1]));
    } else {
        assert(cs.subrange(0, 0) =~= Seq::<ChangeV>::empty());
    }
}
pub proof fn lemma_parents_read_back(ps: Set<DeltaId>, arr: Seq<JV>)
    requires p_enum(ps, arr), forall|a: DeltaId| ps.contains(a) ==> did_sys(a@),
    ensures
        forall|i: int| 0 <= i < arr.len() ==> p_entry(#[trigger] arr[i]) is Some,
        forall|v: DidV| #[trigger] p_upto(arr, arr.len() as int, v) <==> has_view(ps, v),
{
    let ids = choose|ids: Seq<DeltaId>| is_p_enum(ps, ids, arr);
    assert forall|i: int| 0 <= i < arr.len() implies p_entry(#[trigger] arr[i]) == Some(ids[i]@) by {
        assert(ps.contains(ids[i]));
        assume_did_print_parse(ids[i]@);
    }
    assert forall|v: DidV| #[trigger] p_upto(arr, arr.len() as int, v) <==> has_view(ps, v) by {
        if p_upto(arr, arr.len() as int, v) {
            let i = choose|i: int| 0 <= i < arr.len() && p_entry(#[trigger] arr[i]) == Some(v);
            assert(ps.contains(ids[i]) && ids[i]@ == v);
        }
        if has_view(ps, v) {
            let a = choose|a: DeltaId| ps.contains(a) && a@ == v;
            let i = choose|i: int| 0 <= i < ids.len() && #[trigger] ids[i] == a;
            assert(p_entry(arr[i]) == Some(v));
        }
    }
}
pub proof fn lemma_packs_read_back(ks: Set<Seq<char>>, arr: Seq<JV>)
    requires k_enum(ks, arr),
    ensures forall|s: Seq<char>| #[trigger] k_upto(arr, arr.len() as int, s) <==> ks.contains(s),
{
    assert forall|s: Seq<char>| #[trigger] k_upto(arr, arr.len() as int, s) <==> ks.contains(s) by {
        if k_upto(arr, arr.len() as int, s) { let i = choose|i: int| 0 <= i < arr.len() && #[trigger] arr[i] == JV::Str(s); assert(ks.contains(arr[i]->Str_0)); }
        if ks.contains(s) { let i = choose|i: int| 0 <= i < arr.len() && #[trigger] arr[i] == JV::Str(s); assert(arr[i] == JV::Str(s)); }
    }
}
/// COMPLETENESS of the block reader on the writer's output (stated over the two contracts, under the EXPLICIT print/parse
/// assumptions `assume_did_print_parse` / `assume_rev_print_parse`): if `raw` is the object `to_json` builds for a
/// well-formed block `d0` — any mix of creation and update records, with or without parents — and the identifier `b` is
/// consistent with `d0.parents`, then `load_raw_delta`'s precondition holds, it cannot fail (`loadable`, so its `Err` clause
/// is excluded), and every result it can return carries the same parents, info, packs and change records.
pub proof fn lemma_block_roundtrip(d0: Delta, raw: Map<Seq<char>, JV>, b: DidV, d: Delta)
    requires
        wf_delta(d0),
        is_block_json(d0, raw),
        index_consistent(b, d0.parents),
    ensures
        inputs_bounded(raw),
        loadable(raw, b),
        loaded(b, raw, d) ==> same_block(d0, d),
{
    lemma_field_names();
    // parents
    let g = |v: DidV| p_has(raw, v);
    match d0.parents {
        Some(ps) => {
            let arr = raw[PARENTS_FIELD@]->Arr_0;
            lemma_parents_read_back(ps@, arr);
            assert(arr_of(raw, PARENTS_FIELD@) == Some(arr));
            assert forall|v: DidV| #![trigger p_has(raw, v)] #![trigger has_view(ps@, v)] p_has(raw, v) <==> has_view(ps@, v) by { }
            assert forall|v: DidV| #[trigger] p_has(raw, v) implies v.0 < u32::MAX by {
                let a = choose|a: DeltaId| ps@.contains(a) && a@ == v;
            }
            lemma_index_rule_ext(b.0, |v: DidV| has_view(ps@, v), g);
        }
        None => {
            assert(arr_of(raw, PARENTS_FIELD@) is None);
            assert forall|v: DidV| !#[trigger] g(v) by { }
        }
    }
    assert(idx_ok(raw, b));
    // packs
    if let Some(ks) = d0.packs {
        let arr = raw[PACK_FIELD@]->Arr_0;
        lemma_packs_read_back(sset(ks), arr);
        assert(arr_of(raw, PACK_FIELD@) == Some(arr));
    } else {
        assert(arr_of(raw, PACK_FIELD@) is None);
    }
    // change records
    if let Some(cs) = d0.changes {
        let cvs = changes_view(cs@);
        let arr = records_jv(cvs);
        assert(arr_of(raw, CHANGESETS_FIELD@) == Some(arr));
        assert forall|i: int| 0 <= i < cvs.len() implies wf_change(#[trigger] cvs[i]) by { assert(cvs[i] == change_view(cs@[i])); }
        assert forall|i: int| 0 <= i < arr.len() implies rec_ok(#[trigger] arr[i]) && rec_bounded(arr[i]) by { lemma_decode_record(cvs[i]); }
        lemma_decode_all(cvs, cvs.len() as int);
        assert(cvs.subrange(0, cvs.len() as int) =~= cvs);
        assert(c_decoded(raw) == cvs);
    } else {
        assert(arr_of(raw, CHANGESETS_FIELD@) is None);
    }
}
/// the two contracts compose (verified exec witness): writing a well-formed block and reading it back under a consistent
/// identifier succeeds and yields the same block
pub fn block_roundtrip(m: &Melda, d0: &Delta, b_id: &DeltaId) -> (ret: Result<Delta, VxError>)
    requires did_models(), wf_delta(*d0), index_consistent(b_id@, d0.parents),
    ensures ret matches Ok(d) && same_block(*d0, d) && (d.id matches Some(x) && x@ == b_id@),
{
    let raw = d0.to_json();
    let ghost o = jm(raw);
    proof { lemma_block_roundtrip(*d0, o, b_id@, *d0); }
    let r = m.load_raw_delta(b_id, raw);
    proof { if r is Ok { lemma_block_roundtrip(*d0, o, b_id@, r->Ok_0); } }
    r
}
