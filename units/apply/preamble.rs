// ---- unit `apply`: Melda::apply_delta (src/melda.rs) — every change record of a ready block reaches its object's tree (C01) ----
/// R6: `RwLock<BTreeMap<String, Mutex<RevisionTree>>>` -> `BTreeMap<String, RevisionTree>`; `&self` -> `&mut self` (the body writes)
pub struct Melda { pub documents: BTreeMap<String, RevisionTree> }
/// mirror of `struct Change(String, Revision, Option<Revision>)`
pub struct Change(pub String, pub Revision, pub Option<Revision>);
/// mirror of `struct Delta` restricted to the field used
pub struct Delta { pub changes: Option<Vec<Change>> }
#[verifier::external_body]
pub struct VxError { e: () }

pub uninterp spec fn dmap(m: BTreeMap<String, RevisionTree>) -> Map<Seq<char>, RevisionTree>;
pub open spec fn is_new_tree(t: RevisionTree) -> bool {
    t.revisions@ == Map::<Revision, RevisionTreeEntry>::empty() && !t.staging
}
/// `docs.entry(k).or_insert_with(|| Mutex::new(RevisionTree::new())).get_mut().expect(..)`:
/// the tree stored under k, a fresh empty tree being stored first when there is none (assumed of std BTreeMap::entry)
#[verifier::external_body]
pub fn vx_docs_entry<'a>(m: &'a mut BTreeMap<String, RevisionTree>, k: String) -> (r: &'a mut RevisionTree)
    ensures
        dmap(*old(m)).contains_key(k@) ==> *r == dmap(*old(m))[k@],
        !dmap(*old(m)).contains_key(k@) ==> is_new_tree(*r),
        dmap(*final(m)) == dmap(*old(m)).insert(k@, *final(r)),
{ unimplemented!() }
#[verifier::external_body]
pub fn vx_opt_rev_clone(r: &Option<Revision>) -> (c: Option<Revision>) ensures c == *r { unimplemented!() }
pub fn vx_at<'a, T>(m: &'a [T], i: usize) -> (t: &'a T)
    requires i < m.len(),
    ensures *t == m@[i as int],
{ &m[i] }

/// the recorded revisions of object `uuid` (empty when the object is unknown)
pub open spec fn tree_of(docs: Map<Seq<char>, RevisionTree>, uuid: Seq<char>) -> RevMap {
    if docs.contains_key(uuid) { docs[uuid].revisions@ } else { Map::<Revision, RevisionTreeEntry>::empty() }
}
/// folding the first k change records of a block into the tree of `uuid`: each record of that object is recorded
/// (first record of a revision wins, committed i.e. not staged), records of other objects are ignored
pub open spec fn applied_upto(m0: RevMap, cs: Seq<Change>, uuid: Seq<char>, k: int) -> RevMap
    decreases k
{
    if k <= 0 { m0 }
    else {
        let prev = applied_upto(m0, cs, uuid, k - 1);
        if cs[k - 1].0@ == uuid { record(prev, cs[k - 1].1, RevisionTreeEntry { parent: cs[k - 1].2, staging: false }) } else { prev }
    }
}

#[verifier::external_body]
pub fn vx_str_clone(a: &String) -> (r: String) ensures r@ == a@ { unimplemented!() }
