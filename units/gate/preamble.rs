// ---- unit `gate`: Melda::check_delta / Melda::mark_valid_deltas (src/melda.rs) — the block gate (C02):
// "A delta block influences a replica's visible state only if the block itself, every ancestor block, and every data pack
//  and object it refers to are present and pass their hash checks; otherwise it is held back together with all of its
//  descendants."
//
// Included unit: `pack` (DataStorage mirror, Revision as seen from datastorage.rs, `try_load_pack`,
// `is_readable_and_valid_revision` and everything they call — all RE-VERIFIED from the real code in this file).
// Proved FROM THE REAL CODE here: Melda::check_delta, Melda::mark_valid_deltas.
//
// Modelling (lock erasure, single-threaded semantics; blocking, poisoning and dead-lock are outside):
//   `deltas: RwLock<BTreeMap<DeltaId, RwLock<Delta>>>` -> `DeltaMap`, an opaque map-of-entries whose abstract value is
//   `Map<DidV, DeltaV>` (keyed by identifier CONTENT).  An entry reference `&RwLock<Delta>` (interior mutability: the entry
//   may change while the reference is held, and check_delta re-enters the map recursively) cannot be a `&Delta` value:
//   it is a HANDLE = the key of the entry; reads / writes through a guard of the entry are keyed accesses (`vx_deltas_*`).
//   `data: RwLock<DataStorage>` -> `DataStorage` (mirror of unit `pack`); the read guard `data` is the field `self.data`.
//   `&self` -> `&mut self` because the body writes through the entry locks.
// ASSUMED (every `#[verifier::external_body]` item below): the keyed accessors of the map of locks, the enumeration of the
//   map's keys, and nothing else.  The status write `vx_deltas_set_status` is a VERIFIED wrapper of the raw write.
// TERMINATION: check_delta recurses on the parents of a block and marks nothing "in progress"; it terminates because the
//   parent relation descends along `rank` = the block index (first component of the identifier): `ranked(S)` is the
//   load-time index rule (`load_raw_delta` accepts a block only if its identifier equals
//   `DeltaId::new_from_anchors(digest, parents)`, whose proved contract — unit `delta` — is "the index exceeds every
//   parent's").  The proofs never look inside `rank`: with `pub uninterp spec fn rank` (hash-acyclicity reading: a block's
//   identifier contains the SHA-256 of bytes that contain its parents' identifiers) they go through unchanged.

// ================================================================ mirrors
/// mirror of `struct DeltaId(u32, String)` (field list checked against /repo)
pub struct DeltaId(pub u32, pub String);
pub type DidV = (u32, Seq<char>);
impl View for DeltaId {
    type V = DidV;
    open spec fn view(&self) -> DidV { (self.0, self.1@) }
}
/// mirror of `enum Status` (`#[derive(PartialEq, Copy, Clone, Debug)]`): `==` / `!=` are variant equality
#[derive(PartialEq, Eq, Clone, Copy, Structural)]
pub enum Status { Pending, Ready, Applied, Blocked }
/// mirror of `struct Change(String, Revision, Option<Revision>)` (field list checked against /repo)
pub struct Change(pub String, pub Revision, pub Option<Revision>);
pub type ChangeV = (Seq<char>, Revision, Option<Revision>);
impl View for Change {
    type V = ChangeV;
    open spec fn view(&self) -> ChangeV { (self.0@, self.1, self.2) }
}
/// abstract value of one entry of the block map: `struct Delta` restricted to what the gate reads
/// (`parents: Option<BTreeSet<DeltaId>>`, `packs: Option<BTreeSet<String>>`, `changes: Option<Vec<Change>>`, `status`)
pub ghost struct DeltaV {
    pub status: Status,
    pub parents: Option<Set<DidV>>,
    pub packs: Option<Set<Seq<char>>>,
    pub changes: Option<Seq<ChangeV>>,
}
pub type DMap = Map<DidV, DeltaV>;
/// lock erasure of `RwLock<BTreeMap<DeltaId, RwLock<Delta>>>`
#[verifier::external_body]
pub struct DeltaMap { m: () }
impl View for DeltaMap {
    type V = DMap;
    uninterp spec fn view(&self) -> DMap;
}
/// lock erasure of `RwLock<BTreeMap<String, Mutex<RevisionTree>>>` (the revision trees): never touched by the gate, opaque here
/// (unit `refreshm` gives it an abstract value)
#[verifier::external_body]
pub struct DocMap { m: () }
/// mirror of `struct Melda` restricted to the fields the gate and `refresh` / `reload` use (full field list checked against /repo)
pub struct Melda {
    pub documents: DocMap,
    pub data: DataStorage,
    pub deltas: DeltaMap,
}
pub open spec fn with_status(d: DeltaV, s: Status) -> DeltaV {
    DeltaV { status: s, parents: d.parents, packs: d.packs, changes: d.changes }
}

// ================================================================ the property (C02), written from its statement
/// a block that influences (Applied) or is cleared to influence (Ready) the visible state
pub open spec fn live(s: Status) -> bool { s is Ready || s is Applied }
pub open spec fn live_in(m: DMap, p: DidV) -> bool { m.contains_key(p) && live(m[p].status) }
/// every listed parent is present and live
pub open spec fn parents_live(m: DMap, ps: Option<Set<DidV>>) -> bool {
    match ps { Some(s) => forall|p: DidV| #[trigger] s.contains(p) ==> live_in(m, p), None => true }
}
/// "pack p is present and passes its hash check" — exactly what `try_load_pack` guarantees when it answers Ok (unit `pack`)
pub open spec fn pack_present(ds: DataStorage, p: Seq<char>) -> bool {
    ds.adapter.store().contains_key(pkey(p)) && sha_hex(ds.adapter.store()[pkey(p)]) == p
}
pub open spec fn packs_present(ds: DataStorage, ps: Option<Set<Seq<char>>>) -> bool {
    match ps { Some(s) => forall|p: Seq<char>| #[trigger] s.contains(p) ==> pack_present(ds, p), None => true }
}
/// "the object of revision r is available" — exactly what `is_readable_and_valid_revision` guarantees when it answers true
/// (unit `pack`): r needs no object, or its object is indexed, staged, or was read under its digest
pub open spec fn rev_readable(ds: DataStorage, r: Revision) -> bool {
    r.special() || smap(ds.committed_objects).contains_key(r.rdigest()) || smap(ds.stage).contains_key(r.rdigest())
        || ds.cache.cview().contains_key(r.rdigest())
}
pub open spec fn change_ok(ds: DataStorage, c: ChangeV) -> bool {
    rev_readable(ds, c.1) && match c.2 { Some(pr) => rev_readable(ds, pr), None => true }
}
pub open spec fn changes_readable(ds: DataStorage, cs: Option<Seq<ChangeV>>) -> bool {
    match cs { Some(s) => forall|i: int| 0 <= i < s.len() ==> change_ok(ds, #[trigger] s[i]), None => true }
}
/// the gate: every parent of id is a block of the map that is Ready or Applied, every listed pack is present and hash-checked,
/// every change's revision and (if any) previous revision is readable
pub open spec fn gate_ok(m: DMap, ds: DataStorage, id: DidV) -> bool {
    &&& m.contains_key(id)
    &&& parents_live(m, m[id].parents)
    &&& packs_present(ds, m[id].packs)
    &&& changes_readable(ds, m[id].changes)
}
/// ancestor closure: every live block has only live parents (hence, by induction, only live ancestors) —
/// "held back together with all of its descendants"
pub open spec fn closed(m: DMap) -> bool {
    forall|id: DidV| #[trigger] m.contains_key(id) && live(m[id].status) ==> parents_live(m, m[id].parents)
}
/// same blocks, same contents, and a decision once taken (status other than Pending) stands
pub open spec fn frozen(a: DMap, b: DMap) -> bool {
    &&& forall|k: DidV| #[trigger] a.contains_key(k) ==> b.contains_key(k)
    &&& forall|k: DidV| #[trigger] b.contains_key(k) ==> a.contains_key(k)
    &&& forall|k: DidV| #[trigger] a.contains_key(k) ==> b[k].parents == a[k].parents && b[k].packs == a[k].packs && b[k].changes == a[k].changes
            && (!(a[k].status is Pending) ==> b[k].status == a[k].status)
}
/// the only status changes are decisions: Pending -> Ready or Pending -> Blocked
pub open spec fn decides_only(a: DMap, b: DMap) -> bool {
    forall|k: DidV| #[trigger] a.contains_key(k) ==> b[k].status == a[k].status
        || (a[k].status is Pending && (b[k].status is Ready || b[k].status is Blocked))
}
/// every block cleared by this step passed the gate (in the state and over the storage the step ends in)
pub open spec fn newly_gated(a: DMap, b: DMap, ds: DataStorage) -> bool {
    forall|k: DidV| #[trigger] b.contains_key(k) && a[k].status is Pending && b[k].status is Ready ==> gate_ok(b, ds, k)
}
pub open spec fn none_pending(m: DMap) -> bool {
    forall|k: DidV| #[trigger] m.contains_key(k) ==> !(m[k].status is Pending)
}
/// termination measure of the recursion over parents: the block index (see the header)
pub open spec fn rank(id: DidV) -> nat { id.0 as nat }
pub open spec fn below(ps: Option<Set<DidV>>, n: nat) -> bool {
    match ps { Some(s) => forall|p: DidV| #[trigger] s.contains(p) ==> rank(p) < n, None => true }
}
/// the load-time index rule: every parent named by a block of the map has a smaller rank than the block
pub open spec fn ranked(m: DMap) -> bool {
    forall|id: DidV| #[trigger] m.contains_key(id) ==> below(m[id].parents, rank(id))
}
/// frame of one call: only blocks of rank <= n were decided
pub open spec fn touched_upto(a: DMap, b: DMap, n: nat) -> bool {
    forall|k: DidV| #[trigger] a.contains_key(k) && b[k].status != a[k].status ==> rank(k) <= n
}
/// preconditions of unit `pack`'s `is_readable_and_valid_revision` for every revision named by a block of the map
/// (`cache_inv`: an object is cached only under its own digest; `objects_only`: what storage returns for these digests are
/// JSON objects — `read_object` panics otherwise, and panics are not outcomes of the contract)
pub open spec fn revs_safe(ds: DataStorage, cs: Option<Seq<ChangeV>>) -> bool {
    match cs {
        Some(s) => forall|i: int| 0 <= i < s.len() ==> objects_only(ds, (#[trigger] s[i]).1.rdigest())
            && (match s[i].2 { Some(pr) => objects_only(ds, pr.rdigest()), None => true }),
        None => true,
    }
}
pub open spec fn data_safe(ds: DataStorage, m: DMap) -> bool {
    &&& cache_inv(ds)
    &&& forall|id: DidV| #[trigger] m.contains_key(id) ==> revs_safe(ds, m[id].changes)
}
/// the converse side, as far as unit `pack`'s contracts reach: `is_readable_and_valid_revision` is only GUARANTEED to answer
/// true for a revision that needs no object or whose object is indexed; `try_load_pack` may fail for any reason
/// (its `Err` arm promises nothing: the adapter read may fail).  A block whose parents are live, that lists no pack and
/// whose revisions are all "surely readable" is never Blocked.
pub open spec fn rev_indexed(ds: DataStorage, r: Revision) -> bool {
    r.special() || smap(ds.committed_objects).contains_key(r.rdigest())
}
pub open spec fn change_sure(ds: DataStorage, c: ChangeV) -> bool {
    rev_indexed(ds, c.1) && match c.2 { Some(pr) => rev_indexed(ds, pr), None => true }
}
pub open spec fn changes_sure(ds: DataStorage, cs: Option<Seq<ChangeV>>) -> bool {
    match cs { Some(s) => forall|i: int| 0 <= i < s.len() ==> change_sure(ds, #[trigger] s[i]), None => true }
}
pub open spec fn no_packs(ps: Option<Set<Seq<char>>>) -> bool {
    match ps { Some(s) => forall|p: Seq<char>| !(#[trigger] s.contains(p)), None => true }
}
/// the reasons a block is held back, in a form that is STABLE while decisions stand: a listed parent is unknown or itself
/// Blocked, or a pack is listed (its load may fail), or a revision is not surely readable.  `stuck` implies `!gate_sure`.
pub open spec fn dead_in(m: DMap, p: DidV) -> bool { !m.contains_key(p) || m[p].status is Blocked }
pub open spec fn has_dead_parent(m: DMap, ps: Option<Set<DidV>>) -> bool {
    match ps { Some(s) => exists|p: DidV| #[trigger] s.contains(p) && dead_in(m, p), None => false }
}
pub open spec fn stuck(m: DMap, ds: DataStorage, id: DidV) -> bool {
    m.contains_key(id) && (has_dead_parent(m, m[id].parents) || !no_packs(m[id].packs) || !changes_sure(ds, m[id].changes))
}
/// every block held back by this step is stuck (in the state and over the storage the step ends in)
pub open spec fn newly_stuck(a: DMap, b: DMap, ds: DataStorage) -> bool {
    forall|k: DidV| #[trigger] b.contains_key(k) && a[k].status is Pending && b[k].status is Blocked ==> stuck(b, ds, k)
}
pub open spec fn gate_sure(m: DMap, ds: DataStorage, id: DidV) -> bool {
    &&& m.contains_key(id)
    &&& parents_live(m, m[id].parents)
    &&& no_packs(m[id].packs)
    &&& changes_sure(ds, m[id].changes)
}

// ================================================================ shims: keyed access to the map of locks (ASSUMED of std BTreeMap / RwLock)
/// `deltas.get(k)` under the map's read guard: a handle of the entry stored under k (= its key), None when there is none
#[verifier::external_body]
pub fn vx_deltas_get<'k>(m: &DeltaMap, k: &'k DeltaId) -> (r: Option<&'k DeltaId>)
    ensures match r { Some(h) => m@.contains_key(k@) && h@ == k@, None => !m@.contains_key(k@) },
{ unimplemented!() }
/// `<guard of entry h>.status` (read; `Status` is `Copy`)
#[verifier::external_body]
pub fn vx_deltas_status(m: &DeltaMap, h: &DeltaId) -> (s: Status)
    requires m@.contains_key(h@),
    ensures s == m@[h@].status,
{ unimplemented!() }
/// `<write guard of entry h>.status = s`: only that entry's status changes (full frame over the map)
#[verifier::external_body]
pub fn vx_deltas_set_status_raw(m: &mut DeltaMap, h: &DeltaId, s: Status)
    requires old(m)@.contains_key(h@),
    ensures final(m)@ == old(m)@.insert(h@, with_status(old(m)@[h@], s)),
{ unimplemented!() }
/// a duplicate-free-or-not enumeration `v` of the identifier set `s` (iteration order irrelevant)
pub open spec fn enum_ids(v: Seq<DeltaId>, s: Set<DidV>) -> bool {
    &&& forall|i: int| 0 <= i < v.len() ==> s.contains((#[trigger] v[i])@)
    &&& forall|x: DidV| #[trigger] s.contains(x) ==> exists|i: int| 0 <= i < v.len() && (#[trigger] v[i])@ == x
}
pub open spec fn enum_strs(v: Seq<String>, s: Set<Seq<char>>) -> bool {
    &&& forall|i: int| 0 <= i < v.len() ==> s.contains((#[trigger] v[i])@)
    &&& forall|x: Seq<char>| #[trigger] s.contains(x) ==> exists|i: int| 0 <= i < v.len() && (#[trigger] v[i])@ == x
}
pub open spec fn list_changes(v: Seq<Change>, s: Seq<ChangeV>) -> bool {
    v.len() == s.len() && forall|i: int| #![trigger v[i]] #![trigger s[i]] 0 <= i < v.len() ==> v[i]@ == s[i]
}
pub open spec fn parents_listed(r: Option<Vec<DeltaId>>, ps: Option<Set<DidV>>) -> bool {
    match ps { Some(s) => r is Some && enum_ids(r.unwrap()@, s), None => r is None }
}
pub open spec fn packs_listed(r: Option<Vec<String>>, ps: Option<Set<Seq<char>>>) -> bool {
    match ps { Some(s) => r is Some && enum_strs(r.unwrap()@, s), None => r is None }
}
pub open spec fn changes_listed(r: Option<Vec<Change>>, cs: Option<Seq<ChangeV>>) -> bool {
    match cs { Some(s) => r is Some && list_changes(r.unwrap()@, s), None => r is None }
}
/// `&<guard of entry h>.parents`: a snapshot copy of the parent set (iterating a copy while the body re-enters the map is
/// equivalent: the contents of an entry other than its status never change — `frozen`)
#[verifier::external_body]
pub fn vx_deltas_parents(m: &DeltaMap, h: &DeltaId) -> (r: Option<Vec<DeltaId>>)
    requires m@.contains_key(h@),
    ensures parents_listed(r, m@[h@].parents),
{ unimplemented!() }
/// `&<guard of entry h>.packs`: snapshot copy
#[verifier::external_body]
pub fn vx_deltas_packs(m: &DeltaMap, h: &DeltaId) -> (r: Option<Vec<String>>)
    requires m@.contains_key(h@),
    ensures packs_listed(r, m@[h@].packs),
{ unimplemented!() }
/// `&<guard of entry h>.changes`: snapshot copy (same records in the same order)
#[verifier::external_body]
pub fn vx_deltas_changes(m: &DeltaMap, h: &DeltaId) -> (r: Option<Vec<Change>>)
    requires m@.contains_key(h@),
    ensures changes_listed(r, m@[h@].changes),
{ unimplemented!() }
/// R18 + lock erasure: `deltas.iter()` under the map's read guard = an enumeration of (key, entry handle) pairs, every key
/// of the map at least once; the key set cannot change while the read guard is held.  The references are snapshots
/// (lifetime not tied to the map: the loop body re-enters the map through `&mut self`).
#[verifier::external_body]
pub fn vx_deltas_entries<'b>(m: &DeltaMap) -> (v: Vec<(&'b DeltaId, &'b DeltaId)>)
    ensures entries_of(v@, m@),
{ unimplemented!() }
pub open spec fn entries_of(v: Seq<(&DeltaId, &DeltaId)>, m: DMap) -> bool {
    &&& forall|i: int| 0 <= i < v.len() ==> m.contains_key((#[trigger] v[i]).0@) && v[i].1@ == v[i].0@
    &&& forall|k: DidV| #[trigger] m.contains_key(k) ==> exists|i: int| 0 <= i < v.len() && (#[trigger] v[i]).0@ == k
}

/// `<write guard of entry h>.status = s`, VERIFIED wrapper of the raw write: the consequences of a single status write for
/// the ancestor closure are proved here once, so that the proof of check_delta does not depend on where in its body the
/// writes sit
pub fn vx_deltas_set_status(m: &mut DeltaMap, h: &DeltaId, s: Status)
    requires old(m)@.contains_key(h@),
    ensures
        final(m)@ == old(m)@.insert(h@, with_status(old(m)@[h@], s)),
        // deciding against an undecided block keeps the closure
        closed(old(m)@) && !live(old(m)@[h@].status) && !live(s) ==> closed(final(m)@),
        // clearing a block whose parents are all live keeps the closure
        closed(old(m)@) && live(s) && parents_live(old(m)@, old(m)@[h@].parents) ==> closed(final(m)@),
{
    let ghost a = m@;
    vx_deltas_set_status_raw(m, h, s);
    proof {
        let b = m@;
        if closed(a) && ((!live(a[h@].status) && !live(s)) || (live(s) && parents_live(a, a[h@].parents))) {
            assert forall|id: DidV| #[trigger] b.contains_key(id) && live(b[id].status) implies parents_live(b, b[id].parents) by {
                assert(a.contains_key(id));
                assert(b[id].parents == a[id].parents);
                assert(parents_live(a, a[id].parents));
                match a[id].parents {
                    Some(ps) => {
                        assert forall|p: DidV| #[trigger] ps.contains(p) implies live_in(b, p) by { assert(live_in(a, p)); }
                    },
                    None => {},
                }
            }
        }
    }
}

// ================================================================ loop contracts of check_delta (attached by rule RGL to the
// loop over each listed field, wherever it sits in the body)
/// inside check_delta(id), while id is still undecided: o = state at entry, c = current state
pub open spec fn gate_mid(o: Melda, c: Melda, id: DidV) -> bool {
    &&& c.data == o.data && c.documents == o.documents
    &&& closed(c.deltas@) && ranked(o.deltas@) && data_safe(o.data, o.deltas@)
    &&& frozen(o.deltas@, c.deltas@) && decides_only(o.deltas@, c.deltas@) && newly_gated(o.deltas@, c.deltas@, c.data)
    &&& newly_stuck(o.deltas@, c.deltas@, c.data)
    &&& o.deltas@.contains_key(id) && o.deltas@[id].status is Pending && c.deltas@[id].status is Pending
    &&& forall|k: DidV| #[trigger] o.deltas@.contains_key(k) && c.deltas@[k].status != o.deltas@[k].status ==> rank(k) < rank(id)
}
/// parents loop: the first n listed parents are present and live (the recursion may have decided blocks of smaller rank)
pub open spec fn gate_loop_parents(o: Melda, c: Melda, pre: Melda, id: DidV, v: Seq<DeltaId>, n: int) -> bool {
    &&& gate_mid(o, c, id)
    &&& o.deltas@[id].parents is Some && enum_ids(v, o.deltas@[id].parents.unwrap())
    &&& forall|j: int| 0 <= j < n ==> live_in(c.deltas@, (#[trigger] v[j])@)
}
/// packs loop: nothing changes; the first n listed packs are present and hash-checked
pub open spec fn gate_loop_packs(o: Melda, c: Melda, pre: Melda, id: DidV, v: Seq<String>, n: int) -> bool {
    &&& c == pre && gate_mid(o, c, id)
    &&& o.deltas@[id].packs is Some && enum_strs(v, o.deltas@[id].packs.unwrap())
    &&& forall|j: int| 0 <= j < n ==> pack_present(c.data, (#[trigger] v[j])@)
}
/// changes loop: nothing changes; the revisions of the first n change records are readable
pub open spec fn gate_loop_changes(o: Melda, c: Melda, pre: Melda, id: DidV, v: Seq<Change>, n: int) -> bool {
    &&& c == pre && gate_mid(o, c, id)
    &&& o.deltas@[id].changes is Some && list_changes(v, o.deltas@[id].changes.unwrap())
    &&& forall|j: int| 0 <= j < n ==> change_ok(c.data, (#[trigger] v[j])@)
}
