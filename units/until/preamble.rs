// ---- unit `until`: Melda::reload_until (src/melda.rs) — C14:
// "Reloading a replica up to a chosen set of blocks shows exactly the state determined by those blocks and their ancestors,
//  identical to what the replica showed when those blocks were its heads, and a plain reload afterwards returns to the latest
//  state.  Every revision that belongs to the loaded history stays retrievable with the same value and the same parent, however
//  much history has accumulated since."
//
// Included units: `refreshm` (Melda::refresh / reload, the assumed callee contracts, the pass contracts and lemmas) -> `gate` -> `pack`;
// everything they prove is RE-VERIFIED from the real code in this file.
// Proved FROM THE REAL CODE here: Melda::reload_until.
// ASSUMED here (std): `VecDeque<DeltaId>` as a FIFO sequence (`vx_dq_*`), `BTreeSet<DeltaId>` as a set of identifier contents
// (`vx_dset_*`), derive(Clone) on DeltaId (`vx_did_clone`).  Lock erasure as in units `gate` / `refreshm`.

// ================================================================ shims: the anchor set and the work queue
/// `BTreeSet<DeltaId>` seen as a set of identifier CONTENTS
pub uninterp spec fn dset(s: BTreeSet<DeltaId>) -> Set<DidV>;
/// `anchors.is_empty()`
#[verifier::external_body]
pub fn vx_dset_is_empty(s: &BTreeSet<DeltaId>) -> (r: bool)
    ensures r <==> (forall|x: DidV| !dset(*s).contains(x)),
{ unimplemented!() }
pub open spec fn enum_refs(v: Seq<&DeltaId>, s: Set<DidV>) -> bool {
    &&& forall|i: int| 0 <= i < v.len() ==> s.contains((#[trigger] v[i])@)
    &&& forall|x: DidV| #[trigger] s.contains(x) ==> exists|i: int| 0 <= i < v.len() && (#[trigger] v[i])@ == x
}
/// R18: `for x in anchors` = a pass over an enumeration of the set (any order)
#[verifier::external_body]
pub fn vx_dset_elems<'a>(s: &'a BTreeSet<DeltaId>) -> (v: Vec<&'a DeltaId>)
    ensures enum_refs(v@, dset(*s)),
{ unimplemented!() }
/// derive(Clone) on DeltaId
#[verifier::external_body]
pub fn vx_did_clone(k: &DeltaId) -> (r: DeltaId) ensures r@ == k@ { unimplemented!() }
/// `VecDeque<DeltaId>` seen as the sequence of identifier contents, front first
pub uninterp spec fn dqv(d: VecDeque<DeltaId>) -> Seq<DidV>;
#[verifier::external_body]
pub fn vx_dq_new() -> (d: VecDeque<DeltaId>) ensures dqv(d) == Seq::<DidV>::empty() { unimplemented!() }
#[verifier::external_body]
pub fn vx_dq_push_back(d: &mut VecDeque<DeltaId>, x: DeltaId) ensures dqv(*final(d)) == dqv(*old(d)).push(x@) { unimplemented!() }
#[verifier::external_body]
pub fn vx_dq_is_empty(d: &VecDeque<DeltaId>) -> (r: bool) ensures r == (dqv(*d).len() == 0) { unimplemented!() }
#[verifier::external_body]
pub fn vx_dq_pop_front(d: &mut VecDeque<DeltaId>) -> (r: Option<DeltaId>)
    ensures match r {
        Some(x) => dqv(*old(d)).len() > 0 && x@ == dqv(*old(d))[0] && dqv(*final(d)) == dqv(*old(d)).drop_first(),
        None => dqv(*old(d)).len() == 0 && dqv(*final(d)) == dqv(*old(d)),
    },
{ unimplemented!() }

// ================================================================ the property: the ancestor closure of the chosen blocks
/// block k names p as a parent
pub open spec fn names(m: DMap, k: DidV, p: DidV) -> bool {
    m.contains_key(k) && (match m[k].parents { Some(s) => s.contains(p), None => false })
}
/// k is reached from a chosen block by at most n parent links
pub open spec fn reach(m: DMap, a: Set<DidV>, k: DidV, n: nat) -> bool
    decreases n
{
    if n == 0 { a.contains(k) }
    else { reach(m, a, k, (n - 1) as nat) || (exists|j: DidV| reach(m, a, j, (n - 1) as nat) && #[trigger] names(m, j, k)) }
}
/// the least set that contains the chosen blocks and is closed under `parents`: "those blocks and their ancestors"
pub open spec fn in_closure(m: DMap, a: Set<DidV>, k: DidV) -> bool { exists|n: nat| #[trigger] reach(m, a, k, n) }

pub proof fn lemma_closure_step(m: DMap, a: Set<DidV>, j: DidV, k: DidV)
    requires in_closure(m, a, j), names(m, j, k),
    ensures in_closure(m, a, k),
{
    let n = choose|n: nat| #[trigger] reach(m, a, j, n);
    let n1 = (n + 1) as nat;
    assert((n1 - 1) as nat == n);
    assert(reach(m, a, j, (n1 - 1) as nat) && names(m, j, k));
    assert(reach(m, a, k, n1));
}
pub proof fn lemma_closure_anchor(m: DMap, a: Set<DidV>, k: DidV)
    requires a.contains(k),
    ensures in_closure(m, a, k),
{ assert(reach(m, a, k, 0)); }
/// a set that contains the chosen blocks and the parents of its members contains the closure
pub proof fn lemma_reach_in(m: DMap, a: Set<DidV>, inset: spec_fn(DidV) -> bool, k: DidV, n: nat)
    requires
        forall|x: DidV| a.contains(x) ==> inset(x),
        forall|j: DidV, p: DidV| inset(j) && #[trigger] names(m, j, p) ==> inset(p),
        reach(m, a, k, n),
    ensures inset(k),
    decreases n
{
    if n > 0 {
        if reach(m, a, k, (n - 1) as nat) { lemma_reach_in(m, a, inset, k, (n - 1) as nat); }
        else {
            let j = choose|j: DidV| reach(m, a, j, (n - 1) as nat) && #[trigger] names(m, j, k);
            lemma_reach_in(m, a, inset, j, (n - 1) as nat);
        }
    }
}
/// the closure only looks at the parent sets of its own members
pub proof fn lemma_reach_agree(m1: DMap, m2: DMap, a: Set<DidV>, k: DidV, n: nat)
    requires
        reach(m1, a, k, n),
        forall|j: DidV| #[trigger] in_closure(m1, a, j) && m1.contains_key(j) ==> m2.contains_key(j) && m2[j].parents == m1[j].parents,
    ensures reach(m2, a, k, n),
    decreases n
{
    if n > 0 {
        if reach(m1, a, k, (n - 1) as nat) { lemma_reach_agree(m1, m2, a, k, (n - 1) as nat); }
        else {
            let j = choose|j: DidV| reach(m1, a, j, (n - 1) as nat) && #[trigger] names(m1, j, k);
            lemma_reach_agree(m1, m2, a, j, (n - 1) as nat);
            assert(in_closure(m1, a, j));
            assert(names(m2, j, k));
        }
    }
}

// ================================================================ the contract of reload_until
/// c = m with some Ready blocks applied (status Applied, change list dropped); q = those blocks, each once, in the order of application
pub open spec fn applied_rel(m: DMap, c: DMap, q: Seq<DidV>) -> bool {
    &&& forall|k: DidV| #[trigger] c.contains_key(k) ==> m.contains_key(k)
    &&& forall|k: DidV| #[trigger] m.contains_key(k) ==> c.contains_key(k)
            && (c[k] == m[k] || (m[k].status is Ready && c[k] == without_changes(with_status(m[k], Status::Applied))))
    &&& no_dup(q)
    &&& forall|k: DidV| q.contains(k) <==> (m.contains_key(k) && m[k].status is Ready && c[k].status is Applied)
}
/// the block map after a successful reload_until(a): s = after, l = the map after loading (from an empty map)
pub open spec fn until_blocks(a: Set<DidV>, s: DMap, ds: DataStorage, l: DMap) -> bool {
    &&& loaded_ext(Map::<DidV, DeltaV>::empty(), l, ds.adapter.store())
    &&& forall|k: DidV| #[trigger] s.contains_key(k) ==> l.contains_key(k)
    &&& forall|k: DidV| #[trigger] l.contains_key(k) ==> s.contains_key(k) && s[k].parents == l[k].parents && s[k].packs == l[k].packs
    &&& closed(s)
    // every chosen block is known
    &&& forall|x: DidV| a.contains(x) ==> s.contains_key(x)
    // applied = exactly the chosen blocks and their ancestors
    &&& forall|k: DidV| #[trigger] was_applied(s, k) <==> in_closure(l, a, k)
    // each of them passed the gate
    &&& forall|k: DidV| #[trigger] was_applied(s, k) ==> gate_ok_c(s, ds, k, l[k].changes) && s[k].changes is None
    // every other block keeps the decision of the gate and its contents: Ready (gate passed, not applied) or Blocked (stuck)
    &&& forall|k: DidV| #[trigger] s.contains_key(k) && !was_applied(s, k) ==> s[k].changes == l[k].changes
            && ((s[k].status is Ready && gate_ok(s, ds, k)) || (s[k].status is Blocked && stuck(s, ds, k)))
    &&& all_chgs_wf(s) && ranked(s) && data_safe(ds, s)
}
pub open spec fn untilled(a: Set<DidV>, n: Melda, l: DMap, q: Seq<DidV>) -> bool {
    &&& until_blocks(a, n.deltas@, n.data, l)
    // the trees: exactly the change records of the applied blocks, each block ONCE (a block reachable along two paths is applied once)
    &&& no_dup(q)
    &&& forall|k: DidV| q.contains(k) <==> was_applied(n.deltas@, k)
    &&& forall|uuid: Seq<char>| #[trigger] tree_of(dview(n.documents), uuid) == fold_blocks(Map::<Revision, EntryV>::empty(), q, l, uuid, q.len() as int)
    &&& docs_wf(dview(n.documents)) && docs_validated(n.documents) && !docs_staged(n.documents)
}
pub open spec fn until_ok(a: Set<DidV>, n: Melda) -> bool {
    exists|l: DMap, q: Seq<DidV>| #[trigger] untilled(a, n, l, q)
}
pub open spec fn no_anchor(a: Set<DidV>) -> bool { forall|x: DidV| !a.contains(x) }

// ---------------------------------------------------------------- what mark_valid_deltas leaves behind on a freshly loaded map
pub open spec fn fresh_marked(l: Melda, m: Melda) -> bool {
    &&& loading(Map::<DidV, DeltaV>::empty(), l) && dview(l.documents) == Map::<Seq<char>, RevMap>::empty() && !docs_staged(l.documents)
    &&& marked(l, m)
}
pub proof fn lemma_fresh_marked(l: Melda, m: Melda)
    requires fresh_marked(l, m),
    ensures
        forall|k: DidV| #[trigger] m.deltas@.contains_key(k) ==> m.deltas@[k].status is Ready || m.deltas@[k].status is Blocked,
        all_chgs_wf(m.deltas@), ranked(m.deltas@), data_safe(m.data, m.deltas@), docs_wf(dview(m.documents)),
{
    let e = Map::<DidV, DeltaV>::empty();
    assert forall|k: DidV| #[trigger] m.deltas@.contains_key(k) implies (m.deltas@[k].status is Ready || m.deltas@[k].status is Blocked)
        && chgs_wf(m.deltas@[k].changes) && below(m.deltas@[k].parents, rank(k)) && revs_safe(m.data, m.deltas@[k].changes) by {
        assert(l.deltas@.contains_key(k)); assert(!e.contains_key(k));
        assert(l.deltas@[k].status is Pending);
    }
    assert forall|uuid: Seq<char>| tree_wf(#[trigger] tree_of(dview(m.documents), uuid)) by { }
}

// ---------------------------------------------------------------- loop contracts (attached by rule RU, by shape)
/// the anchor check: the first n chosen blocks are known and Ready
pub open spec fn anchors_checked(c: DMap, v: Seq<&DeltaId>, n: int) -> bool {
    forall|j: int| 0 <= j < n ==> c.contains_key((#[trigger] v[j])@) && c[v[j]@].status is Ready
}
/// the queue fill: the queue holds the first n chosen blocks
pub open spec fn anchors_queued(dq: Seq<DidV>, v: Seq<&DeltaId>, n: int) -> bool {
    dq.len() == n && forall|j: int| 0 <= j < n ==> dq[j] == (#[trigger] v[j])@
}
/// the breadth-first application: m = the replica after mark_valid_deltas, a = the chosen blocks, c = now, q = applied so far,
/// dq = the work queue, todo = a set (finite, as every vstd Set) that still contains every block not yet applied (termination measure)
pub open spec fn bfs_inv(m: Melda, a: Set<DidV>, c: Melda, q: Seq<DidV>, dq: Seq<DidV>, todo: Set<DidV>) -> bool {
    let mm = m.deltas@; let cm = c.deltas@;
    &&& c.data == m.data && docs_staged(c.documents) == docs_staged(m.documents) && closed(cm)
    &&& applied_rel(mm, cm, q)
    &&& docs_wf(dview(c.documents))
    &&& forall|uuid: Seq<char>| #[trigger] tree_of(dview(c.documents), uuid) == fold_blocks(tree_of(dview(m.documents), uuid), q, mm, uuid, q.len() as int)
    // the queue holds members of the closure only, all of them cleared by the gate
    &&& forall|i: int| 0 <= i < dq.len() ==> in_closure(mm, a, #[trigger] dq[i]) && mm.contains_key(dq[i]) && mm[dq[i]].status is Ready
    &&& forall|k: DidV| q.contains(k) ==> in_closure(mm, a, k)
    // nothing is forgotten: a chosen block, and a parent of an applied block, is applied or waits in the queue
    &&& forall|x: DidV| #[trigger] a.contains(x) ==> cm[x].status is Applied || dq.contains(x)
    &&& forall|k: DidV, p: DidV| q.contains(k) && #[trigger] names(mm, k, p) ==> cm[p].status is Applied || dq.contains(p)
    &&& forall|k: DidV| #[trigger] mm.contains_key(k) && !(cm[k].status is Applied) ==> todo.contains(k)
}
/// pushing the parents of the block being applied: dq0 = the queue before, the first n listed parents were appended
pub open spec fn bfs_pushing(dq0: Seq<DidV>, dq: Seq<DidV>, v: Seq<DeltaId>, n: int) -> bool {
    dq.len() == dq0.len() + n && (forall|i: int| 0 <= i < dq0.len() ==> dq[i] == dq0[i]) && (forall|j: int| 0 <= j < n ==> dq[dq0.len() + j] == (#[trigger] v[j])@)
}
pub proof fn lemma_drop_first_contains(s: Seq<DidV>)
    requires s.len() > 0,
    ensures forall|x: DidV| s.contains(x) <==> (x == s[0] || s.drop_first().contains(x)),
{
    assert forall|x: DidV| s.contains(x) <==> (x == s[0] || s.drop_first().contains(x)) by {
        if s.contains(x) { let i = choose|i: int| 0 <= i < s.len() && s[i] == x; if i > 0 { assert(s.drop_first()[i - 1] == x); } }
        if s.drop_first().contains(x) { let i = choose|i: int| 0 <= i < s.drop_first().len() && s.drop_first()[i] == x; assert(s[i + 1] == x); }
    }
}
/// popping a front block that is not Ready (it was applied already: a block reachable along two paths is applied ONCE) keeps the invariant
pub proof fn lemma_bfs_pop(m: Melda, a: Set<DidV>, b: Melda, q: Seq<DidV>, dq_b: Seq<DidV>, todo: Set<DidV>)
    requires bfs_inv(m, a, b, q, dq_b, todo), dq_b.len() > 0,
    ensures !(b.deltas@[dq_b[0]].status is Ready) ==> bfs_inv(m, a, b, q, dq_b.drop_first(), todo),
{
    let hk = dq_b[0]; let mm = m.deltas@; let bm = b.deltas@; let rest = dq_b.drop_first();
    lemma_drop_first_contains(dq_b);
    if !(bm[hk].status is Ready) {
        assert(mm.contains_key(hk) && mm[hk].status is Ready);
        assert(bm[hk].status is Applied);
        assert forall|i: int| 0 <= i < rest.len() implies in_closure(mm, a, #[trigger] rest[i]) && mm.contains_key(rest[i]) && mm[rest[i]].status is Ready by {
            assert(rest[i] == dq_b[i + 1]);
        }
        assert forall|x: DidV| #[trigger] a.contains(x) implies bm[x].status is Applied || rest.contains(x) by { }
        assert forall|k: DidV, p: DidV| q.contains(k) && #[trigger] names(mm, k, p) implies bm[p].status is Applied || rest.contains(p) by { }
    }
}
/// the state before the first iteration
pub proof fn lemma_bfs_start(l: Melda, m: Melda, a: Set<DidV>, v: Seq<&DeltaId>, dq: Seq<DidV>)
    requires fresh_marked(l, m), enum_refs(v, a), anchors_queued(dq, v, v.len() as int),
        forall|x: DidV| a.contains(x) ==> m.deltas@.contains_key(x) && m.deltas@[x].status is Ready,
    ensures bfs_inv(m, a, m, Seq::<DidV>::empty(), dq, m.deltas@.dom()),
{
    lemma_fresh_marked(l, m);
    let q = Seq::<DidV>::empty();
    assert forall|i: int| 0 <= i < dq.len() implies in_closure(m.deltas@, a, #[trigger] dq[i]) && m.deltas@.contains_key(dq[i]) && m.deltas@[dq[i]].status is Ready by {
        assert(a.contains(v[i]@));
        lemma_closure_anchor(m.deltas@, a, dq[i]);
    }
    assert forall|x: DidV| a.contains(x) implies dq.contains(x) by {
        let i = choose|i: int| 0 <= i < v.len() && (#[trigger] v[i])@ == x;
        assert(dq[i] == x);
    }
    assert forall|k: DidV| q.contains(k) <==> (m.deltas@.contains_key(k) && m.deltas@[k].status is Ready && m.deltas@[k].status is Applied) by { }
}
/// one iteration that found the front block hk Ready and applied it: b = before the iteration (queue dq_b), c = after it (queue dq_n)
pub proof fn lemma_bfs_step(m: Melda, a: Set<DidV>, b: Melda, c: Melda, q_b: Seq<DidV>, dq_b: Seq<DidV>, dq_n: Seq<DidV>, todo_b: Set<DidV>, ps: Seq<DeltaId>)
    requires
        bfs_inv(m, a, b, q_b, dq_b, todo_b), dq_b.len() > 0, b.deltas@[dq_b[0]].status is Ready,
        closed(m.deltas@), all_chgs_wf(m.deltas@),
        forall|k: DidV| #[trigger] m.deltas@.contains_key(k) ==> m.deltas@[k].status is Ready || m.deltas@[k].status is Blocked,
        // what the iteration did
        c.data == b.data, docs_staged(c.documents) == docs_staged(b.documents), closed(c.deltas@),
        forall|uuid: Seq<char>| #[trigger] tree_of(dview(c.documents), uuid) == apply_changes(tree_of(dview(b.documents), uuid), b.deltas@[dq_b[0]].changes, uuid),
        forall|k: DidV| c.deltas@.contains_key(k) <==> b.deltas@.contains_key(k),
        c.deltas@[dq_b[0]] == without_changes(with_status(b.deltas@[dq_b[0]], Status::Applied)),
        forall|k: DidV| k != dq_b[0] ==> c.deltas@[k] == b.deltas@[k],
        // the parents of the block were appended to the queue
        parents_listed_seq(ps, b.deltas@[dq_b[0]].parents), bfs_pushing(dq_b.drop_first(), dq_n, ps, ps.len() as int),
    ensures bfs_inv(m, a, c, q_b.push(dq_b[0]), dq_n, todo_b.remove(dq_b[0])),
{
    let hk = dq_b[0]; let mm = m.deltas@; let bm = b.deltas@; let cm = c.deltas@; let q = q_b.push(hk); let rest = dq_b.drop_first();
    assert(mm.contains_key(hk) && in_closure(mm, a, hk));
    assert(bm[hk] == mm[hk]);
    lemma_fold_push(dview(b.documents), dview(c.documents), dview(m.documents), q_b, hk, mm);
    lemma_drop_first_contains(dq_b);
    // q
    assert(!q_b.contains(hk));
    assert forall|i: int, j: int| 0 <= i < j < q.len() implies q[i] != q[j] by {
        if j == q_b.len() { assert(q_b.contains(q_b[i])); } else { assert(q_b[i] != q_b[j]); }
    }
    assert forall|k: DidV| q.contains(k) <==> (mm.contains_key(k) && mm[k].status is Ready && cm[k].status is Applied) by {
        if q.contains(k) { let j = choose|j: int| 0 <= j < q.len() && q[j] == k; if j < q_b.len() { assert(q_b[j] == k); assert(q_b.contains(k)); } }
        if mm.contains_key(k) && mm[k].status is Ready && cm[k].status is Applied {
            if k == hk { assert(q[q_b.len() as int] == hk); } else { assert(q_b.contains(k)); let j = choose|j: int| 0 <= j < q_b.len() && q_b[j] == k; assert(q[j] == k); }
        }
    }
    assert forall|k: DidV| q.contains(k) implies in_closure(mm, a, k) by {
        let j = choose|j: int| 0 <= j < q.len() && q[j] == k; if j < q_b.len() { assert(q_b.contains(q_b[j])); }
    }
    // the queue
    assert forall|x: DidV| rest.contains(x) implies dq_n.contains(x) by {
        let i = choose|i: int| 0 <= i < rest.len() && rest[i] == x; assert(dq_n[i] == x);
    }
    assert forall|p: DidV| #[trigger] names(mm, hk, p) implies dq_n.contains(p) && in_closure(mm, a, p) && mm.contains_key(p) && mm[p].status is Ready by {
        let s = mm[hk].parents->Some_0;
        let j = choose|j: int| 0 <= j < ps.len() && (#[trigger] ps[j])@ == p;
        assert(dq_n[rest.len() + j] == p);
        lemma_closure_step(mm, a, hk, p);
        assert(parents_live(mm, mm[hk].parents)); assert(live_in(mm, p));
    }
    assert forall|i: int| 0 <= i < dq_n.len() implies in_closure(mm, a, #[trigger] dq_n[i]) && mm.contains_key(dq_n[i]) && mm[dq_n[i]].status is Ready by {
        if i < rest.len() { assert(dq_n[i] == rest[i]); assert(rest[i] == dq_b[i + 1]); }
        else { let j = i - rest.len(); assert(dq_n[rest.len() + j] == ps[j]@); assert(names(mm, hk, ps[j]@)); }
    }
    assert forall|x: DidV| a.contains(x) implies cm[x].status is Applied || dq_n.contains(x) by {
        if !(bm[x].status is Applied) { assert(dq_b.contains(x)); if x != hk { assert(rest.contains(x)); } }
    }
    assert forall|k: DidV, p: DidV| q.contains(k) && #[trigger] names(mm, k, p) implies cm[p].status is Applied || dq_n.contains(p) by {
        if k != hk {
            let j = choose|j: int| 0 <= j < q.len() && q[j] == k; assert(q_b[j] == k); assert(q_b.contains(k));
            if !(bm[p].status is Applied) { assert(dq_b.contains(p)); if p != hk { assert(rest.contains(p)); } }
        }
    }
    assert(todo_b.contains(hk));
}
pub open spec fn opt_ids(r: Option<Vec<DeltaId>>) -> Seq<DeltaId> { match r { Some(v) => v@, None => Seq::<DeltaId>::empty() } }
/// `parents_listed` (unit gate) on a sequence
pub open spec fn parents_listed_seq(ps: Seq<DeltaId>, p: Option<Set<DidV>>) -> bool {
    match p { Some(s) => enum_ids(ps, s), None => ps.len() == 0 }
}
/// the end: the queue is empty
pub proof fn lemma_untilled(l: Melda, m: Melda, n_docs_same: Melda, n: Melda, a: Set<DidV>, q: Seq<DidV>, dq: Seq<DidV>, todo: Set<DidV>)
    requires
        fresh_marked(l, m), bfs_inv(m, a, n_docs_same, q, dq, todo), dq.len() == 0,
        forall|x: DidV| a.contains(x) ==> m.deltas@.contains_key(x),
        n.deltas == n_docs_same.deltas && n.data == n_docs_same.data && dview(n.documents) == dview(n_docs_same.documents)
            && docs_staged(n.documents) == docs_staged(n_docs_same.documents) && docs_validated(n.documents),
    ensures untilled(a, n, l.deltas@, q),
{
    lemma_fresh_marked(l, m);
    let e = Map::<DidV, DeltaV>::empty(); let lm = l.deltas@; let mm = m.deltas@; let s = n.deltas@; let ds = n.data;
    assert forall|x: DidV| !dq.contains(x) by { if dq.contains(x) { let i = choose|i: int| 0 <= i < dq.len() && dq[i] == x; } }
    // applied == closure (in mm), by induction over `reach`
    let inset = |k: DidV| q.contains(k);
    assert forall|x: DidV| a.contains(x) implies inset(x) by { assert(!dq.contains(x)); assert(n_docs_same.deltas@[x].status is Applied); assert(mm.contains_key(x)); }
    assert forall|j: DidV, p: DidV| inset(j) && #[trigger] names(mm, j, p) implies inset(p) by {
        assert(s[p].status is Applied);
        assert(parents_live(mm, mm[j].parents)); assert(live_in(mm, p));
    }
    assert forall|k: DidV| in_closure(mm, a, k) implies q.contains(k) by {
        let nn = choose|nn: nat| #[trigger] reach(mm, a, k, nn);
        lemma_reach_in(mm, a, inset, k, nn);
    }
    // the closure is the same in the loaded map (same parents)
    assert forall|k: DidV| in_closure(mm, a, k) <==> in_closure(lm, a, k) by {
        if in_closure(mm, a, k) { let nn = choose|nn: nat| #[trigger] reach(mm, a, k, nn); lemma_reach_agree(mm, lm, a, k, nn); }
        if in_closure(lm, a, k) { let nn = choose|nn: nat| #[trigger] reach(lm, a, k, nn); lemma_reach_agree(lm, mm, a, k, nn); }
    }
    assert forall|k: DidV| #[trigger] s.contains_key(k) implies lm.contains_key(k) by { assert(mm.contains_key(k)); }
    assert forall|k: DidV| #[trigger] lm.contains_key(k) implies s.contains_key(k) && s[k].parents == lm[k].parents && s[k].packs == lm[k].packs by { assert(mm.contains_key(k)); }
    assert forall|k: DidV| #[trigger] was_applied(s, k) <==> in_closure(lm, a, k) by {
        if was_applied(s, k) { assert(mm.contains_key(k)); assert(q.contains(k)); }
        if in_closure(lm, a, k) { assert(q.contains(k)); }
    }
    assert forall|k: DidV| #[trigger] was_applied(s, k) implies gate_ok_c(s, ds, k, lm[k].changes) && s[k].changes is None by {
        assert(mm.contains_key(k)); assert(lm.contains_key(k)); assert(!e.contains_key(k)); assert(lm[k].status is Pending);
        assert(mm[k].status is Ready);
        assert(gate_ok(mm, ds, k));
        lemma_live_kept(mm, s, mm[k].parents);
    }
    assert forall|k: DidV| #[trigger] s.contains_key(k) && !was_applied(s, k) implies s[k].changes == lm[k].changes
        && ((s[k].status is Ready && gate_ok(s, ds, k)) || (s[k].status is Blocked && stuck(s, ds, k))) by {
        assert(mm.contains_key(k)); assert(lm.contains_key(k)); assert(!e.contains_key(k)); assert(lm[k].status is Pending);
        assert(s[k] == mm[k]);
        if mm[k].status is Ready { assert(gate_ok(mm, ds, k)); lemma_live_kept(mm, s, mm[k].parents); }
        else {
            assert(stuck(mm, ds, k));
            if has_dead_parent(mm, mm[k].parents) {
                let ps = mm[k].parents->Some_0;
                let d = choose|d: DidV| #[trigger] ps.contains(d) && dead_in(mm, d);
                if mm.contains_key(d) { assert(s[d] == mm[d]); }
                assert(ps.contains(d) && dead_in(s, d));
            }
        }
    }
    assert forall|id: DidV| #[trigger] s.contains_key(id) implies below(s[id].parents, rank(id)) && revs_safe(ds, s[id].changes) && chgs_wf(s[id].changes) by {
        assert(mm.contains_key(id));
        assert(below(mm[id].parents, rank(id)) && revs_safe(ds, mm[id].changes) && chgs_wf(mm[id].changes));
    }
    assert forall|k: DidV| q.contains(k) <==> was_applied(s, k) by { if was_applied(s, k) { assert(mm.contains_key(k)); } }
    assert forall|uuid: Seq<char>| #[trigger] tree_of(dview(n.documents), uuid) == fold_blocks(Map::<Revision, EntryV>::empty(), q, lm, uuid, q.len() as int) by {
        assert forall|i: int| 0 <= i < q.len() implies mm[#[trigger] q[i]].changes == lm[q[i]].changes by { assert(q.contains(q[i])); assert(mm.contains_key(q[i])); assert(lm.contains_key(q[i])); }
        lemma_fold_same(tree_of(dview(m.documents), uuid), q, mm, lm, uuid, q.len() as int);
        assert(tree_of(dview(m.documents), uuid) == Map::<Revision, EntryV>::empty());
        assert(tree_of(dview(n_docs_same.documents), uuid) == tree_of(dview(n.documents), uuid));
    }
}

// ================================================================ C14, the two corollaries
/// "a plain reload afterwards returns to the latest state": `Melda::reload` (unit refreshm) has NO precondition on the block map or the
/// trees — only on the storage (`packs_small`, `cache_inv`, `blocks_wf`) — and reload_until, successful or failed, keeps the stored
/// items, the stage and the cache (`data_kept`).  So after ANY outcome of reload_until the preconditions of reload hold again, and its
/// contract (`reload_ok`: the state is what a refresh of an empty replica produces over this storage) does not mention the prior state.
pub proof fn lemma_reload_after_until(o: DataStorage, n: DataStorage)
    requires data_kept(o, n), packs_small(o.adapter.store()), cache_inv(o), blocks_wf(o),
    ensures packs_small(n.adapter.store()), cache_inv(n), blocks_wf(n),
{
    lemma_data_kept(o, n, Map::<DidV, DeltaV>::empty());
}
/// heads of a block map: the applied blocks that no applied block names as parent (unit `delta`: `is_head`, what get_anchors returns)
pub open spec fn is_head_v(m: DMap, k: DidV) -> bool {
    was_applied(m, k) && forall|j: DidV| #[trigger] was_applied(m, j) ==> !names(m, j, k)
}
/// every applied block has only applied parents (a settled + closed map, i.e. the state refresh / reload / commit leave)
pub open spec fn applied_closed(m: DMap) -> bool {
    forall|k: DidV, p: DidV| was_applied(m, k) && #[trigger] names(m, k, p) ==> was_applied(m, p)
}
/// C13 link: in such a map the applied set IS the ancestor closure of the heads (hs = the set of heads)
pub proof fn lemma_applied_is_closure_of_heads(m: DMap, hs: Set<DidV>, k: DidV)
    requires ranked(m), applied_closed(m), forall|h: DidV| hs.contains(h) <==> is_head_v(m, h),
    ensures was_applied(m, k) <==> in_closure(m, hs, k),
{
    if in_closure(m, hs, k) {
        let inset = |x: DidV| was_applied(m, x);
        let n = choose|n: nat| #[trigger] reach(m, hs, k, n);
        assert forall|x: DidV| hs.contains(x) implies inset(x) by { assert(is_head_v(m, x)); }
        lemma_reach_in(m, hs, inset, k, n);
    }
    if was_applied(m, k) { lemma_applied_up(m, hs, k, (u32::MAX - k.0) as nat); }
}
/// an applied block is a head or has an applied child of greater rank; ranks are bounded (u32 index)
pub proof fn lemma_applied_up(m: DMap, hs: Set<DidV>, k: DidV, fuel: nat)
    requires ranked(m), applied_closed(m), forall|h: DidV| hs.contains(h) <==> is_head_v(m, h), was_applied(m, k), fuel == (u32::MAX - k.0) as nat,
    ensures in_closure(m, hs, k),
    decreases fuel
{
    if is_head_v(m, k) { lemma_closure_anchor(m, hs, k); }
    else {
        let j = choose|j: DidV| #[trigger] was_applied(m, j) && names(m, j, k);
        assert(below(m[j].parents, rank(j)));
        assert(k.0 < j.0);
        lemma_applied_up(m, hs, j, (u32::MAX - j.0) as nat);
        lemma_closure_step(m, hs, j, k);
    }
}
/// "identical to what the replica showed when those blocks were its heads", for the applied SET: t = the block map the replica had then
/// (heads = a), s = after reload_until(a) with loaded map l; the blocks of the closure are the same blocks (identifiers are content
/// hashes and storage is append-only: same key, same parents)
pub proof fn lemma_until_matches_then(t: DMap, a: Set<DidV>, s: DMap, l: DMap, k: DidV)
    requires
        ranked(t), applied_closed(t), forall|h: DidV| a.contains(h) <==> is_head_v(t, h),
        forall|x: DidV| #[trigger] was_applied(s, x) <==> in_closure(l, a, x),
        forall|j: DidV| #[trigger] in_closure(t, a, j) && t.contains_key(j) ==> l.contains_key(j) && l[j].parents == t[j].parents,
        forall|j: DidV| #[trigger] in_closure(l, a, j) && l.contains_key(j) ==> t.contains_key(j) && t[j].parents == l[j].parents,
    ensures was_applied(s, k) <==> was_applied(t, k),
{
    lemma_applied_is_closure_of_heads(t, a, k);
    if in_closure(t, a, k) { let n = choose|n: nat| #[trigger] reach(t, a, k, n); lemma_reach_agree(t, l, a, k, n); }
    if in_closure(l, a, k) { let n = choose|n: nat| #[trigger] reach(l, a, k, n); lemma_reach_agree(l, t, a, k, n); }
}
