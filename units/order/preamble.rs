// ---- unit `order`: Melda::get_merged_order_at_revision (src/melda.rs) — the array read after synchronisation ----
// machine arithmetic: length bounds below assume a 64-bit target (listed in evidence)
global size_of usize == 8;
/// mirror of `struct Melda` restricted to what the function uses: nothing but `rebuild_array_order` (below)
pub struct Melda { pub _unused: bool }

/// the stored order of an array-descriptor revision (reconstruction through the diff chain: unit `patch`, stretch)
pub uninterp spec fn spec_order(rev: Revision) -> Seq<Value>;
pub uninterp spec fn order_readable(rev: Revision) -> bool;
#[verifier::external_body]
pub struct VxError { e: () }

impl Melda {
    /// ASSUMED contract of `rebuild_array_order` (LRU + diff chain, not under contract): it returns the stored order of the revision
    #[verifier::external_body]
    pub fn rebuild_array_order(&self, base_revision: &Revision, rt: &RevisionTree) -> (r: Result<Vec<Value>, VxError>)
        ensures match r { Ok(v) => v@ == spec_order(*base_revision), Err(_) => !order_readable(*base_revision) },
    { unimplemented!() }
}

/// R18 for an ORDERED set: `for l in leafs` over a BTreeSet visits every element once, in ascending order of `Ord::cmp`
/// (= spec_cmp, proved for the extracted cmp in unit `rev`)
#[verifier::external_body]
pub fn vx_bset_sorted<'a>(s: &'a BTreeSet<Revision>) -> (v: Vec<&'a Revision>)
    ensures
        forall|i: int| 0 <= i < v.len() ==> s@.contains(*#[trigger] v@[i]),
        forall|r: Revision| s@.contains(r) ==> exists|i: int| 0 <= i < v.len() && *#[trigger] v@[i] == r,
        forall|i: int, j: int| 0 <= i < j < v.len() ==> spec_cmp(v@[i]@, v@[j]@) == std::cmp::Ordering::Less,
        v.len() == s@.len(),
{ unimplemented!() }
#[verifier::external_body]
pub fn vx_bset_len(s: &BTreeSet<Revision>) -> (n: usize) ensures n == s@.len() { unimplemented!() }

/// what merge_arrays computes, as a relation (its proved contract): no duplicates, union of elements, base order kept
pub open spec fn merged(m: Seq<Value>, n0: Seq<Value>, n1: Seq<Value>) -> bool {
    &&& no_dup(n1)
    &&& forall|x: Value| n1.contains(x) <==> (n0.contains(x) || m.contains(x))
    &&& is_subseq(n0, n1)
}
/// the fold over the ascending leaf sequence: acc_k is the base order merged with the first k leaf orders
pub open spec fn fold_ok(base: Seq<Value>, leaves: Seq<&Revision>, k: int, acc: Seq<Value>) -> bool {
    &&& no_dup(acc) || k == 0
    &&& forall|x: Value| acc.contains(x) <==> (base.contains(x) || exists|j: int| 0 <= j < k && #[trigger] spec_order(*leaves[j]).contains(x))
    &&& is_subseq(base, acc)
}
pub proof fn lemma_subseq_trans(a: Seq<Value>, b: Seq<Value>, c: Seq<Value>)
    requires is_subseq(a, b), is_subseq(b, c),
    ensures is_subseq(a, c),
{
    let p1 = choose|p: Seq<int>| embeds(a, b, p);
    let p2 = choose|p: Seq<int>| embeds(b, c, p);
    let p = Seq::new(a.len(), |i: int| p2[p1[i]]);
    assert(embeds(a, c, p));
}
