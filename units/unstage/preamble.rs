// ---- unit `unstage`: Melda::unstage (src/melda.rs) — discarding staged changes restores the last committed-or-refreshed state (C15) ----
/// R6: `RwLock<BTreeMap<String, Mutex<RevisionTree>>>` -> `BTreeMap<String, RevisionTree>`, `RwLock<DataStorage>` -> `DataShim`
pub struct Melda {
    pub documents: BTreeMap<String, RevisionTree>,
    pub data: DataShim,
}
#[verifier::external_body]
pub struct VxError { e: () }
/// `DataStorage` seen from Melda::unstage: its `unstage()` (contract PROVED in unit pack: the staged object set becomes empty,
/// index / applied packs / storage untouched, always Ok)
#[verifier::external_body]
pub struct DataShim { d: () }
impl DataShim {
    pub uninterp spec fn staged(&self) -> Map<Seq<char>, int>;
    pub uninterp spec fn rest(&self) -> int;   // everything but the stage (index, applied packs, storage)
    #[verifier::external_body]
    pub fn unstage(&mut self) -> (r: Result<(), VxError>)
        ensures r is Ok, final(self).staged() == Map::<Seq<char>, int>::empty(), final(self).rest() == old(self).rest(),
    { unimplemented!() }
}
pub uninterp spec fn dmap(m: BTreeMap<String, RevisionTree>) -> Map<Seq<char>, RevisionTree>;
/// R18 / rayon `par_iter_mut()`: the keys of the map, each once, in ANY order (the closure runs once per entry; with
/// single-threaded semantics the order is irrelevant because entries are disjoint)
#[verifier::external_body]
pub fn vx_docs_keys(m: &BTreeMap<String, RevisionTree>) -> (v: Vec<String>)
    ensures
        forall|i: int| 0 <= i < v.len() ==> dmap(*m).contains_key(#[trigger] v@[i]@),
        forall|k: Seq<char>| dmap(*m).contains_key(k) ==> exists|i: int| 0 <= i < v.len() && #[trigger] v@[i]@ == k,
        forall|i: int, j: int| 0 <= i < j < v.len() ==> v@[i]@ != v@[j]@,
{ unimplemented!() }
/// mutable access to the tree stored under an existing key (assumed of std BTreeMap::get_mut / Mutex::get_mut)
#[verifier::external_body]
pub fn vx_docs_get_mut<'a>(m: &'a mut BTreeMap<String, RevisionTree>, k: &String) -> (r: &'a mut RevisionTree)
    requires dmap(*old(m)).contains_key(k@),
    ensures *r == dmap(*old(m))[k@], dmap(*final(m)) == dmap(*old(m)).insert(k@, *final(r)),
{ unimplemented!() }
/// `docs.retain(|_, rt| !rt.get_mut().expect(..).is_empty())`: entries whose tree has no revisions are dropped (R12; `is_empty` is
/// the extracted RevisionTree::is_empty: revisions@.len() == 0)
#[verifier::external_body]
pub fn vx_docs_retain_nonempty(m: &mut BTreeMap<String, RevisionTree>)
    ensures
        forall|k: Seq<char>| #[trigger] dmap(*final(m)).contains_key(k) <==> (dmap(*old(m)).contains_key(k) && dmap(*old(m))[k].revisions@.len() != 0),
        forall|k: Seq<char>| #[trigger] dmap(*final(m)).contains_key(k) ==> dmap(*final(m))[k] == dmap(*old(m))[k],
{ unimplemented!() }
pub fn vx_at<'a, T>(m: &'a [T], i: usize) -> (t: &'a T)
    requires i < m.len(),
    ensures *t == m@[i as int],
{ &m[i] }
/// replica invariant between operations: every object's tree is well formed and satisfies the staging-flag invariant
pub open spec fn docs_inv(d: Map<Seq<char>, RevisionTree>) -> bool {
    forall|k: Seq<char>| #[trigger] d.contains_key(k) ==> tree_wf(d[k].revisions@) && tree_inv(d[k])
}
/// the tree of an object after discarding: its unstaged records, re-validated, nothing staged
pub open spec fn discarded(before: RevisionTree, after: RevisionTree) -> bool {
    is_unstaged_part(before.revisions@, after.revisions@) && !after.staging && validated_ok(after)
}
