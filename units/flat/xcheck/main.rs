// cross-check of the `flat` unit's specification against the real library: update -> read through the public API
use melda::{adapter::Adapter, melda::Melda, memoryadapter::MemoryAdapter};
use std::io::BufRead;
use std::sync::{Arc, RwLock};
fn main() {
    std::panic::set_hook(Box::new(|_| {}));
    let stdin = std::io::stdin();
    for line in stdin.lock().lines() {
        let line = line.unwrap();
        let r = std::panic::catch_unwind(|| {
            let v: serde_json::Value = serde_json::from_str(&line).unwrap();
            let obj = v.as_object().unwrap().clone();
            let adapter: Box<dyn Adapter> = Box::new(MemoryAdapter::new());
            let adapter = Arc::new(RwLock::new(adapter));
            let replica = Melda::new(adapter).expect("init");
            match replica.update(obj) {
                Ok(_) => match replica.read(None) {
                    Ok(m) => serde_json::to_string(&m).unwrap(),
                    Err(e) => format!("\"ERR read {}\"", e),
                },
                Err(e) => format!("\"ERR update {}\"", e),
            }
        });
        match r { Ok(s) => println!("{}", s), Err(_) => println!("\"PANIC\"") }
    }
}
