// direct calls of the REAL utils::unflatten on hand-made collections (dropping of entries that name no stored object,
// missing identifier -> null, consumption)
#![allow(dead_code)]
#[path = "/repo/src/constants.rs"]
mod constants;
#[path = "/repo/src/utils.rs"]
mod utils;
use serde_json::{json, Map, Value};
use std::collections::HashMap;
fn coll(v: Value) -> HashMap<String, Map<String, Value>> {
    v.as_object().unwrap().iter().map(|(k, o)| (k.clone(), o.as_object().unwrap().clone())).collect()
}
fn main() {
    // 1. entries that are not strings / name no stored object / name the descriptor itself are dropped; order kept
    let mut c = coll(json!({"^r@k♭": {"A": ["x", 5, "gone", "y", ["z"], "^r@k♭", null]}, "x": {"_id":"x","v":"!s"}, "y": {"_id":"y"}, "other": {"_id":"other"}}));
    let r = utils::unflatten(&mut c, &json!({"k♭": "^r@k♭", "m♭": "nobody", "e♭": "!esc", "plain": "!verbatim"})).unwrap();
    println!("{}", serde_json::to_string(&r).unwrap());
    let mut left: Vec<_> = c.keys().cloned().collect(); left.sort();
    println!("left: {:?}", left);
    // 2. an entry referenced twice: the second reference finds nothing (the first consumed it)
    let mut c = coll(json!({"^r@k♭": {"A": ["x", "x"]}, "x": {"_id":"x"}}));
    let r = utils::unflatten(&mut c, &json!({"k♭": "^r@k♭"})).unwrap();
    println!("{}", serde_json::to_string(&r).unwrap());
}
