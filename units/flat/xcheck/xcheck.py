# Cross-check of the `flat` unit's SPEC (wf_doc / with_ids) against the running library. Not part of ./check. Build:
#   mkdir -p /var/tmp/flat-native/src && cp Cargo.toml /var/tmp/flat-native/ && cp main.rs direct.rs /var/tmp/flat-native/src/
#   cp /verif/native/driver/Cargo.lock.driver /var/tmp/flat-native/Cargo.lock && (cd /var/tmp/flat-native && cargo build --offline -j 3)
#   python3 xcheck.py <seed> <n>                        # update -> read on random documents vs. this copy of wf_doc / with_ids
#   /var/tmp/flat-native/target/debug/unflat-direct     # the real unflatten on hand-made collections (dropping, null, consumption)
# Independent (Python) implementation of the unit's SPEC (wf_doc / with_ids), compared with the real library (update -> read)
import hashlib, json, random, subprocess, sys
ID='_id'; SUF='♭'; ROOT='√'; ESC='!'; AD='^'; SEP='@'
def is_ff(k): return k.endswith(SUF)
def oid(o,p):
    if ID in o: return o[ID]
    if len(p)==0: return ROOT
    return hashlib.sha256(''.join(p).encode()).hexdigest()
def id_ok(o): return (ID not in o) or (isinstance(o[ID], str) and not o[ID].startswith(AD))
def tracked(o,k): return k in o and k != ID and is_ff(k)
def ids_ok(v):
    if isinstance(v, list): return all(ids_ok(x) for x in v)
    if isinstance(v, dict): return id_ok(v) and all(ids_ok(v[k]) for k in v if tracked(v,k))
    return True
def keys(v,p):
    """multiset of the collection keys that belong to v (kin)"""
    if isinstance(v, list):
        out=[]
        for x in v: out+=keys(x,p)
        return out
    if isinstance(v, dict):
        u=oid(v,p); out=[u]
        for k in v:
            if tracked(v,k):
                if isinstance(v[k], list): out.append(AD+u+SEP+k)
                out+=keys(v[k], p+[u,k])
        return out
    return []
def plain(s): return not s.startswith(ESC) and not s.startswith(AD)
def shapes_ok(v,p):
    """shape_ok for every tracked field below v"""
    if isinstance(v, list): return all(shapes_ok(x,p) for x in v)
    if isinstance(v, dict):
        u=oid(v,p)
        for k in v:
            if tracked(v,k):
                fv=v[k]; pk=p+[u,k]
                if isinstance(fv, list) and not all(isinstance(x, dict) for x in fv): return False
                if isinstance(fv, dict) and not plain(oid(fv,pk)): return False
                if not shapes_ok(fv,pk): return False
        return True
    return True
def wf_doc(d):
    if not isinstance(d, dict) or not ids_ok(d): return False
    ks=keys(d,[])
    return len(ks)==len(set(ks)) and shapes_ok(d,[])
def with_ids(v,p):
    if isinstance(v, list): return [with_ids(x,p) for x in v]
    if isinstance(v, dict):
        u=oid(v,p); out={}
        for k in v:
            if k==ID: continue
            out[k]= with_ids(v[k], p+[u,k]) if tracked(v,k) else v[k]
        out[ID]=u
        return out
    return v
rnd=random.Random(int(sys.argv[1]) if len(sys.argv)>1 else 1)
KEYS=['a','b','n'+SUF,'m'+SUF,'a@b'+SUF,'b'+SUF,'!k'+SUF]
IDS=['x','y','z','a','a@b','!x','^x',ROOT,'x','y']
def scalar():
    return rnd.choice([None, True, 1, 2.5, 'str', '!bang', '^caret', 'x', '', 'a@b'])
def gen_obj(depth, with_id):
    o={}
    r=rnd.random()
    if with_id and r<0.75: o[ID]=rnd.choice(IDS)
    elif with_id and r<0.8: o[ID]=rnd.choice([1, None, ['x']])
    for k in rnd.sample(KEYS, rnd.randint(0,3)):
        o[k]=gen_val(depth-1, is_ff(k))
    return o
def gen_val(depth, flat):
    r=rnd.random()
    if depth<=0 or r<0.3: return scalar()
    if r<0.6: return gen_obj(depth, True)
    n=rnd.randint(0,3)
    if flat and rnd.random()<0.8: return [gen_obj(depth, True) for _ in range(n)]
    return [gen_val(depth-1, flat) for _ in range(n)]
N=int(sys.argv[2]) if len(sys.argv)>2 else 4000
docs=[]
for _ in range(N):
    d=gen_obj(3, False)
    if rnd.random()<0.05: d[ID]=rnd.choice([ROOT,'x'])
    docs.append(d)
# hand-written documents
docs += [
  {"somekey":["somedata",1,2,3,4]},
  {"somekey"+SUF:[{"_id":"1","key":"alpha"},{"_id":"2","key":"beta"}]},
  {"n"+SUF:[{"_id":"i1","v":"!bang"},{"_id":"i2","m"+SUF:{"k":"^caret","deep"+SUF:[{"_id":"d1"},{"q":1}]}}],"m"+SUF:{"name":"!n"},"b"+SUF:"hello","a@b"+SUF:5},
  {"n"+SUF:["a",1]},                                  # non-object elements: dropped
  {"n"+SUF:{"_id":"!x","v":1}},                        # direct object with escaped-looking identifier
  {"n"+SUF:[{"_id":"a","b@c"+SUF:[{"_id":"p"}]},{"_id":"a@b","c"+SUF:[{"_id":"q"}]}]},   # descriptor key collision
  {"n"+SUF:[{"v":1},{"v":2}]},                         # two objects without _id in one array: same digest
]
inp='\n'.join(json.dumps(d) for d in docs)+'\n'
out=subprocess.run(['/var/tmp/flat-native/target/debug/flat-native'], input=inp, capture_output=True, text=True).stdout.strip().split('\n')
assert len(out)==len(docs), (len(out), len(docs))
st=dict(wf=0, wf_ok=0, wf_bad=0, nonwf=0, nonwf_same=0, nonwf_diff=0, noids=0, noids_panic=0, noids_nopanic=0, rootid=0)
bad=[]
for d,o in zip(docs,out):
    got=json.loads(o)
    if not ids_ok(d):
        st['noids']+=1
        if got=="PANIC": st['noids_panic']+=1
        else: st['noids_nopanic']+=1; bad.append(('ids_ok false but no panic', d, got))
        continue
    if got=="PANIC":
        if wf_doc(d) and oid(d,[])==ROOT: bad.append(('WF but PANIC', d, got))
        else: st['nonwf_panic']=st.get('nonwf_panic',0)+1
        continue
    if oid(d,[])!=ROOT: st['rootid']+=1; continue
    exp=with_ids(d,[])
    if wf_doc(d):
        st['wf']+=1
        if got==exp: st['wf_ok']+=1
        else: st['wf_bad']+=1; bad.append(('WF but differs', d, got, exp))
    else:
        st['nonwf']+=1
        if got==exp: st['nonwf_same']+=1
        else: st['nonwf_diff']+=1
print(st)
for b in bad[:10]: print(json.dumps(b, ensure_ascii=False)[:600])
print("hand-written:")
for d,o in list(zip(docs,out))[-7:]:
    got=json.loads(o); e=with_ids(d,[]) if ids_ok(d) else None
    print(" wf=%s same=%s  %s -> %s" % (wf_doc(d), got==e, json.dumps(d, ensure_ascii=False), json.dumps(got, ensure_ascii=False)))
