// ---- unit `flat`: utils::{flatten, unflatten, generate_identifier, escape, unescape, is_flattened_field, is_array_descriptor}
// (src/utils.rs) — C04, narrow core: "after a document is submitted with update, reading the replica returns that document
// exactly (same keys, values, array order and nesting) with only the identifier field added to each tracked object".
//
// What is proved FROM THE REAL CODE (re-extracted on every run; rules RT / RV / RC of contracts.toml, R2, R7, R12chain):
//   L1  helpers: escape adds the prefix, unescape strips it ONCE, unescape(escape(s)) == s, identity on unprefixed text
//       (`lemma_escape_inverse`), the three cases of generate_identifier (`oid`, `id_ok`);
//   L2  flatten (`flat_post`): the returned reference, strings escaped, the collection only grows, only keys of the value
//       are written, every tracked object / descriptor is present afterwards, and for a well-formed value (`wf`) the
//       collection holds it in the flat format (`stored`); terminates (decreases on the JSON value);
//   L3  unflatten (`un_post`), on a collection that is `readable` from the reference (R22: the three panic sites): the
//       result is THE document stored there (`reads`; deterministic: `lemma_reads_unique`) — escaped strings unescaped,
//       a missing identifier reads as null, order entries that name no stored object are dropped (`live`) — exactly the
//       entries used are consumed and nothing else is touched (`consumed`); terminates (entries left, size of the value);
//   L4  composition on the two real functions: `flat_roundtrip` (postamble of contracts.toml) via `lemma_bridge_obj`:
//       for `wf_doc(d)` with root identifier ROOT_ID, flatten into an empty collection, add `_id` to every stored object
//       (what Melda::read does), unflatten the root object  ==  Some(with_ids(d)).
// JSON model: `JV` (text copied from unit `block`).  An object is a Map from key TEXT to value: serde_json is built WITHOUT
// `preserve_order` (Cargo.lock: serde_json 1.0.151 depends on itoa, memchr, serde, serde_core — no indexmap), so
// `serde_json::Map` is a BTreeMap: one value per key and no insertion order to preserve; "same keys" = same key set.
// Iteration over an object is only assumed to visit every member exactly once (`ents_ok`), in SOME order.
// ASSUMED: every `#[verifier::external_body]` item below (std text operations, serde_json accessors and constructors,
// HashMap<String,_> insert / remove / get by key text, Clone / to_owned as content copies, sha256 digest and `join("")` as
// uninterpreted functions of the text).  NOT under contract: Melda::update / Melda::read themselves (rayon, locks) and
// the storage between them — modelled in the postamble by `vx_read_collect` (= `add_ids`).
// Cross-check of the SPEC against the running library (update -> read through the public API, and direct calls of
// unflatten): units/flat/xcheck/ (10k random documents: every `wf_doc` document reads back as `with_ids`, every
// document violating `wf_doc` reads back differently or panics).

// ================================================================ errors (anyhow) — text copied from unit `block`
#[verifier::external_body]
pub struct VxError { e: () }
#[verifier::external] impl std::fmt::Debug for VxError { fn fmt(&self, _f: &mut std::fmt::Formatter<'_>) -> std::fmt::Result { unimplemented!() } }
// ASSUMED: anyhow error values carry no information the contracts depend on
#[verifier::external_body]
pub fn vx_error() -> VxError { unimplemented!() }
/// R22: `panic!(..)` = a call whose precondition is `false` (reaching it is a verification failure)
#[verifier::external_body]
pub fn vx_panic<T>() -> T requires false { unimplemented!() }

// ================================================================ the JSON data model (SOURCE: unit `block`, text copied)
/// JSON numbers / booleans are never inspected by these functions
#[verifier::external_body]
pub struct JNum { n: () }
pub enum JV { Null, Bool(bool), Num(JNum), Str(Seq<char>), Arr(Seq<JV>), Obj(Map<Seq<char>, JV>) }
#[verifier::external_body]
#[verifier::accept_recursive_types]
pub struct Value { v: () }
#[verifier::external_body]
#[verifier::accept_recursive_types]
pub struct JMap { m: () }
/// the JSON value a `serde_json::Value` holds
pub uninterp spec fn jv(v: Value) -> JV;
/// the key -> value mapping a `serde_json::Map<String, Value>` holds
pub uninterp spec fn jm(m: JMap) -> Map<Seq<char>, JV>;
pub open spec fn jvs(s: Seq<Value>) -> Seq<JV> { s.map_values(|x: Value| jv(x)) }

pub type Obj = Map<Seq<char>, JV>;
/// the flat collection: identifier text -> stored object
pub type Coll = Map<Seq<char>, Map<Seq<char>, JV>>;
pub type Path = Seq<Seq<char>>;
pub open spec fn strs(p: Seq<String>) -> Path { p.map_values(|s: String| s@) }
/// the collection a `HashMap<String, Map<String, Value>>` holds, keyed by identifier TEXT (std HashMap, content-keyed view)
pub uninterp spec fn cmap(c: HashMap<String, JMap>) -> Coll;

impl JMap {
    // ASSUMED (serde_json): `Map::new()` is the empty object
    #[verifier::external_body]
    pub fn new() -> (m: JMap) ensures jm(m) == Map::<Seq<char>, JV>::empty() { unimplemented!() }
    // ASSUMED (serde_json): `Map::insert` binds the key to the value, replacing a previous binding, other keys unchanged
    #[verifier::external_body]
    pub fn insert(&mut self, k: String, v: Value) -> (r: Option<Value>)
        ensures jm(*final(self)) == jm(*old(self)).insert(k@, jv(v)),
    { unimplemented!() }
    // ASSUMED (serde_json): `Map::contains_key` by key text
    #[verifier::external_body]
    pub fn contains_key(&self, k: &str) -> (r: bool) ensures r == jm(*self).contains_key(k@) { unimplemented!() }
    // ASSUMED (serde_json): `Map::get` by key text
    #[verifier::external_body]
    pub fn get(&self, k: &str) -> (r: Option<&Value>)
        ensures match r { Some(v) => jm(*self).contains_key(k@) && jv(*v) == jm(*self)[k@], None => !jm(*self).contains_key(k@) },
    { unimplemented!() }
}
/// iteration over an object (`o.iter()` / `o.into_iter()` on `&Map`): SOME duplicate-free enumeration of its members
/// (serde_json iterates in key order; only "each member exactly once" is assumed)
pub open spec fn ents_ok(ents: Seq<(&String, &Value)>, o: Obj) -> bool {
    &&& forall|i: int| 0 <= i < ents.len() ==> o.contains_key(#[trigger] ents[i].0@) && jv(*ents[i].1) == o[ents[i].0@]
    &&& forall|k: Seq<char>| o.contains_key(k) ==> exists|i: int| 0 <= i < ents.len() && #[trigger] ents[i].0@ == k
    &&& forall|i: int, j: int| 0 <= i < j < ents.len() ==> #[trigger] ents[i].0@ != #[trigger] ents[j].0@
}
#[verifier::external_body]
pub fn vx_jmap_entries<'a>(o: &'a JMap) -> (v: Vec<(&'a String, &'a Value)>)
    ensures ents_ok(v@, jm(*o)),
{ unimplemented!() }
// ASSUMED (serde_json): `collect()` of (key, value) pairs into a Map = `insert` of every pair, in iteration order
#[verifier::external_body]
pub fn vx_jmap_push(m: &mut JMap, kv: (String, Value))
    ensures jm(*final(m)) == jm(*old(m)).insert(kv.0@, jv(kv.1)),
{ unimplemented!() }

/// `match value { Value::String(s) => .., Value::Array(a) => .., Value::Object(o) => .., _ => .. }` reads the variant through
/// this view (rule RV); `Other` = Null / Bool / Number
pub enum VxV<'a> { String(&'a String), Array(&'a Vec<Value>), Object(&'a JMap), Other }
// ASSUMED (serde_json): the variant and payload of a `Value`
#[verifier::external_body]
pub fn vx_view<'a>(v: &'a Value) -> (r: VxV<'a>)
    ensures match r {
        VxV::String(s) => jv(*v) == JV::Str(s@),
        VxV::Array(a) => jv(*v) == JV::Arr(jvs(a@)),
        VxV::Object(o) => jv(*v) == JV::Obj(jm(*o)),
        VxV::Other => !(jv(*v) is Str) && !(jv(*v) is Arr) && !(jv(*v) is Obj),
    },
{ unimplemented!() }
/// `Value::from(x)` for the argument types the code uses (impls of serde_json's `From`)
pub trait ToJV { spec fn to_jv(&self) -> JV; }
impl ToJV for String { open spec fn to_jv(&self) -> JV { JV::Str(self@) } }
impl ToJV for Vec<Value> { open spec fn to_jv(&self) -> JV { JV::Arr(jvs(self@)) } }
impl ToJV for JMap { open spec fn to_jv(&self) -> JV { JV::Obj(jm(*self)) } }
impl Value {
    // ASSUMED (serde_json): `Value::as_array` = the element vector of an array, None for anything else
    #[verifier::external_body]
    pub fn as_array(&self) -> (r: Option<&Vec<Value>>)
        ensures match r { Some(a) => jv(*self) == JV::Arr(jvs(a@)), None => !(jv(*self) is Arr) },
    { unimplemented!() }
    // ASSUMED (serde_json): `Value::as_str` = the text of a string, None for anything else
    #[verifier::external_body]
    pub fn as_str(&self) -> (r: Option<&str>)
        ensures match r { Some(s) => jv(*self) == JV::Str(s@), None => !(jv(*self) is Str) },
    { unimplemented!() }
    // ASSUMED (serde_json): the variant tests and `as_object` (not used by the pinned code; a changed body may use them)
    #[verifier::external_body]
    pub fn is_string(&self) -> (r: bool) ensures r == (jv(*self) is Str) { unimplemented!() }
    #[verifier::external_body]
    pub fn is_array(&self) -> (r: bool) ensures r == (jv(*self) is Arr) { unimplemented!() }
    #[verifier::external_body]
    pub fn is_object(&self) -> (r: bool) ensures r == (jv(*self) is Obj) { unimplemented!() }
    #[verifier::external_body]
    pub fn is_null(&self) -> (r: bool) ensures r == (jv(*self) is Null) { unimplemented!() }
    #[verifier::external_body]
    pub fn as_object(&self) -> (r: Option<&JMap>)
        ensures match r { Some(m) => jv(*self) == JV::Obj(jm(*m)), None => !(jv(*self) is Obj) },
    { unimplemented!() }
    // ASSUMED (serde_json): `Value::from(String)` = string, `from(Vec<Value>)` = array, `from(Map)` = object
    #[verifier::external_body]
    pub fn from<T: ToJV>(t: T) -> (v: Value) ensures jv(v) == t.to_jv() { unimplemented!() }
}
// ASSUMED (serde_json): `json!(null)`
#[verifier::external_body]
pub fn vx_json_null() -> (v: Value) ensures jv(v) == JV::Null { unimplemented!() }

/// `.clone()` (derived / std Clone of String, Vec<String>, Value): a copy with the same content
pub trait VxClone: Sized {
    spec fn vx_same(&self, r: &Self) -> bool;
    fn vx_clone(&self) -> (r: Self) ensures self.vx_same(&r);
}
impl VxClone for String {
    open spec fn vx_same(&self, r: &Self) -> bool { r@ == self@ }
    #[verifier::external_body] fn vx_clone(&self) -> (r: Self) { unimplemented!() }
}
impl VxClone for Vec<String> {
    open spec fn vx_same(&self, r: &Self) -> bool { strs(r@) == strs(self@) }
    #[verifier::external_body] fn vx_clone(&self) -> (r: Self) { unimplemented!() }
}
impl VxClone for Value {
    open spec fn vx_same(&self, r: &Self) -> bool { jv(*r) == jv(*self) }
    #[verifier::external_body] fn vx_clone(&self) -> (r: Self) { unimplemented!() }
}
/// `.to_owned()` on `&str` / `&[String]`
pub trait VxOwn { type O; spec fn vx_owned(&self, r: &Self::O) -> bool; fn vx_own(&self) -> (r: Self::O) ensures self.vx_owned(&r); }
impl VxOwn for str {
    type O = String;
    open spec fn vx_owned(&self, r: &String) -> bool { r@ == self@ }
    #[verifier::external_body] fn vx_own(&self) -> (r: String) { unimplemented!() }
}
impl VxOwn for [String] {
    type O = Vec<String>;
    open spec fn vx_owned(&self, r: &Vec<String>) -> bool { strs(r@) == strs(self@) }
    #[verifier::external_body] fn vx_own(&self) -> (r: Vec<String>) { unimplemented!() }
}
pub fn vx_at<'a, T>(m: &'a [T], i: usize) -> (t: &'a T)
    requires i < m.len(),
    ensures *t == m@[i as int],
{ &m[i] }

// ---------------------------------------------------------------- HashMap<String, Map<String, Value>> by key text (assumed of std)
#[verifier::external_body]
pub fn vx_coll_new() -> (c: HashMap<String, JMap>) ensures cmap(c) == Map::<Seq<char>, Obj>::empty() { unimplemented!() }
#[verifier::external_body]
pub fn vx_coll_insert(c: &mut HashMap<String, JMap>, k: String, v: JMap) -> (r: Option<JMap>)
    ensures cmap(*final(c)) == cmap(*old(c)).insert(k@, jm(v)),
{ unimplemented!() }
#[verifier::external_body]
pub fn vx_coll_get<'a>(c: &'a HashMap<String, JMap>, k: &str) -> (r: Option<&'a JMap>)
    ensures match r { Some(o) => cmap(*c).contains_key(k@) && jm(*o) == cmap(*c)[k@], None => !cmap(*c).contains_key(k@) },
{ unimplemented!() }
// `c.get(k).cloned()`
#[verifier::external_body]
pub fn vx_coll_get_clone(c: &HashMap<String, JMap>, k: &str) -> (r: Option<JMap>)
    ensures match r { Some(o) => cmap(*c).contains_key(k@) && jm(o) == cmap(*c)[k@], None => !cmap(*c).contains_key(k@) },
{ unimplemented!() }
#[verifier::external_body]
pub fn vx_coll_contains(c: &HashMap<String, JMap>, k: &str) -> (r: bool)
    ensures r == cmap(*c).contains_key(k@),
{ unimplemented!() }
#[verifier::external_body]
pub fn vx_coll_remove(c: &mut HashMap<String, JMap>, k: &str) -> (r: Option<JMap>)
    ensures match r {
        Some(o) => cmap(*old(c)).contains_key(k@) && jm(o) == cmap(*old(c))[k@] && cmap(*final(c)) == cmap(*old(c)).remove(k@),
        None => !cmap(*old(c)).contains_key(k@) && cmap(*final(c)) == cmap(*old(c)),
    },
{ unimplemented!() }

// ================================================================ text (assumed of std `str`)
pub open spec fn has_prefix(s: Seq<char>, p: Seq<char>) -> bool { p.len() <= s.len() && s.subrange(0, p.len() as int) == p }
pub open spec fn has_suffix(s: Seq<char>, e: Seq<char>) -> bool { e.len() <= s.len() && s.subrange(s.len() - e.len(), s.len() as int) == e }
#[verifier::external_body]
pub fn vx_ends_with(s: &str, e: &str) -> (r: bool) ensures r == has_suffix(s@, e@) { unimplemented!() }
#[verifier::external_body]
pub fn vx_starts_with(s: &str, p: &str) -> (r: bool) ensures r == has_prefix(s@, p@) { unimplemented!() }
#[verifier::external_body]
pub fn vx_strip_prefix<'a>(s: &'a str, p: &str) -> (r: Option<&'a str>)
    ensures match r { Some(t) => has_prefix(s@, p@) && t@ == s@.subrange(p@.len() as int, s@.len() as int), None => !has_prefix(s@, p@) },
{ unimplemented!() }
#[verifier::external_body]
pub fn vx_cat2(a: &str, b: &str) -> (r: String) ensures r@ == a@ + b@ { unimplemented!() }
#[verifier::external_body]
pub fn vx_cat3(a: &str, b: &str, c: &str) -> (r: String) ensures r@ == a@ + b@ + c@ { unimplemented!() }
#[verifier::external_body]
pub fn vx_cat4(a: &str, b: &str, c: &str, d: &str) -> (r: String) ensures r@ == a@ + b@ + c@ + d@ { unimplemented!() }
#[verifier::external_body]
pub fn vx_str_eq(a: &str, b: &str) -> (r: bool) ensures r == (a@ == b@) { unimplemented!() }
/// `path.join("")`: a function of the component texts (uninterpreted: only used under the digest)
pub uninterp spec fn joined(p: Path) -> Seq<char>;
#[verifier::external_body]
pub fn vx_join(p: &[String]) -> (r: String) ensures r@ == joined(strs(p@)) { unimplemented!() }
/// sha256 hex digest of a text (utils::digest_string): an uninterpreted function of the text
pub uninterp spec fn sha_hex_text(s: Seq<char>) -> Seq<char>;
// ASSUMED (sha2 / hex): utils::digest_string is a function of its input and does not panic
#[verifier::external_body]
pub fn digest_string(content: &str) -> (r: String) ensures r@ == sha_hex_text(content@) { unimplemented!() }

// ================================================================ L1: the text conventions of the flat format
/// a key whose value is stored flattened (suffix FLATTEN_SUFFIX)
pub open spec fn is_ff(k: Seq<char>) -> bool { has_suffix(k, FLATTEN_SUFFIX@) }
/// an identifier that names an array descriptor (prefix ARRAY_DESCRIPTOR_PREFIX)
pub open spec fn is_ad(k: Seq<char>) -> bool { has_prefix(k, ARRAY_DESCRIPTOR_PREFIX@) }
/// a stored string that is an escaped user string (prefix STRING_ESCAPE_PREFIX)
pub open spec fn is_esc(k: Seq<char>) -> bool { has_prefix(k, STRING_ESCAPE_PREFIX@) }
pub open spec fn esc(s: Seq<char>) -> Seq<char> { STRING_ESCAPE_PREFIX@ + s }
/// strip the escape prefix ONCE if present
pub open spec fn unesc(s: Seq<char>) -> Seq<char> {
    if is_esc(s) { s.subrange(STRING_ESCAPE_PREFIX@.len() as int, s.len() as int) } else { s }
}
/// a reference text that carries neither marker: the identifier of an object
pub open spec fn plain(s: Seq<char>) -> bool { !is_esc(s) && !is_ad(s) }

/// L1: unescape(escape(s)) == s; an escaped string is recognisable; unescape is the identity on unprefixed text
pub proof fn lemma_escape_inverse(s: Seq<char>)
    ensures unesc(esc(s)) == s, is_esc(esc(s)), !is_esc(s) ==> unesc(s) == s, is_esc(s) ==> esc(unesc(s)) == s,
{
    let p = STRING_ESCAPE_PREFIX@;
    assert(esc(s).subrange(0, p.len() as int) =~= p);
    assert(esc(s).subrange(p.len() as int, esc(s).len() as int) =~= s);
    if is_esc(s) { assert(esc(unesc(s)) =~= s); }
}
pub proof fn lemma_esc_injective(a: Seq<char>, b: Seq<char>)
    requires esc(a) == esc(b),
    ensures a == b,
{
    lemma_escape_inverse(a); lemma_escape_inverse(b);
}
/// the three markers and the reserved names are what the proofs need them to be (checked against the extracted constants)
pub proof fn lemma_constants()
    ensures
        !is_ff(ID_FIELD@), ARRAY_DESCRIPTOR_ORDER_FIELD@ != ID_FIELD@,
        STRING_ESCAPE_PREFIX@.len() == 1, ARRAY_DESCRIPTOR_PREFIX@.len() == 1, STRING_ESCAPE_PREFIX@ != ARRAY_DESCRIPTOR_PREFIX@,
        plain(ROOT_ID@),
{
    reveal_strlit("_id"); reveal_strlit("\u{266D}"); reveal_strlit("A"); reveal_strlit("!"); reveal_strlit("^"); reveal_strlit("\u{221A}");
    assert(ID_FIELD@.len() == 3 && ID_FIELD@[2] == 'd');
    assert(FLATTEN_SUFFIX@.len() == 1 && FLATTEN_SUFFIX@[0] == '\u{266D}');
    assert(ID_FIELD@.subrange(2, 3)[0] == 'd');
    assert(ARRAY_DESCRIPTOR_ORDER_FIELD@.len() == 1);
    assert(STRING_ESCAPE_PREFIX@[0] == '!' && ARRAY_DESCRIPTOR_PREFIX@[0] == '^');
    assert(ROOT_ID@.len() == 1 && ROOT_ID@[0] == '\u{221A}');
    assert(ROOT_ID@.subrange(0, 1)[0] == '\u{221A}');
}

// ================================================================ identifiers of tracked objects (generate_identifier)
/// a user-supplied identifier must be a string that does not start with the array-descriptor prefix
pub open spec fn id_ok(o: Obj) -> bool {
    o.contains_key(ID_FIELD@) ==> (o[ID_FIELD@] is Str && !is_ad(o[ID_FIELD@]->Str_0))
}
/// the identifier of a tracked object found at `p`: its own `_id` if it has one, ROOT_ID for the document itself (empty
/// path), otherwise the digest of the path (owner identifiers and field names from the root down to this position)
pub open spec fn oid(o: Obj, p: Path) -> Seq<char> {
    if o.contains_key(ID_FIELD@) { o[ID_FIELD@]->Str_0 } else if p.len() == 0 { ROOT_ID@ } else { sha_hex_text(joined(p)) }
}

// ================================================================ L2: what flatten stores (the flat format, from the property)
/// `k` is a tracked field of `o`: a member other than the identifier whose key carries the flatten suffix — its value is
/// stored flattened (objects promoted to the collection, arrays to descriptors, strings escaped); every other member is
/// stored verbatim
pub open spec fn tracked(o: Obj, k: Seq<char>) -> bool { o.contains_key(k) && k != ID_FIELD@ && is_ff(k) }
/// the path of the value of field `k` of the object identified by `u` found at `p`
pub open spec fn fld_path(p: Path, u: Seq<char>, k: Seq<char>) -> Path { p.push(u).push(k) }
/// identifier of the array descriptor of field `k` of object `u`:  PREFIX u SEPARATOR k
pub open spec fn dkey(u: Seq<char>, k: Seq<char>) -> Seq<char> { ARRAY_DESCRIPTOR_PREFIX@ + u + ARRAY_DESCRIPTOR_SEPARATOR@ + k }

/// precondition of flatten (the `unwrap()` of generate_identifier): every tracked object's own identifier is acceptable
pub open spec fn ids_ok(v: JV) -> bool
    decreases v
{
    match v {
        JV::Arr(a) => forall|i: int| 0 <= i < a.len() ==> ids_ok(#[trigger] a[i]),
        JV::Obj(o) => id_ok(o) && forall|k: Seq<char>| #[trigger] tracked(o, k) ==> ids_ok(o[k]),
        _ => true,
    }
}
/// `x` is a collection key that belongs to the value `v` (in a flattened position at path `p`): the identifier of a tracked
/// object inside `v`, or the descriptor identifier of a tracked array-valued field inside `v`
pub open spec fn kin(v: JV, p: Path, x: Seq<char>) -> bool
    decreases v
{
    match v {
        JV::Arr(a) => exists|i: int| 0 <= i < a.len() && kin(#[trigger] a[i], p, x),
        JV::Obj(o) => x == oid(o, p) || exists|k: Seq<char>| #[trigger] tracked(o, k)
            && ((o[k] is Arr && x == dkey(oid(o, p), k)) || kin(o[k], fld_path(p, oid(o, p), k), x)),
        _ => false,
    }
}
/// the keys that belong to field `k` (value `fv`) of the object `u` at `p`
pub open spec fn kin_field(fv: JV, u: Seq<char>, k: Seq<char>, p: Path, x: Seq<char>) -> bool {
    (fv is Arr && x == dkey(u, k)) || kin(fv, fld_path(p, u, k), x)
}
/// an array descriptor object holds the order field and nothing else
pub open spec fn desc_shape(d: Obj) -> bool { forall|k: Seq<char>| #[trigger] d.contains_key(k) <==> k == ARRAY_DESCRIPTOR_ORDER_FIELD@ }

/// L2, the flat format: the collection `c` holds the value `v` (flattened position, path `p`) and `r` is what stands for it:
///  * a string is stored escaped; null / booleans / numbers as they are; an (inline) array element by element;
///  * a tracked object stands as its identifier (a string) and lands in the collection under that identifier with exactly
///    its members other than `_id`: untracked members verbatim, tracked members by what stands for them;
///  * a tracked ARRAY-valued member `k` of object `u` stands as the descriptor identifier `dkey(u, k)`; the descriptor object
///    holds exactly the order field, whose value stands for the array (the element identifiers, in order).
pub open spec fn stored(c: Coll, r: JV, v: JV, p: Path) -> bool
    decreases v
{
    match v {
        JV::Str(s) => r == JV::Str(esc(s)),
        JV::Arr(a) => r is Arr && r->Arr_0.len() == a.len() && forall|i: int| 0 <= i < a.len() ==> stored(c, r->Arr_0[i], #[trigger] a[i], p),
        JV::Obj(o) => {
            let u = oid(o, p);
            &&& r == JV::Str(u)
            &&& c.contains_key(u)
            &&& forall|k: Seq<char>| #[trigger] c[u].contains_key(k) <==> (o.contains_key(k) && k != ID_FIELD@)
            &&& forall|k: Seq<char>| #[trigger] o.contains_key(k) && k != ID_FIELD@ && !is_ff(k) ==> c[u][k] == o[k]
            &&& forall|k: Seq<char>| #[trigger] tracked(o, k) ==>
                    if o[k] is Arr {
                        &&& c[u][k] == JV::Str(dkey(u, k))
                        &&& c.contains_key(dkey(u, k))
                        &&& desc_shape(c[dkey(u, k)])
                        &&& stored(c, c[dkey(u, k)][ARRAY_DESCRIPTOR_ORDER_FIELD@], o[k], fld_path(p, u, k))
                    } else {
                        stored(c, c[u][k], o[k], fld_path(p, u, k))
                    }
        }
        _ => r == v,
    }
}
/// (the member clause of `stored`, named)
pub open spec fn field_stored(c: Coll, fr: JV, fv: JV, u: Seq<char>, k: Seq<char>, p: Path) -> bool {
    if fv is Arr {
        &&& fr == JV::Str(dkey(u, k))
        &&& c.contains_key(dkey(u, k))
        &&& desc_shape(c[dkey(u, k)])
        &&& stored(c, c[dkey(u, k)][ARRAY_DESCRIPTOR_ORDER_FIELD@], fv, fld_path(p, u, k))
    } else {
        stored(c, fr, fv, fld_path(p, u, k))
    }
}
/// what a flattened-field value may be for the round trip to hold (and why):
///  * an array must consist of objects: the reader rebuilds an array from its descriptor by looking every entry up in the
///    collection — strings, numbers, nested arrays are not identifiers of stored objects and are silently dropped;
///  * an object standing DIRECTLY as the member value is referenced by its bare identifier, which the reader tells from an
///    escaped string / a descriptor reference by its first character: the identifier must carry neither marker.
pub open spec fn shape_ok(fv: JV, p: Path) -> bool {
    match fv {
        JV::Arr(a) => forall|i: int| 0 <= i < a.len() ==> (#[trigger] a[i]) is Obj,
        JV::Obj(o) => plain(oid(o, p)),
        _ => true,
    }
}
/// `wf_doc`: the document is well-formed for tracking —
///  * own identifiers of tracked objects are strings not starting with the descriptor prefix (`id_ok`);
///  * all collection keys of the document are pairwise distinct: identifiers of tracked objects (own, ROOT_ID, path digests
///    alike — two objects without `_id` in one array share the path and hence the digest) and descriptor identifiers
///    (`dkey(u, k)` is a concatenation: "a@b"+"c" and "a"+"b@c" collide) — a repeated key means one entry overwrites another;
///  * flattened-field values have the shape the reader can invert (`shape_ok`).
pub open spec fn wf(v: JV, p: Path) -> bool
    decreases v
{
    match v {
        JV::Arr(a) => {
            &&& forall|i: int| 0 <= i < a.len() ==> wf(#[trigger] a[i], p)
            &&& forall|i: int, j: int, x: Seq<char>| 0 <= i < j < a.len() ==> !(#[trigger] kin(a[i], p, x) && #[trigger] kin(a[j], p, x))
        }
        JV::Obj(o) => {
            let u = oid(o, p);
            &&& id_ok(o)
            &&& forall|k: Seq<char>| #[trigger] tracked(o, k) ==> {
                    &&& wf(o[k], fld_path(p, u, k))
                    &&& shape_ok(o[k], fld_path(p, u, k))
                    &&& !((o[k] is Arr && u == dkey(u, k)) || kin(o[k], fld_path(p, u, k), u))
                    &&& (o[k] is Arr ==> !kin(o[k], fld_path(p, u, k), dkey(u, k)))
                }
            &&& forall|k1: Seq<char>, k2: Seq<char>, x: Seq<char>| #[trigger] tracked(o, k1) && #[trigger] tracked(o, k2) && k1 != k2 ==>
                    !(#[trigger] kin_field(o[k1], u, k1, p, x) && kin_field(o[k2], u, k2, p, x))
        }
        _ => true,
    }
}
pub open spec fn wf_doc(d: JV) -> bool { d is Obj && ids_ok(d) && wf(d, Seq::<Seq<char>>::empty()) }

pub open spec fn same_at(c0: Coll, c1: Coll, x: Seq<char>) -> bool {
    c0.contains_key(x) == c1.contains_key(x) && (c0.contains_key(x) ==> c1[x] == c0[x])
}
/// what stands for `v`, whatever the collection: escaped string / identifier / array of the same length / the scalar itself
pub open spec fn ret_shape(v: JV, p: Path, r: JV) -> bool {
    match v {
        JV::Str(s) => r == JV::Str(esc(s)),
        JV::Arr(a) => r is Arr && r->Arr_0.len() == a.len(),
        JV::Obj(o) => r == JV::Str(oid(o, p)),
        _ => r == v,
    }
}
/// L2, the contract of flatten(c, v, p) -> r, collection before `c0` and after `c1`
pub open spec fn flat_post(c0: Coll, c1: Coll, v: JV, p: Path, r: JV) -> bool {
    // the returned value is the reference (identifier / escaped string / array of references)
    &&& ret_shape(v, p, r)
    // the collection only grows
    &&& forall|x: Seq<char>| #[trigger] c0.contains_key(x) ==> c1.contains_key(x)
    // only keys that belong to `v` are written
    &&& forall|x: Seq<char>| #![trigger kin(v, p, x)] #![trigger same_at(c0, c1, x)] !kin(v, p, x) ==> same_at(c0, c1, x)
    // every tracked object and every descriptor of `v` is in the collection afterwards
    &&& forall|x: Seq<char>| #[trigger] kin(v, p, x) ==> c1.contains_key(x)
    // for a well-formed document the collection holds it in the flat format
    &&& (wf(v, p) ==> stored(c1, r, v, p))
}

pub proof fn lemma_dec_arr(v: JV, i: int)
    requires v is Arr, 0 <= i < v->Arr_0.len(),
    ensures decreases_to!(v => v->Arr_0[i]),
{
    assert(decreases_to!(v => v->Arr_0)); assert(decreases_to!(v->Arr_0 => v->Arr_0[i]));
}
pub proof fn lemma_dec_obj(v: JV, k: Seq<char>)
    requires v is Obj, v->Obj_0.contains_key(k),
    ensures decreases_to!(v => v->Obj_0[k]),
{
    assert(decreases_to!(v => v->Obj_0)); assert(decreases_to!(v->Obj_0 => v->Obj_0[k]));
}
pub proof fn lemma_strs_push(s: Seq<String>, x: String)
    ensures strs(s.push(x)) == strs(s).push(x@),
{
    assert(strs(s.push(x)) =~= strs(s).push(x@));
}

/// FRAME for `stored`: it depends only on the entries whose keys belong to the value
pub proof fn lemma_stored_frame(c: Coll, c2: Coll, r: JV, v: JV, p: Path)
    requires stored(c, r, v, p), forall|x: Seq<char>| #[trigger] kin(v, p, x) ==> c2.contains_key(x) && c2[x] == c[x],
    ensures stored(c2, r, v, p),
    decreases v, 0int
{
    match v {
        JV::Arr(a) => {
            assert forall|i: int| 0 <= i < a.len() implies stored(c2, r->Arr_0[i], #[trigger] a[i], p) by {
                assert forall|x: Seq<char>| #[trigger] kin(a[i], p, x) implies c2.contains_key(x) && c2[x] == c[x] by { assert(kin(v, p, x)); }
                lemma_stored_frame(c, c2, r->Arr_0[i], a[i], p);
            }
        }
        JV::Obj(o) => {
            let u = oid(o, p);
            assert(kin(v, p, u));
            assert forall|k: Seq<char>| #[trigger] tracked(o, k) implies field_stored(c2, c2[u][k], o[k], u, k, p) by {
                assert(field_stored(c, c[u][k], o[k], u, k, p));
                assert forall|x: Seq<char>| #[trigger] kin_field(o[k], u, k, p, x) implies kin(v, p, x) by { assert(tracked(o, k)); }
                lemma_field_stored_frame(c, c2, c[u][k], o[k], u, k, p);
            }
        }
        _ => {}
    }
}
pub proof fn lemma_field_stored_frame(c: Coll, c2: Coll, fr: JV, fv: JV, u: Seq<char>, k: Seq<char>, p: Path)
    requires field_stored(c, fr, fv, u, k, p), forall|x: Seq<char>| #[trigger] kin_field(fv, u, k, p, x) ==> c2.contains_key(x) && c2[x] == c[x],
    ensures field_stored(c2, fr, fv, u, k, p),
    decreases fv, 1int
{
    assert forall|x: Seq<char>| #[trigger] kin(fv, fld_path(p, u, k), x) implies c2.contains_key(x) && c2[x] == c[x] by { assert(kin_field(fv, u, k, p, x)); }
    if fv is Arr {
        assert(kin_field(fv, u, k, p, dkey(u, k)));
        lemma_stored_frame(c, c2, c[dkey(u, k)][ARRAY_DESCRIPTOR_ORDER_FIELD@], fv, fld_path(p, u, k));
    } else {
        lemma_stored_frame(c, c2, fr, fv, fld_path(p, u, k));
    }
}

// ---------------------------------------------------------------- flatten, array arm: the loop over the elements (all at the same path)
pub open spec fn kin_upto(a: Seq<JV>, p: Path, n: int, x: Seq<char>) -> bool { exists|i: int| 0 <= i < n && kin(#[trigger] a[i], p, x) }
pub open spec fn fl_arr_inv(c0: Coll, c: Coll, a: Seq<JV>, p: Path, n: int, out: Seq<JV>) -> bool {
    &&& 0 <= n <= a.len() && out.len() == n
    &&& forall|x: Seq<char>| #[trigger] c0.contains_key(x) ==> c.contains_key(x)
    &&& forall|x: Seq<char>| #![trigger kin_upto(a, p, n, x)] #![trigger same_at(c0, c, x)] !kin_upto(a, p, n, x) ==> same_at(c0, c, x)
    &&& forall|x: Seq<char>| #[trigger] kin_upto(a, p, n, x) ==> c.contains_key(x)
    &&& forall|j: int| 0 <= j < n ==> ret_shape(a[j], p, #[trigger] out[j])
    &&& (wf(JV::Arr(a), p) ==> forall|j: int| 0 <= j < n ==> stored(c, #[trigger] out[j], a[j], p))
}
pub proof fn lemma_fl_arr_step(c0: Coll, c1: Coll, c2: Coll, a: Seq<JV>, p: Path, n: int, out: Seq<JV>, r: JV)
    requires fl_arr_inv(c0, c1, a, p, n, out), n < a.len(), flat_post(c1, c2, a[n], p, r),
    ensures fl_arr_inv(c0, c2, a, p, n + 1, out.push(r)),
{
    assert(JV::Arr(a)->Arr_0 == a);
    let out2 = out.push(r);
    assert forall|x: Seq<char>| !kin_upto(a, p, n + 1, x) implies #[trigger] same_at(c0, c2, x) by {
        if kin_upto(a, p, n, x) { let i = choose|i: int| 0 <= i < n && kin(#[trigger] a[i], p, x); assert(kin_upto(a, p, n + 1, x)); }
        if kin(a[n], p, x) { assert(kin_upto(a, p, n + 1, x)); }
        assert(same_at(c0, c1, x)); assert(same_at(c1, c2, x));
    }
    assert forall|x: Seq<char>| #[trigger] kin_upto(a, p, n + 1, x) implies c2.contains_key(x) by {
        let i = choose|i: int| 0 <= i < n + 1 && kin(#[trigger] a[i], p, x);
        if i < n { assert(kin_upto(a, p, n, x)); assert(c1.contains_key(x)); }
    }
    assert forall|j: int| 0 <= j < n + 1 implies ret_shape(a[j], p, #[trigger] out2[j]) by { if j < n { assert(out2[j] == out[j]); } }
    if wf(JV::Arr(a), p) {
        assert forall|j: int| 0 <= j < n + 1 implies stored(c2, #[trigger] out2[j], a[j], p) by {
            if j < n {
                assert(out2[j] == out[j]);
                assert forall|x: Seq<char>| #[trigger] kin(a[j], p, x) implies c2.contains_key(x) && c2[x] == c1[x] by {
                    assert(kin_upto(a, p, n, x));
                    assert(!kin(a[n], p, x));
                    assert(same_at(c1, c2, x));
                }
                lemma_stored_frame(c1, c2, out[j], a[j], p);
            } else {
                assert(wf(a[n], p));
            }
        }
    }
}
pub proof fn lemma_fl_arr_done(c0: Coll, c: Coll, a: Seq<JV>, p: Path, out: Seq<JV>)
    requires fl_arr_inv(c0, c, a, p, a.len() as int, out),
    ensures flat_post(c0, c, JV::Arr(a), p, JV::Arr(out)),
{
    let v = JV::Arr(a);
    assert(v->Arr_0 == a); assert(JV::Arr(out)->Arr_0 == out);
    assert forall|x: Seq<char>| kin(v, p, x) == kin_upto(a, p, a.len() as int, x) by { }
    assert forall|x: Seq<char>| !kin(v, p, x) implies same_at(c0, c, x) by { assert(!kin_upto(a, p, a.len() as int, x)); }
    assert forall|x: Seq<char>| #[trigger] kin(v, p, x) implies c.contains_key(x) by { assert(kin_upto(a, p, a.len() as int, x)); }
}

// ---------------------------------------------------------------- flatten, object arm: the loop over the members
pub open spec fn ekeys(ents: Seq<(&String, &Value)>) -> Seq<Seq<char>> { ents.map_values(|e: (&String, &Value)| e.0@) }
pub open spec fn keys_ok(keys: Seq<Seq<char>>, o: Obj) -> bool {
    &&& forall|i: int| 0 <= i < keys.len() ==> o.contains_key(#[trigger] keys[i])
    &&& forall|k: Seq<char>| o.contains_key(k) ==> exists|i: int| 0 <= i < keys.len() && #[trigger] keys[i] == k
    &&& forall|i: int, j: int| 0 <= i < j < keys.len() ==> #[trigger] keys[i] != #[trigger] keys[j]
}
pub proof fn lemma_ekeys(ents: Seq<(&String, &Value)>, o: Obj)
    requires ents_ok(ents, o),
    ensures keys_ok(ekeys(ents), o), ekeys(ents).len() == ents.len(), forall|i: int| 0 <= i < ents.len() ==> #[trigger] ekeys(ents)[i] == ents[i].0@,
{
    let keys = ekeys(ents);
    assert forall|k: Seq<char>| o.contains_key(k) implies exists|i: int| 0 <= i < keys.len() && #[trigger] keys[i] == k by {
        let i = choose|i: int| 0 <= i < ents.len() && #[trigger] ents[i].0@ == k;
        assert(keys[i] == k);
    }
}
/// member `k` was among the first `n` members visited
pub open spec fn done(keys: Seq<Seq<char>>, n: int, k: Seq<char>) -> bool { exists|j: int| 0 <= j < n && #[trigger] keys[j] == k }
pub open spec fn kin_done(o: Obj, p: Path, keys: Seq<Seq<char>>, n: int, x: Seq<char>) -> bool {
    exists|k: Seq<char>| done(keys, n, k) && #[trigger] tracked(o, k) && kin_field(o[k], oid(o, p), k, p, x)
}
pub open spec fn field_shape(fr: JV, fv: JV, u: Seq<char>, k: Seq<char>, p: Path) -> bool {
    if fv is Arr { fr == JV::Str(dkey(u, k)) } else { ret_shape(fv, fld_path(p, u, k), fr) }
}
pub open spec fn fl_obj_inv(c0: Coll, c: Coll, o: Obj, p: Path, keys: Seq<Seq<char>>, n: int, no: Obj) -> bool {
    let u = oid(o, p);
    &&& 0 <= n <= keys.len()
    &&& forall|k: Seq<char>| #[trigger] no.contains_key(k) <==> (done(keys, n, k) && k != ID_FIELD@)
    &&& forall|k: Seq<char>| #[trigger] done(keys, n, k) && k != ID_FIELD@ && !is_ff(k) ==> no[k] == o[k]
    &&& forall|x: Seq<char>| #[trigger] c0.contains_key(x) ==> c.contains_key(x)
    &&& forall|x: Seq<char>| #![trigger kin_done(o, p, keys, n, x)] #![trigger same_at(c0, c, x)] !kin_done(o, p, keys, n, x) ==> same_at(c0, c, x)
    &&& forall|x: Seq<char>| #[trigger] kin_done(o, p, keys, n, x) ==> c.contains_key(x)
    &&& forall|k: Seq<char>| #[trigger] done(keys, n, k) && tracked(o, k) ==> field_shape(no[k], o[k], u, k, p)
    &&& (wf(JV::Obj(o), p) ==> forall|k: Seq<char>| #[trigger] done(keys, n, k) && tracked(o, k) ==> field_stored(c, no[k], o[k], u, k, p))
}
/// one iteration of the member loop on member `k`: collection `c1` -> `c2`, object under construction `no` -> `no2`
/// (`cm`, `r`: collection after / result of the recursive call on a tracked member)
pub open spec fn fl_obj_step_ex(c1: Coll, c2: Coll, o: Obj, p: Path, k: Seq<char>, no: Obj, no2: Obj) -> bool {
    let u = oid(o, p);
    if k == ID_FIELD@ { c2 == c1 && no2 == no }
    else if !is_ff(k) { c2 == c1 && no2 == no.insert(k, o[k]) }
    else {
        exists|cm: Coll, r: JV| #[trigger] flat_post(c1, cm, o[k], fld_path(p, u, k), r)
            && if r is Arr {
                c2 == cm.insert(dkey(u, k), Map::<Seq<char>, JV>::empty().insert(ARRAY_DESCRIPTOR_ORDER_FIELD@, r)) && no2 == no.insert(k, JV::Str(dkey(u, k)))
            } else {
                c2 == cm && no2 == no.insert(k, r)
            }
    }
}
pub proof fn lemma_done_step(keys: Seq<Seq<char>>, n: int, k: Seq<char>)
    requires 0 <= n < keys.len(),
    ensures done(keys, n + 1, k) <==> (done(keys, n, k) || k == keys[n]),
{
    if done(keys, n, k) { let j = choose|j: int| 0 <= j < n && #[trigger] keys[j] == k; assert(keys[j] == k && j < n + 1); }
    if k == keys[n] { assert(keys[n] == k); }
}
pub proof fn lemma_fl_obj_step(c0: Coll, c1: Coll, c2: Coll, o: Obj, p: Path, keys: Seq<Seq<char>>, n: int, no: Obj, no2: Obj)
    requires fl_obj_inv(c0, c1, o, p, keys, n, no), keys_ok(keys, o), n < keys.len(), fl_obj_step_ex(c1, c2, o, p, keys[n], no, no2),
    ensures fl_obj_inv(c0, c2, o, p, keys, n + 1, no2),
{
    let u = oid(o, p);
    let k = keys[n];
    assert(JV::Obj(o)->Obj_0 == o);
    let (cm, r) = choose|cm: Coll, r: JV| #[trigger] flat_post(c1, cm, o[k], fld_path(p, u, k), r)
            && if r is Arr {
                c2 == cm.insert(dkey(u, k), Map::<Seq<char>, JV>::empty().insert(ARRAY_DESCRIPTOR_ORDER_FIELD@, r)) && no2 == no.insert(k, JV::Str(dkey(u, k)))
            } else {
                c2 == cm && no2 == no.insert(k, r)
            };
    let v = JV::Obj(o);
    assert forall|k2: Seq<char>| done(keys, n + 1, k2) <==> (done(keys, n, k2) || k2 == k) by { lemma_done_step(keys, n, k2); }
    assert(!done(keys, n, k)) by { if done(keys, n, k) { let j = choose|j: int| 0 <= j < n && #[trigger] keys[j] == k; assert(keys[j] != keys[n]); } }
    assert(o.contains_key(k));
    if k == ID_FIELD@ || !is_ff(k) {
        assert(!tracked(o, k));
        assert forall|x: Seq<char>| kin_done(o, p, keys, n + 1, x) == kin_done(o, p, keys, n, x) by {
            if kin_done(o, p, keys, n + 1, x) {
                let k2 = choose|k2: Seq<char>| done(keys, n + 1, k2) && #[trigger] tracked(o, k2) && kin_field(o[k2], oid(o, p), k2, p, x);
                assert(done(keys, n, k2));
            }
            if kin_done(o, p, keys, n, x) {
                let k2 = choose|k2: Seq<char>| done(keys, n, k2) && #[trigger] tracked(o, k2) && kin_field(o[k2], oid(o, p), k2, p, x);
                assert(done(keys, n + 1, k2));
            }
        }
        assert forall|x: Seq<char>| !kin_done(o, p, keys, n + 1, x) implies #[trigger] same_at(c0, c2, x) by { assert(same_at(c0, c1, x)); }
        assert forall|k2: Seq<char>| #[trigger] done(keys, n + 1, k2) && tracked(o, k2) implies field_shape(no2[k2], o[k2], u, k2, p) by { assert(done(keys, n, k2)); }
        if wf(v, p) {
            assert forall|k2: Seq<char>| #[trigger] done(keys, n + 1, k2) && tracked(o, k2) implies field_stored(c2, no2[k2], o[k2], u, k2, p) by { assert(done(keys, n, k2)); }
        }
    } else {
        assert(tracked(o, k));
        let pk = fld_path(p, u, k);
        assert(flat_post(c1, cm, o[k], pk, r));
        assert((r is Arr) == (o[k] is Arr));
        let isarr = o[k] is Arr;
        assert forall|x: Seq<char>| #[trigger] cm.contains_key(x) implies c2.contains_key(x) by { }
        assert forall|x: Seq<char>| !kin_done(o, p, keys, n + 1, x) implies #[trigger] same_at(c0, c2, x) by {
            if kin_done(o, p, keys, n, x) {
                let k2 = choose|k2: Seq<char>| done(keys, n, k2) && #[trigger] tracked(o, k2) && kin_field(o[k2], oid(o, p), k2, p, x);
                assert(done(keys, n + 1, k2));
            }
            if kin_field(o[k], u, k, p, x) { assert(done(keys, n + 1, k)); assert(tracked(o, k)); }
            assert(same_at(c0, c1, x)); assert(same_at(c1, cm, x));
        }
        assert forall|x: Seq<char>| #[trigger] kin_done(o, p, keys, n + 1, x) implies c2.contains_key(x) by {
            let k2 = choose|k2: Seq<char>| done(keys, n + 1, k2) && #[trigger] tracked(o, k2) && kin_field(o[k2], oid(o, p), k2, p, x);
            if k2 == k {
                if kin(o[k], pk, x) { assert(cm.contains_key(x)); }
            } else {
                assert(done(keys, n, k2)); assert(kin_done(o, p, keys, n, x)); assert(c1.contains_key(x)); assert(cm.contains_key(x));
            }
        }
        assert forall|k2: Seq<char>| #[trigger] done(keys, n + 1, k2) && tracked(o, k2) implies field_shape(no2[k2], o[k2], u, k2, p) by {
            if k2 != k { assert(done(keys, n, k2)); assert(no2[k2] == no[k2]); }
        }
        if wf(v, p) {
            assert(wf(o[k], pk));
            assert(stored(cm, r, o[k], pk));
            assert forall|k2: Seq<char>| #[trigger] done(keys, n + 1, k2) && tracked(o, k2) implies field_stored(c2, no2[k2], o[k2], u, k2, p) by {
                if k2 != k {
                    assert(done(keys, n, k2)); assert(no2[k2] == no[k2]);
                    assert forall|x: Seq<char>| #[trigger] kin_field(o[k2], u, k2, p, x) implies c2.contains_key(x) && c2[x] == c1[x] by {
                        assert(kin_done(o, p, keys, n, x));
                        assert(!kin_field(o[k], u, k, p, x));
                        assert(same_at(c1, cm, x));
                    }
                    lemma_field_stored_frame(c1, c2, no[k2], o[k2], u, k2, p);
                } else {
                    if isarr {
                        assert forall|x: Seq<char>| #[trigger] kin(o[k], pk, x) implies c2.contains_key(x) && c2[x] == cm[x] by { }
                        lemma_stored_frame(cm, c2, r, o[k], pk);
                        let d = Map::<Seq<char>, JV>::empty().insert(ARRAY_DESCRIPTOR_ORDER_FIELD@, r);
                        assert(c2[dkey(u, k)] == d);
                        assert(desc_shape(d));
                    }
                }
            }
        }
    }
    assert(forall|k2: Seq<char>| #[trigger] no2.contains_key(k2) <==> (done(keys, n + 1, k2) && k2 != ID_FIELD@));
    assert forall|k2: Seq<char>| #[trigger] done(keys, n + 1, k2) && k2 != ID_FIELD@ && !is_ff(k2) implies no2[k2] == o[k2] by {
        lemma_done_step(keys, n, k2);
        if k2 != k { assert(done(keys, n, k2)); assert(no2[k2] == no[k2]); }
    }
    assert(forall|x: Seq<char>| #[trigger] c0.contains_key(x) ==> c2.contains_key(x));
    assert(forall|x: Seq<char>| !kin_done(o, p, keys, n + 1, x) ==> #[trigger] same_at(c0, c2, x));
    assert forall|x: Seq<char>| #[trigger] kin_done(o, p, keys, n + 1, x) implies c2.contains_key(x) by {
        let k2 = choose|k2: Seq<char>| done(keys, n + 1, k2) && #[trigger] tracked(o, k2) && kin_field(o[k2], oid(o, p), k2, p, x);
        lemma_done_step(keys, n, k2);
        if k2 != k { assert(done(keys, n, k2)); assert(kin_done(o, p, keys, n, x)); assert(c1.contains_key(x)); }
    }
    assert(forall|k2: Seq<char>| #[trigger] done(keys, n + 1, k2) && tracked(o, k2) ==> field_shape(no2[k2], o[k2], u, k2, p));
    assert(wf(v, p) ==> forall|k2: Seq<char>| #[trigger] done(keys, n + 1, k2) && tracked(o, k2) ==> field_stored(c2, no2[k2], o[k2], u, k2, p));
}
pub proof fn lemma_fl_obj_done(c0: Coll, c: Coll, o: Obj, p: Path, keys: Seq<Seq<char>>, no: Obj)
    requires fl_obj_inv(c0, c, o, p, keys, keys.len() as int, no), keys_ok(keys, o),
    ensures flat_post(c0, c.insert(oid(o, p), no), JV::Obj(o), p, JV::Str(oid(o, p))),
{
    let u = oid(o, p);
    let v = JV::Obj(o);
    let c2 = c.insert(u, no);
    let n = keys.len() as int;
    assert(v->Obj_0 == o);
    assert forall|k: Seq<char>| o.contains_key(k) implies done(keys, n, k) by {
        let i = choose|i: int| 0 <= i < keys.len() && #[trigger] keys[i] == k; assert(keys[i] == k);
    }
    assert forall|k: Seq<char>| done(keys, n, k) implies o.contains_key(k) by {
        let i = choose|i: int| 0 <= i < n && #[trigger] keys[i] == k;
    }
    assert forall|x: Seq<char>| kin(v, p, x) <==> (x == u || kin_done(o, p, keys, n, x)) by {
        if kin(v, p, x) && x != u {
            let k = choose|k: Seq<char>| #[trigger] tracked(o, k) && ((o[k] is Arr && x == dkey(oid(o, p), k)) || kin(o[k], fld_path(p, oid(o, p), k), x));
            assert(done(keys, n, k)); assert(kin_field(o[k], u, k, p, x));
        }
        if kin_done(o, p, keys, n, x) {
            let k = choose|k: Seq<char>| done(keys, n, k) && #[trigger] tracked(o, k) && kin_field(o[k], oid(o, p), k, p, x);
            assert(tracked(o, k));
        }
    }
    assert forall|x: Seq<char>| !kin(v, p, x) implies same_at(c0, c2, x) by { assert(same_at(c0, c, x)); }
    assert forall|x: Seq<char>| #[trigger] kin(v, p, x) implies c2.contains_key(x) by { if x != u { assert(kin_done(o, p, keys, n, x)); } }
    if wf(v, p) {
        assert forall|k: Seq<char>| #[trigger] tracked(o, k) implies field_stored(c2, c2[u][k], o[k], u, k, p) by {
            assert(done(keys, n, k));
            assert forall|x: Seq<char>| #[trigger] kin_field(o[k], u, k, p, x) implies c2.contains_key(x) && c2[x] == c[x] by {
                assert(kin_done(o, p, keys, n, x));
                assert(x != u);
            }
            lemma_field_stored_frame(c, c2, no[k], o[k], u, k, p);
        }
        assert forall|k: Seq<char>| #[trigger] o.contains_key(k) && k != ID_FIELD@ && !is_ff(k) implies c2[u][k] == o[k] by { assert(done(keys, n, k)); }
        assert(stored(c2, JV::Str(u), v, p));
    }
}

// ================================================================ L3: reading a document back from a flat collection
/// references are told apart by their first character; a stored OBJECT is passed around as an object
pub open spec fn rank(r: JV) -> int { if r is Str { 1 } else { 0 } }
/// the element order held by the array descriptor `dk`
pub open spec fn ord_of(c: Coll, dk: Seq<char>) -> Seq<JV> { c[dk][ARRAY_DESCRIPTOR_ORDER_FIELD@]->Arr_0 }
/// the order entry `e` of descriptor `dk` names a stored object: a string, other than the descriptor's own identifier (the
/// descriptor is taken out first), present in the collection
pub open spec fn live_entry(c: Coll, dk: Seq<char>, e: JV) -> bool { e is Str && e->Str_0 != dk && c.contains_key(e->Str_0) }
/// the order entries that name stored objects, in order: every other entry — not a string, or the identifier of a deleted /
/// missing object — is DROPPED by the reader
pub open spec fn live(c: Coll, dk: Seq<char>, ord: Seq<JV>) -> Seq<JV>
    decreases ord.len()
{
    if ord.len() == 0 { Seq::<JV>::empty() }
    else {
        let r = live(c, dk, ord.drop_last());
        if live_entry(c, dk, ord.last()) { r.push(ord.last()) } else { r }
    }
}
/// the live entries of the order array of descriptor `dk`
pub open spec fn lord(c: Coll, dk: Seq<char>) -> Seq<JV> { live(c, dk, ord_of(c, dk)) }

pub proof fn lemma_live_step(c: Coll, dk: Seq<char>, ord: Seq<JV>, n: int)
    requires 0 <= n < ord.len(),
    ensures
        live_entry(c, dk, ord[n]) ==> live(c, dk, ord.take(n + 1)) == live(c, dk, ord.take(n)).push(ord[n]),
        !live_entry(c, dk, ord[n]) ==> live(c, dk, ord.take(n + 1)) == live(c, dk, ord.take(n)),
{
    assert(ord.take(n + 1).drop_last() =~= ord.take(n));
    assert(ord.take(n + 1).last() == ord[n]);
}
/// the live entries of a prefix are a prefix of the live entries
pub proof fn lemma_live_prefix(c: Coll, dk: Seq<char>, ord: Seq<JV>, n: int)
    requires 0 <= n <= ord.len(),
    ensures
        live(c, dk, ord.take(n)).len() <= live(c, dk, ord).len(),
        forall|j: int| 0 <= j < live(c, dk, ord.take(n)).len() ==> #[trigger] live(c, dk, ord)[j] == live(c, dk, ord.take(n))[j],
    decreases ord.len() - n
{
    if n == ord.len() { assert(ord.take(n) =~= ord); }
    else { lemma_live_prefix(c, dk, ord, n + 1); lemma_live_step(c, dk, ord, n); }
}
pub proof fn lemma_live_entries(c: Coll, dk: Seq<char>, ord: Seq<JV>)
    ensures forall|j: int| 0 <= j < live(c, dk, ord).len() ==> live_entry(c, dk, #[trigger] live(c, dk, ord)[j]),
    decreases ord.len()
{
    if ord.len() > 0 {
        lemma_live_entries(c, dk, ord.drop_last());
        let r = live(c, dk, ord.drop_last());
        assert forall|j: int| 0 <= j < live(c, dk, ord).len() implies live_entry(c, dk, #[trigger] live(c, dk, ord)[j]) by {
            if j < r.len() { assert(live(c, dk, ord)[j] == r[j]); }
        }
    }
}
/// a live entry at raw position `n` is the live entry number `live(prefix n).len()`
pub proof fn lemma_live_member(c: Coll, dk: Seq<char>, ord: Seq<JV>, n: int)
    requires 0 <= n < ord.len(), live_entry(c, dk, ord[n]),
    ensures live(c, dk, ord.take(n)).len() < live(c, dk, ord).len(), live(c, dk, ord)[live(c, dk, ord.take(n)).len() as int] == ord[n],
{
    lemma_live_step(c, dk, ord, n);
    lemma_live_prefix(c, dk, ord, n + 1);
    let m = live(c, dk, ord.take(n)).len() as int;
    assert(live(c, dk, ord.take(n + 1))[m] == ord[n]);
}
/// in a sub-collection that still has every live entry, the same entries are live
pub proof fn lemma_live_sub(c: Coll, c2: Coll, dk: Seq<char>, ord: Seq<JV>)
    requires sub(c2, c), forall|j: int| 0 <= j < ord.len() && live_entry(c, dk, #[trigger] ord[j]) ==> c2.contains_key(ord[j]->Str_0),
    ensures live(c2, dk, ord) == live(c, dk, ord),
    decreases ord.len()
{
    if ord.len() > 0 {
        let pre = ord.drop_last();
        assert forall|j: int| 0 <= j < pre.len() && live_entry(c, dk, #[trigger] pre[j]) implies c2.contains_key(pre[j]->Str_0) by { assert(pre[j] == ord[j]); }
        lemma_live_sub(c, c2, dk, pre);
        assert(ord.last() == ord[ord.len() - 1]);
    }
}
/// when every entry names a stored object, nothing is dropped
pub proof fn lemma_live_all(c: Coll, dk: Seq<char>, ord: Seq<JV>)
    requires forall|j: int| 0 <= j < ord.len() ==> live_entry(c, dk, #[trigger] ord[j]),
    ensures live(c, dk, ord) == ord,
    decreases ord.len()
{
    if ord.len() > 0 {
        let pre = ord.drop_last();
        assert forall|j: int| 0 <= j < pre.len() implies live_entry(c, dk, #[trigger] pre[j]) by { assert(pre[j] == ord[j]); }
        lemma_live_all(c, dk, pre);
        assert(ord.last() == ord[ord.len() - 1]);
        assert(pre.push(ord.last()) =~= ord);
    }
}

/// FOOTPRINT: `x` is a key of the collection that reading the document `v` from the reference `r` uses:
/// the descriptor and the element identifiers of an array, the identifier of an object, and what their contents use
pub open spec fn in_fp(c: Coll, r: JV, v: JV, x: Seq<char>) -> bool
    decreases v, rank(r)
{
    match v {
        JV::Arr(a) => match r {
            JV::Str(dk) => x == dk || exists|i: int| #![trigger a[i]] #![trigger lord(c, dk)[i]] 0 <= i < a.len()
                && (x == lord(c, dk)[i]->Str_0 || in_fp(c, JV::Obj(c[lord(c, dk)[i]->Str_0]), a[i], x)),
            JV::Arr(rs) => exists|i: int| 0 <= i < a.len() && in_fp(c, rs[i], #[trigger] a[i], x),
            _ => false,
        },
        JV::Obj(o) => match r {
            JV::Str(id) => x == id || in_fp(c, JV::Obj(c[id]), v, x),
            JV::Obj(s) => exists|k: Seq<char>| #[trigger] o.contains_key(k) && is_ff(k) && in_fp(c, s[k], o[k], x),
            _ => false,
        },
        _ => false,
    }
}
/// footprint of the array element named by the order entry `e` (read as `w`): its identifier and what its content uses
pub open spec fn fpo(c: Coll, e: JV, w: JV, x: Seq<char>) -> bool { x == e->Str_0 || in_fp(c, JV::Obj(c[e->Str_0]), w, x) }

/// L3, the flat format read back: `v` is the document the collection `c` holds at the reference `r`, each entry used ONCE:
///  * an escaped string reads as the string; null / booleans / numbers as themselves;
///  * a bare identifier (neither marker) present in the collection reads as the object stored under it; an identifier
///    MISSING from the collection reads as null;
///  * a stored object reads member by member: members with the flatten suffix through their references, the others
///    verbatim — same key set; the members use pairwise disjoint entries;
///  * a descriptor reference reads as the array of the objects its order field names, in that order; entries that do not
///    name a stored object (not a string, or the identifier of a deleted / missing object) are DROPPED (`live`); elements
///    use pairwise disjoint entries, none uses the descriptor or its own identifier again;
///  * an inline array reads element by element.
pub open spec fn reads(c: Coll, r: JV, v: JV) -> bool
    decreases v, rank(r)
{
    match v {
        JV::Str(s) => r == JV::Str(esc(s)),
        JV::Arr(a) => match r {
            JV::Str(dk) => {
                let ord = lord(c, dk);
                &&& !is_esc(dk) && is_ad(dk)
                &&& c.contains_key(dk) && c[dk].contains_key(ARRAY_DESCRIPTOR_ORDER_FIELD@) && c[dk][ARRAY_DESCRIPTOR_ORDER_FIELD@] is Arr
                &&& ord.len() == a.len()
                &&& forall|i: int| 0 <= i < a.len() ==> {
                        &&& (#[trigger] a[i]) is Obj
                        &&& ord[i] is Str && c.contains_key(ord[i]->Str_0) && ord[i]->Str_0 != dk
                        &&& reads(c, JV::Obj(c[ord[i]->Str_0]), a[i])
                        &&& !in_fp(c, JV::Obj(c[ord[i]->Str_0]), a[i], ord[i]->Str_0)
                        &&& !in_fp(c, JV::Obj(c[ord[i]->Str_0]), a[i], dk)
                    }
                &&& forall|i: int, j: int, x: Seq<char>| 0 <= i < j < a.len() ==> !(#[trigger] fpo(c, ord[i], a[i], x) && #[trigger] fpo(c, ord[j], a[j], x))
            }
            JV::Arr(rs) => {
                &&& rs.len() == a.len()
                &&& forall|i: int| 0 <= i < a.len() ==> reads(c, rs[i], #[trigger] a[i])
                &&& forall|i: int, j: int, x: Seq<char>| 0 <= i < j < a.len() ==> !(#[trigger] in_fp(c, rs[i], a[i], x) && #[trigger] in_fp(c, rs[j], a[j], x))
            }
            _ => false,
        },
        JV::Obj(o) => match r {
            JV::Str(id) => plain(id) && c.contains_key(id) && reads(c, JV::Obj(c[id]), v) && !in_fp(c, JV::Obj(c[id]), v, id),
            JV::Obj(s) => {
                &&& forall|k: Seq<char>| s.contains_key(k) <==> #[trigger] o.contains_key(k)
                &&& forall|k: Seq<char>| #[trigger] o.contains_key(k) ==> if is_ff(k) { reads(c, s[k], o[k]) } else { o[k] == s[k] }
                &&& forall|k1: Seq<char>, k2: Seq<char>, x: Seq<char>| o.contains_key(k1) && is_ff(k1) && o.contains_key(k2) && is_ff(k2) && k1 != k2 ==>
                        !(#[trigger] in_fp(c, s[k1], o[k1], x) && #[trigger] in_fp(c, s[k2], o[k2], x))
            }
            _ => false,
        },
        JV::Null => r == JV::Null || (r is Str && plain(r->Str_0) && !c.contains_key(r->Str_0)),
        _ => r == v,
    }
}
/// precondition of unflatten (the three `panic!` sites: unknown descriptor, descriptor without order field, order not an
/// array — R22): SOME document is readable at the reference; in particular every descriptor reference reached is present
/// with an order array, and no entry is needed twice (a descriptor consumed by one reference would be unknown to the next)
pub open spec fn readable(c: Coll, r: JV) -> bool { exists|v: JV| reads(c, r, v) }
pub open spec fn descriptors_present(c: Coll, r: JV) -> bool { readable(c, r) }
/// sub-collection
pub open spec fn sub(a: Coll, b: Coll) -> bool { forall|k: Seq<char>| #[trigger] a.contains_key(k) ==> b.contains_key(k) && b[k] == a[k] }
/// "consumes what it uses": afterwards exactly the entries outside the footprint are left, unchanged
pub open spec fn consumed(c0: Coll, c1: Coll, r: JV, v: JV) -> bool {
    &&& forall|x: Seq<char>| #[trigger] c1.contains_key(x) <==> (c0.contains_key(x) && !in_fp(c0, r, v, x))
    &&& forall|x: Seq<char>| #[trigger] c1.contains_key(x) ==> c1[x] == c0[x]
}
/// L3, the contract of unflatten(c, r) -> Some(v), collection before `c0` and after `c1`
pub open spec fn un_post(c0: Coll, c1: Coll, r: JV, v: JV) -> bool { reads(c0, r, v) && consumed(c0, c1, r, v) }

pub proof fn lemma_sub_len(c: Coll, c0: Coll)
    requires sub(c, c0),
    ensures c.dom().len() <= c0.dom().len(),
{
    assert(c.dom().subset_of(c0.dom())) by { assert forall|k: Seq<char>| c.dom().contains(k) implies c0.dom().contains(k) by { assert(c.contains_key(k)); } }
    vstd::set_lib::lemma_len_subset(c.dom(), c0.dom());
}
pub proof fn lemma_sub_len_strict(c: Coll, c0: Coll, k: Seq<char>)
    requires sub(c, c0), c0.contains_key(k), !c.contains_key(k),
    ensures c.dom().len() < c0.dom().len(),
{
    let d = c0.dom().remove(k);
    assert(c.dom().subset_of(d)) by { assert forall|x: Seq<char>| c.dom().contains(x) implies d.contains(x) by { assert(c.contains_key(x)); } }
    vstd::set_lib::lemma_len_subset(c.dom(), d);
}

/// the footprint of a readable reference lies inside the collection
pub proof fn lemma_fp_in_dom(c: Coll, r: JV, v: JV, x: Seq<char>)
    requires reads(c, r, v), in_fp(c, r, v, x),
    ensures c.contains_key(x),
    decreases v, rank(r)
{
    match v {
        JV::Arr(a) => match r {
            JV::Str(dk) => {
                if x != dk {
                    let i = choose|i: int| #![trigger a[i]] #![trigger lord(c, dk)[i]] 0 <= i < a.len() && (x == lord(c, dk)[i]->Str_0 || in_fp(c, JV::Obj(c[lord(c, dk)[i]->Str_0]), a[i], x));
                    lemma_dec_arr(v, i);
                    if x != lord(c, dk)[i]->Str_0 { lemma_fp_in_dom(c, JV::Obj(c[lord(c, dk)[i]->Str_0]), a[i], x); }
                }
            }
            JV::Arr(rs) => {
                let i = choose|i: int| 0 <= i < a.len() && in_fp(c, rs[i], #[trigger] a[i], x);
                lemma_dec_arr(v, i);
                lemma_fp_in_dom(c, rs[i], a[i], x);
            }
            _ => {}
        },
        JV::Obj(o) => match r {
            JV::Str(id) => { if x != id { lemma_fp_in_dom(c, JV::Obj(c[id]), v, x); } }
            JV::Obj(s) => {
                let k = choose|k: Seq<char>| #[trigger] o.contains_key(k) && is_ff(k) && in_fp(c, s[k], o[k], x);
                lemma_dec_obj(v, k);
                lemma_fp_in_dom(c, s[k], o[k], x);
            }
            _ => {}
        },
        _ => {}
    }
}

/// FRAME for `reads`: a sub-collection that still has the whole footprint holds the same document with the same footprint
pub proof fn lemma_reads_frame(c: Coll, c2: Coll, r: JV, v: JV)
    requires reads(c, r, v), sub(c2, c), forall|x: Seq<char>| #[trigger] in_fp(c, r, v, x) ==> c2.contains_key(x),
    ensures reads(c2, r, v), forall|x: Seq<char>| #[trigger] in_fp(c2, r, v, x) == in_fp(c, r, v, x),
    decreases v, rank(r)
{
    match v {
        JV::Arr(a) => match r {
            JV::Str(dk) => {
                let ord = lord(c, dk);
                assert(in_fp(c, r, v, dk));
                assert(c2.contains_key(dk) && c2[dk] == c[dk]);
                let raw = ord_of(c, dk);
                assert(ord_of(c2, dk) == raw);
                assert forall|j: int| 0 <= j < raw.len() && live_entry(c, dk, #[trigger] raw[j]) implies c2.contains_key(raw[j]->Str_0) by {
                    lemma_live_member(c, dk, raw, j);
                    let m = live(c, dk, raw.take(j)).len() as int;
                    assert(0 <= m < a.len() && (raw[j]->Str_0 == lord(c, dk)[m]->Str_0 || in_fp(c, JV::Obj(c[lord(c, dk)[m]->Str_0]), a[m], raw[j]->Str_0)));
                    assert(in_fp(c, r, v, raw[j]->Str_0));
                }
                lemma_live_sub(c, c2, dk, raw);
                assert(lord(c2, dk) == ord);
                assert forall|i: int| 0 <= i < a.len() implies
                    c2.contains_key(ord[i]->Str_0) && c2[ord[i]->Str_0] == c[ord[i]->Str_0]
                    && reads(c2, JV::Obj(c[ord[i]->Str_0]), #[trigger] a[i])
                    && (forall|x: Seq<char>| #[trigger] in_fp(c2, JV::Obj(c[ord[i]->Str_0]), a[i], x) == in_fp(c, JV::Obj(c[ord[i]->Str_0]), a[i], x)) by {
                    let id = ord[i]->Str_0;
                    assert(in_fp(c, r, v, id));
                    assert forall|x: Seq<char>| #[trigger] in_fp(c, JV::Obj(c[id]), a[i], x) implies c2.contains_key(x) by { assert(in_fp(c, r, v, x)); }
                    lemma_dec_arr(v, i);
                    lemma_reads_frame(c, c2, JV::Obj(c[id]), a[i]);
                }
                assert forall|i: int, x: Seq<char>| 0 <= i < a.len() implies #[trigger] fpo(c2, ord[i], a[i], x) == fpo(c, ord[i], a[i], x) by { }
                assert forall|x: Seq<char>| #[trigger] in_fp(c2, r, v, x) == in_fp(c, r, v, x) by {
                    if in_fp(c, r, v, x) && x != dk {
                        let i = choose|i: int| #![trigger a[i]] #![trigger ord[i]] 0 <= i < a.len() && (x == ord[i]->Str_0 || in_fp(c, JV::Obj(c[ord[i]->Str_0]), a[i], x));
                        assert(fpo(c2, ord[i], a[i], x));
                    }
                    if in_fp(c2, r, v, x) && x != dk {
                        let i = choose|i: int| #![trigger a[i]] #![trigger ord[i]] 0 <= i < a.len() && (x == ord[i]->Str_0 || in_fp(c2, JV::Obj(c2[ord[i]->Str_0]), a[i], x));
                        assert(fpo(c, ord[i], a[i], x));
                    }
                }
            }
            JV::Arr(rs) => {
                assert forall|i: int| 0 <= i < a.len() implies reads(c2, rs[i], #[trigger] a[i])
                    && (forall|x: Seq<char>| #[trigger] in_fp(c2, rs[i], a[i], x) == in_fp(c, rs[i], a[i], x)) by {
                    assert forall|x: Seq<char>| #[trigger] in_fp(c, rs[i], a[i], x) implies c2.contains_key(x) by { assert(in_fp(c, r, v, x)); }
                    lemma_dec_arr(v, i);
                    lemma_reads_frame(c, c2, rs[i], a[i]);
                }
                assert forall|x: Seq<char>| #[trigger] in_fp(c2, r, v, x) == in_fp(c, r, v, x) by {
                    if in_fp(c, r, v, x) { let i = choose|i: int| 0 <= i < a.len() && in_fp(c, rs[i], #[trigger] a[i], x); assert(in_fp(c2, rs[i], a[i], x)); }
                    if in_fp(c2, r, v, x) { let i = choose|i: int| 0 <= i < a.len() && in_fp(c2, rs[i], #[trigger] a[i], x); assert(in_fp(c, rs[i], a[i], x)); }
                }
            }
            _ => {}
        },
        JV::Obj(o) => match r {
            JV::Str(id) => {
                assert(in_fp(c, r, v, id));
                assert(c2.contains_key(id) && c2[id] == c[id]);
                assert forall|x: Seq<char>| #[trigger] in_fp(c, JV::Obj(c[id]), v, x) implies c2.contains_key(x) by { assert(in_fp(c, r, v, x)); }
                lemma_reads_frame(c, c2, JV::Obj(c[id]), v);
                assert forall|x: Seq<char>| #[trigger] in_fp(c2, r, v, x) == in_fp(c, r, v, x) by {
                    assert(in_fp(c2, r, v, x) == (x == id || in_fp(c2, JV::Obj(c2[id]), v, x)));
                    assert(in_fp(c, r, v, x) == (x == id || in_fp(c, JV::Obj(c[id]), v, x)));
                    assert(in_fp(c2, JV::Obj(c[id]), v, x) == in_fp(c, JV::Obj(c[id]), v, x));
                }
            }
            JV::Obj(s) => {
                assert forall|k: Seq<char>| #[trigger] o.contains_key(k) && is_ff(k) implies reads(c2, s[k], o[k])
                    && (forall|x: Seq<char>| #[trigger] in_fp(c2, s[k], o[k], x) == in_fp(c, s[k], o[k], x)) by {
                    assert forall|x: Seq<char>| #[trigger] in_fp(c, s[k], o[k], x) implies c2.contains_key(x) by { assert(in_fp(c, r, v, x)); }
                    lemma_dec_obj(v, k);
                    lemma_reads_frame(c, c2, s[k], o[k]);
                }
                assert forall|x: Seq<char>| #[trigger] in_fp(c2, r, v, x) == in_fp(c, r, v, x) by {
                    if in_fp(c, r, v, x) { let k = choose|k: Seq<char>| #[trigger] o.contains_key(k) && is_ff(k) && in_fp(c, s[k], o[k], x); assert(in_fp(c2, s[k], o[k], x)); }
                    if in_fp(c2, r, v, x) { let k = choose|k: Seq<char>| #[trigger] o.contains_key(k) && is_ff(k) && in_fp(c2, s[k], o[k], x); assert(in_fp(c, s[k], o[k], x)); }
                }
            }
            _ => {}
        },
        JV::Null => { if r != JV::Null { assert(!c2.contains_key(r->Str_0)); } }
        _ => {}
    }
}

/// what a string reference can read as (first-character dispatch)
pub proof fn lemma_reads_str_cases(c: Coll, s: Seq<char>, w: JV)
    requires reads(c, JV::Str(s), w),
    ensures
        is_esc(s) ==> w == JV::Str(unesc(s)),
        !is_esc(s) && is_ad(s) ==> w is Arr,
        plain(s) && c.contains_key(s) ==> w is Obj,
        plain(s) && !c.contains_key(s) ==> w == JV::Null,
{
    lemma_constants();
    match w {
        JV::Str(t) => { lemma_escape_inverse(t); }
        _ => {}
    }
}

/// reading is DETERMINISTIC: a reference reads as at most one document
pub proof fn lemma_reads_unique(c: Coll, r: JV, v1: JV, v2: JV)
    requires reads(c, r, v1), reads(c, r, v2),
    ensures v1 == v2,
    decreases v1, rank(r)
{
    match r {
        JV::Str(s) => {
            lemma_reads_str_cases(c, s, v1); lemma_reads_str_cases(c, s, v2);
            if !is_esc(s) && is_ad(s) {
                let a1 = v1->Arr_0; let a2 = v2->Arr_0; let ord = lord(c, s);
                assert forall|i: int| 0 <= i < a1.len() implies a1[i] == a2[i] by {
                    lemma_dec_arr(v1, i);
                    lemma_reads_unique(c, JV::Obj(c[ord[i]->Str_0]), a1[i], a2[i]);
                }
                assert(a1 =~= a2);
            } else if plain(s) && c.contains_key(s) {
                lemma_reads_unique(c, JV::Obj(c[s]), v1, v2);
            }
        }
        JV::Arr(rs) => {
            lemma_constants();
            assert(v1 is Arr && v2 is Arr);
            let a1 = v1->Arr_0; let a2 = v2->Arr_0;
            assert forall|i: int| 0 <= i < a1.len() implies a1[i] == a2[i] by { lemma_dec_arr(v1, i); lemma_reads_unique(c, rs[i], a1[i], a2[i]); }
            assert(a1 =~= a2);
        }
        JV::Obj(s) => {
            assert(v1 is Obj && v2 is Obj);
            let o1 = v1->Obj_0; let o2 = v2->Obj_0;
            assert forall|k: Seq<char>| o1.contains_key(k) implies o2.contains_key(k) && o1[k] == o2[k] by {
                assert(s.contains_key(k)); assert(o2.contains_key(k));
                if is_ff(k) { lemma_dec_obj(v1, k); lemma_reads_unique(c, s[k], o1[k], o2[k]); }
            }
            assert forall|k: Seq<char>| o2.contains_key(k) implies o1.contains_key(k) by { assert(s.contains_key(k)); }
            assert(o1 =~= o2);
        }
        _ => {}
    }
}

pub open spec fn the_doc(c: Coll, r: JV) -> JV { choose|v: JV| reads(c, r, v) }

// ---------------------------------------------------------------- unflatten, descriptor reference: the loop over the order entries
pub open spec fn used_desc(c0: Coll, dk: Seq<char>, a: Seq<JV>, n: int, x: Seq<char>) -> bool {
    x == dk || exists|j: int| 0 <= j < n && #[trigger] fpo(c0, lord(c0, dk)[j], a[j], x)
}
pub open spec fn un_desc_inv(c0: Coll, c: Coll, dk: Seq<char>, a: Seq<JV>, n: int, out: Seq<JV>) -> bool {
    &&& 0 <= n <= a.len() && out.len() == n
    &&& forall|j: int| 0 <= j < n ==> #[trigger] out[j] == a[j]
    &&& forall|x: Seq<char>| #[trigger] c.contains_key(x) <==> (c0.contains_key(x) && !used_desc(c0, dk, a, n, x))
    &&& forall|x: Seq<char>| #[trigger] c.contains_key(x) ==> c[x] == c0[x]
}
pub proof fn lemma_un_desc_pre(c0: Coll, c: Coll, dk: Seq<char>, a: Seq<JV>, n: int, out: Seq<JV>)
    requires reads(c0, JV::Str(dk), JV::Arr(a)), un_desc_inv(c0, c, dk, a, n, out), n < a.len(),
    ensures ({
        let id = lord(c0, dk)[n]->Str_0;
        &&& lord(c0, dk)[n] is Str && c.contains_key(id) && c[id] == c0[id]
        &&& reads(c.remove(id), JV::Obj(c0[id]), a[n])
        &&& readable(c.remove(id), JV::Obj(c0[id]))
        &&& c.remove(id).dom().len() < c0.dom().len()
        &&& forall|x: Seq<char>| #[trigger] in_fp(c.remove(id), JV::Obj(c0[id]), a[n], x) == in_fp(c0, JV::Obj(c0[id]), a[n], x)
    }),
{
    let v = JV::Arr(a);
    assert(v->Arr_0 == a);
    let ord = lord(c0, dk);
    let id = ord[n]->Str_0;
    let e = JV::Obj(c0[id]);
    assert(a[n] is Obj && ord[n] is Str && c0.contains_key(id) && id != dk && reads(c0, e, a[n]));
    assert(fpo(c0, ord[n], a[n], id));
    assert(!used_desc(c0, dk, a, n, id)) by {
        if used_desc(c0, dk, a, n, id) {
            let j = choose|j: int| 0 <= j < n && #[trigger] fpo(c0, lord(c0, dk)[j], a[j], id);
            assert(!(fpo(c0, ord[j], a[j], id) && fpo(c0, ord[n], a[n], id)));
        }
    }
    assert(c.contains_key(id));
    let c1 = c.remove(id);
    assert(sub(c1, c0));
    assert forall|x: Seq<char>| #[trigger] in_fp(c0, e, a[n], x) implies c1.contains_key(x) by {
        lemma_fp_in_dom(c0, e, a[n], x);
        assert(fpo(c0, ord[n], a[n], x));
        if used_desc(c0, dk, a, n, x) {
            let j = choose|j: int| 0 <= j < n && #[trigger] fpo(c0, lord(c0, dk)[j], a[j], x);
            assert(!(fpo(c0, ord[j], a[j], x) && fpo(c0, ord[n], a[n], x)));
        }
        assert(c.contains_key(x));
    }
    lemma_reads_frame(c0, c1, e, a[n]);
    assert(used_desc(c0, dk, a, n, dk));
    lemma_sub_len_strict(c1, c0, dk);
}
pub proof fn lemma_un_desc_step(c0: Coll, c: Coll, c2: Coll, dk: Seq<char>, a: Seq<JV>, n: int, out: Seq<JV>, item: JV)
    requires
        reads(c0, JV::Str(dk), JV::Arr(a)), un_desc_inv(c0, c, dk, a, n, out), n < a.len(),
        un_post(c.remove(lord(c0, dk)[n]->Str_0), c2, JV::Obj(c0[lord(c0, dk)[n]->Str_0]), item),
    ensures item == a[n], un_desc_inv(c0, c2, dk, a, n + 1, out.push(item)),
{
    lemma_un_desc_pre(c0, c, dk, a, n, out);
    let ord = lord(c0, dk);
    let id = ord[n]->Str_0;
    let e = JV::Obj(c0[id]);
    let c1 = c.remove(id);
    lemma_reads_unique(c1, e, item, a[n]);
    let out2 = out.push(item);
    assert forall|j: int| 0 <= j < n + 1 implies #[trigger] out2[j] == a[j] by { if j < n { assert(out2[j] == out[j]); } }
    assert forall|x: Seq<char>| used_desc(c0, dk, a, n + 1, x) <==> (used_desc(c0, dk, a, n, x) || fpo(c0, ord[n], a[n], x)) by {
        if used_desc(c0, dk, a, n + 1, x) && x != dk {
            let j = choose|j: int| 0 <= j < n + 1 && #[trigger] fpo(c0, lord(c0, dk)[j], a[j], x);
            if j < n { assert(used_desc(c0, dk, a, n, x)); }
        }
        if used_desc(c0, dk, a, n, x) && x != dk {
            let j = choose|j: int| 0 <= j < n && #[trigger] fpo(c0, lord(c0, dk)[j], a[j], x);
            assert(0 <= j < n + 1 && fpo(c0, lord(c0, dk)[j], a[j], x));
        }
        if fpo(c0, ord[n], a[n], x) { assert(0 <= n < n + 1 && fpo(c0, lord(c0, dk)[n], a[n], x)); }
    }
    assert forall|x: Seq<char>| #[trigger] c2.contains_key(x) <==> (c0.contains_key(x) && !used_desc(c0, dk, a, n + 1, x)) by {
        assert(c2.contains_key(x) <==> (c1.contains_key(x) && !in_fp(c1, e, a[n], x)));
        assert(in_fp(c1, e, a[n], x) == in_fp(c0, e, a[n], x));
        assert(fpo(c0, ord[n], a[n], x) == (x == id || in_fp(c0, e, a[n], x)));
        assert(c1.contains_key(x) <==> (c.contains_key(x) && x != id));
    }
    assert forall|x: Seq<char>| #[trigger] c2.contains_key(x) implies c2[x] == c0[x] by { assert(c1.contains_key(x)); assert(c.contains_key(x)); }
}
pub proof fn lemma_un_desc_done(c0: Coll, c: Coll, dk: Seq<char>, a: Seq<JV>, out: Seq<JV>)
    requires reads(c0, JV::Str(dk), JV::Arr(a)), un_desc_inv(c0, c, dk, a, a.len() as int, out),
    ensures un_post(c0, c, JV::Str(dk), JV::Arr(out)),
{
    let v = JV::Arr(a);
    assert(v->Arr_0 == a);
    assert(out =~= a);
    let ord = lord(c0, dk);
    assert forall|x: Seq<char>| in_fp(c0, JV::Str(dk), v, x) == used_desc(c0, dk, a, a.len() as int, x) by {
        if in_fp(c0, JV::Str(dk), v, x) && x != dk {
            let i = choose|i: int| #![trigger a[i]] #![trigger lord(c0, dk)[i]] 0 <= i < a.len() && (x == lord(c0, dk)[i]->Str_0 || in_fp(c0, JV::Obj(c0[lord(c0, dk)[i]->Str_0]), a[i], x));
            assert(fpo(c0, lord(c0, dk)[i], a[i], x));
        }
        if used_desc(c0, dk, a, a.len() as int, x) && x != dk {
            let j = choose|j: int| 0 <= j < a.len() && #[trigger] fpo(c0, lord(c0, dk)[j], a[j], x);
            assert(0 <= j < a.len() && (x == lord(c0, dk)[j]->Str_0 || in_fp(c0, JV::Obj(c0[lord(c0, dk)[j]->Str_0]), a[j], x)));
        }
    }
}

/// the loop runs over the RAW order array; `n` raw entries visited = `lcount` live entries read
pub open spec fn lcount(c0: Coll, dk: Seq<char>, n: int) -> int { live(c0, dk, ord_of(c0, dk).take(n)).len() as int }
pub open spec fn un_desc_inv2(c0: Coll, c: Coll, dk: Seq<char>, a: Seq<JV>, n: int, out: Seq<JV>) -> bool {
    0 <= n <= ord_of(c0, dk).len() && un_desc_inv(c0, c, dk, a, lcount(c0, dk, n), out)
}
pub proof fn lemma_un_desc_pre2(c0: Coll, c: Coll, dk: Seq<char>, a: Seq<JV>, n: int, out: Seq<JV>)
    requires reads(c0, JV::Str(dk), JV::Arr(a)), un_desc_inv2(c0, c, dk, a, n, out), n < ord_of(c0, dk).len(),
    ensures ({
        let e = ord_of(c0, dk)[n];
        let id = e->Str_0;
        // an entry that names a stored object: the object is still there, is taken out and read
        &&& live_entry(c0, dk, e) ==> {
                &&& c.contains_key(id) && c[id] == c0[id]
                &&& readable(c.remove(id), JV::Obj(c0[id]))
                &&& c.remove(id).dom().len() < c0.dom().len()
            }
        // any other string entry: nothing under that name (the entry is dropped)
        &&& (e is Str && !live_entry(c0, dk, e)) ==> !c.contains_key(id)
    }),
{
    let raw = ord_of(c0, dk);
    let e = raw[n];
    let m = lcount(c0, dk, n);
    assert(JV::Arr(a)->Arr_0 == a);
    if live_entry(c0, dk, e) {
        lemma_live_member(c0, dk, raw, n);
        lemma_un_desc_pre(c0, c, dk, a, m, out);
    } else if e is Str {
        if e->Str_0 == dk { assert(used_desc(c0, dk, a, m, dk)); }
    }
}
/// one iteration on the raw entry `e`
pub open spec fn un_desc_step2(c0: Coll, dk: Seq<char>, e: JV, c1: Coll, c2: Coll, out: Seq<JV>, out2: Seq<JV>) -> bool {
    if live_entry(c0, dk, e) {
        out2.len() == out.len() + 1 && out2 == out.push(out2.last()) && un_post(c1.remove(e->Str_0), c2, JV::Obj(c0[e->Str_0]), out2.last())
    } else {
        c2 == c1 && out2 == out
    }
}
pub proof fn lemma_un_desc_step2(c0: Coll, c: Coll, c2: Coll, dk: Seq<char>, a: Seq<JV>, n: int, out: Seq<JV>, out2: Seq<JV>)
    requires
        reads(c0, JV::Str(dk), JV::Arr(a)), un_desc_inv2(c0, c, dk, a, n, out), n < ord_of(c0, dk).len(),
        un_desc_step2(c0, dk, ord_of(c0, dk)[n], c, c2, out, out2),
    ensures un_desc_inv2(c0, c2, dk, a, n + 1, out2),
{
    let raw = ord_of(c0, dk);
    let e = raw[n];
    let m = lcount(c0, dk, n);
    assert(JV::Arr(a)->Arr_0 == a);
    lemma_live_step(c0, dk, raw, n);
    if live_entry(c0, dk, e) {
        lemma_live_member(c0, dk, raw, n);
        lemma_un_desc_step(c0, c, c2, dk, a, m, out, out2.last());
    }
}
pub proof fn lemma_un_desc_done2(c0: Coll, c: Coll, dk: Seq<char>, a: Seq<JV>, out: Seq<JV>)
    requires reads(c0, JV::Str(dk), JV::Arr(a)), un_desc_inv2(c0, c, dk, a, ord_of(c0, dk).len() as int, out),
    ensures un_post(c0, c, JV::Str(dk), JV::Arr(out)),
{
    let raw = ord_of(c0, dk);
    assert(raw.take(raw.len() as int) =~= raw);
    assert(JV::Arr(a)->Arr_0 == a);
    lemma_un_desc_done(c0, c, dk, a, out);
}

// ---------------------------------------------------------------- unflatten, inline array: the loop over the elements
pub open spec fn used_arr(c0: Coll, rs: Seq<JV>, aw: Seq<JV>, n: int, x: Seq<char>) -> bool {
    exists|j: int| 0 <= j < n && #[trigger] in_fp(c0, rs[j], aw[j], x)
}
pub open spec fn un_arr_inv(c0: Coll, c: Coll, rs: Seq<JV>, aw: Seq<JV>, n: int, out: Seq<JV>) -> bool {
    &&& 0 <= n <= aw.len() && out.len() == n
    &&& forall|j: int| 0 <= j < n ==> #[trigger] out[j] == aw[j]
    &&& forall|x: Seq<char>| #[trigger] c.contains_key(x) <==> (c0.contains_key(x) && !used_arr(c0, rs, aw, n, x))
    &&& forall|x: Seq<char>| #[trigger] c.contains_key(x) ==> c[x] == c0[x]
}
pub proof fn lemma_un_arr_pre(c0: Coll, c: Coll, rs: Seq<JV>, aw: Seq<JV>, n: int, out: Seq<JV>)
    requires reads(c0, JV::Arr(rs), JV::Arr(aw)), un_arr_inv(c0, c, rs, aw, n, out), n < aw.len(),
    ensures
        reads(c, rs[n], aw[n]), readable(c, rs[n]), c.dom().len() <= c0.dom().len(),
        forall|x: Seq<char>| #[trigger] in_fp(c, rs[n], aw[n], x) == in_fp(c0, rs[n], aw[n], x),
{
    let v = JV::Arr(aw);
    assert(v->Arr_0 == aw); assert(JV::Arr(rs)->Arr_0 == rs);
    assert(sub(c, c0));
    assert forall|x: Seq<char>| #[trigger] in_fp(c0, rs[n], aw[n], x) implies c.contains_key(x) by {
        lemma_fp_in_dom(c0, rs[n], aw[n], x);
        if used_arr(c0, rs, aw, n, x) {
            let j = choose|j: int| 0 <= j < n && #[trigger] in_fp(c0, rs[j], aw[j], x);
            assert(!(in_fp(c0, rs[j], aw[j], x) && in_fp(c0, rs[n], aw[n], x)));
        }
    }
    lemma_reads_frame(c0, c, rs[n], aw[n]);
    lemma_sub_len(c, c0);
}
pub proof fn lemma_un_arr_step(c0: Coll, c: Coll, c2: Coll, rs: Seq<JV>, aw: Seq<JV>, n: int, out: Seq<JV>, item: JV)
    requires reads(c0, JV::Arr(rs), JV::Arr(aw)), un_arr_inv(c0, c, rs, aw, n, out), n < aw.len(), un_post(c, c2, rs[n], item),
    ensures item == aw[n], un_arr_inv(c0, c2, rs, aw, n + 1, out.push(item)),
{
    lemma_un_arr_pre(c0, c, rs, aw, n, out);
    lemma_reads_unique(c, rs[n], item, aw[n]);
    let out2 = out.push(item);
    assert forall|j: int| 0 <= j < n + 1 implies #[trigger] out2[j] == aw[j] by { if j < n { assert(out2[j] == out[j]); } }
    assert forall|x: Seq<char>| used_arr(c0, rs, aw, n + 1, x) <==> (used_arr(c0, rs, aw, n, x) || in_fp(c0, rs[n], aw[n], x)) by {
        if used_arr(c0, rs, aw, n + 1, x) {
            let j = choose|j: int| 0 <= j < n + 1 && #[trigger] in_fp(c0, rs[j], aw[j], x);
            if j < n { assert(used_arr(c0, rs, aw, n, x)); }
        }
        if used_arr(c0, rs, aw, n, x) {
            let j = choose|j: int| 0 <= j < n && #[trigger] in_fp(c0, rs[j], aw[j], x);
            assert(0 <= j < n + 1 && in_fp(c0, rs[j], aw[j], x));
        }
        if in_fp(c0, rs[n], aw[n], x) { assert(0 <= n < n + 1 && in_fp(c0, rs[n], aw[n], x)); }
    }
    assert forall|x: Seq<char>| #[trigger] c2.contains_key(x) <==> (c0.contains_key(x) && !used_arr(c0, rs, aw, n + 1, x)) by {
        assert(c2.contains_key(x) <==> (c.contains_key(x) && !in_fp(c, rs[n], aw[n], x)));
        assert(in_fp(c, rs[n], aw[n], x) == in_fp(c0, rs[n], aw[n], x));
    }
    assert forall|x: Seq<char>| #[trigger] c2.contains_key(x) implies c2[x] == c0[x] by { assert(c.contains_key(x)); }
}
pub proof fn lemma_un_arr_done(c0: Coll, c: Coll, rs: Seq<JV>, aw: Seq<JV>, out: Seq<JV>)
    requires reads(c0, JV::Arr(rs), JV::Arr(aw)), un_arr_inv(c0, c, rs, aw, aw.len() as int, out),
    ensures un_post(c0, c, JV::Arr(rs), JV::Arr(out)),
{
    let v = JV::Arr(aw);
    assert(v->Arr_0 == aw); assert(JV::Arr(rs)->Arr_0 == rs);
    assert(out =~= aw);
    assert forall|x: Seq<char>| in_fp(c0, JV::Arr(rs), v, x) == used_arr(c0, rs, aw, aw.len() as int, x) by {
        if in_fp(c0, JV::Arr(rs), v, x) {
            let i = choose|i: int| 0 <= i < aw.len() && in_fp(c0, rs[i], #[trigger] aw[i], x);
            assert(0 <= i < aw.len() && in_fp(c0, rs[i], aw[i], x));
        }
        if used_arr(c0, rs, aw, aw.len() as int, x) {
            let j = choose|j: int| 0 <= j < aw.len() && #[trigger] in_fp(c0, rs[j], aw[j], x);
            assert(0 <= j < aw.len() && in_fp(c0, rs[j], aw[j], x));
        }
    }
}

// ---------------------------------------------------------------- unflatten, stored object: the loop over the members
pub open spec fn used_obj(c0: Coll, s: Obj, ow: Obj, keys: Seq<Seq<char>>, n: int, x: Seq<char>) -> bool {
    exists|k: Seq<char>| #[trigger] done(keys, n, k) && ow.contains_key(k) && is_ff(k) && in_fp(c0, s[k], ow[k], x)
}
pub open spec fn un_obj_inv(c0: Coll, c: Coll, s: Obj, ow: Obj, keys: Seq<Seq<char>>, n: int, out: Obj) -> bool {
    &&& 0 <= n <= keys.len()
    &&& forall|k: Seq<char>| #[trigger] out.contains_key(k) <==> done(keys, n, k)
    &&& forall|k: Seq<char>| #[trigger] done(keys, n, k) ==> out[k] == ow[k]
    &&& forall|x: Seq<char>| #[trigger] c.contains_key(x) <==> (c0.contains_key(x) && !used_obj(c0, s, ow, keys, n, x))
    &&& forall|x: Seq<char>| #[trigger] c.contains_key(x) ==> c[x] == c0[x]
}
pub proof fn lemma_un_obj_pre(c0: Coll, c: Coll, s: Obj, ow: Obj, keys: Seq<Seq<char>>, n: int, out: Obj)
    requires reads(c0, JV::Obj(s), JV::Obj(ow)), keys_ok(keys, s), un_obj_inv(c0, c, s, ow, keys, n, out), n < keys.len(), is_ff(keys[n]),
    ensures
        reads(c, s[keys[n]], ow[keys[n]]), readable(c, s[keys[n]]), c.dom().len() <= c0.dom().len(),
        forall|x: Seq<char>| #[trigger] in_fp(c, s[keys[n]], ow[keys[n]], x) == in_fp(c0, s[keys[n]], ow[keys[n]], x),
{
    let v = JV::Obj(ow);
    assert(v->Obj_0 == ow); assert(JV::Obj(s)->Obj_0 == s);
    let k = keys[n];
    assert(s.contains_key(k)); assert(ow.contains_key(k));
    assert(sub(c, c0));
    assert forall|x: Seq<char>| #[trigger] in_fp(c0, s[k], ow[k], x) implies c.contains_key(x) by {
        lemma_fp_in_dom(c0, s[k], ow[k], x);
        if used_obj(c0, s, ow, keys, n, x) {
            let k2 = choose|k2: Seq<char>| #[trigger] done(keys, n, k2) && ow.contains_key(k2) && is_ff(k2) && in_fp(c0, s[k2], ow[k2], x);
            let j = choose|j: int| 0 <= j < n && #[trigger] keys[j] == k2;
            assert(keys[j] != keys[n]);
            assert(!(in_fp(c0, s[k2], ow[k2], x) && in_fp(c0, s[k], ow[k], x)));
        }
    }
    lemma_reads_frame(c0, c, s[k], ow[k]);
    lemma_sub_len(c, c0);
}
/// one iteration of the member loop on member `k`
pub open spec fn un_obj_step(c1: Coll, c2: Coll, s: Obj, k: Seq<char>, out: Obj, out2: Obj) -> bool {
    if !is_ff(k) { c2 == c1 && out2 == out.insert(k, s[k]) }
    else { un_post(c1, c2, s[k], out2[k]) && out2 == out.insert(k, out2[k]) }
}
pub proof fn lemma_un_obj_step(c0: Coll, c: Coll, c2: Coll, s: Obj, ow: Obj, keys: Seq<Seq<char>>, n: int, out: Obj, out2: Obj)
    requires
        reads(c0, JV::Obj(s), JV::Obj(ow)), keys_ok(keys, s), un_obj_inv(c0, c, s, ow, keys, n, out), n < keys.len(),
        un_obj_step(c, c2, s, keys[n], out, out2),
    ensures un_obj_inv(c0, c2, s, ow, keys, n + 1, out2),
{
    let v = JV::Obj(ow);
    assert(v->Obj_0 == ow); assert(JV::Obj(s)->Obj_0 == s);
    let k = keys[n];
    assert(s.contains_key(k)); assert(ow.contains_key(k));
    assert forall|k2: Seq<char>| done(keys, n + 1, k2) <==> (done(keys, n, k2) || k2 == k) by { lemma_done_step(keys, n, k2); }
    if is_ff(k) {
        lemma_un_obj_pre(c0, c, s, ow, keys, n, out);
        lemma_reads_unique(c, s[k], out2[k], ow[k]);
    }
    assert forall|k2: Seq<char>| #[trigger] done(keys, n + 1, k2) implies out2[k2] == ow[k2] by {
        lemma_done_step(keys, n, k2);
        if k2 != k { assert(done(keys, n, k2)); assert(out2[k2] == out[k2]); }
    }
    assert forall|k2: Seq<char>| #[trigger] out2.contains_key(k2) <==> done(keys, n + 1, k2) by { lemma_done_step(keys, n, k2); }
    assert forall|x: Seq<char>| used_obj(c0, s, ow, keys, n + 1, x) <==> (used_obj(c0, s, ow, keys, n, x) || (is_ff(k) && in_fp(c0, s[k], ow[k], x))) by {
        if used_obj(c0, s, ow, keys, n + 1, x) {
            let k2 = choose|k2: Seq<char>| #[trigger] done(keys, n + 1, k2) && ow.contains_key(k2) && is_ff(k2) && in_fp(c0, s[k2], ow[k2], x);
            lemma_done_step(keys, n, k2);
            if k2 != k { assert(done(keys, n, k2)); assert(used_obj(c0, s, ow, keys, n, x)); }
        }
        if used_obj(c0, s, ow, keys, n, x) {
            let k2 = choose|k2: Seq<char>| #[trigger] done(keys, n, k2) && ow.contains_key(k2) && is_ff(k2) && in_fp(c0, s[k2], ow[k2], x);
            lemma_done_step(keys, n, k2);
            assert(done(keys, n + 1, k2));
        }
        if is_ff(k) && in_fp(c0, s[k], ow[k], x) { lemma_done_step(keys, n, k); assert(done(keys, n + 1, k)); }
    }
    assert forall|x: Seq<char>| #[trigger] c2.contains_key(x) <==> (c0.contains_key(x) && !used_obj(c0, s, ow, keys, n + 1, x)) by {
        if is_ff(k) {
            assert(c2.contains_key(x) <==> (c.contains_key(x) && !in_fp(c, s[k], ow[k], x)));
            assert(in_fp(c, s[k], ow[k], x) == in_fp(c0, s[k], ow[k], x));
        }
    }
    assert forall|x: Seq<char>| #[trigger] c2.contains_key(x) implies c2[x] == c0[x] by { assert(c.contains_key(x)); }
}
pub proof fn lemma_un_obj_done(c0: Coll, c: Coll, s: Obj, ow: Obj, keys: Seq<Seq<char>>, out: Obj)
    requires reads(c0, JV::Obj(s), JV::Obj(ow)), keys_ok(keys, s), un_obj_inv(c0, c, s, ow, keys, keys.len() as int, out),
    ensures un_post(c0, c, JV::Obj(s), JV::Obj(out)),
{
    let v = JV::Obj(ow);
    assert(v->Obj_0 == ow); assert(JV::Obj(s)->Obj_0 == s);
    let n = keys.len() as int;
    assert forall|k: Seq<char>| s.contains_key(k) <==> done(keys, n, k) by {
        if s.contains_key(k) { let i = choose|i: int| 0 <= i < keys.len() && #[trigger] keys[i] == k; assert(keys[i] == k); }
        if done(keys, n, k) { let i = choose|i: int| 0 <= i < n && #[trigger] keys[i] == k; }
    }
    assert forall|k: Seq<char>| out.contains_key(k) <==> ow.contains_key(k) by { assert(s.contains_key(k) <==> ow.contains_key(k)); }
    assert(out =~= ow);
    assert forall|x: Seq<char>| in_fp(c0, JV::Obj(s), v, x) == used_obj(c0, s, ow, keys, n, x) by {
        if in_fp(c0, JV::Obj(s), v, x) {
            let k = choose|k: Seq<char>| #[trigger] ow.contains_key(k) && is_ff(k) && in_fp(c0, s[k], ow[k], x);
            assert(s.contains_key(k)); assert(done(keys, n, k));
        }
        if used_obj(c0, s, ow, keys, n, x) {
            let k = choose|k: Seq<char>| #[trigger] done(keys, n, k) && ow.contains_key(k) && is_ff(k) && in_fp(c0, s[k], ow[k], x);
            assert(ow.contains_key(k) && is_ff(k) && in_fp(c0, s[k], ow[k], x));
        }
    }
}

// ---------------------------------------------------------------- unflatten, the arms without a loop
pub proof fn lemma_un_simple(c0: Coll, r: JV)
    requires readable(c0, r),
    ensures
        reads(c0, r, the_doc(c0, r)),
        // an escaped string reads as the string, nothing is consumed
        r is Str && is_esc(r->Str_0) ==> un_post(c0, c0, r, JV::Str(unesc(r->Str_0))),
        // an identifier missing from the collection reads as null, nothing is consumed
        r is Str && plain(r->Str_0) && !c0.contains_key(r->Str_0) ==> un_post(c0, c0, r, JV::Null),
        // null / booleans / numbers read as themselves
        !(r is Str) && !(r is Arr) && !(r is Obj) ==> un_post(c0, c0, r, r),
        // an identifier present in the collection: the object is taken out and read
        r is Str && plain(r->Str_0) && c0.contains_key(r->Str_0) ==> {
            &&& readable(c0.remove(r->Str_0), JV::Obj(c0[r->Str_0]))
            &&& c0.remove(r->Str_0).dom().len() < c0.dom().len()
            &&& forall|c2: Coll, x: JV| #[trigger] un_post(c0.remove(r->Str_0), c2, JV::Obj(c0[r->Str_0]), x) ==> un_post(c0, c2, r, x)
        },
        // a descriptor reference: the descriptor is there with an order array (the three panic sites are unreachable)
        r is Str && !is_esc(r->Str_0) && is_ad(r->Str_0) ==> {
            &&& c0.contains_key(r->Str_0) && c0[r->Str_0].contains_key(ARRAY_DESCRIPTOR_ORDER_FIELD@) && c0[r->Str_0][ARRAY_DESCRIPTOR_ORDER_FIELD@] is Arr
            &&& the_doc(c0, r) is Arr
            &&& un_desc_inv2(c0, c0.remove(r->Str_0), r->Str_0, the_doc(c0, r)->Arr_0, 0, Seq::<JV>::empty())
        },
        r is Arr ==> the_doc(c0, r) is Arr && un_arr_inv(c0, c0, r->Arr_0, the_doc(c0, r)->Arr_0, 0, Seq::<JV>::empty()),
        r is Obj ==> the_doc(c0, r) is Obj,
{
    lemma_constants();
    let w = the_doc(c0, r);
    assert(reads(c0, r, w));
    match r {
        JV::Str(s) => {
            lemma_reads_str_cases(c0, s, w);
            lemma_escape_inverse(s);
            lemma_escape_inverse(unesc(s));
            if plain(s) && c0.contains_key(s) {
                let e = JV::Obj(c0[s]);
                let c1 = c0.remove(s);
                assert(sub(c1, c0));
                assert forall|x: Seq<char>| #[trigger] in_fp(c0, e, w, x) implies c1.contains_key(x) by { lemma_fp_in_dom(c0, e, w, x); }
                lemma_reads_frame(c0, c1, e, w);
                lemma_sub_len_strict(c1, c0, s);
                assert forall|c2: Coll, x: JV| #[trigger] un_post(c1, c2, e, x) implies un_post(c0, c2, r, x) by {
                    lemma_reads_unique(c1, e, x, w);
                    assert forall|y: Seq<char>| #[trigger] c2.contains_key(y) <==> (c0.contains_key(y) && !in_fp(c0, r, w, y)) by {
                        assert(in_fp(c0, r, w, y) == (y == s || in_fp(c0, e, w, y)));
                        assert(in_fp(c1, e, w, y) == in_fp(c0, e, w, y));
                        assert(c2.contains_key(y) <==> (c1.contains_key(y) && !in_fp(c1, e, w, y)));
                    }
                    assert forall|y: Seq<char>| #[trigger] c2.contains_key(y) implies c2[y] == c0[y] by { assert(c1.contains_key(y)); }
                }
            }
            if !is_esc(s) && is_ad(s) {
                let a = w->Arr_0;
                let c1 = c0.remove(s);
                assert(ord_of(c0, s).take(0).len() == 0);
                assert(lcount(c0, s, 0) == 0);
                assert forall|x: Seq<char>| #[trigger] c1.contains_key(x) <==> (c0.contains_key(x) && !used_desc(c0, s, a, 0, x)) by { }
            }
        }
        JV::Arr(rs) => {
            assert(w is Arr);
            let aw = w->Arr_0;
            assert forall|x: Seq<char>| #[trigger] c0.contains_key(x) <==> (c0.contains_key(x) && !used_arr(c0, rs, aw, 0, x)) by { }
        }
        JV::Obj(s) => { assert(w is Obj); }
        _ => {}
    }
}

// ================================================================ L4: the round trip (flatten, then what read() does, then unflatten)
/// the document as `read` returns it: every tracked object carries its identifier in `_id` (its own if it had one — then
/// nothing changes —, ROOT_ID for the document itself, the path digest otherwise); everything else is untouched
pub open spec fn with_ids(v: JV, p: Path) -> JV
    decreases v
{
    match v {
        JV::Arr(a) => JV::Arr(Seq::new(a.len(), |i: int| if 0 <= i < a.len() { with_ids(a[i], p) } else { JV::Null })),
        JV::Obj(o) => {
            let u = oid(o, p);
            JV::Obj(Map::new(o.dom().insert(ID_FIELD@), |k: Seq<char>|
                if k == ID_FIELD@ { JV::Str(u) } else if tracked(o, k) { with_ids(o[k], fld_path(p, u, k)) } else { o[k] }))
        }
        _ => v,
    }
}
/// what Melda::read does between the storage and unflatten (src/melda.rs, `obj.insert(ID_FIELD.to_string(), Value::from(uuid.clone()))`
/// for every visible object, descriptors included): every stored object gets its own identifier as `_id`
pub open spec fn add_ids(c: Coll) -> Coll { Map::new(c.dom(), |u: Seq<char>| c[u].insert(ID_FIELD@, JV::Str(u))) }

pub proof fn lemma_dkey_marker(u: Seq<char>, k: Seq<char>)
    ensures is_ad(dkey(u, k)), !is_esc(dkey(u, k)),
{
    lemma_constants();
    reveal_strlit("!"); reveal_strlit("^");
    let d = dkey(u, k);
    assert(d.subrange(0, 1) =~= ARRAY_DESCRIPTOR_PREFIX@);
    assert(d[0] == '^');
    if is_esc(d) { assert(d.subrange(0, 1)[0] == STRING_ESCAPE_PREFIX@[0]); }
}

/// L4 (object level): a well-formed tracked object held in the flat format reads back, after `add_ids`, as itself with
/// identifiers, using exactly its own keys
pub proof fn lemma_bridge_obj(c: Coll, v: JV, p: Path)
    requires v is Obj, stored(c, JV::Str(oid(v->Obj_0, p)), v, p), wf(v, p),
    ensures
        add_ids(c).contains_key(oid(v->Obj_0, p)),
        reads(add_ids(c), JV::Obj(add_ids(c)[oid(v->Obj_0, p)]), with_ids(v, p)),
        forall|x: Seq<char>| #[trigger] in_fp(add_ids(c), JV::Obj(add_ids(c)[oid(v->Obj_0, p)]), with_ids(v, p), x) <==> (kin(v, p, x) && x != oid(v->Obj_0, p)),
    decreases v, 0int
{
    lemma_constants();
    let o = v->Obj_0;
    let u = oid(o, p);
    let ci = add_ids(c);
    let s = ci[u];
    let wv = with_ids(v, p);
    let wo = wv->Obj_0;
    assert(s == c[u].insert(ID_FIELD@, JV::Str(u)));
    assert forall|k: Seq<char>| s.contains_key(k) <==> #[trigger] wo.contains_key(k) by { }
    assert forall|k: Seq<char>| #[trigger] wo.contains_key(k) && is_ff(k) implies
        tracked(o, k) && reads(ci, s[k], wo[k]) && (forall|x: Seq<char>| #[trigger] in_fp(ci, s[k], wo[k], x) <==> kin_field(o[k], u, k, p, x)) by {
        assert(k != ID_FIELD@);
        assert(tracked(o, k));
        assert(field_stored(c, c[u][k], o[k], u, k, p));
        lemma_dec_obj(v, k);
        lemma_bridge_field(c, c[u][k], o[k], u, k, p);
    }
    assert forall|k: Seq<char>| #[trigger] wo.contains_key(k) && !is_ff(k) implies wo[k] == s[k] by {
        if k != ID_FIELD@ { assert(o.contains_key(k)); assert(!tracked(o, k)); }
    }
    assert forall|k1: Seq<char>, k2: Seq<char>, x: Seq<char>| wo.contains_key(k1) && is_ff(k1) && wo.contains_key(k2) && is_ff(k2) && k1 != k2 implies
        !(#[trigger] in_fp(ci, s[k1], wo[k1], x) && #[trigger] in_fp(ci, s[k2], wo[k2], x)) by {
        assert(tracked(o, k1) && tracked(o, k2));
        assert(!(kin_field(o[k1], u, k1, p, x) && kin_field(o[k2], u, k2, p, x)));
    }
    assert(reads(ci, JV::Obj(s), wv));
    assert forall|x: Seq<char>| #[trigger] in_fp(ci, JV::Obj(s), wv, x) <==> (kin(v, p, x) && x != u) by {
        if in_fp(ci, JV::Obj(s), wv, x) {
            let k = choose|k: Seq<char>| #[trigger] wo.contains_key(k) && is_ff(k) && in_fp(ci, s[k], wo[k], x);
            assert(tracked(o, k)); assert(kin_field(o[k], u, k, p, x));
            assert(!kin_field(o[k], u, k, p, u));
        }
        if kin(v, p, x) && x != u {
            let k = choose|k: Seq<char>| #[trigger] tracked(o, k) && ((o[k] is Arr && x == dkey(oid(o, p), k)) || kin(o[k], fld_path(p, oid(o, p), k), x));
            assert(kin_field(o[k], u, k, p, x));
            assert(wo.contains_key(k) && is_ff(k)); assert(in_fp(ci, s[k], wo[k], x));
        }
    }
}
/// L4 (member level): what stands for a tracked member reads back as the member with identifiers, using exactly its keys
pub proof fn lemma_bridge_field(c: Coll, fr: JV, fv: JV, u: Seq<char>, k: Seq<char>, p: Path)
    requires
        field_stored(c, fr, fv, u, k, p), wf(fv, fld_path(p, u, k)), shape_ok(fv, fld_path(p, u, k)),
        fv is Arr ==> !kin(fv, fld_path(p, u, k), dkey(u, k)),
    ensures
        reads(add_ids(c), fr, with_ids(fv, fld_path(p, u, k))),
        forall|x: Seq<char>| #[trigger] in_fp(add_ids(c), fr, with_ids(fv, fld_path(p, u, k)), x) <==> kin_field(fv, u, k, p, x),
    decreases fv, 1int
{
    lemma_constants();
    let pk = fld_path(p, u, k);
    let ci = add_ids(c);
    let wv = with_ids(fv, pk);
    match fv {
        JV::Arr(a) => {
            let dk = dkey(u, k);
            lemma_dkey_marker(u, k);
            let xr = c[dk][ARRAY_DESCRIPTOR_ORDER_FIELD@];
            let ord = xr->Arr_0;
            let wa = wv->Arr_0;
            assert(ci[dk] == c[dk].insert(ID_FIELD@, JV::Str(dk)));
            assert(ci[dk][ARRAY_DESCRIPTOR_ORDER_FIELD@] == xr);
            assert(ord_of(ci, dk) == ord);
            assert(wa.len() == a.len());
            assert forall|i: int| 0 <= i < a.len() implies
                (#[trigger] wa[i]) == with_ids(a[i], pk) && a[i] is Obj && ord[i] == JV::Str(oid(a[i]->Obj_0, pk)) && kin(a[i], pk, oid(a[i]->Obj_0, pk))
                && ci.contains_key(oid(a[i]->Obj_0, pk))
                && reads(ci, JV::Obj(ci[oid(a[i]->Obj_0, pk)]), wa[i])
                && (forall|x: Seq<char>| #[trigger] in_fp(ci, JV::Obj(ci[oid(a[i]->Obj_0, pk)]), wa[i], x) <==> (kin(a[i], pk, x) && x != oid(a[i]->Obj_0, pk)))
                && (forall|x: Seq<char>| #[trigger] fpo(ci, ord[i], wa[i], x) <==> kin(a[i], pk, x)) by {
                assert(stored(c, ord[i], a[i], pk));
                assert(wf(a[i], pk));
                lemma_dec_arr(fv, i);
                lemma_bridge_obj(c, a[i], pk);
            }
            assert forall|j: int| 0 <= j < ord.len() implies live_entry(ci, dk, #[trigger] ord[j]) by {
                assert(wa[j] == with_ids(a[j], pk));
                assert(kin(fv, pk, ord[j]->Str_0)) by { assert(kin(a[j], pk, ord[j]->Str_0)); }
            }
            lemma_live_all(ci, dk, ord);
            assert(lord(ci, dk) == ord);
            assert forall|i: int| 0 <= i < wa.len() implies {
                &&& (#[trigger] wa[i]) is Obj
                &&& ord[i] is Str && ci.contains_key(ord[i]->Str_0) && ord[i]->Str_0 != dk
                &&& reads(ci, JV::Obj(ci[ord[i]->Str_0]), wa[i])
                &&& !in_fp(ci, JV::Obj(ci[ord[i]->Str_0]), wa[i], ord[i]->Str_0)
                &&& !in_fp(ci, JV::Obj(ci[ord[i]->Str_0]), wa[i], dk)
            } by {
                assert(kin(fv, pk, ord[i]->Str_0)) by { assert(kin(a[i], pk, ord[i]->Str_0)); }
                if in_fp(ci, JV::Obj(ci[ord[i]->Str_0]), wa[i], dk) { assert(fpo(ci, ord[i], wa[i], dk)); assert(kin(a[i], pk, dk)); assert(kin(fv, pk, dk)); }
            }
            assert forall|i: int, j: int, x: Seq<char>| 0 <= i < j < wa.len() implies !(#[trigger] fpo(ci, ord[i], wa[i], x) && #[trigger] fpo(ci, ord[j], wa[j], x)) by {
                assert(!(kin(a[i], pk, x) && kin(a[j], pk, x)));
            }
            assert(reads(ci, fr, wv));
            assert forall|x: Seq<char>| #[trigger] in_fp(ci, fr, wv, x) <==> kin_field(fv, u, k, p, x) by {
                if in_fp(ci, fr, wv, x) && x != dk {
                    let i = choose|i: int| #![trigger wa[i]] #![trigger lord(ci, dk)[i]] 0 <= i < wa.len() && (x == lord(ci, dk)[i]->Str_0 || in_fp(ci, JV::Obj(ci[lord(ci, dk)[i]->Str_0]), wa[i], x));
                    assert(fpo(ci, ord[i], wa[i], x)); assert(kin(a[i], pk, x)); assert(kin(fv, pk, x));
                }
                if kin(fv, pk, x) {
                    let i = choose|i: int| 0 <= i < a.len() && kin(#[trigger] a[i], pk, x);
                    assert(fpo(ci, ord[i], wa[i], x));
                    assert(0 <= i < wa.len() && (x == lord(ci, dk)[i]->Str_0 || in_fp(ci, JV::Obj(ci[lord(ci, dk)[i]->Str_0]), wa[i], x)));
                }
            }
        }
        JV::Obj(o2) => {
            let u2 = oid(o2, pk);
            lemma_bridge_obj(c, fv, pk);
            assert(kin(fv, pk, u2));
            assert forall|x: Seq<char>| #[trigger] in_fp(ci, fr, wv, x) <==> kin_field(fv, u, k, p, x) by {
                assert(in_fp(ci, fr, wv, x) == (x == u2 || in_fp(ci, JV::Obj(ci[u2]), wv, x)));
            }
        }
        _ => {}
    }
}
