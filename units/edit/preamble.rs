// ---- unit `edit`: Melda::create_object / update_object / delete_object / remove_object (src/melda.rs) ----
// A user edit of ONE object is recorded as a new STAGED revision in that object's tree; the identifier of that revision is
// `child_of(parent.index + 1, digest of the content, parent identifier)` (C19: same edit of the same version => same revision),
// nothing else moves (frame), resubmitting the same content changes nothing (C04), and an array edit is recorded iff its
// edit script is non-empty, whatever the script's digest (C16: every submitted array is a stored version).

/// R6 (lock erasure): mirror of `struct Melda` (field list checked against /repo).
/// `RwLock<BTreeMap<String, Mutex<RevisionTree>>>` -> `BTreeMap<String, RevisionTree>`, `RwLock<DataStorage>` -> `DataStorage`,
/// `RwLock<BTreeMap<DeltaId, RwLock<Delta>>>` -> opaque `DeltasShim`, `Mutex<LruCache<..>>` -> opaque `ArrCacheShim`;
/// `&self` -> `&mut self` (the bodies write through the locks).  Single-threaded semantics only: blocking and lock poisoning
/// (`.expect(..)` on a lock result) are dropped.
pub struct Melda {
    pub documents: BTreeMap<String, RevisionTree>,
    pub data: DataStorage,
    pub deltas: DeltasShim,
    pub array_descriptors_cache: ArrCacheShim,
}
#[verifier::external_body]
pub struct DeltasShim { d: () }
#[verifier::external_body]
pub struct ArrCacheShim { c: () }
/// `DataStorage` is opaque here (its functions are contracted in unit `pack`); only what an edit can observe is named
#[verifier::external_body]
pub struct DataStorage { d: () }
/// serde_json `Map<String, Value>` (a JSON object) and `Value`: opaque
#[verifier::external_body]
pub struct JMap { m: () }
#[verifier::external_body]
pub struct Value { v: () }
/// R7: anyhow::Error values (messages dropped)
#[verifier::external_body]
pub struct VxError { e: () }
#[verifier::external] impl std::fmt::Debug for VxError { fn fmt(&self, _f: &mut std::fmt::Formatter) -> std::fmt::Result { unimplemented!() } }
#[verifier::external_body]
pub fn vx_error() -> VxError { unimplemented!() }

// ---------------------------------------------------------------- documents seen as a map keyed by string CONTENT (as in unit `apply`)
pub uninterp spec fn dmap(m: BTreeMap<String, RevisionTree>) -> Map<Seq<char>, RevisionTree>;
pub type Docs = Map<Seq<char>, RevisionTree>;
pub open spec fn is_new_tree(t: RevisionTree) -> bool {
    t.revisions@ == Map::<Revision, RevisionTreeEntry>::empty() && !t.staging
}
/// `docs.entry(k).or_insert_with(|| Mutex::new(RevisionTree::new())).get_mut().expect(..)`:
/// the tree stored under k, a fresh empty tree being stored first when there is none (assumed of std BTreeMap::entry;
/// same shim as in unit `apply`)
#[verifier::external_body]
pub fn vx_docs_entry<'a>(m: &'a mut BTreeMap<String, RevisionTree>, k: String) -> (r: &'a mut RevisionTree)
    ensures
        dmap(*old(m)).contains_key(k@) ==> *r == dmap(*old(m))[k@],
        !dmap(*old(m)).contains_key(k@) ==> is_new_tree(*r),
        dmap(*final(m)) == dmap(*old(m)).insert(k@, *final(r)),
{ unimplemented!() }
/// `docs_r.get(uuid)` followed by `rt.lock().expect(..)`: the real code reaches the tree through the documents READ guard and
/// the tree's own Mutex and then mutates it.  After lock erasure this is a mutable lookup WITHOUT insertion (assumed of std
/// BTreeMap::get + Mutex::lock): the tree stored under k if any; whatever is done to it is what the map holds afterwards.
#[verifier::external_body]
pub fn vx_docs_get_mut<'a>(m: &'a mut BTreeMap<String, RevisionTree>, k: &str) -> (r: Option<&'a mut RevisionTree>)
    ensures match r {
        Some(t) => dmap(*old(m)).contains_key(k@) && *t == dmap(*old(m))[k@] && dmap(*final(m)) == dmap(*old(m)).insert(k@, *final(t)),
        None => !dmap(*old(m)).contains_key(k@) && dmap(*final(m)) == dmap(*old(m)),
    },
{ unimplemented!() }
/// `docs_w.remove(uuid)` (assumed of std BTreeMap::remove; the removed value is not used)
#[verifier::external_body]
pub fn vx_docs_remove(m: &mut BTreeMap<String, RevisionTree>, k: &str)
    ensures dmap(*final(m)) == dmap(*old(m)).remove(k@),
{ unimplemented!() }

/// the recorded revisions of object `uuid` (empty when the object is unknown)
pub open spec fn tree_of(docs: Docs, uuid: Seq<char>) -> RevMap {
    if docs.contains_key(uuid) { docs[uuid].revisions@ } else { Map::<Revision, RevisionTreeEntry>::empty() }
}

// ---------------------------------------------------------------- content digests (utils::digest_object)
/// the content digest of a JSON object: SHA-256 of its JSON text (or its `#` field); uninterpreted, a function of the object only
pub uninterp spec fn obj_digest(o: JMap) -> Seq<char>;
/// the object can be digested: it has no `_id` field and, if it has a `#` field, that is a string or a number
pub uninterp spec fn digestible(o: JMap) -> bool;
/// utils::digest_object (serde_json::to_string + sha2): ASSUMED to be a function of the object; it fails exactly on
/// non-digestible objects.  The edit functions `.expect(..)` / `.unwrap()` the result, i.e. PANIC on such an object: that is
/// modelled as the precondition `digestible(obj)` of the edit functions (Result::unwrap requires `is Ok`).
#[verifier::external_body]
pub fn digest_object(o: &JMap) -> (r: Result<String, VxError>)
    ensures match r { Ok(d) => digestible(*o) && d@ == obj_digest(*o), Err(_) => !digestible(*o) },
{ unimplemented!() }

// ---------------------------------------------------------------- DataStorage::write_object (contract of unit `pack`, restated over opaque views)
/// staged objects by digest; digests that are staged or committed
pub uninterp spec fn ds_stage(d: DataStorage) -> Map<Seq<char>, JMap>;
pub uninterp spec fn ds_known(d: DataStorage, digest: Seq<char>) -> bool;
/// the precondition that unit `pack` proves write_object under: `cache_inv(d)` and content addressing (if `digest` is
/// already known, `obj` is the object storage holds for it).  Opaque here, handed on to the callers of the edit functions.
pub uninterp spec fn ds_write_pre(d: DataStorage, digest: Seq<char>, obj: JMap) -> bool;
/// `is_charcode`: at most 8 hex digits
pub uninterp spec fn charcode(digest: Seq<char>) -> bool;
/// revisions that need no stored object (resolved / deleted / empty / charcode)
pub open spec fn rev_special(v: RevV) -> bool {
    v.1 == RESOLVED_HASH@ || v.1 == DELETED_HASH@ || v.1 == EMPTY_HASH@ || charcode(v.1)
}
/// the stage after `write_object(rev, obj)`: first write of a digest wins, special revisions store nothing
pub open spec fn stage_put(d: DataStorage, v: RevV, obj: JMap) -> Map<Seq<char>, JMap> {
    if rev_special(v) || ds_known(d, v.1) { ds_stage(d) } else { ds_stage(d).insert(v.1, obj) }
}
impl DataStorage {
    /// ASSUMED here, PROVED in unit `pack` (DataStorage::write_object, from the real code): returns Ok, stages the object
    /// under the revision's digest unless the revision is special or the digest is known.  It has no access to the
    /// revision trees or the blocks (it is a method of the `data` field only).
    #[verifier::external_body]
    pub fn write_object(&mut self, rev: &Revision, obj: JMap) -> (r: Result<(), VxError>)
        requires ds_write_pre(*old(self), rev@.1, obj),
        ensures r is Ok, ds_stage(*final(self)) == stage_put(*old(self), rev@, obj),
    { unimplemented!() }
}

// ---------------------------------------------------------------- array descriptors
pub open spec fn is_arr(uuid: Seq<char>) -> bool { ARRAY_DESCRIPTOR_PREFIX@.is_prefix_of(uuid) }
/// `str::starts_with(&str)` (assumed of std)
#[verifier::external_body]
pub fn vx_starts_with(s: &str, p: &str) -> (r: bool)
    ensures r == p@.is_prefix_of(s@),
{ unimplemented!() }
/// the element order a full array descriptor object carries (its `order` field): what the user SUBMITTED
pub uninterp spec fn submitted_order(o: JMap) -> Seq<Value>;
/// the element order that revision `w` of tree `t` reconstructs to (rebuild_array_order: base order + edit scripts along the
/// parent chain, objects read from `data`; the descriptor cache is assumed transparent)
pub uninterp spec fn spec_order(data: DataStorage, t: RevisionTree, w: Revision) -> Seq<Value>;
/// the delta descriptor object holding the edit script from one order to another
pub uninterp spec fn script_descr(from: Seq<Value>, to: Seq<Value>) -> JMap;
/// what create_delta_array_descriptor `.expect(..)`s: the submitted object is a well-formed full descriptor and the winner's
/// order can be rebuilt (objects readable, diff succeeds) — a PANIC otherwise, modelled as a precondition
pub uninterp spec fn array_edit_pre(data: DataStorage, t: RevisionTree, obj: JMap) -> bool;
/// Melda::create_delta_array_descriptor (make_diff_patch against the winner's order) — ASSUMED contract:
/// (PROVED in unit chain, transported to this unit's vocabulary)
/// `Ok(None)` iff the winner is a live (not deleted) version whose order equals the submitted order; otherwise `Ok(Some(d))` with
/// `d` the delta descriptor of the script (a one-field object `{"Δ": [...]}`: no `_id`, no `#`, hence digestible).
/// The function has no `Err` return path.  It reads `data`, and reads/fills the descriptor cache (through its Mutex).
#[verifier::external_body]
pub fn vx_create_delta_array_descriptor(data: &DataStorage, cache: &mut ArrCacheShim, obj: JMap, rt: &RevisionTree) -> (r: Result<Option<JMap>, VxError>)
    requires rt.state is Validated, rt.winner_cache is Some, array_edit_pre(*data, *rt, obj),
    ensures match r {
        Ok(None) => submitted_order(obj) == spec_order(*data, *rt, rt.winner_cache->0) && (rt.winner_cache->0)@.1 != DELETED_HASH@,
        Ok(Some(d)) => (submitted_order(obj) != spec_order(*data, *rt, rt.winner_cache->0) || (rt.winner_cache->0)@.1 == DELETED_HASH@)
            && d == script_descr(spec_order(*data, *rt, rt.winner_cache->0), submitted_order(obj)) && digestible(d),
        Err(_) => false,
    },
{ unimplemented!() }

// ---------------------------------------------------------------- spec of the property statements
/// the content an update of `uuid` stores on top of winner `w`: the object itself, or — array descriptor — the edit script
/// from the winner's order to the submitted order; `None` = nothing to store: the winner is a live version with exactly the
/// submitted order (an array that was deleted and comes back, even empty, is a new version: C16 "emptying and refilling")
pub open spec fn edit_content(data: DataStorage, t: RevisionTree, w: Revision, uuid: Seq<char>, obj: JMap) -> Option<JMap> {
    if is_arr(uuid) {
        if submitted_order(obj) == spec_order(data, t, w) && w@.1 != DELETED_HASH@ { None }
        else { Some(script_descr(spec_order(data, t, w), submitted_order(obj))) }
    } else { Some(obj) }
}
/// an update is a change iff: plain object — its digest differs from the winner's; array — the edit script is non-empty
/// (WHATEVER the digest of the script: two successive identical scripts are two edits)
pub open spec fn must_record(data: DataStorage, t: RevisionTree, w: Revision, uuid: Seq<char>, obj: JMap) -> bool {
    match edit_content(data, t, w, uuid, obj) {
        None => false,
        Some(o) => is_arr(uuid) || obj_digest(o) != w@.1,
    }
}
pub open spec fn view_opt(p: Option<Revision>) -> Option<RevV> { match p { Some(x) => Some(x@), None => None } }
/// the identifier of the edit: a function of (content digest, parent identifier) only
pub open spec fn edit_rev(digest: Seq<char>, parent: Option<Revision>) -> RevV {
    match parent {
        Some(p) => child_of((p.index + 1) as u32, digest, Some(p@)),
        None => child_of(1, digest, None),
    }
}
/// revision `r` (identifier `v`) is what turns the recorded set `m0` into tree `t1`: recorded as a STAGED child of `parent`
/// (first record of a revision wins)
pub open spec fn edit_by(m0: RevMap, t1: RevisionTree, v: RevV, parent: Option<Revision>, r: Revision) -> bool {
    &&& r@ == v
    &&& t1.revisions@ == record(m0, r, RevisionTreeEntry { parent, staging: true })
    &&& t1.revisions@.contains_key(r)
}
pub open spec fn edit_recorded(m0: RevMap, t1: RevisionTree, v: RevV, parent: Option<Revision>) -> bool {
    exists|r: Revision| #[trigger] edit_by(m0, t1, v, parent, r)
}
/// same, and the revision was not recorded before (so it IS staged now, and the tree is flagged)
pub open spec fn edit_by_fresh(m0: RevMap, t1: RevisionTree, v: RevV, parent: Option<Revision>, r: Revision) -> bool {
    edit_by(m0, t1, v, parent, r) && !m0.contains_key(r) && t1.staging
}
pub open spec fn edit_recorded_fresh(m0: RevMap, t1: RevisionTree, v: RevV, parent: Option<Revision>) -> bool {
    exists|r: Revision| #[trigger] edit_by_fresh(m0, t1, v, parent, r)
}
/// a revision with identifier `v` is already recorded
pub open spec fn has_rev(m0: RevMap, v: RevV, r: Revision) -> bool { r@ == v && m0.contains_key(r) }
pub open spec fn already_recorded(m0: RevMap, v: RevV) -> bool { exists|r: Revision| #[trigger] has_rev(m0, v, r) }

/// observably the same tree (recorded set, flag, validation state, leaves, winner)
pub open spec fn tree_same(a: RevisionTree, b: RevisionTree) -> bool {
    a.revisions@ == b.revisions@ && a.staging == b.staging && a.state == b.state && a.leafs_cache@ == b.leafs_cache@ && a.winner_cache == b.winner_cache
}
/// frame: no object other than `uuid` appears, disappears or changes
pub open spec fn others_unchanged(d0: Docs, d1: Docs, uuid: Seq<char>) -> bool {
    forall|k: Seq<char>| k != uuid ==> (#[trigger] d1.contains_key(k) <==> d0.contains_key(k)) && (d0.contains_key(k) ==> d1[k] == d0[k])
}
/// no tree changes at all
pub open spec fn no_tree_change(d0: Docs, d1: Docs, uuid: Seq<char>) -> bool {
    &&& others_unchanged(d0, d1, uuid)
    &&& (d1.contains_key(uuid) <==> d0.contains_key(uuid))
    &&& (d0.contains_key(uuid) ==> tree_same(d0[uuid], d1[uuid]))
}

/// preconditions of an edit of a KNOWN object with tree `t0`: the tree is validated (leaves / winner are those of the
/// recorded set: `get_winner` panics otherwise), parent links go to smaller indices, the index does not overflow
pub open spec fn known_pre(t0: RevisionTree) -> bool {
    &&& validated_ok(t0) && tree_wf(t0.revisions@)
    &&& match t0.winner_cache { Some(w) => w.index < u32::MAX, None => true }
}
/// ... and for `update_object`, the panics of the real code as preconditions
pub open spec fn update_known_pre(data: DataStorage, t0: RevisionTree, uuid: Seq<char>, obj: JMap) -> bool {
    &&& known_pre(t0)
    &&& match t0.winner_cache {
        Some(w) => {
            // a well-formed array descriptor whose winner order can be rebuilt (`.expect(..)`s of create_delta_array_descriptor)
            &&& is_arr(uuid) ==> array_edit_pre(data, t0, obj)
            // a digestible object (`digest_object(..).unwrap()`)
            &&& !is_arr(uuid) ==> digestible(obj)
            // DataStorage::write_object's precondition (unit pack) for the content that gets stored
            &&& match edit_content(data, t0, w, uuid, obj) { Some(o) => ds_write_pre(data, obj_digest(o), o), None => true }
        },
        None => true,
    }
}
/// what `create_object(uuid, obj)` does (also the unknown-object case of `update_object`)
pub open spec fn create_post(m0: Melda, m1: Melda, uuid: Seq<char>, obj: JMap, ret: Result<Option<String>, VxError>) -> bool {
    let d0 = dmap(m0.documents);
    let d1 = dmap(m1.documents);
    let v = edit_rev(obj_digest(obj), None);
    &&& m1.deltas == m0.deltas && m1.array_descriptors_cache == m0.array_descriptors_cache
    // the object is staged under its digest (first write wins), whether or not the revision is new
    &&& ds_stage(m1.data) == stage_put(m0.data, v, obj)
    &&& others_unchanged(d0, d1, uuid)
    &&& d1.contains_key(uuid)
    &&& tree_wf(d1[uuid].revisions@)
    &&& match ret {
        // the revision was not recorded: it is now, staged, without parent; the tree is (re)validated
        Ok(Some(s)) => s@ == rev_str(v)
            && edit_recorded_fresh(tree_of(d0, uuid), d1[uuid], v, None) && validated_ok(d1[uuid]),
        // submitting the same creation again changes nothing
        Ok(None) => already_recorded(tree_of(d0, uuid), v) && no_tree_change(d0, d1, uuid),
        Err(_) => false,
    }
}
/// nothing changes (trees, blocks, staged objects)
pub open spec fn nothing_changes(m0: Melda, m1: Melda, uuid: Seq<char>) -> bool {
    m1.deltas == m0.deltas && m1.data == m0.data && no_tree_change(dmap(m0.documents), dmap(m1.documents), uuid)
}
/// a child of winner `w` with content digest `digest` is recorded in the tree of `uuid`, staged; nothing else changes
pub open spec fn child_recorded(m0: Melda, m1: Melda, uuid: Seq<char>, w: Revision, digest: Seq<char>, ret: Result<Option<String>, VxError>) -> bool {
    let d0 = dmap(m0.documents);
    let d1 = dmap(m1.documents);
    let v = edit_rev(digest, Some(w));
    &&& m1.deltas == m0.deltas
    &&& others_unchanged(d0, d1, uuid)
    &&& d1.contains_key(uuid)
    &&& edit_recorded(d0[uuid].revisions@, d1[uuid], v, Some(w))
    &&& validated_ok(d1[uuid]) && tree_wf(d1[uuid].revisions@)
    &&& (tree_inv(d0[uuid]) ==> tree_inv(d1[uuid]))
    &&& res_text(ret, rev_str(v))
}
/// `update_object(uuid, obj)`
pub open spec fn update_post(m0: Melda, m1: Melda, uuid: Seq<char>, obj: JMap, ret: Result<Option<String>, VxError>) -> bool {
    let d0 = dmap(m0.documents);
    if !d0.contains_key(uuid) { create_post(m0, m1, uuid, obj, ret) }
    else {
        let t0 = d0[uuid];
        match t0.winner_cache {
            None => ret is Err && nothing_changes(m0, m1, uuid),
            Some(w) =>
                if must_record(m0.data, t0, w, uuid, obj) {
                    // a change: a staged child of the winner is recorded and its content staged
                    let o = edit_content(m0.data, t0, w, uuid, obj)->0;
                    child_recorded(m0, m1, uuid, w, obj_digest(o), ret)
                    && ds_stage(m1.data) == stage_put(m0.data, edit_rev(obj_digest(o), Some(w)), o)
                } else {
                    // same content as the winner / empty edit script: submitting the same document again changes nothing
                    nothing_changes(m0, m1, uuid) && res_text(ret, rev_str(w@))
                },
        }
    }
}
pub open spec fn res_none(ret: Result<Option<String>, VxError>) -> bool { match ret { Ok(None) => true, _ => false } }
pub open spec fn res_text(ret: Result<Option<String>, VxError>, s: Seq<char>) -> bool { match ret { Ok(Some(x)) => x@ == s, _ => false } }
/// `delete_object(uuid)`
pub open spec fn delete_post(m0: Melda, m1: Melda, uuid: Seq<char>, ret: Result<Option<String>, VxError>) -> bool {
    let d0 = dmap(m0.documents);
    &&& m1.data == m0.data && m1.array_descriptors_cache == m0.array_descriptors_cache
    &&& if !d0.contains_key(uuid) { res_none(ret) && nothing_changes(m0, m1, uuid) }
        else {
            match d0[uuid].winner_cache {
                None => ret is Err && nothing_changes(m0, m1, uuid),
                Some(w) =>
                    // already deleted, or a resolution marker: nothing to delete
                    if w@.1 == DELETED_HASH@ || marker(w@) { res_none(ret) && nothing_changes(m0, m1, uuid) }
                    else { child_recorded(m0, m1, uuid, w, DELETED_HASH@, ret) },
            }
        }
}
/// preconditions of `remove_object` on a known object: parent links go to smaller indices, the tree-level staging flag covers
/// the staged entries (both needed by `unstage`), no index overflow
pub open spec fn remove_pre(t0: RevisionTree) -> bool {
    &&& tree_wf(t0.revisions@) && tree_inv(t0)
    &&& forall|k: Revision| #[trigger] t0.revisions@.contains_key(k) ==> k.index < u32::MAX
}
pub proof fn lemma_unstaged_wf(m: RevMap, out: RevMap)
    requires tree_wf(m), is_unstaged_part(m, out),
    ensures tree_wf(out),
{
    assert forall|k: Revision| #[trigger] out.contains_key(k) implies (match out[k].parent { Some(p) => p.index < k.index, None => true }) by {
        assert(m.contains_key(k) && out[k] == m[k]);
    }
}
/// `remove_object(uuid)`: first the staged records of the object are discarded (tree `tu`); if nothing is left the object is
/// forgotten, otherwise it is deleted as by `delete_object` on `tu`
pub open spec fn remove_post(m0: Melda, m1: Melda, uuid: Seq<char>, ret: Result<Option<String>, VxError>) -> bool {
    let d0 = dmap(m0.documents);
    let d1 = dmap(m1.documents);
    &&& m1.data == m0.data && m1.deltas == m0.deltas && m1.array_descriptors_cache == m0.array_descriptors_cache
    &&& others_unchanged(d0, d1, uuid)
    &&& if !d0.contains_key(uuid) { res_none(ret) && !d1.contains_key(uuid) } else { removed(d0[uuid], d1, uuid, ret) }
}
pub open spec fn removed(t0: RevisionTree, d1: Docs, uuid: Seq<char>, ret: Result<Option<String>, VxError>) -> bool {
    exists|tu: RevisionTree| #[trigger] unstaged_tree(t0, tu) && remove_outcome(tu, d1.contains_key(uuid), d1[uuid], ret)
}
/// `tu` is `t0` without its staged records, validated
pub open spec fn unstaged_tree(t0: RevisionTree, tu: RevisionTree) -> bool {
    is_unstaged_part(t0.revisions@, tu.revisions@) && !tu.staging && validated_ok(tu)
}
/// `has`: the object is still known afterwards, with tree `t1`
pub open spec fn remove_outcome(tu: RevisionTree, has: bool, t1: RevisionTree, ret: Result<Option<String>, VxError>) -> bool {
    if tu.revisions@.len() == 0 { res_none(ret) && !has }   // no committed history: the object is forgotten
    else {
        &&& has
        &&& match tu.winner_cache {
            None => ret is Err && tree_same(tu, t1),
            Some(w) =>
                if w@.1 == DELETED_HASH@ || marker(w@) { res_none(ret) && tree_same(tu, t1) }
                else {
                    let v = edit_rev(DELETED_HASH@, Some(w));
                    edit_recorded(tu.revisions@, t1, v, Some(w)) && validated_ok(t1) && res_text(ret, rev_str(v))
                },
        }
    }
}

// ---------------------------------------------------------------- C19: same edit of the same version => same revision
/// the identifier is a function of the content digest and of the parent's identifier: two replicas whose winners for the
/// object have the same identifier and that submit contents with the same digest compute the same identifier
pub proof fn lemma_same_edit_same_revision(w1: Revision, w2: Revision, dg1: Seq<char>, dg2: Seq<char>)
    requires w1@ == w2@, dg1 == dg2,
    ensures
        edit_rev(dg1, Some(w1)) == edit_rev(dg2, Some(w2)),
        rev_str(edit_rev(dg1, Some(w1))) == rev_str(edit_rev(dg2, Some(w2))),
        edit_rev(dg1, None) == edit_rev(dg2, None),
{ }
/// corollary of the contracts: whatever revisions two replicas record for the same edit, they have the same identifier
/// (equal views, hence equal text); in particular the results of the two calls are the same text
pub proof fn lemma_same_edit_recorded_same(m1: RevMap, t1: RevisionTree, m2: RevMap, t2: RevisionTree, w1: Revision, w2: Revision, dg1: Seq<char>, dg2: Seq<char>, r1: Revision, r2: Revision)
    requires
        w1@ == w2@, dg1 == dg2,
        edit_by(m1, t1, edit_rev(dg1, Some(w1)), Some(w1), r1),
        edit_by(m2, t2, edit_rev(dg2, Some(w2)), Some(w2), r2),
    ensures r1@ == r2@, rev_str(r1@) == rev_str(r2@), t1.revisions@.contains_key(r1), t2.revisions@.contains_key(r2),
{ }
/// both calls return an identifier text, the same one
pub open spec fn same_text(ra: Result<Option<String>, VxError>, rb: Result<Option<String>, VxError>) -> bool {
    match (ra, rb) { (Ok(Some(x)), Ok(Some(y))) => x@ == y@, _ => false }
}
pub open spec fn opt_digest(o: Option<JMap>) -> Option<Seq<char>> { match o { Some(x) => Some(obj_digest(x)), None => None } }
/// C19 over the contract of `update_object`: replicas A and B both know `uuid`, their winners have the same identifier, and
/// the contents they store for the edit have the same digest (plain object: the submitted objects have the same digest; array:
/// the same edit script).  Then both updates return the SAME identifier text; and when the edit is a change, both trees hold
/// a staged revision with that identifier whose parent is the respective winner.
pub proof fn lemma_update_same_edit_same_revision(a0: Melda, a1: Melda, b0: Melda, b1: Melda, uuid: Seq<char>, oa: JMap, ob: JMap,
        ra: Result<Option<String>, VxError>, rb: Result<Option<String>, VxError>)
    requires
        update_post(a0, a1, uuid, oa, ra), update_post(b0, b1, uuid, ob, rb),
        dmap(a0.documents).contains_key(uuid), dmap(b0.documents).contains_key(uuid),
        dmap(a0.documents)[uuid].winner_cache is Some, dmap(b0.documents)[uuid].winner_cache is Some,
        dmap(a0.documents)[uuid].winner_cache->0@ == dmap(b0.documents)[uuid].winner_cache->0@,
        opt_digest(edit_content(a0.data, dmap(a0.documents)[uuid], dmap(a0.documents)[uuid].winner_cache->0, uuid, oa))
            == opt_digest(edit_content(b0.data, dmap(b0.documents)[uuid], dmap(b0.documents)[uuid].winner_cache->0, uuid, ob)),
    ensures
        same_text(ra, rb),
        must_record(a0.data, dmap(a0.documents)[uuid], dmap(a0.documents)[uuid].winner_cache->0, uuid, oa)
            == must_record(b0.data, dmap(b0.documents)[uuid], dmap(b0.documents)[uuid].winner_cache->0, uuid, ob),
        must_record(a0.data, dmap(a0.documents)[uuid], dmap(a0.documents)[uuid].winner_cache->0, uuid, oa) ==>
            exists|xa: Revision, xb: Revision| xa@ == xb@
                && #[trigger] dmap(a1.documents)[uuid].revisions@.contains_key(xa) && #[trigger] dmap(b1.documents)[uuid].revisions@.contains_key(xb)
                && res_text(ra, rev_str(xa@)),
{
    let ta = dmap(a0.documents)[uuid]; let tb = dmap(b0.documents)[uuid];
    let wa = ta.winner_cache->0; let wb = tb.winner_cache->0;
    if must_record(a0.data, ta, wa, uuid, oa) {
        let ca = edit_content(a0.data, ta, wa, uuid, oa)->0; let cb = edit_content(b0.data, tb, wb, uuid, ob)->0;
        let va = edit_rev(obj_digest(ca), Some(wa)); let vb = edit_rev(obj_digest(cb), Some(wb));
        assert(va == vb);
        let xa = choose|r: Revision| #[trigger] edit_by(ta.revisions@, dmap(a1.documents)[uuid], va, Some(wa), r);
        let xb = choose|r: Revision| #[trigger] edit_by(tb.revisions@, dmap(b1.documents)[uuid], vb, Some(wb), r);
        assert(xa@ == xb@ && dmap(a1.documents)[uuid].revisions@.contains_key(xa) && dmap(b1.documents)[uuid].revisions@.contains_key(xb));
    }
}
/// C19 for creations: two replicas that do not know `uuid` and create it with contents of the same digest obtain the same
/// identifier text
pub proof fn lemma_create_same_edit_same_revision(a0: Melda, a1: Melda, b0: Melda, b1: Melda, uuid: Seq<char>, oa: JMap, ob: JMap,
        ra: Result<Option<String>, VxError>, rb: Result<Option<String>, VxError>)
    requires
        create_post(a0, a1, uuid, oa, ra), create_post(b0, b1, uuid, ob, rb),
        !dmap(a0.documents).contains_key(uuid), !dmap(b0.documents).contains_key(uuid),
        obj_digest(oa) == obj_digest(ob),
    ensures
        same_text(ra, rb), res_text(ra, rev_str(child_of(1, obj_digest(oa), None))),
{
    // an unknown object has no recorded revision: `Ok(None)` (already recorded) is impossible
    let v = edit_rev(obj_digest(oa), None);
    if already_recorded(tree_of(dmap(a0.documents), uuid), v) { let r = choose|r: Revision| #[trigger] has_rev(tree_of(dmap(a0.documents), uuid), v, r); assert(false); }
    if already_recorded(tree_of(dmap(b0.documents), uuid), v) { let r = choose|r: Revision| #[trigger] has_rev(tree_of(dmap(b0.documents), uuid), v, r); assert(false); }
}
/// the identifier depends on the parent only through the parent's identifier TEXT
pub proof fn lemma_edit_rev_function_of_text(p1: Revision, p2: Revision, dg: Seq<char>)
    requires rev_str(p1@) == rev_str(p2@), p1.index == p2.index,
    ensures edit_rev(dg, Some(p1)) == edit_rev(dg, Some(p2)),
{ }
/// "submitting the same document twice in a row changes nothing" (plain object): after an update with content digest `dg`
/// was recorded as child `r` of `w` and `r` became the winner, the same content is NOT a change any more
pub proof fn lemma_resubmit_is_no_change(data: DataStorage, t: RevisionTree, r: Revision, uuid: Seq<char>, obj: JMap)
    requires !is_arr(uuid), r@.1 == obj_digest(obj),
    ensures !must_record(data, t, r, uuid, obj),
{ }
/// array: an edit is a change iff the submitted order differs from the winner's order, or the winner is a deletion (the
/// array comes back) — independently of any digest
pub proof fn lemma_array_edit_iff_order_differs(data: DataStorage, t: RevisionTree, w: Revision, uuid: Seq<char>, obj: JMap)
    requires is_arr(uuid),
    ensures must_record(data, t, w, uuid, obj) <==> (submitted_order(obj) != spec_order(data, t, w) || w@.1 == DELETED_HASH@),
{ }
