// ---- unit `pack`: src/datastorage.rs.  Mirror of `struct DataStorage` (field list checked against /repo) ----
// R6 (lock erasure): `Arc<RwLock<Box<dyn Adapter>>>` -> AdapterBox, `Mutex<LruCache<..>>` -> LruShim;
// `.read()/.write()/.lock().unwrap()` erased: single-threaded semantics only.
pub struct DataStorage {
    pub adapter: AdapterBox,
    pub stage: HashMap<String, Value>,
    pub committed_objects: HashMap<String, (String, usize, usize)>,
    pub applied_pack_ids: BTreeSet<String>,
    pub cache: LruShim,
}

// R8: serde_json::Value is opaque; its serialisation is a function of the value
#[verifier::external_body]
#[verifier::accept_recursive_types]
pub struct Value { v: () }
pub uninterp spec fn json_text(v: Value) -> Seq<u8>;
/// serde_json::from_slice as a relation (partial: only what the proofs need)
pub uninterp spec fn parses_to(bytes: Seq<u8>, v: Value) -> bool;

#[verifier::external_body]
pub struct LruShim { c: () }

// R7: anyhow::Error values (messages dropped)
#[verifier::external_body]
pub struct VxError { e: () }
#[verifier::external_body]
pub fn vx_error() -> VxError { unimplemented!() }

// R9: SHA-256 + hex, uninterpreted.  Collision freedom is never assumed.
pub uninterp spec fn sha_hex(b: Seq<u8>) -> Seq<char>;
#[verifier::external_body]
pub fn digest_bytes(content: &[u8]) -> (r: String)
    ensures r@ == sha_hex(content@),
{ unimplemented!() }

// ---------------------------------------------------------------- the Adapter contract (C17), assumed of `dyn Adapter` here
// and proved for MemoryAdapter / the compression wrappers in unit `adapter`
#[verifier::external_body]
pub struct AdapterBox { a: () }
pub type Store = Map<Seq<char>, Seq<u8>>;
impl AdapterBox {
    pub uninterp spec fn store(&self) -> Store;

    #[verifier::external_body]
    pub fn read_object(&self, key: &String, offset: usize, length: usize) -> (r: Result<Vec<u8>, VxError>)
        ensures match r {
            Ok(d) => self.store().contains_key(key@)
                && (offset == 0 && length == 0 ==> d@ == self.store()[key@])
                && (length > 0 ==> offset + length <= self.store()[key@].len() && d@ == self.store()[key@].subrange(offset as int, offset + length)),
            Err(_) => true,
        },
    { unimplemented!() }

    /// write-once; a failed write leaves the store as it was (per-item atomicity is the property's stated assumption)
    #[verifier::external_body]
    pub fn write_object(&mut self, key: &String, data: &[u8]) -> (r: Result<(), VxError>)
        ensures match r {
            Ok(_) => final(self).store() == (if old(self).store().contains_key(key@) { old(self).store() } else { old(self).store().insert(key@, data@) }),
            Err(_) => final(self).store() == old(self).store(),
        },
    { unimplemented!() }

    /// listing by suffix: exactly the keys with that suffix, suffix removed, each once, in ANY order
    #[verifier::external_body]
    pub fn list_objects(&self, ext: &str) -> (r: Result<Vec<String>, VxError>)
        ensures match r {
            Ok(l) => (forall|i: int| 0 <= i < l.len() ==> self.store().contains_key(#[trigger] l@[i]@ + ext@))
                && (forall|s: Seq<char>| self.store().contains_key(s + ext@) ==> exists|i: int| 0 <= i < l.len() && #[trigger] l@[i]@ == s)
                && (forall|i: int, j: int| 0 <= i < j < l.len() ==> l@[i]@ != l@[j]@),
            Err(_) => true,
        },
    { unimplemented!() }
}
/// machine arithmetic: the scanner's nesting counter is an i32, so items must be shorter than 2^31 bytes
pub open spec fn packs_small(s: Store) -> bool { forall|k: Seq<char>| #[trigger] s.contains_key(k) ==> s[k].len() < 0x7fff_ffff }
/// storage only grows and existing items keep their bytes
pub open spec fn store_grows(a: Store, b: Store) -> bool {
    forall|k: Seq<char>| #[trigger] a.contains_key(k) ==> b.contains_key(k) && b[k] == a[k]
}

// ---------------------------------------------------------------- std HashMap<String,_> / BTreeSet<String> seen as maps keyed by string CONTENT (assumed of std)
pub uninterp spec fn smap<V>(m: HashMap<String, V>) -> Map<Seq<char>, V>;
pub uninterp spec fn sset(s: BTreeSet<String>) -> Set<Seq<char>>;
#[verifier::external_body]
pub fn vx_smap_contains<V>(m: &HashMap<String, V>, k: &str) -> (r: bool)
    ensures r == smap(*m).contains_key(k@),
{ unimplemented!() }
#[verifier::external_body]
pub fn vx_smap_get<'a, V>(m: &'a HashMap<String, V>, k: &str) -> (r: Option<&'a V>)
    ensures match r { Some(v) => smap(*m).contains_key(k@) && *v == smap(*m)[k@], None => !smap(*m).contains_key(k@) },
{ unimplemented!() }
#[verifier::external_body]
pub fn vx_smap_insert<V>(m: &mut HashMap<String, V>, k: String, v: V)
    ensures smap(*final(m)) == smap(*old(m)).insert(k@, v),
{ unimplemented!() }
#[verifier::external_body]
pub fn vx_smap_clear<V>(m: &mut HashMap<String, V>)
    ensures smap(*final(m)) == Map::<Seq<char>, V>::empty(),
{ unimplemented!() }
#[verifier::external_body]
pub fn vx_smap_is_empty<V>(m: &HashMap<String, V>) -> (r: bool)
    ensures r == (smap(*m) == Map::<Seq<char>, V>::empty()), r == (smap(*m).dom().len() == 0),
{ unimplemented!() }
#[verifier::external_body]
pub fn vx_smap_len<V>(m: &HashMap<String, V>) -> (r: usize)
    ensures r == smap(*m).dom().len(),
{ unimplemented!() }
#[verifier::external_body]
pub fn vx_smap_new<V>() -> (m: HashMap<String, V>)
    ensures smap(m) == Map::<Seq<char>, V>::empty(),
{ unimplemented!() }
/// R18: iteration = an ARBITRARY duplicate-free enumeration of the entries
#[verifier::external_body]
pub fn vx_smap_entries<'a, V>(m: &'a HashMap<String, V>) -> (v: Vec<(&'a String, &'a V)>)
    ensures
        forall|i: int| 0 <= i < v.len() ==> smap(*m).contains_key(#[trigger] v@[i].0@) && *v@[i].1 == smap(*m)[v@[i].0@],
        forall|k: Seq<char>| smap(*m).contains_key(k) ==> exists|i: int| 0 <= i < v.len() && #[trigger] v@[i].0@ == k,
        forall|i: int, j: int| 0 <= i < j < v.len() ==> v@[i].0@ != v@[j].0@,
        v.len() == smap(*m).dom().len(),
{ unimplemented!() }
#[verifier::external_body]
pub fn vx_sset_insert(s: &mut BTreeSet<String>, k: String)
    ensures sset(*final(s)) == sset(*old(s)).insert(k@),
{ unimplemented!() }
#[verifier::external_body]
pub fn vx_sset_contains(s: &BTreeSet<String>, k: &String) -> (r: bool)
    ensures r == sset(*s).contains(k@),
{ unimplemented!() }
#[verifier::external_body]
pub fn vx_sset_clear(s: &mut BTreeSet<String>)
    ensures sset(*final(s)) == Set::<Seq<char>>::empty(),
{ unimplemented!() }

// R10: string helpers (assumed of std)
#[verifier::external_body]
pub fn vx_str_concat(a: &str, b: &str) -> (r: String)
    ensures r@ == a@ + b@,
{ unimplemented!() }
pub fn vx_str_is(a: &String, lit: &str) -> (r: bool)
    ensures r == (a@ == lit@),
{ a.as_str() == lit }
#[verifier::external_body]
pub fn vx_str_clone(a: &String) -> (r: String)
    ensures r@ == a@,
{ unimplemented!() }

// R1/R2: `&E[i]`
pub fn vx_at<'a, T>(m: &'a [T], i: usize) -> (t: &'a T)
    requires i < m.len(),
    ensures *t == m@[i as int],
{ &m[i] }

/// `l` is a listing of the packs in `store`: every name's pack item exists, every pack item is named, no repeats (any order)
pub open spec fn listing_of(l: Seq<String>, store: Store) -> bool {
    &&& forall|i: int| 0 <= i < l.len() ==> store.contains_key(pkey(#[trigger] l[i]@))
    &&& forall|s: Seq<char>| store.contains_key(pkey(s)) ==> exists|i: int| 0 <= i < l.len() && #[trigger] l[i]@ == s
    &&& forall|i: int, j: int| 0 <= i < j < l.len() ==> l[i]@ != l[j]@
}

// ---------------------------------------------------------------- JSON lexical structure (RFC 8259): depth / in-string / escape state after n bytes
pub open spec fn lex_step(st: (int, bool, bool), c: u8) -> (int, bool, bool) {
    let (d, s, e) = st;
    if s {
        if e { (d, true, false) }
        else if c == 0x5c { (d, true, true) }
        else if c == 0x22 { (d, false, false) }
        else { (d, true, false) }
    } else {
        if c == 0x22 { (d, true, false) }
        else if c == 0x7b { (d + 1, false, false) }
        else if c == 0x7d { (d - 1, false, false) }
        else { (d, false, false) }
    }
}
pub open spec fn lex(s: Seq<u8>, n: int) -> (int, bool, bool)
    decreases n
{
    if n <= 0 { (0, false, false) } else { lex_step(lex(s, n - 1), s[n - 1]) }
}
/// [a,b) is a top-level JSON object of s: opens with `{` at depth 0 outside any string,
/// closes with `}` back at depth 0, and is never at depth 0 outside a string in between
pub open spec fn is_obj_range(s: Seq<u8>, a: int, b: int) -> bool {
    &&& 0 <= a < b <= s.len()
    &&& lex(s, a).0 == 0 && !lex(s, a).1 && s[a] == 0x7b
    &&& lex(s, b).0 == 0 && !lex(s, b).1 && s[b - 1] == 0x7d
    &&& forall|k: int| a < k < b ==> #[trigger] lex(s, k).0 != 0 || lex(s, k).1
}

pub type Index = Map<Seq<char>, (String, usize, usize)>;
/// index entry e (under key) was produced from pack `name` with bytes `data`: it names a top-level object of the pack whose bytes hash to the key
pub open spec fn entry_from(data: Seq<u8>, name: Seq<char>, key: Seq<char>, e: (String, usize, usize)) -> bool {
    e.0@ == name && is_obj_range(data, e.1 as int, e.1 + e.2) && sha_hex(data.subrange(e.1 as int, e.1 + e.2)) == key
}
/// the index after scanning the first n bytes of the pack
pub open spec fn parsed_upto(data: Seq<u8>, name: Seq<char>, n: int, co0: Index, co: Index) -> bool {
    &&& forall|key: Seq<char>| #[trigger] co.contains_key(key) ==>
            (co0.contains_key(key) && co[key] == co0[key]) || (entry_from(data, name, key, co[key]) && co[key].1 + co[key].2 <= n)
    &&& forall|key: Seq<char>| #[trigger] co0.contains_key(key) ==> co.contains_key(key)
    &&& forall|a: int, b: int| b <= n && #[trigger] is_obj_range(data, a, b) ==>
            co.contains_key(sha_hex(data.subrange(a, b))) && entry_from(data, name, sha_hex(data.subrange(a, b)), co[sha_hex(data.subrange(a, b))])
}
/// an object range that ends at n starts where the scanner says the current object started
pub proof fn lemma_range_start_unique(s: Seq<u8>, a: int, os: int, n: int)
    requires
        is_obj_range(s, a, n),
        0 <= os < n, lex(s, os).0 == 0, !lex(s, os).1, s[os] == 0x7b,
        forall|k: int| os < k < n ==> #[trigger] lex(s, k).0 != 0 || lex(s, k).1,
    ensures a == os,
{
    if a < os { assert(lex(s, os).0 != 0 || lex(s, os).1); }
    if a > os { assert(lex(s, a).0 != 0 || lex(s, a).1); }
}

// ---------------------------------------------------------------- R8: serde_json shims
#[verifier::external_body]
pub struct JsonText { s: String }
impl JsonText {
    pub uninterp spec fn bytes(&self) -> Seq<u8>;
    #[verifier::external_body]
    pub fn as_bytes(&self) -> (r: &[u8])
        ensures r@ == self.bytes(),
    { unimplemented!() }
}
/// `serde_json::to_string(&v).unwrap()`
#[verifier::external_body]
pub fn vx_json_string(v: &Value) -> (r: JsonText)
    ensures r.bytes() == json_text(*v),
{ unimplemented!() }
/// `std::str::from_utf8(&data)?` + `serde_json::from_str(..)?`
#[verifier::external_body]
pub fn vx_parse_json(data: &Vec<u8>) -> (r: Result<Value, VxError>)
    ensures match r { Ok(v) => parses_to(data@, v), Err(_) => true },
{ unimplemented!() }
#[verifier::external_body]
pub fn vx_value_clone(v: &Value) -> (r: Value)
    ensures r == *v,
{ unimplemented!() }

// ---------------------------------------------------------------- representation invariant of the object index
pub open spec fn pkey(p: Seq<char>) -> Seq<char> { p + PACK_EXTENSION@ }
/// every index entry names an applied pack present in storage and a top-level object of that pack whose bytes hash to the entry's key;
/// every top-level object of every applied pack is indexed
pub open spec fn ds_inv_at(store: Store, applied: Set<Seq<char>>, co: Index) -> bool {
    &&& forall|key: Seq<char>| #[trigger] co.contains_key(key) ==>
            applied.contains(co[key].0@) && store.contains_key(pkey(co[key].0@))
            && entry_from(store[pkey(co[key].0@)], co[key].0@, key, co[key])
    &&& forall|p: Seq<char>, a: int, b: int| applied.contains(p) && store.contains_key(pkey(p)) && #[trigger] is_obj_range(store[pkey(p)], a, b) ==>
            co.contains_key(sha_hex(store[pkey(p)].subrange(a, b)))
}
pub open spec fn ds_inv(d: DataStorage) -> bool {
    ds_inv_at(d.adapter.store(), sset(d.applied_pack_ids), smap(d.committed_objects))
}
/// C11/C02: the invariant survives any growth of storage (items are never modified or removed)
pub proof fn lemma_inv_store_grows(s1: Store, s2: Store, applied: Set<Seq<char>>, co: Index)
    requires ds_inv_at(s1, applied, co), store_grows(s1, s2),
        forall|p: Seq<char>| applied.contains(p) ==> s1.contains_key(pkey(p)),
    ensures ds_inv_at(s2, applied, co),
{ }
/// the set of object digests is a function of (storage, applied packs): what incremental refreshes and a full reload agree on (C02)
pub open spec fn digest_of_some_object(store: Store, applied: Set<Seq<char>>, key: Seq<char>) -> bool {
    exists|p: Seq<char>, a: int, b: int| applied.contains(p) && store.contains_key(pkey(p)) && #[trigger] is_obj_range(store[pkey(p)], a, b)
        && key == sha_hex(store[pkey(p)].subrange(a, b))
}
pub proof fn lemma_index_domain_determined(store: Store, applied: Set<Seq<char>>, co: Index)
    requires ds_inv_at(store, applied, co),
    ensures forall|key: Seq<char>| co.contains_key(key) <==> digest_of_some_object(store, applied, key),
{
    assert forall|key: Seq<char>| co.contains_key(key) implies digest_of_some_object(store, applied, key) by {
        let e = co[key];
        assert(is_obj_range(store[pkey(e.0@)], e.1 as int, e.1 + e.2));
    }
}
/// C02: any two index states that satisfy the invariant over the same storage and the same applied packs
/// (one reached by a sequence of incremental refreshes, the other by a full reload) index the same digests,
/// and each entry of either leads to bytes with the same digest
pub proof fn lemma_refresh_equals_reload(store: Store, applied: Set<Seq<char>>, co1: Index, co2: Index)
    requires ds_inv_at(store, applied, co1), ds_inv_at(store, applied, co2),
    ensures
        forall|key: Seq<char>| co1.contains_key(key) <==> co2.contains_key(key),
        forall|key: Seq<char>| #[trigger] co1.contains_key(key) ==>
            sha_hex(store[pkey(co1[key].0@)].subrange(co1[key].1 as int, co1[key].1 + co1[key].2))
            == sha_hex(store[pkey(co2[key].0@)].subrange(co2[key].1 as int, co2[key].1 + co2[key].2)),
{
    lemma_index_domain_determined(store, applied, co1);
    lemma_index_domain_determined(store, applied, co2);
}

// ---------------------------------------------------------------- pack text:  '[' t0 ',' t1 ',' ... ']'
pub open spec fn prefix(texts: Seq<Seq<u8>>, k: int) -> Seq<u8>
    decreases k
{
    if k <= 0 { seq![0x5bu8] }
    else { prefix(texts, k - 1) + texts[k - 1] + (if k < texts.len() { seq![0x2cu8] } else { Seq::<u8>::empty() }) }
}
pub open spec fn pack_text(texts: Seq<Seq<u8>>) -> Seq<u8> { prefix(texts, texts.len() as int) + seq![0x5du8] }
/// offset at which object j starts inside pack_text(texts)
pub open spec fn obj_off(texts: Seq<Seq<u8>>, j: int) -> int { prefix(texts, j).len() as int }

pub open spec fn key_in(keys: Seq<Seq<char>>, n: int, k: Seq<char>) -> bool { exists|j: int| 0 <= j < n && #[trigger] keys[j] == k }
/// keys / texts enumerate (in ANY order, without repetition) the staged objects and their JSON texts
pub open spec fn is_enum_of(keys: Seq<Seq<char>>, texts: Seq<Seq<u8>>, stage: Map<Seq<char>, Value>) -> bool {
    &&& keys.len() == texts.len()
    &&& forall|i: int, j: int| 0 <= i < j < keys.len() ==> keys[i] != keys[j]
    &&& forall|d: Seq<char>| #[trigger] stage.contains_key(d) ==> key_in(keys, keys.len() as int, d)
    &&& forall|j: int| 0 <= j < keys.len() ==> stage.contains_key(#[trigger] keys[j]) && texts[j] == json_text(stage[keys[j]])
}
/// the (offset, length) table built while the pack buffer is written: first n objects recorded at the place their text sits
pub open spec fn im_ok(im: Map<Seq<char>, (usize, usize)>, keys: Seq<Seq<char>>, texts: Seq<Seq<u8>>, n: int) -> bool {
    &&& forall|j: int| 0 <= j < n ==> im.contains_key(#[trigger] keys[j]) && im[keys[j]].0 == obj_off(texts, j) && im[keys[j]].1 == texts[j].len()
    &&& forall|k: Seq<char>| #[trigger] im.contains_key(k) ==> key_in(keys, n, k)
}
/// abstract state of a DataStorage: (storage items, staged objects, object index, applied packs)
pub struct DsV {
    pub store: Store,
    pub stage: Map<Seq<char>, Value>,
    pub co: Index,
    pub applied: Set<Seq<char>>,
}
pub open spec fn dsv(d: DataStorage) -> DsV {
    DsV { store: d.adapter.store(), stage: smap(d.stage), co: smap(d.committed_objects), applied: sset(d.applied_pack_ids) }
}
/// what a successful pack() leaves behind, for `keys`/`texts` an enumeration (in ANY order) of the staged objects and their JSON texts
pub open spec fn pack_post(o: DsV, n: DsV, p: Seq<char>, keys: Seq<Seq<char>>, texts: Seq<Seq<u8>>) -> bool {
    let b = pack_text(texts);
    &&& is_enum_of(keys, texts, o.stage) && keys.len() > 0
    // pack name = digest of the pack bytes (C11); exactly one write-once item is written (C09, C11)
    &&& p == sha_hex(b)
    &&& n.store == (if o.store.contains_key(pkey(p)) { o.store } else { o.store.insert(pkey(p), b) })
    &&& n.stage == Map::<Seq<char>, Value>::empty()
    &&& n.applied == o.applied.insert(p)
    // every staged object is indexed at (pack, offset, length) of its own text inside the pack bytes
    &&& forall|j: int| 0 <= j < keys.len() ==> n.co.contains_key(#[trigger] keys[j])
            && n.co[keys[j]].0@ == p
            && n.co[keys[j]].1 == obj_off(texts, j)
            && n.co[keys[j]].2 == texts[j].len()
    // nothing else in the index changes
    &&& forall|k: Seq<char>| !o.stage.contains_key(k) ==>
            (#[trigger] n.co.contains_key(k) <==> o.co.contains_key(k))
            && (n.co.contains_key(k) ==> n.co[k] == o.co[k])
}

/// some enumeration order of the staged set explains the post-state (the order is the hash table's: arbitrary)
pub open spec fn pack_ok(o: DsV, n: DsV, p: Seq<char>) -> bool {
    exists|keys: Seq<Seq<char>>, texts: Seq<Seq<u8>>| #[trigger] pack_post(o, n, p, keys, texts)
}

// ---------------------------------------------------------------- R8: serde_json::Map<String, Value> / Value::Object (assumed)
#[verifier::external_body]
#[verifier::accept_recursive_types]
pub struct JMap { m: () }
pub uninterp spec fn jmap(m: JMap) -> Map<Seq<char>, Value>;
/// the object view of a JSON value (None when it is not an object)
pub uninterp spec fn as_obj(v: Value) -> Option<Map<Seq<char>, Value>>;
#[verifier::external_body]
pub fn vx_jmap_new() -> (m: JMap)
    ensures jmap(m) == Map::<Seq<char>, Value>::empty(),
{ unimplemented!() }
#[verifier::external_body]
pub fn vx_jmap_insert(m: &mut JMap, k: String, v: Value)
    ensures jmap(*final(m)) == jmap(*old(m)).insert(k@, v),
{ unimplemented!() }
#[verifier::external_body]
pub fn vx_value_from_map(m: JMap) -> (v: Value)
    ensures as_obj(v) == Some(jmap(m)),
{ unimplemented!() }
#[verifier::external_body]
pub fn vx_is_object(v: &Value) -> (r: bool)
    ensures r == as_obj(*v).is_some(),
{ unimplemented!() }
#[verifier::external_body]
pub fn vx_as_object(v: &Value) -> (m: &JMap)
    requires as_obj(*v).is_some(),
    ensures as_obj(*v) == Some(jmap(*m)),
{ unimplemented!() }
/// R18: iteration over a serde_json::Map = an ARBITRARY duplicate-free enumeration of its entries
#[verifier::external_body]
pub fn vx_jmap_entries<'a>(m: &'a JMap) -> (v: Vec<(&'a String, &'a Value)>)
    ensures
        forall|i: int| 0 <= i < v.len() ==> jmap(*m).contains_key(#[trigger] v@[i].0@) && *v@[i].1 == jmap(*m)[v@[i].0@],
        forall|k: Seq<char>| jmap(*m).contains_key(k) ==> exists|i: int| 0 <= i < v.len() && #[trigger] v@[i].0@ == k,
        forall|i: int, j: int| 0 <= i < j < v.len() ==> v@[i].0@ != v@[j].0@,
{ unimplemented!() }

/// C15: export, discard, replay is the identity on the staged set (objects that were committed meanwhile are skipped)
pub proof fn lemma_export_discard_replay(stage0: Map<Seq<char>, Value>, co: Index, exported: Map<Seq<char>, Value>, stage1: Map<Seq<char>, Value>, stage2: Map<Seq<char>, Value>)
    requires
        exported == stage0,                                  // stage()
        stage1 == Map::<Seq<char>, Value>::empty(),          // unstage()
        replayed(stage1, co, exported, stage2),              // replay_stage(exported)
        forall|d: Seq<char>| stage0.contains_key(d) ==> !co.contains_key(d),   // a digest is never both staged and committed (write_raw_value)
    ensures stage2 =~= stage0,
{ }
/// post-state of replay_stage: every exported object whose digest is not committed is staged (again); nothing else changes
pub open spec fn replayed(before: Map<Seq<char>, Value>, co: Index, s: Map<Seq<char>, Value>, after: Map<Seq<char>, Value>) -> bool {
    &&& forall|d: Seq<char>| after.contains_key(d) <==> (before.contains_key(d) || (s.contains_key(d) && !co.contains_key(d)))
    &&& forall|d: Seq<char>| #[trigger] after.contains_key(d) ==> after[d] == (if s.contains_key(d) && !co.contains_key(d) { s[d] } else { before[d] })
}

// ---------------------------------------------------------------- C03: what pack() writes is what reload()/refresh() re-index
pub open spec fn neutral() -> (int, bool, bool) { (0int, false, false) }
/// R8 assumption about serde_json: the text of an OBJECT value is one JSON object — opens with `{`, closes with `}`,
/// is lexically balanced, and is strictly inside (depth > 0 or inside a string) in between.  Holds for every JSON content:
/// braces, quotes, backslashes inside strings are covered because `lex` tracks strings and escapes.
pub open spec fn wf_obj_text(t: Seq<u8>) -> bool {
    &&& t.len() >= 2 && t[0] == 0x7b && t[t.len() - 1] == 0x7d
    &&& lex(t, t.len() as int) == neutral()
    &&& forall|k: int| 0 < k < t.len() ==> #[trigger] lex(t, k).0 != 0 || lex(t, k).1
}
pub proof fn lemma_lex_prefix(a: Seq<u8>, b: Seq<u8>, m: int)
    requires 0 <= m <= a.len(), m <= b.len(), a.subrange(0, m) == b.subrange(0, m),
    ensures lex(a, m) == lex(b, m),
    decreases m
{
    if m > 0 {
        assert(a.subrange(0, m - 1) =~= a.subrange(0, m).subrange(0, m - 1));
        assert(b.subrange(0, m - 1) =~= b.subrange(0, m).subrange(0, m - 1));
        lemma_lex_prefix(a, b, m - 1);
        assert(a[m - 1] == a.subrange(0, m)[m - 1]);
        assert(b[m - 1] == b.subrange(0, m)[m - 1]);
    }
}
/// lexing a text embedded at a neutral point is lexing the text on its own
pub proof fn lemma_lex_shift(b: Seq<u8>, off: int, t: Seq<u8>, k: int)
    requires 0 <= off, off + t.len() <= b.len(), b.subrange(off, off + t.len()) == t, lex(b, off) == neutral(), 0 <= k <= t.len(),
    ensures lex(b, off + k) == lex(t, k),
    decreases k
{
    if k > 0 {
        lemma_lex_shift(b, off, t, k - 1);
        assert(b[off + k - 1] == b.subrange(off, off + t.len())[k - 1]);
    }
}
pub proof fn lemma_embedded_obj_range(b: Seq<u8>, off: int, t: Seq<u8>)
    requires 0 <= off, off + t.len() <= b.len(), b.subrange(off, off + t.len()) == t, lex(b, off) == neutral(), wf_obj_text(t),
    ensures is_obj_range(b, off, off + t.len()), lex(b, off + t.len()) == neutral(),
{
    lemma_lex_shift(b, off, t, t.len() as int);
    lemma_lex_shift(b, off, t, 0);
    assert(b[off] == b.subrange(off, off + t.len())[0]);
    assert(b[off + t.len() - 1] == b.subrange(off, off + t.len())[t.len() - 1]);
    assert forall|k: int| off < k < off + t.len() implies #[trigger] lex(b, k).0 != 0 || lex(b, k).1 by {
        lemma_lex_shift(b, off, t, k - off);
        assert(lex(t, k - off).0 != 0 || lex(t, k - off).1);
    }
}
pub proof fn lemma_prefix_mono(texts: Seq<Seq<u8>>, j: int, k: int)
    requires 0 <= j <= k <= texts.len(),
    ensures prefix(texts, j).len() <= prefix(texts, k).len(), prefix(texts, k).subrange(0, prefix(texts, j).len() as int) == prefix(texts, j),
    decreases k - j
{
    if j < k {
        lemma_prefix_mono(texts, j, k - 1);
        let a = prefix(texts, k - 1); let c = prefix(texts, k);
        assert(c.subrange(0, a.len() as int) =~= a);
        assert(c.subrange(0, prefix(texts, j).len() as int) =~= a.subrange(0, prefix(texts, j).len() as int));
    } else {
        assert(prefix(texts, k).subrange(0, prefix(texts, k).len() as int) =~= prefix(texts, k));
    }
}
/// the pack buffer is at a neutral lexical point where each object starts
pub proof fn lemma_prefix_neutral(texts: Seq<Seq<u8>>, j: int)
    requires 0 <= j <= texts.len(), forall|i: int| 0 <= i < texts.len() ==> wf_obj_text(#[trigger] texts[i]),
    ensures lex(prefix(texts, j), prefix(texts, j).len() as int) == neutral(),
    decreases j
{
    if j <= 0 {
        let a = prefix(texts, 0);
        assert(a.len() == 1 && a[0] == 0x5b);
        assert(lex(a, 1) == lex_step(lex(a, 0), a[0]));
    } else {
        lemma_prefix_neutral(texts, j - 1);
        let a = prefix(texts, j - 1); let t = texts[j - 1]; let c = prefix(texts, j);
        assert(c.subrange(0, a.len() as int) =~= a);
        assert(a.subrange(0, a.len() as int) =~= a);
        lemma_lex_prefix(c, a, a.len() as int);
        assert(c.subrange(a.len() as int, (a.len() + t.len()) as int) =~= t);
        lemma_embedded_obj_range(c, a.len() as int, t);
        if j < texts.len() {
            assert(c.len() == a.len() + t.len() + 1 && c[(a.len() + t.len()) as int] == 0x2c);
            assert(lex(c, c.len() as int) == lex_step(lex(c, c.len() - 1), c[c.len() - 1]));
        } else {
            assert(c.len() == a.len() + t.len());
        }
    }
}
/// every object text sits in the pack at its recorded offset and is a top-level JSON object there — for ALL JSON contents
pub proof fn lemma_pack_ranges(texts: Seq<Seq<u8>>, j: int)
    requires 0 <= j < texts.len(), forall|i: int| 0 <= i < texts.len() ==> wf_obj_text(#[trigger] texts[i]),
    ensures
        obj_off(texts, j) + texts[j].len() <= pack_text(texts).len(),
        pack_text(texts).subrange(obj_off(texts, j), obj_off(texts, j) + texts[j].len()) == texts[j],
        is_obj_range(pack_text(texts), obj_off(texts, j), obj_off(texts, j) + texts[j].len()),
{
    let b = pack_text(texts); let a = prefix(texts, j); let c = prefix(texts, j + 1); let full = prefix(texts, texts.len() as int);
    lemma_prefix_neutral(texts, j);
    lemma_prefix_mono(texts, j + 1, texts.len() as int);
    lemma_prefix_mono(texts, j, j + 1);
    assert(b.subrange(0, full.len() as int) =~= full);
    assert(b.subrange(0, c.len() as int) =~= full.subrange(0, c.len() as int));
    assert(b.subrange(0, a.len() as int) =~= c.subrange(0, a.len() as int));
    assert(a.subrange(0, a.len() as int) =~= a);
    assert(c.subrange(0, a.len() as int) == a);
    assert(b.subrange(0, a.len() as int) =~= a);
    lemma_lex_prefix(b, a, a.len() as int);
    assert(c.subrange(a.len() as int, (a.len() + texts[j].len()) as int) =~= texts[j]);
    assert(b.subrange(a.len() as int, (a.len() + texts[j].len()) as int) =~= c.subrange(a.len() as int, (a.len() + texts[j].len()) as int)) by {
        assert forall|i: int| a.len() <= i < a.len() + texts[j].len() implies b[i] == c[i] by { assert(b.subrange(0, c.len() as int)[i] == c[i]); }
    }
    lemma_embedded_obj_range(b, a.len() as int, texts[j]);
}
/// every staged key is the digest of the text that is written for it (established by write_object's callers: digest_object)
pub open spec fn stage_wf(keys: Seq<Seq<char>>, texts: Seq<Seq<u8>>) -> bool {
    forall|j: int| 0 <= j < keys.len() ==> #[trigger] keys[j] == sha_hex(texts[j])
}
/// C03 (durability, index part): after a successful pack() that wrote a new item, ANY replica whose index satisfies the
/// representation invariant over that storage with the new pack applied — i.e. any replica freshly opened (reload) or
/// refreshed on it — has every just-committed object indexed under its digest, pointing at bytes with that digest.
pub proof fn lemma_reopen_finds_committed_objects(o: DsV, n: DsV, p: Seq<char>, keys: Seq<Seq<char>>, texts: Seq<Seq<u8>>, applied_r: Set<Seq<char>>, co_r: Index)
    requires
        pack_post(o, n, p, keys, texts), !o.store.contains_key(pkey(p)),
        forall|i: int| 0 <= i < texts.len() ==> wf_obj_text(#[trigger] texts[i]),
        stage_wf(keys, texts),
        ds_inv_at(n.store, applied_r, co_r), applied_r.contains(p),
    ensures
        forall|j: int| 0 <= j < keys.len() ==> co_r.contains_key(#[trigger] keys[j])
            && n.store.contains_key(pkey(co_r[keys[j]].0@))
            && sha_hex(n.store[pkey(co_r[keys[j]].0@)].subrange(co_r[keys[j]].1 as int, co_r[keys[j]].1 + co_r[keys[j]].2)) == keys[j],
{
    assert forall|j: int| 0 <= j < keys.len() implies co_r.contains_key(#[trigger] keys[j])
        && n.store.contains_key(pkey(co_r[keys[j]].0@))
        && sha_hex(n.store[pkey(co_r[keys[j]].0@)].subrange(co_r[keys[j]].1 as int, co_r[keys[j]].1 + co_r[keys[j]].2)) == keys[j] by {
        lemma_pack_ranges(texts, j);
        assert(n.store[pkey(p)] == pack_text(texts));
        assert(is_obj_range(n.store[pkey(p)], obj_off(texts, j), obj_off(texts, j) + texts[j].len()));
    }
}
/// C03 for the committing replica itself: pack() keeps the representation invariant, and its own entries point at the object texts
pub proof fn lemma_pack_keeps_inv(o: DsV, n: DsV, p: Seq<char>, keys: Seq<Seq<char>>, texts: Seq<Seq<u8>>)
    requires
        pack_post(o, n, p, keys, texts), !o.store.contains_key(pkey(p)),
        forall|i: int| 0 <= i < texts.len() ==> wf_obj_text(#[trigger] texts[i]),
        stage_wf(keys, texts),
        ds_inv_at(o.store, o.applied, o.co),
        forall|q: Seq<char>| o.applied.contains(q) ==> o.store.contains_key(pkey(q)),
        forall|i: int| 0 <= i < texts.len() ==> obj_off(texts, i) + #[trigger] texts[i].len() <= usize::MAX,
    ensures
        forall|j: int| 0 <= j < keys.len() ==> entry_from(n.store[pkey(p)], p, #[trigger] keys[j], n.co[keys[j]]),
{
    assert forall|j: int| 0 <= j < keys.len() implies entry_from(n.store[pkey(p)], p, #[trigger] keys[j], n.co[keys[j]]) by {
        lemma_pack_ranges(texts, j);
    }
}

/// C18 (hash order): `pack()` serialises the stage in the hash table's iteration order, so two runs may produce
/// different pack bytes and names — but in BOTH every staged object is indexed at a byte range that holds exactly
/// its own JSON text, i.e. the digest -> bytes mapping is the same
pub proof fn lemma_pack_order_free(o: DsV, n1: DsV, p1: Seq<char>, k1: Seq<Seq<char>>, t1: Seq<Seq<u8>>, n2: DsV, p2: Seq<char>, k2: Seq<Seq<char>>, t2: Seq<Seq<u8>>, d: Seq<char>)
    requires
        pack_post(o, n1, p1, k1, t1), pack_post(o, n2, p2, k2, t2),
        !o.store.contains_key(pkey(p1)), !o.store.contains_key(pkey(p2)),
        forall|v: Value| wf_obj_text(#[trigger] json_text(v)),
        o.stage.contains_key(d),
    ensures
        n1.co.contains_key(d) && n2.co.contains_key(d),
        n1.store[pkey(p1)].subrange(n1.co[d].1 as int, n1.co[d].1 + n1.co[d].2) == json_text(o.stage[d]),
        n2.store[pkey(p2)].subrange(n2.co[d].1 as int, n2.co[d].1 + n2.co[d].2) == json_text(o.stage[d]),
{
    let j1 = choose|j: int| 0 <= j < k1.len() && #[trigger] k1[j] == d;
    let j2 = choose|j: int| 0 <= j < k2.len() && #[trigger] k2[j] == d;
    assert(key_in(k1, k1.len() as int, d)); assert(key_in(k2, k2.len() as int, d));
    assert forall|i: int| 0 <= i < t1.len() implies wf_obj_text(#[trigger] t1[i]) by { assert(t1[i] == json_text(o.stage[k1[i]])); }
    assert forall|i: int| 0 <= i < t2.len() implies wf_obj_text(#[trigger] t2[i]) by { assert(t2[i] == json_text(o.stage[k2[i]])); }
    lemma_pack_ranges(t1, j1);
    lemma_pack_ranges(t2, j2);
    assert(n1.co[k1[j1]].1 == obj_off(t1, j1)); assert(n2.co[k2[j2]].1 == obj_off(t2, j2));
}

// ---------------------------------------------------------------- Revision as seen from datastorage.rs
// (contracts of these five methods are PROVED in unit `rev`; here they are assumed with the same meaning)
#[verifier::external_body]
pub struct Revision { r: () }
impl Revision {
    pub uninterp spec fn rdigest(&self) -> Seq<char>;
    pub uninterp spec fn k_empty(&self) -> bool;
    pub uninterp spec fn k_deleted(&self) -> bool;
    pub uninterp spec fn k_resolved(&self) -> bool;
    pub uninterp spec fn k_charcode(&self) -> bool;
    /// empty / deleted / resolved / charcode revisions carry no stored object
    pub open spec fn special(&self) -> bool { self.k_empty() || self.k_deleted() || self.k_resolved() || self.k_charcode() }
    #[verifier::external_body] pub fn digest(&self) -> (r: &String) ensures r@ == self.rdigest() { unimplemented!() }
    #[verifier::external_body] pub fn is_empty(&self) -> (r: bool) ensures r == self.k_empty() { unimplemented!() }
    #[verifier::external_body] pub fn is_deleted(&self) -> (r: bool) ensures r == self.k_deleted() { unimplemented!() }
    #[verifier::external_body] pub fn is_resolved(&self) -> (r: bool) ensures r == self.k_resolved() { unimplemented!() }
    #[verifier::external_body] pub fn is_charcode(&self) -> (r: bool) ensures r == self.k_charcode() { unimplemented!() }
}
// ---------------------------------------------------------------- LRU cache as an invariant-carrying shim (R6 + lru crate):
// its CONTENT is arbitrary (any capacity >= 1, any eviction order); `get` can only return what some earlier `put` stored
impl LruShim {
    pub uninterp spec fn cview(&self) -> Map<Seq<char>, JMap>;
    #[verifier::external_body]
    pub fn get(&self, k: &String) -> (r: Option<&JMap>)
        ensures match r { Some(v) => self.cview().contains_key(k@) && *v == self.cview()[k@], None => true },
    { unimplemented!() }
    #[verifier::external_body]
    pub fn contains(&self, k: &String) -> (r: bool)
        ensures r == self.cview().contains_key(k@),
    { unimplemented!() }
    #[verifier::external_body]
    pub fn peek(&self, k: &String) -> (r: Option<&JMap>)
        ensures match r { Some(v) => self.cview().contains_key(k@) && *v == self.cview()[k@], None => !self.cview().contains_key(k@) },
    { unimplemented!() }
    /// after a put the cache holds a SUBSET of (old content + the new entry): eviction is unconstrained
    #[verifier::external_body]
    pub fn put(&mut self, k: String, v: JMap)
        ensures forall|x: Seq<char>| #[trigger] final(self).cview().contains_key(x) ==>
            (x == k@ && final(self).cview()[x] == v) || (old(self).cview().contains_key(x) && final(self).cview()[x] == old(self).cview()[x]),
    { unimplemented!() }
}
/// the content digest of an object (digest_object: SHA-256 of its canonical JSON text), uninterpreted
pub uninterp spec fn digest_of(o: JMap) -> Seq<char>;
/// cache invariant: an object is cached only under its own content digest.  (It does NOT say the object is still staged or
/// committed: DataStorage::unstage empties the stage but keeps the cache — a cache hit proves nothing about the stage.)
pub open spec fn cache_inv(d: DataStorage) -> bool {
    forall|k: Seq<char>| #[trigger] d.cache.cview().contains_key(k) ==> digest_of(d.cache.cview()[k]) == k
}
/// object `o` is what the storage holds for `digest`: staged under it, or parsed from bytes that hash to it
pub open spec fn backed(d: DataStorage, digest: Seq<char>, o: JMap) -> bool {
    ||| (smap(d.stage).contains_key(digest) && as_obj(smap(d.stage)[digest]) == Some(jmap(o)))
    ||| (smap(d.committed_objects).contains_key(digest) && exists|bytes: Seq<u8>, v: Value| sha_hex(bytes) == digest && #[trigger] parses_to(bytes, v) && as_obj(v) == Some(jmap(o)))
}
#[verifier::external_body]
pub fn vx_jmap_clone(m: &JMap) -> (r: JMap) ensures r == *m { unimplemented!() }
/// `Value::from(map)` / `obj.clone().into()`
#[verifier::external_body]
pub fn vx_value_from_map_ref(m: &JMap) -> (v: Value) ensures as_obj(v) == Some(jmap(*m)) { unimplemented!() }
/// the fixed objects of special revisions: `json!({})`, `json!({"_deleted":true})`, `json!({"_resolved":true})`, `{"#": charcode}`
#[verifier::external_body]
pub fn vx_special_object(kind: u8, rev: &Revision) -> (r: JMap) { unimplemented!() }
/// `value.as_object().expect("expecting_an_object")`: a panic unless the value is an object
#[verifier::external_body]
pub fn vx_expect_object(v: &Value) -> (m: &JMap)
    requires as_obj(*v).is_some(),
    ensures as_obj(*v) == Some(jmap(*m)),
{ unimplemented!() }
/// everything the storage can return for a digest is a JSON object (write_object stages objects; packs index `{..}` ranges only)
pub open spec fn objects_only(d: DataStorage, digest: Seq<char>) -> bool {
    &&& smap(d.stage).contains_key(digest) ==> as_obj(smap(d.stage)[digest]).is_some()
    &&& forall|bytes: Seq<u8>, v: Value| sha_hex(bytes) == digest && #[trigger] parses_to(bytes, v) ==> as_obj(v).is_some()
}
