// ---- unit `delta`: block identifiers and the commit graph (src/melda.rs) ----
pub struct DeltaId(pub u32, pub String);
#[verifier::external] impl PartialEq for DeltaId { fn eq(&self, _o: &Self) -> bool { unimplemented!() } }
#[verifier::external] impl Eq for DeltaId {}
#[verifier::external] impl PartialOrd for DeltaId { fn partial_cmp(&self, _o: &Self) -> Option<std::cmp::Ordering> { unimplemented!() } }
#[verifier::external] impl Ord for DeltaId { fn cmp(&self, _o: &Self) -> std::cmp::Ordering { unimplemented!() } }

pub type DidV = (u32, Seq<char>);
impl View for DeltaId {
    type V = DidV;
    open spec fn view(&self) -> DidV { (self.0, self.1@) }
}
/// Assumed of the external Eq/Ord impls of DeltaId as std collection keys.  That `cmp` is a total order
/// consistent with equality is PROVED for the extracted body (lemmas below).
pub open spec fn did_models() -> bool { vstd::std_specs::btree::key_obeys_cmp_spec::<DeltaId>() }

pub enum Status { Pending, Ready, Applied, Blocked }
#[verifier::external_body]
#[verifier::accept_recursive_types]
pub struct JMap { m: () }
#[verifier::external_body]
pub struct Change { c: () }
/// mirror of `struct Delta` (field list checked against /repo)
pub struct Delta {
    pub id: Option<DeltaId>,
    pub parents: Option<BTreeSet<DeltaId>>,
    pub info: Option<JMap>,
    pub packs: Option<BTreeSet<String>>,
    pub changes: Option<Vec<Change>>,
    pub status: Status,
}
/// mirror of `struct Melda` restricted to the field the contracted functions use.
/// R6: `RwLock<BTreeMap<DeltaId, RwLock<Delta>>>` -> `BTreeMap<DeltaId, Delta>` (single-threaded semantics)
pub struct Melda {
    pub deltas: BTreeMap<DeltaId, Delta>,
    pub data: DataShim,
}
/// `DataStorage` seen from melda.rs: only `read_raw_item`, which forwards to the adapter (Adapter contract, unit `adapter`)
#[verifier::external_body]
pub struct DataShim { d: () }
pub type Store = Map<Seq<char>, Seq<u8>>;
impl DataShim {
    pub uninterp spec fn store(&self) -> Store;
    #[verifier::external_body]
    pub fn read_raw_item(&self, key: &str, offset: usize, length: usize) -> (r: Result<Vec<u8>, VxError>)
        ensures match r {
            Ok(d) => self.store().contains_key(key@) && (offset == 0 && length == 0 ==> d@ == self.store()[key@]),
            Err(_) => true,
        },
    { unimplemented!() }
}
#[verifier::external_body]
pub struct VxError { e: () }
#[verifier::external_body]
pub fn vx_error() -> VxError { unimplemented!() }
// R9: SHA-256 + hex of a byte string (uninterpreted; collision freedom never assumed)
pub uninterp spec fn sha_hex_b(b: Seq<u8>) -> Seq<char>;
#[verifier::external_body]
pub fn digest_bytes(content: &[u8]) -> (r: String)
    ensures r@ == sha_hex_b(content@),
{ unimplemented!() }
// R8: serde_json (assumed)
#[verifier::external_body]
#[verifier::accept_recursive_types]
pub struct Value { v: () }
pub uninterp spec fn parses_to(bytes: Seq<u8>, v: Value) -> bool;
pub uninterp spec fn as_obj(v: Value) -> Option<JMap>;
#[verifier::external_body]
pub fn vx_parse_json(data: &Vec<u8>) -> (r: Result<Value, VxError>)
    ensures match r { Ok(v) => parses_to(data@, v), Err(_) => true },
{ unimplemented!() }
#[verifier::external_body]
pub fn vx_is_object(v: &Value) -> (r: bool) ensures r == as_obj(*v).is_some() { unimplemented!() }
#[verifier::external_body]
pub fn vx_as_object(v: &Value) -> (m: &JMap) requires as_obj(*v).is_some(), ensures as_obj(*v) == Some(*m) { unimplemented!() }
#[verifier::external_body]
pub fn vx_jmap_clone(m: &JMap) -> (r: JMap) ensures r == *m { unimplemented!() }
/// the block text stored under `key` hashes to the identifier's digest and parses to the returned object
pub open spec fn fetched(store: Store, key: Seq<char>, digest: Seq<char>, o: JMap) -> bool {
    store.contains_key(key) && sha_hex_b(store[key]) == digest
    && exists|v: Value| #[trigger] parses_to(store[key], v) && as_obj(v) == Some(o)
}

// ---------------------------------------------------------------- spec of the property statement (C13)
pub open spec fn applied(m: Map<DeltaId, Delta>, id: DeltaId) -> bool { m.contains_key(id) && m[id].status is Applied }
pub open spec fn names_parent(d: Delta, id: DeltaId) -> bool {
    match d.parents { Some(ps) => ps@.contains(id), None => false }
}
/// "the heads are exactly the applied blocks that no applied block names as parent"
pub open spec fn is_head(m: Map<DeltaId, Delta>, id: DeltaId) -> bool {
    applied(m, id) && forall|j: DeltaId| #[trigger] applied(m, j) ==> !names_parent(m[j], id)
}
/// lexicographic order on (index, digest text)
pub open spec fn did_cmp(a: DidV, b: DidV) -> std::cmp::Ordering {
    if a.0 < b.0 { std::cmp::Ordering::Less } else if a.0 > b.0 { std::cmp::Ordering::Greater } else { lex_cmp(a.1, b.1) }
}
pub proof fn lemma_did_cmp_total_order(a: DidV, b: DidV, c: DidV)
    ensures
        did_cmp(a, a) == std::cmp::Ordering::Equal,
        (did_cmp(a, b) == std::cmp::Ordering::Equal) <==> a == b,
        (did_cmp(a, b) == std::cmp::Ordering::Less) <==> (did_cmp(b, a) == std::cmp::Ordering::Greater),
        did_cmp(a, b) == std::cmp::Ordering::Less && did_cmp(b, c) == std::cmp::Ordering::Less ==> did_cmp(a, c) == std::cmp::Ordering::Less,
{
    lemma_lex_irrefl(a.1); lemma_lex_irrefl(b.1);
    lemma_lex_total(a.1, b.1);
    if lex_lt(a.1, b.1) { lemma_lex_asym(a.1, b.1); }
    if lex_lt(b.1, a.1) { lemma_lex_asym(b.1, a.1); }
    if lex_lt(a.1, b.1) && lex_lt(b.1, c.1) { lemma_lex_trans(a.1, b.1, c.1); lemma_lex_irrefl(a.1); }
}
/// C13: if every applied block's index exceeds the index of each parent it names (the load-time check
/// `index == 1 + max parent index`), the parent relation among applied blocks is well-founded, hence acyclic:
/// no block reaches itself through parent links
pub open spec fn index_rule(m: Map<DeltaId, Delta>) -> bool {
    forall|j: DeltaId, p: DeltaId| #[trigger] applied(m, j) && #[trigger] names_parent(m[j], p) ==> p.0 < j.0
}
/// a chain of parent links through applied blocks
pub open spec fn is_parent_path(m: Map<DeltaId, Delta>, path: Seq<DeltaId>) -> bool {
    path.len() >= 2 && forall|i: int| 0 <= i < path.len() - 1 ==> applied(m, #[trigger] path[i]) && names_parent(m[path[i]], path[i + 1])
}
pub proof fn lemma_path_decreases_index(m: Map<DeltaId, Delta>, path: Seq<DeltaId>)
    requires index_rule(m), is_parent_path(m, path),
    ensures path[path.len() - 1].0 < path[0].0,
    decreases path.len()
{
    assert(applied(m, path[0]) && names_parent(m[path[0]], path[1]));
    if path.len() > 2 {
        let tl = path.drop_first();
        assert forall|i: int| 0 <= i < tl.len() - 1 implies applied(m, #[trigger] tl[i]) && names_parent(m[tl[i]], tl[i + 1]) by {
            assert(tl[i] == path[i + 1] && tl[i + 1] == path[i + 2]);
            assert(applied(m, path[i + 1]));
        }
        lemma_path_decreases_index(m, tl);
        assert(tl[tl.len() - 1] == path[path.len() - 1] && tl[0] == path[1]);
    }
}
/// C13: the applied blocks form an acyclic graph — no chain of parent links leads from a block back to itself
pub proof fn lemma_graph_acyclic(m: Map<DeltaId, Delta>, path: Seq<DeltaId>)
    requires index_rule(m), is_parent_path(m, path),
    ensures path[0] != path[path.len() - 1],
{
    lemma_path_decreases_index(m, path);
}

// ---------------------------------------------------------------- shims
#[verifier::external_body]
pub fn vx_did_clone(k: &DeltaId) -> (r: DeltaId) ensures r == *k { unimplemented!() }
// R11: `impl Display for DeltaId` = "{index}-{digest}" (fmt; link checked by bounded stand-in `deltaid`)
pub open spec fn did_str(v: DidV) -> Seq<char> { dec(v.0 as nat) + seq!['-'] + v.1 }
#[verifier::external_body]
pub fn vx_did_text(d: &DeltaId) -> (s: String) ensures s@ == did_str(d@) { unimplemented!() }
#[verifier::external_body]
pub fn vx_str_concat(a: &str, b: &str) -> (r: String) ensures r@ == a@ + b@ { unimplemented!() }
pub fn vx_is_applied(s: &Status) -> (r: bool) ensures r == (*s is Applied) { match s { Status::Applied => true, _ => false } }
/// R12: `anchors.iter().map(|a| a.index()).max().unwrap_or(0)`: the greatest index among the anchors, 0 if there is none
#[verifier::external_body]
pub fn vx_max_index(anchors: &BTreeSet<DeltaId>) -> (r: u32)
    ensures
        forall|a: DeltaId| anchors@.contains(a) ==> a.0 <= r,
        anchors@.len() == 0 ==> r == 0,
        anchors@.len() > 0 ==> exists|a: DeltaId| anchors@.contains(a) && a.0 == r,
{ unimplemented!() }
/// R18: iteration over a BTreeMap / BTreeSet = an enumeration of its entries without repetition
#[verifier::external_body]
pub fn vx_dmap_entries<'a>(m: &'a BTreeMap<DeltaId, Delta>) -> (v: Vec<(&'a DeltaId, &'a Delta)>)
    ensures
        forall|i: int| 0 <= i < v.len() ==> m@.contains_key(*#[trigger] v@[i].0) && *v@[i].1 == m@[*v@[i].0],
        forall|k: DeltaId| m@.contains_key(k) ==> exists|i: int| 0 <= i < v.len() && *#[trigger] v@[i].0 == k,
{ unimplemented!() }
#[verifier::external_body]
pub fn vx_dset_elems<'a>(s: &'a BTreeSet<DeltaId>) -> (v: Vec<&'a DeltaId>)
    ensures
        forall|i: int| 0 <= i < v.len() ==> s@.contains(*#[trigger] v@[i]),
        forall|k: DeltaId| s@.contains(k) ==> exists|i: int| 0 <= i < v.len() && *#[trigger] v@[i] == k,
{ unimplemented!() }

/// id is one of the first n removed elements
pub open spec fn removed_upto(elems: Seq<&DeltaId>, n: int, id: DeltaId) -> bool {
    exists|i: int| 0 <= i < n && *#[trigger] elems[i] == id
}
pub proof fn lemma_removed_step(elems: Seq<&DeltaId>, n: int, id: DeltaId)
    requires 0 <= n < elems.len(),
    ensures removed_upto(elems, n + 1, id) <==> (removed_upto(elems, n, id) || *elems[n] == id),
{
    if removed_upto(elems, n + 1, id) { let i = choose|i: int| 0 <= i < n + 1 && *#[trigger] elems[i] == id; if i < n { assert(*elems[i] == id); } }
    if removed_upto(elems, n, id) { let i = choose|i: int| 0 <= i < n && *#[trigger] elems[i] == id; assert(*elems[i] == id); }
    if *elems[n] == id { assert(0 <= n < n + 1 && *elems[n] == id); }
}
/// some applied block among the first n scanned entries names id as a parent
pub open spec fn named_upto(ents: Seq<(&DeltaId, &Delta)>, n: int, m: Map<DeltaId, Delta>, id: DeltaId) -> bool {
    exists|i: int| 0 <= i < n && applied(m, *#[trigger] ents[i].0) && names_parent(*ents[i].1, id)
}
pub proof fn lemma_named_step(ents: Seq<(&DeltaId, &Delta)>, n: int, m: Map<DeltaId, Delta>, id: DeltaId)
    requires 0 <= n < ents.len(),
    ensures named_upto(ents, n + 1, m, id) <==> (named_upto(ents, n, m, id) || (applied(m, *ents[n].0) && names_parent(*ents[n].1, id))),
{
    if named_upto(ents, n + 1, m, id) { let i = choose|i: int| 0 <= i < n + 1 && applied(m, *#[trigger] ents[i].0) && names_parent(*ents[i].1, id); if i < n { assert(applied(m, *ents[i].0)); } }
    if named_upto(ents, n, m, id) { let i = choose|i: int| 0 <= i < n && applied(m, *#[trigger] ents[i].0) && names_parent(*ents[i].1, id); assert(applied(m, *ents[i].0)); }
    if applied(m, *ents[n].0) && names_parent(*ents[n].1, id) { assert(0 <= n < n + 1 && applied(m, *ents[n].0)); }
}
pub proof fn lemma_named_all(ents: Seq<(&DeltaId, &Delta)>, m: Map<DeltaId, Delta>, id: DeltaId)
    requires
        forall|i: int| 0 <= i < ents.len() ==> m.contains_key(*#[trigger] ents[i].0) && *ents[i].1 == m[*ents[i].0],
        forall|k: DeltaId| m.contains_key(k) ==> exists|i: int| 0 <= i < ents.len() && *#[trigger] ents[i].0 == k,
    ensures named_upto(ents, ents.len() as int, m, id) <==> (exists|j: DeltaId| #[trigger] applied(m, j) && names_parent(m[j], id)),
{
    if named_upto(ents, ents.len() as int, m, id) {
        let i = choose|i: int| 0 <= i < ents.len() && applied(m, *#[trigger] ents[i].0) && names_parent(*ents[i].1, id);
        assert(applied(m, *ents[i].0) && names_parent(m[*ents[i].0], id));
    }
    if exists|j: DeltaId| #[trigger] applied(m, j) && names_parent(m[j], id) {
        let j = choose|j: DeltaId| #[trigger] applied(m, j) && names_parent(m[j], id);
        let i = choose|i: int| 0 <= i < ents.len() && *#[trigger] ents[i].0 == j;
        assert(applied(m, *ents[i].0) && names_parent(*ents[i].1, id));
    }
}
