// ---- unit `refreshm`: Melda::refresh / Melda::reload (src/melda.rs) — C02, second half:
// "A delta block influences a replica's visible state only if the block itself, every ancestor block, and every data pack
//  and object it refers to are present and pass their hash checks; otherwise it is held back together with all of its
//  descendants.  When the missing items arrive later a refresh applies the held-back blocks."
//
// Included units: `gate` (Melda mirror, DeltaMap + keyed shims, check_delta / mark_valid_deltas — RE-VERIFIED from the real
// code in this file) which includes `pack` (DataStorage, all of its functions re-verified).
// Proved FROM THE REAL CODE here: Melda::refresh, Melda::reload, DataStorage::list_raw_items.
// (unit `pack` states the frame `cache unchanged` for DataStorage::{refresh, reload}: the gate's precondition `cache_inv` survives them.)
//
// ASSUMED HERE (the callee lives in a unit that cannot be included: `block`, `delta`, `apply`, `tree` are built on unit
// `rev`'s concrete `Revision`, unit `pack` on an opaque `Revision` — the preambles collide).  For each link the assumed
// contract is the proved one TRANSPORTED to this unit's types; the differences are listed at the item:
//   * Melda::fetch_raw_delta   — ASSUMED HERE, PROVED IN unit `delta` as `Melda::fetch_raw_delta`
//   * Melda::load_raw_delta    — ASSUMED HERE, PROVED IN unit `block` as `Melda::load_raw_delta` (only consequences of `loaded`)
//   * Melda::apply_delta       — ASSUMED HERE, PROVED IN unit `apply` as `Melda::apply_delta` (entry handle instead of `&Delta`)
//   * vx_docs_validate_all     — ASSUMED HERE: the pass `rtrees.par_iter().for_each(|mtx| mtx.lock().unwrap().validate())`;
//                                `RevisionTree::validate` PROVED IN unit `tree` as `RevisionTree::validate`
//   * Melda::has_staging       — ASSUMED HERE (rayon `par_iter().any`), replaced by its meaning as in unit `commit`
//   * vx_deltaid_parse         — `DeltaId::from` (regex): NO contract beyond well-typedness
//   * vx_deltas_contains / vx_deltas_insert / vx_deltas_clear / vx_deltas_drop_changes_raw / vx_docs_clear — std BTreeMap under lock erasure
// Modelling: lock erasure as in unit `gate`.  `par_iter().for_each(..)` over the block map / the trees -> a sequential pass
// (DROPPED: the parallel schedule; each closure touches only the entry it is given, so every schedule is equivalent to
// the sequential pass in some order, and the pass contracts are proved for an ARBITRARY enumeration order).

// ================================================================ DeltaId as a std collection key (for `did_models`, precondition of load_raw_delta)
#[verifier::external] impl PartialEq for DeltaId { fn eq(&self, _o: &Self) -> bool { unimplemented!() } }
#[verifier::external] impl Eq for DeltaId {}
#[verifier::external] impl PartialOrd for DeltaId { fn partial_cmp(&self, _o: &Self) -> Option<std::cmp::Ordering> { unimplemented!() } }
#[verifier::external] impl Ord for DeltaId { fn cmp(&self, _o: &Self) -> std::cmp::Ordering { unimplemented!() } }
/// SOURCE: unit `block` / `delta` (text copied)
pub open spec fn did_models() -> bool { vstd::std_specs::btree::key_obeys_cmp_spec::<DeltaId>() }
/// stands for unit `tree`'s `rev_models()` (std key model of `Revision`; `Revision` is opaque in this file)
pub uninterp spec fn rev_models() -> bool;

// ================================================================ the revision trees, abstractly
/// `RevisionTreeEntry` (unit `tree`)
pub ghost struct EntryV { pub parent: Option<Revision>, pub staging: bool }
pub type RevMap = Map<Revision, EntryV>;
/// object uuid -> recorded revisions of its tree  (= `dmap(documents)[uuid].revisions@` of units `apply` / `commit`)
pub type DocsV = Map<Seq<char>, RevMap>;
pub uninterp spec fn dview(d: DocMap) -> DocsV;
/// "some tree has its staging flag set" (unit `commit`: `some_staged`)
pub uninterp spec fn docs_staged(d: DocMap) -> bool;
/// "every tree is validated" (unit `tree`: `validated_ok` of every tree)
pub uninterp spec fn docs_validated(d: DocMap) -> bool;
/// `Revision::index` (unit `rev`)
pub uninterp spec fn ridx(r: Revision) -> nat;
/// SOURCE: unit `apply` (text copied; RevMap over EntryV)
pub open spec fn tree_of(docs: DocsV, uuid: Seq<char>) -> RevMap {
    if docs.contains_key(uuid) { docs[uuid] } else { Map::<Revision, EntryV>::empty() }
}
/// SOURCE: unit `tree` (text copied): first record of a revision wins
pub open spec fn record(m: RevMap, r: Revision, e: EntryV) -> RevMap {
    if m.contains_key(r) { m } else { m.insert(r, e) }
}
/// SOURCE: unit `apply` (text copied; `cs[k-1].0@` is `cs[k-1].0` because the records are views already)
pub open spec fn applied_upto(m0: RevMap, cs: Seq<ChangeV>, uuid: Seq<char>, k: int) -> RevMap
    decreases k
{
    if k <= 0 { m0 }
    else {
        let prev = applied_upto(m0, cs, uuid, k - 1);
        if cs[k - 1].0 == uuid { record(prev, cs[k - 1].1, EntryV { parent: cs[k - 1].2, staging: false }) } else { prev }
    }
}
/// SOURCE: unit `tree` `tree_wf` (text copied; `p.index < k.index` is `ridx(p) < ridx(k)`): precondition of `validate`
pub open spec fn tree_wf(m: RevMap) -> bool {
    forall|k: Revision| #[trigger] m.contains_key(k) ==> (match m[k].parent { Some(p) => ridx(p) < ridx(k), None => true })
}
pub open spec fn docs_wf(docs: DocsV) -> bool { forall|uuid: Seq<char>| tree_wf(#[trigger] tree_of(docs, uuid)) }
/// a change record whose previous revision (if any) has a smaller index (`load_raw_delta` builds `Revision::new(prev.index() + 1, ..)`)
pub open spec fn chg_wf(c: ChangeV) -> bool { match c.2 { Some(p) => ridx(p) < ridx(c.1), None => true } }
pub open spec fn chgs_wf(cs: Option<Seq<ChangeV>>) -> bool {
    match cs { Some(s) => forall|i: int| 0 <= i < s.len() ==> chg_wf(#[trigger] s[i]), None => true }
}
pub open spec fn all_chgs_wf(m: DMap) -> bool { forall|k: DidV| #[trigger] m.contains_key(k) ==> chgs_wf(m[k].changes) }
/// the records of one block folded into the tree of `uuid`
pub open spec fn apply_changes(m: RevMap, cs: Option<Seq<ChangeV>>, uuid: Seq<char>) -> RevMap {
    match cs { Some(s) => applied_upto(m, s, uuid, s.len() as int), None => m }
}
/// the blocks q[0..k) (contents taken from map l) folded, in that order, into the tree of `uuid`
pub open spec fn fold_blocks(m0: RevMap, q: Seq<DidV>, l: DMap, uuid: Seq<char>, k: int) -> RevMap
    decreases k
{
    if k <= 0 { m0 } else { apply_changes(fold_blocks(m0, q, l, uuid, k - 1), l[q[k - 1]].changes, uuid) }
}
pub proof fn lemma_applied_wf(m0: RevMap, cs: Seq<ChangeV>, uuid: Seq<char>, k: int)
    requires tree_wf(m0), forall|i: int| 0 <= i < cs.len() ==> chg_wf(#[trigger] cs[i]), 0 <= k <= cs.len(),
    ensures tree_wf(applied_upto(m0, cs, uuid, k)),
    decreases k
{
    if k > 0 { lemma_applied_wf(m0, cs, uuid, k - 1); assert(chg_wf(cs[k - 1])); }
}
pub proof fn lemma_fold_prefix(m0: RevMap, q: Seq<DidV>, x: DidV, l: DMap, uuid: Seq<char>, k: int)
    requires 0 <= k <= q.len(),
    ensures fold_blocks(m0, q.push(x), l, uuid, k) == fold_blocks(m0, q, l, uuid, k),
    decreases k
{
    if k > 0 { lemma_fold_prefix(m0, q, x, l, uuid, k - 1); assert(q.push(x)[k - 1] == q[k - 1]); }
}
/// one applied block: the fold over q.push(x) is the fold over q followed by the records of x
pub proof fn lemma_fold_push(docs_b: DocsV, docs_n: DocsV, docs0: DocsV, q: Seq<DidV>, x: DidV, l: DMap)
    requires
        forall|uuid: Seq<char>| #[trigger] tree_of(docs_b, uuid) == fold_blocks(tree_of(docs0, uuid), q, l, uuid, q.len() as int),
        forall|uuid: Seq<char>| #[trigger] tree_of(docs_n, uuid) == apply_changes(tree_of(docs_b, uuid), l[x].changes, uuid),
        docs_wf(docs_b), chgs_wf(l[x].changes),
    ensures
        forall|uuid: Seq<char>| #[trigger] tree_of(docs_n, uuid) == fold_blocks(tree_of(docs0, uuid), q.push(x), l, uuid, q.push(x).len() as int),
        docs_wf(docs_n),
{
    assert forall|uuid: Seq<char>| #[trigger] tree_of(docs_n, uuid) == fold_blocks(tree_of(docs0, uuid), q.push(x), l, uuid, q.push(x).len() as int) by {
        lemma_fold_prefix(tree_of(docs0, uuid), q, x, l, uuid, q.len() as int);
        assert(q.push(x)[q.len() as int] == x);
        assert(tree_of(docs_b, uuid) == fold_blocks(tree_of(docs0, uuid), q, l, uuid, q.len() as int));
    }
    assert forall|uuid: Seq<char>| tree_wf(#[trigger] tree_of(docs_n, uuid)) by {
        assert(tree_wf(tree_of(docs_b, uuid)));
        assert(tree_of(docs_n, uuid) == apply_changes(tree_of(docs_b, uuid), l[x].changes, uuid));
        match l[x].changes { Some(s) => { lemma_applied_wf(tree_of(docs_b, uuid), s, uuid, s.len() as int); }, None => {} }
    }
}

// ================================================================ blocks in storage
/// SOURCE: unit `delta` `did_str` = "{index}-{digest}" (Display of DeltaId); opaque here (`dec` lives in unit `rev`)
pub uninterp spec fn did_str(v: DidV) -> Seq<char>;
/// the bytes parse to the JSON object o
pub open spec fn obj_at(bytes: Seq<u8>, o: JMap) -> bool {
    exists|v: Value| #[trigger] parses_to(bytes, v) && as_obj(v) == Some(jmap(o))
}
/// SOURCE: unit `delta` `fetched` (text copied; `sha_hex_b` is unit pack's `sha_hex`, `as_obj(v) == Some(o)` is `Some(jmap(o))`
/// with unit pack's JSON shims): the item stored under `key` hashes to the identifier's digest and parses to the returned object
pub open spec fn fetched(store: Store, key: Seq<char>, digest: Seq<char>, o: JMap) -> bool {
    store.contains_key(key) && sha_hex(store[key]) == digest && obj_at(store[key], o)
}
/// the fields `load_raw_delta` decodes from a block object (unit `block`: `p_has` / `k_has` / `c_decoded` determine the
/// parent set, the pack set and the change records of the result — `loaded`), as functions of the object
pub uninterp spec fn raw_parents(raw: Map<Seq<char>, Value>) -> Option<Set<DidV>>;
pub uninterp spec fn raw_packs(raw: Map<Seq<char>, Value>) -> Option<Set<Seq<char>>>;
pub uninterp spec fn raw_changes(raw: Map<Seq<char>, Value>) -> Option<Seq<ChangeV>>;
/// stands for unit `block`'s `inputs_bounded` (no `u32::MAX` index in the object: precondition of load_raw_delta, finding F3)
pub uninterp spec fn inputs_bounded(raw: Map<Seq<char>, Value>) -> bool;
/// what this unit uses of unit `block`'s `loaded(b, raw, d)`:
///   `d.status is Pending`;  `index_consistent(b, d.parents)` ==> every parent index is below b's (`below`);
///   parents / packs / changes are the decoded fields;  decoded update records are `Revision::new(prev.index() + 1, .., Some(prev))` (`chgs_wf`)
pub open spec fn loaded_c(b: DidV, raw: Map<Seq<char>, Value>, d: DeltaV) -> bool {
    &&& d.status is Pending
    &&& below(d.parents, rank(b))
    &&& d.parents == raw_parents(raw) && d.packs == raw_packs(raw) && d.changes == raw_changes(raw)
    &&& chgs_wf(d.changes)
}
/// "the block itself is present and passes its hash check": entry d of key k was decoded from a stored item named by k
/// whose bytes hash to k's digest
pub open spec fn from_store(store: Store, k: DidV, d: DeltaV) -> bool {
    exists|o: JMap| #[trigger] fetched(store, did_str(k) + DELTA_EXTENSION@, k.1, o) && loaded_c(k, jmap(o), d)
}
/// preconditions about the storage CONTENT that the callees' contracts need for every block object they may be handed:
/// `inputs_bounded` (load_raw_delta) and `objects_only` for every revision the object names (is_readable_and_valid_revision)
pub open spec fn blocks_wf(ds: DataStorage) -> bool {
    forall|key: Seq<char>, o: JMap| ds.adapter.store().contains_key(key) && #[trigger] obj_at(ds.adapter.store()[key], o)
        ==> inputs_bounded(jmap(o)) && revs_safe(ds, raw_changes(jmap(o)))
}

/// a loaded block as a value (`struct Delta`), opaque: its abstract value is a `DeltaV`
#[verifier::external_body]
pub struct Delta { d: () }
pub uninterp spec fn dv(d: Delta) -> DeltaV;

// ================================================================ assumed contracts of the Melda functions refresh / reload call
impl Melda {
    /// ASSUMED HERE (rayon `documents.read().unwrap().par_iter().any(|(_, t)| t.lock().unwrap().has_staging())`), replaced by
    /// its meaning as in unit `commit` (`RevisionTree::has_staging` returns the flag: PROVED IN unit `tree`)
    #[verifier::external_body]
    pub fn has_staging(&self) -> (r: bool)
        ensures r == docs_staged(self.documents),
    { unimplemented!() }
    /// ASSUMED HERE, PROVED IN unit `delta` as `Melda::fetch_raw_delta`:
    ///   `Ok(o) => fetched(self.data.store(), did_str(deltaid@) + DELTA_EXTENSION@, deltaid@.1, o), Err(_) => true`
    /// (`self.data.store()` of unit delta's DataShim is `self.data.adapter.store()` here)
    #[verifier::external_body]
    pub fn fetch_raw_delta(&self, deltaid: &DeltaId) -> (ret: Result<JMap, VxError>)
        ensures match ret {
            Ok(o) => fetched(self.data.adapter.store(), did_str(deltaid@) + DELTA_EXTENSION@, deltaid@.1, o),
            Err(_) => true,
        },
    { unimplemented!() }
    /// ASSUMED HERE, PROVED IN unit `block` as `Melda::load_raw_delta`:
    ///   `requires did_models(), inputs_bounded(jm(raw_delta)),`
    ///   `ensures match ret { Ok(d) => loaded(b_id@, jm(raw_delta), d) && loadable(..), Err(_) => !loadable(..) }`
    /// of which only the consequences `loaded_c` of `loaded` are assumed (completeness `loadable` is not used)
    #[verifier::external_body]
    pub fn load_raw_delta(&self, b_id: &DeltaId, raw_delta: JMap) -> (ret: Result<Delta, VxError>)
        requires did_models(), inputs_bounded(jmap(raw_delta)),
        ensures match ret { Ok(d) => loaded_c(b_id@, jmap(raw_delta), dv(d)), Err(_) => true },
    { unimplemented!() }
    /// ASSUMED HERE, PROVED IN unit `apply` as `Melda::apply_delta`:
    ///   `requires rev_models(), ensures ret is Ok, match delta.changes {`
    ///   `  Some(cs) => forall|uuid| tree_of(dmap(final(self).documents), uuid) == applied_upto(tree_of(dmap(old(self).documents), uuid), cs@, uuid, cs.len() as int),`
    ///   `  None => dmap(final(self).documents) == dmap(old(self).documents) }`
    /// TRANSPORTED: the argument `&delta_r` is a read guard of a map entry, i.e. an entry HANDLE h (unit `gate`), so `delta.changes` is
    /// `self.deltas@[h@].changes`; `&self` -> `&mut self`.  ADDED frame: the real body touches `self.documents` only (unit apply's
    /// mirror of Melda has no other field), the staging flags of the trees are not touched (`unvalidated_add(.., false)`).
    #[verifier::external_body]
    pub fn apply_delta(&mut self, h: &DeltaId) -> (ret: Result<(), VxError>)
        requires rev_models(), old(self).deltas@.contains_key(h@),
        ensures
            ret is Ok,
            final(self).deltas == old(self).deltas, final(self).data == old(self).data,
            docs_staged(final(self).documents) == docs_staged(old(self).documents),
            match old(self).deltas@[h@].changes {
                Some(cs) => forall|uuid: Seq<char>| #[trigger] tree_of(dview(final(self).documents), uuid) == applied_upto(tree_of(dview(old(self).documents), uuid), cs, uuid, cs.len() as int),
                None => dview(final(self).documents) == dview(old(self).documents),
            },
    { unimplemented!() }
}
/// ASSUMED HERE: the pass `let rtrees: Vec<_> = all_docs.values().collect(); rtrees.par_iter().for_each(|mtx| { let mut tree =
/// mtx.lock().unwrap(); tree.validate(); })` = `validate` on every tree.  `RevisionTree::validate` is PROVED IN unit `tree`:
///   `requires rev_models(), tree_wf(old(self).revisions@), ensures final(self).revisions@ == old(self).revisions@,`
///   `final(self).staging == old(self).staging, validated_ok(*final(self))`
#[verifier::external_body]
pub fn vx_docs_validate_all(d: &mut DocMap)
    requires rev_models(), docs_wf(dview(*old(d))),
    ensures dview(*final(d)) == dview(*old(d)), docs_staged(*final(d)) == docs_staged(*old(d)), docs_validated(*final(d)),
{ unimplemented!() }
/// `documents.write().expect(..).clear()`
#[verifier::external_body]
pub fn vx_docs_clear(d: &mut DocMap)
    ensures dview(*final(d)) == Map::<Seq<char>, RevMap>::empty(), !docs_staged(*final(d)),
{ unimplemented!() }
/// `DeltaId::from(s)`: regex parsing of an identifier text — outside Verus, NO contract
#[verifier::external_body]
pub fn vx_deltaid_parse(s: &str) -> (r: Result<DeltaId, VxError>)
{ unimplemented!() }
/// `deltas.read().expect(..).contains_key(&k)`
#[verifier::external_body]
pub fn vx_deltas_contains(m: &DeltaMap, k: &DeltaId) -> (r: bool)
    ensures r == m@.contains_key(k@),
{ unimplemented!() }
/// `deltas.write().expect(..).insert(k, RwLock::new(d))` (std BTreeMap::insert: binds k, replacing a previous binding)
#[verifier::external_body]
pub fn vx_deltas_insert(m: &mut DeltaMap, k: DeltaId, d: Delta)
    ensures final(m)@ == old(m)@.insert(k@, dv(d)),
{ unimplemented!() }
/// `deltas.write().unwrap().clear()`
#[verifier::external_body]
pub fn vx_deltas_clear(m: &mut DeltaMap)
    ensures final(m)@ == Map::<DidV, DeltaV>::empty(),
{ unimplemented!() }
pub open spec fn without_changes(d: DeltaV) -> DeltaV {
    DeltaV { status: d.status, parents: d.parents, packs: d.packs, changes: None }
}
/// `<write guard of entry h>.changes = None`: only that entry's change list is dropped
#[verifier::external_body]
pub fn vx_deltas_drop_changes_raw(m: &mut DeltaMap, h: &DeltaId)
    requires old(m)@.contains_key(h@),
    ensures final(m)@ == old(m)@.insert(h@, without_changes(old(m)@[h@])),
{ unimplemented!() }
/// VERIFIED wrapper: dropping a change list does not disturb the ancestor closure
pub fn vx_deltas_drop_changes(m: &mut DeltaMap, h: &DeltaId)
    requires old(m)@.contains_key(h@),
    ensures final(m)@ == old(m)@.insert(h@, without_changes(old(m)@[h@])), closed(old(m)@) ==> closed(final(m)@),
{
    let ghost a = m@;
    vx_deltas_drop_changes_raw(m, h);
    proof {
        let b = m@;
        if closed(a) {
            assert forall|id: DidV| #[trigger] b.contains_key(id) && live(b[id].status) implies parents_live(b, b[id].parents) by {
                assert(a.contains_key(id) && b[id].parents == a[id].parents && b[id].status == a[id].status);
                assert(parents_live(a, a[id].parents));
                match a[id].parents {
                    Some(ps) => { assert forall|p: DidV| #[trigger] ps.contains(p) implies live_in(b, p) by { assert(live_in(a, p)); } },
                    None => {},
                }
            }
        }
    }
}

// ================================================================ the contract of refresh / reload, written from the property
/// every block is decided for good or held back: Applied or Blocked (the state between two calls of refresh / reload / commit)
pub open spec fn settled(m: DMap) -> bool {
    forall|k: DidV| #[trigger] m.contains_key(k) ==> m[k].status is Applied || m[k].status is Blocked
}
pub open spec fn was_applied(m: DMap, k: DidV) -> bool { m.contains_key(k) && m[k].status is Applied }
/// the gate, with the change list given explicitly (an applied block's list is dropped)
pub open spec fn gate_ok_c(m: DMap, ds: DataStorage, id: DidV, cs: Option<Seq<ChangeV>>) -> bool {
    &&& m.contains_key(id)
    &&& parents_live(m, m[id].parents)
    &&& packs_present(ds, m[id].packs)
    &&& changes_readable(ds, cs)
}
/// l = the block map after loading: the blocks known before, untouched, plus blocks decoded from hash-checked stored items
pub open spec fn loaded_ext(a: DMap, l: DMap, store: Store) -> bool {
    &&& forall|k: DidV| #[trigger] a.contains_key(k) ==> l.contains_key(k) && l[k] == a[k]
    &&& forall|k: DidV| #[trigger] l.contains_key(k) && !a.contains_key(k) ==> l[k].status is Pending && from_store(store, k, l[k])
}
pub open spec fn no_dup(q: Seq<DidV>) -> bool { forall|i: int, j: int| 0 <= i < j < q.len() ==> q[i] != q[j] }
/// the block map after a successful refresh: a = before, s = after, l = the map after loading
pub open spec fn refreshed_blocks(a: DMap, s: DMap, ds: DataStorage, l: DMap) -> bool {
    &&& loaded_ext(a, l, ds.adapter.store())
    // no block is forgotten or altered: same blocks as loaded, same parents and packs
    &&& forall|k: DidV| #[trigger] s.contains_key(k) ==> l.contains_key(k)
    &&& forall|k: DidV| #[trigger] l.contains_key(k) ==> s.contains_key(k) && s[k].parents == l[k].parents && s[k].packs == l[k].packs
    // every block is Applied or Blocked, and the applied set is ancestor-closed
    &&& settled(s) && closed(s)
    // what was applied stays applied (and is not touched)
    &&& forall|k: DidV| #[trigger] was_applied(a, k) ==> s[k] == a[k]
    // a block applied by this call passed the gate: parents applied, packs present and hash-checked, revisions readable
    &&& forall|k: DidV| #[trigger] was_applied(s, k) && !was_applied(a, k) ==> gate_ok_c(s, ds, k, l[k].changes) && s[k].changes is None
    // a block that is held back is stuck (hence: a block whose gate surely holds — `gate_sure` — IS applied, also one that
    // an earlier refresh had to hold back)
    &&& forall|k: DidV| #[trigger] s.contains_key(k) && s[k].status is Blocked ==> stuck(s, ds, k) && s[k].changes == l[k].changes
    // the invariants the next call needs
    &&& all_chgs_wf(s) && ranked(s) && data_safe(ds, s)
}
/// the outcome of a successful refresh (o = before, n = after); l = the map after loading, q = the blocks applied by this
/// call in the order they were applied
pub open spec fn refreshed(o: Melda, n: Melda, l: DMap, q: Seq<DidV>) -> bool {
    &&& refreshed_blocks(o.deltas@, n.deltas@, n.data, l)
    // the trees: exactly the change records of the blocks applied by this call have been recorded, block by block
    &&& no_dup(q)
    &&& forall|k: DidV| q.contains(k) <==> (was_applied(n.deltas@, k) && !was_applied(o.deltas@, k))
    &&& forall|uuid: Seq<char>| #[trigger] tree_of(dview(n.documents), uuid) == fold_blocks(tree_of(dview(o.documents), uuid), q, l, uuid, q.len() as int)
    &&& docs_wf(dview(n.documents)) && docs_validated(n.documents) && !docs_staged(n.documents)
}
pub open spec fn refresh_ok(o: Melda, n: Melda) -> bool {
    exists|l: DMap, q: Seq<DidV>| #[trigger] refreshed(o, n, l, q)
}
/// the outcome of a successful reload: what a refresh of an EMPTY replica (no block, no tree) produces over this storage
pub open spec fn reloaded(n: Melda, l: DMap, q: Seq<DidV>) -> bool {
    &&& refreshed_blocks(Map::<DidV, DeltaV>::empty(), n.deltas@, n.data, l)
    &&& no_dup(q)
    &&& forall|k: DidV| q.contains(k) <==> was_applied(n.deltas@, k)
    &&& forall|uuid: Seq<char>| #[trigger] tree_of(dview(n.documents), uuid) == fold_blocks(Map::<Revision, EntryV>::empty(), q, l, uuid, q.len() as int)
    &&& docs_wf(dview(n.documents)) && docs_validated(n.documents) && !docs_staged(n.documents)
}
pub open spec fn reload_ok(n: Melda) -> bool {
    exists|l: DMap, q: Seq<DidV>| #[trigger] reloaded(n, l, q)
}
/// the storage side of refresh: items and stage untouched, cache untouched
pub open spec fn data_kept(o: DataStorage, n: DataStorage) -> bool {
    n.adapter == o.adapter && n.stage == o.stage && n.cache == o.cache
}

// ---------------------------------------------------------------- loop contracts
/// loading pass (step 3): a = the map at entry of refresh, c = now
pub open spec fn loading(a: DMap, c: Melda) -> bool {
    &&& loaded_ext(a, c.deltas@, c.data.adapter.store())
    &&& closed(c.deltas@) && ranked(c.deltas@) && data_safe(c.data, c.deltas@) && all_chgs_wf(c.deltas@)
    &&& no_ready(c.deltas@)
}
/// re-pending pass (step 4): l = the map after loading, c = now, v = the entries being visited, n = how many were visited
pub open spec fn repending(l: DMap, c: DMap, v: Seq<(&DeltaId, &DeltaId)>, n: int) -> bool {
    &&& forall|k: DidV| #[trigger] c.contains_key(k) ==> l.contains_key(k)
    &&& forall|k: DidV| #[trigger] l.contains_key(k) ==> c.contains_key(k) && c[k].parents == l[k].parents && c[k].packs == l[k].packs && c[k].changes == l[k].changes
            && (c[k].status == l[k].status || (l[k].status is Blocked && c[k].status is Pending))
    &&& forall|j: int| 0 <= j < n ==> !(c[(#[trigger] v[j]).0@].status is Blocked)
}
/// applying pass (step 6): m = the map after mark_valid_deltas, c = now, q = the blocks applied so far
pub open spec fn applying(m: DMap, c: DMap, q: Seq<DidV>, v: Seq<(&DeltaId, &DeltaId)>, n: int) -> bool {
    &&& forall|k: DidV| #[trigger] c.contains_key(k) ==> m.contains_key(k)
    &&& forall|k: DidV| #[trigger] m.contains_key(k) ==> c.contains_key(k)
            && (c[k] == m[k] || (m[k].status is Ready && c[k] == without_changes(with_status(m[k], Status::Applied))))
    &&& forall|j: int| 0 <= j < n ==> !(c[(#[trigger] v[j]).0@].status is Ready)
    &&& no_dup(q)
    &&& forall|k: DidV| q.contains(k) <==> (m.contains_key(k) && m[k].status is Ready && c[k].status is Applied)
}

/// p = l with every Blocked block Pending again
pub open spec fn repended(l: DMap, p: DMap) -> bool {
    &&& forall|k: DidV| #[trigger] p.contains_key(k) ==> l.contains_key(k)
    &&& forall|k: DidV| #[trigger] l.contains_key(k) ==> p.contains_key(k) && p[k].parents == l[k].parents && p[k].packs == l[k].packs && p[k].changes == l[k].changes
            && p[k].status == (if l[k].status is Blocked { Status::Pending } else { l[k].status })
}
pub open spec fn same_changes(m: DMap, l: DMap) -> bool {
    forall|k: DidV| #[trigger] m.contains_key(k) ==> l.contains_key(k) && m[k].changes == l[k].changes
}
pub open spec fn no_ready(m: DMap) -> bool { forall|k: DidV| #[trigger] m.contains_key(k) ==> !(m[k].status is Ready) }

// ---------------------------------------------------------------- lemmas
pub proof fn lemma_revs_safe_kept(o: DataStorage, n: DataStorage, cs: Option<Seq<ChangeV>>)
    requires n.stage == o.stage, revs_safe(o, cs),
    ensures revs_safe(n, cs),
{
    match cs {
        Some(s) => {
            assert forall|i: int| 0 <= i < s.len() implies objects_only(n, (#[trigger] s[i]).1.rdigest())
                && (match s[i].2 { Some(pr) => objects_only(n, pr.rdigest()), None => true }) by {
                assert(objects_only(o, s[i].1.rdigest()));
                match s[i].2 { Some(pr) => { assert(objects_only(o, pr.rdigest())); }, None => {} }
            }
        },
        None => {},
    }
}
/// the gate's storage preconditions depend on the stored items, the stage and the cache only: they survive DataStorage::refresh / reload
pub proof fn lemma_data_kept(o: DataStorage, n: DataStorage, m: DMap)
    requires data_kept(o, n), data_safe(o, m), blocks_wf(o),
    ensures data_safe(n, m), blocks_wf(n),
{
    assert forall|id: DidV| #[trigger] m.contains_key(id) implies revs_safe(n, m[id].changes) by { lemma_revs_safe_kept(o, n, m[id].changes); }
    assert forall|key: Seq<char>, x: JMap| n.adapter.store().contains_key(key) && #[trigger] obj_at(n.adapter.store()[key], x)
        implies inputs_bounded(jmap(x)) && revs_safe(n, raw_changes(jmap(x))) by {
        assert(obj_at(o.adapter.store()[key], x));
        lemma_revs_safe_kept(o, n, raw_changes(jmap(x)));
    }
}
/// after the re-pending pass over ALL entries no block is Blocked, and the map invariants carry over
pub proof fn lemma_repended(l: DMap, p: DMap, v: Seq<(&DeltaId, &DeltaId)>, ds: DataStorage)
    requires entries_of(v, l), repending(l, p, v, v.len() as int), ranked(l), data_safe(ds, l), all_chgs_wf(l),
    ensures repended(l, p), ranked(p), data_safe(ds, p), all_chgs_wf(p),
{
    assert forall|k: DidV| #[trigger] l.contains_key(k) implies p[k].status == (if l[k].status is Blocked { Status::Pending } else { l[k].status }) by {
        let i = choose|i: int| 0 <= i < v.len() && (#[trigger] v[i]).0@ == k;
        assert(!(p[v[i].0@].status is Blocked));
    }
    assert forall|id: DidV| #[trigger] p.contains_key(id) implies below(p[id].parents, rank(id)) && revs_safe(ds, p[id].changes) && chgs_wf(p[id].changes) by {
        assert(l.contains_key(id));
    }
}
/// one iteration of the applying pass that applied block hk
pub proof fn lemma_applied_one(m: DMap, s_b: DMap, s_n: DMap, q_b: Seq<DidV>, hk: DidV, v: Seq<(&DeltaId, &DeltaId)>, i: int)
    requires
        applying(m, s_b, q_b, v, i), 0 <= i < v.len(), v[i].0@ == hk, m.contains_key(hk), s_b[hk].status is Ready,
        forall|k: DidV| s_n.contains_key(k) <==> s_b.contains_key(k),
        s_n[hk] == without_changes(with_status(s_b[hk], Status::Applied)),
        forall|k: DidV| k != hk ==> s_n[k] == s_b[k],
    ensures applying(m, s_n, q_b.push(hk), v, i + 1),
{
    let q = q_b.push(hk);
    assert(s_b[hk] == m[hk]);
    assert(!q_b.contains(hk));
    assert forall|a: int, b: int| 0 <= a < b < q.len() implies q[a] != q[b] by {
        if b == q_b.len() { assert(q_b.contains(q_b[a])); } else { assert(q_b[a] != q_b[b]); }
    }
    assert forall|k: DidV| q.contains(k) <==> (m.contains_key(k) && m[k].status is Ready && s_n[k].status is Applied) by {
        if q.contains(k) {
            let j = choose|j: int| 0 <= j < q.len() && q[j] == k;
            if j < q_b.len() { assert(q_b[j] == k); assert(q_b.contains(k)); }
        }
        if m.contains_key(k) && m[k].status is Ready && s_n[k].status is Applied {
            if k == hk { assert(q[q_b.len() as int] == hk); }
            else { assert(q_b.contains(k)); let j = choose|j: int| 0 <= j < q_b.len() && q_b[j] == k; assert(q[j] == k); }
        }
    }
    assert forall|j: int| 0 <= j < i + 1 implies !(s_n[(#[trigger] v[j]).0@].status is Ready) by {
        if v[j].0@ != hk { assert(!(s_b[v[j].0@].status is Ready)); }
    }
}
/// the end of refresh: from the facts the four passes leave behind to the statement of the contract
pub proof fn lemma_refreshed_blocks(a: DMap, l: DMap, p: DMap, m: DMap, s: DMap, ds: DataStorage, q: Seq<DidV>, v: Seq<(&DeltaId, &DeltaId)>)
    requires
        settled(a), loaded_ext(a, l, ds.adapter.store()), no_ready(l),
        repended(l, p), ranked(p), data_safe(ds, p), all_chgs_wf(p),
        frozen(p, m), decides_only(p, m), none_pending(m), newly_gated(p, m, ds), newly_stuck(p, m, ds),
        entries_of(v, m), applying(m, s, q, v, v.len() as int), closed(s),
    ensures
        refreshed_blocks(a, s, ds, l),
        forall|k: DidV| q.contains(k) <==> (was_applied(s, k) && !was_applied(a, k)),
{
    // every Ready block of m was visited, hence applied
    assert forall|k: DidV| #[trigger] m.contains_key(k) implies !(s[k].status is Ready) && (m[k].status is Ready ==> s[k].status is Applied) by {
        let i = choose|i: int| 0 <= i < v.len() && (#[trigger] v[i]).0@ == k;
        assert(!(s[v[i].0@].status is Ready));
    }
    assert forall|k: DidV| #[trigger] s.contains_key(k) implies l.contains_key(k) by { assert(m.contains_key(k)); assert(p.contains_key(k)); }
    assert forall|k: DidV| #[trigger] l.contains_key(k) implies s.contains_key(k) && s[k].parents == l[k].parents && s[k].packs == l[k].packs
        && (s[k].status is Applied || s[k].status is Blocked)
        && (s[k].status is Applied <==> (m[k].status is Applied || m[k].status is Ready))
        && (l[k].status is Applied <==> m[k].status is Applied) by {
        assert(p.contains_key(k)); assert(m.contains_key(k));
    }
    assert(settled(s)) by { assert forall|k: DidV| #[trigger] s.contains_key(k) implies s[k].status is Applied || s[k].status is Blocked by { assert(l.contains_key(k)); } }
    assert forall|k: DidV| #[trigger] was_applied(a, k) implies s[k] == a[k] by {
        assert(l.contains_key(k) && l[k] == a[k]); assert(p.contains_key(k)); assert(m.contains_key(k));
        assert(p[k].status is Applied); assert(m[k].status is Applied);
    }
    assert forall|k: DidV| #[trigger] was_applied(s, k) && !was_applied(a, k) implies gate_ok_c(s, ds, k, l[k].changes) && s[k].changes is None by {
        assert(l.contains_key(k)); assert(p.contains_key(k)); assert(m.contains_key(k));
        if a.contains_key(k) { assert(l[k] == a[k]); }
        assert(!(l[k].status is Applied));
        assert(m[k].status is Ready && p[k].status is Pending);
        assert(gate_ok(m, ds, k));
        lemma_live_kept(m, s, m[k].parents);
    }
    assert forall|k: DidV| #[trigger] s.contains_key(k) && s[k].status is Blocked implies stuck(s, ds, k) && s[k].changes == l[k].changes by {
        assert(l.contains_key(k)); assert(p.contains_key(k)); assert(m.contains_key(k));
        assert(m[k].status is Blocked && s[k] == m[k]);
        assert(p[k].status is Pending);
        assert(stuck(m, ds, k));
        if has_dead_parent(m, m[k].parents) {
            let ps = m[k].parents->Some_0;
            let d = choose|d: DidV| #[trigger] ps.contains(d) && dead_in(m, d);
            if m.contains_key(d) { assert(s[d] == m[d]); }
            assert(ps.contains(d) && dead_in(s, d));
        }
    }
    assert forall|id: DidV| #[trigger] s.contains_key(id) implies below(s[id].parents, rank(id)) && revs_safe(ds, s[id].changes) && chgs_wf(s[id].changes) by {
        assert(l.contains_key(id)); assert(p.contains_key(id)); assert(m.contains_key(id));
        assert(below(p[id].parents, rank(id)) && revs_safe(ds, p[id].changes) && chgs_wf(p[id].changes));
    }
    assert forall|k: DidV| q.contains(k) <==> (was_applied(s, k) && !was_applied(a, k)) by {
        if m.contains_key(k) { assert(p.contains_key(k)); assert(l.contains_key(k)); if a.contains_key(k) { assert(l[k] == a[k]); } }
        if a.contains_key(k) { assert(l.contains_key(k)); }
    }
}
/// live parents stay live when Ready blocks become Applied
pub proof fn lemma_live_kept(m: DMap, s: DMap, ps: Option<Set<DidV>>)
    requires parents_live(m, ps),
        forall|k: DidV| #[trigger] m.contains_key(k) ==> s.contains_key(k) && (s[k] == m[k] || (m[k].status is Ready && s[k].status is Applied)),
    ensures parents_live(s, ps),
{
    match ps { Some(x) => { assert forall|p: DidV| #[trigger] x.contains(p) implies live_in(s, p) by { assert(live_in(m, p)); } }, None => {} }
}

// ---------------------------------------------------------------- pass contracts (attached to the loops by rule RP)
/// a pass over the block map that does not apply anything: l = the replica before the pass, c = now, v = the entries, n visited.
/// It may only turn Blocked entries Pending again, and it has done so for every visited entry.
pub open spec fn pass_status(l: Melda, c: Melda, v: Seq<(&DeltaId, &DeltaId)>, n: int) -> bool {
    &&& c.data == l.data && c.documents == l.documents
    &&& entries_of(v, l.deltas@) && closed(c.deltas@)
    &&& repending(l.deltas@, c.deltas@, v, n)
}
/// the applying pass: m = the replica before the pass, c = now, q = the blocks applied so far (in order), v = the entries, n visited.
/// A Ready entry may become Applied with its change list dropped — after its records were folded into the trees; nothing else changes.
pub open spec fn pass_apply(m: Melda, c: Melda, q: Seq<DidV>, v: Seq<(&DeltaId, &DeltaId)>, n: int) -> bool {
    &&& c.data == m.data && docs_staged(c.documents) == docs_staged(m.documents)
    &&& entries_of(v, m.deltas@) && closed(c.deltas@)
    &&& applying(m.deltas@, c.deltas@, q, v, n)
    &&& docs_wf(dview(c.documents))
    &&& forall|uuid: Seq<char>| #[trigger] tree_of(dview(c.documents), uuid) == fold_blocks(tree_of(dview(m.documents), uuid), q, m.deltas@, uuid, q.len() as int)
}
pub proof fn lemma_pass_status_done(l: Melda, c: Melda, v: Seq<(&DeltaId, &DeltaId)>)
    requires pass_status(l, c, v, v.len() as int), ranked(l.deltas@), data_safe(l.data, l.deltas@), all_chgs_wf(l.deltas@),
    ensures repended(l.deltas@, c.deltas@), ranked(c.deltas@), data_safe(c.data, c.deltas@), all_chgs_wf(c.deltas@),
{
    lemma_repended(l.deltas@, c.deltas@, v, l.data);
}
/// one iteration of the applying pass that found entry v[i] Ready: b = before the iteration, c = after it
pub proof fn lemma_pass_apply_step(m: Melda, b: Melda, c: Melda, q_b: Seq<DidV>, v: Seq<(&DeltaId, &DeltaId)>, i: int)
    requires
        pass_apply(m, b, q_b, v, i), 0 <= i < v.len(), b.deltas@[v[i].0@].status is Ready, all_chgs_wf(m.deltas@),
        // what the iteration did: the records of the block went into the trees (apply_delta), then Applied + change list dropped
        c.data == b.data, docs_staged(c.documents) == docs_staged(b.documents), closed(c.deltas@),
        forall|uuid: Seq<char>| #[trigger] tree_of(dview(c.documents), uuid) == apply_changes(tree_of(dview(b.documents), uuid), b.deltas@[v[i].0@].changes, uuid),
        forall|k: DidV| c.deltas@.contains_key(k) <==> b.deltas@.contains_key(k),
        c.deltas@[v[i].0@] == without_changes(with_status(b.deltas@[v[i].0@], Status::Applied)),
        forall|k: DidV| k != v[i].0@ ==> c.deltas@[k] == b.deltas@[k],
    ensures pass_apply(m, c, q_b.push(v[i].0@), v, i + 1),
{
    let hk = v[i].0@;
    assert(m.deltas@.contains_key(hk));
    assert(b.deltas@[hk] == m.deltas@[hk]);
    lemma_fold_push(dview(b.documents), dview(c.documents), dview(m.documents), q_b, hk, m.deltas@);
    lemma_applied_one(m.deltas@, b.deltas@, c.deltas@, q_b, hk, v, i);
}
pub proof fn lemma_fold_same(m0: RevMap, q: Seq<DidV>, l1: DMap, l2: DMap, uuid: Seq<char>, k: int)
    requires 0 <= k <= q.len(), forall|i: int| 0 <= i < k ==> l1[#[trigger] q[i]].changes == l2[q[i]].changes,
    ensures fold_blocks(m0, q, l1, uuid, k) == fold_blocks(m0, q, l2, uuid, k),
    decreases k
{
    if k > 0 { lemma_fold_same(m0, q, l1, l2, uuid, k - 1); }
}
/// p -> m is one run of mark_valid_deltas (its contract, unit `gate`)
pub open spec fn marked(p: Melda, m: Melda) -> bool {
    &&& m.data == p.data && m.documents == p.documents
    &&& frozen(p.deltas@, m.deltas@) && decides_only(p.deltas@, m.deltas@) && closed(m.deltas@) && none_pending(m.deltas@)
    &&& newly_gated(p.deltas@, m.deltas@, m.data) && newly_stuck(p.deltas@, m.deltas@, m.data)
}
/// the end of refresh: o = at entry, l = after loading, p = after the re-pending pass, m = after mark_valid_deltas, n = now
pub proof fn lemma_refreshed(o: Melda, l: Melda, p: Melda, m: Melda, n: Melda, q: Seq<DidV>, v: Seq<(&DeltaId, &DeltaId)>)
    requires
        settled(o.deltas@), !docs_staged(o.documents),
        l.documents == o.documents, loading(o.deltas@, l),
        p.data == l.data && p.documents == l.documents, repended(l.deltas@, p.deltas@), ranked(p.deltas@), data_safe(p.data, p.deltas@), all_chgs_wf(p.deltas@),
        marked(p, m),
        pass_apply(m, n, q, v, v.len() as int), docs_validated(n.documents),
    ensures refreshed(o, n, l.deltas@, q),
{
    lemma_refreshed_blocks(o.deltas@, l.deltas@, p.deltas@, m.deltas@, n.deltas@, n.data, q, v);
    assert forall|uuid: Seq<char>| #[trigger] tree_of(dview(n.documents), uuid) == fold_blocks(tree_of(dview(o.documents), uuid), q, l.deltas@, uuid, q.len() as int) by {
        assert forall|i: int| 0 <= i < q.len() implies m.deltas@[#[trigger] q[i]].changes == l.deltas@[q[i]].changes by {
            assert(q.contains(q[i])); assert(m.deltas@.contains_key(q[i])); assert(p.deltas@.contains_key(q[i])); assert(l.deltas@.contains_key(q[i]));
        }
        lemma_fold_same(tree_of(dview(o.documents), uuid), q, m.deltas@, l.deltas@, uuid, q.len() as int);
    }
}
/// the end of reload: l = after loading (from an empty map, no trees), m = after mark_valid_deltas, n = now
pub proof fn lemma_reloaded(l: Melda, m: Melda, n: Melda, q: Seq<DidV>, v: Seq<(&DeltaId, &DeltaId)>)
    requires
        loading(Map::<DidV, DeltaV>::empty(), l), dview(l.documents) == Map::<Seq<char>, RevMap>::empty(), !docs_staged(l.documents),
        marked(l, m),
        pass_apply(m, n, q, v, v.len() as int), docs_validated(n.documents),
    ensures reloaded(n, l.deltas@, q),
{
    let e = Map::<DidV, DeltaV>::empty();
    assert(repended(l.deltas@, l.deltas@)) by {
        assert forall|k: DidV| #[trigger] l.deltas@.contains_key(k) implies !(l.deltas@[k].status is Blocked) by { assert(!e.contains_key(k)); }
    }
    lemma_refreshed_blocks(e, l.deltas@, l.deltas@, m.deltas@, n.deltas@, n.data, q, v);
    assert forall|uuid: Seq<char>| #[trigger] tree_of(dview(n.documents), uuid) == fold_blocks(Map::<Revision, EntryV>::empty(), q, l.deltas@, uuid, q.len() as int) by {
        assert forall|i: int| 0 <= i < q.len() implies m.deltas@[#[trigger] q[i]].changes == l.deltas@[q[i]].changes by {
            assert(q.contains(q[i])); assert(m.deltas@.contains_key(q[i])); assert(l.deltas@.contains_key(q[i]));
        }
        lemma_fold_same(tree_of(dview(l.documents), uuid), q, m.deltas@, l.deltas@, uuid, q.len() as int);
        assert(tree_of(dview(l.documents), uuid) == Map::<Revision, EntryV>::empty());
    }
    assert forall|k: DidV| q.contains(k) <==> was_applied(n.deltas@, k) by { assert(!was_applied(e, k)); }
}
