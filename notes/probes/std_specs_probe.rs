use vstd::prelude::*;
use std::collections::{BTreeSet, BTreeMap, HashSet, HashMap};
verus! {
fn f(s: &mut BTreeSet<u32>, x: u32)
    ensures final(s)@ == old(s)@.insert(x)
{
    s.insert(x);
}
fn f2(s: &BTreeSet<u32>) -> (n: usize) {
    let mut n: usize = 0;
    for x in s.iter() { if n < 10 { n += 1; } }
    n
}
fn m(s: &mut BTreeMap<u32, u32>, x: u32)
    ensures final(s)@ == old(s)@.insert(x, x)
{
    s.insert(x, x);
}
fn hs(s: &mut HashSet<u32>, x: u32) -> (b: bool)
    ensures b == old(s)@.contains(x)
{
    let b = s.contains(&x);
    s.insert(x);
    b
}
fn k(a: &String) -> (b: bool) ensures b == (a@ == "d"@) { a == "d" }
fn cmpu(a: &String, b: &String) -> bool { a < b }
fn l(a: &str) -> (n: usize) { a.len() }
fn sl(d: &[u8], a: usize, b: usize) -> (r: &[u8]) requires a <= b <= d.len() { &d[a..b] }
fn hm(m: &HashMap<String, u32>) -> (n: usize) {
    let mut n: usize = 0;
    for (k, v) in m.iter() { if n < 10 { n += 1; } }
    n
}
}
fn main() {}
