use melda::{adapter::Adapter, melda::Melda, memoryadapter::MemoryAdapter};
use serde_json::json;
use std::sync::{Arc, RwLock};
fn mk() -> (Melda, Arc<RwLock<Box<dyn Adapter>>>) {
    let a: Box<dyn Adapter> = Box::new(MemoryAdapter::new());
    let a = Arc::new(RwLock::new(a));
    (Melda::new(a.clone()).unwrap(), a)
}
fn main() {
    let which = std::env::args().nth(1).unwrap();
    match which.as_str() {
        "braces" => {
            let (r, a) = mk();
            r.update(json!({"k": "a}b", "x\u{266D}": [{"_id":"1","v":"{"}]}).as_object().unwrap().clone()).unwrap();
            r.commit(None).unwrap();
            let before = serde_json::to_string(&r.read(None).unwrap()).unwrap();
            let r2 = Melda::new(a.clone()).unwrap();
            let after = r2.read(None).map(|m| serde_json::to_string(&m).unwrap());
            println!("before={} after={:?}", before, after);
        }
        "deadlock" => {
            let (r1, _a1) = mk();
            let (mut r2, _a2) = mk();
            r1.update(json!({"x\u{266D}": [{"_id":"1"},{"_id":"2"}]}).as_object().unwrap().clone()).unwrap();
            r1.commit(None).unwrap();
            r2.meld(&r1).unwrap(); r2.refresh().unwrap();
            r1.update(json!({"x\u{266D}": [{"_id":"1"},{"_id":"2"},{"_id":"3"}]}).as_object().unwrap().clone()).unwrap();
            r1.commit(None).unwrap();
            r2.update(json!({"x\u{266D}": [{"_id":"4"},{"_id":"1"},{"_id":"2"}]}).as_object().unwrap().clone()).unwrap();
            r2.commit(None).unwrap();
            r2.meld(&r1).unwrap(); r2.refresh().unwrap();
            println!("conflicts={:?} read={}", r2.in_conflict(), serde_json::to_string(&r2.read(None).unwrap()).unwrap());
            r2.update(json!({"x\u{266D}": [{"_id":"4"},{"_id":"1"},{"_id":"2"},{"_id":"3"},{"_id":"5"}]}).as_object().unwrap().clone()).unwrap();
            println!("committing...");
            let c = r2.commit(None);
            println!("commit returned {:?}", c.map(|x| x.is_some()));
        }
        "resolvedel" => {
            let (r1, _a1) = mk();
            let (mut r2, _a2) = mk();
            r1.update(json!({"x\u{266D}": [{"_id":"1","v":1},{"_id":"2"}]}).as_object().unwrap().clone()).unwrap();
            r1.commit(None).unwrap();
            r2.meld(&r1).unwrap(); r2.refresh().unwrap();
            // r1 deletes object 1 ; r2 edits it
            r1.update(json!({"x\u{266D}": [{"_id":"2"}]}).as_object().unwrap().clone()).unwrap();
            r1.commit(None).unwrap();
            r2.update(json!({"x\u{266D}": [{"_id":"1","v":2},{"_id":"2"}]}).as_object().unwrap().clone()).unwrap();
            r2.commit(None).unwrap();
            r2.meld(&r1).unwrap(); r2.refresh().unwrap();
            println!("conflicts={:?}", r2.in_conflict());
            println!("winner(1)={:?} conflicting={:?}", r2.get_winner("1"), r2.get_conflicting("1"));
            let del = r2.get_conflicting("1").unwrap().into_iter().chain(std::iter::once(r2.get_winner("1").unwrap())).find(|s| s.contains("-d_")).unwrap();
            println!("resolve to {} -> {:?}", del, r2.resolve_as("1", &del));
            println!("winner(1)={:?} value={:?}", r2.get_winner("1"), r2.get_value("1", None));
            println!("conflicts={:?}", r2.in_conflict());
        }
        "junkname" => {
            let (r, a) = mk();
            r.update(json!({"k": 1}).as_object().unwrap().clone()).unwrap();
            r.commit(None).unwrap();
            a.read().unwrap().write_object("99999999999-abcdef.delta", b"junk").unwrap();
            let r2 = Melda::new(a.clone());
            println!("reopen ok={}", r2.is_ok());
        }
        "first" => {
            let (r, a) = mk();
            r.update(json!({"k": 1, "x\u{266D}": [{"_id":"1","v":1}]}).as_object().unwrap().clone()).unwrap();
            r.update(json!({"k": 2, "x\u{266D}": [{"_id":"1","v":2},{"_id":"3"}]}).as_object().unwrap().clone()).unwrap();
            let c = r.commit(None);
            println!("commit={:?}", c.is_ok());
            let r2 = Melda::new(a.clone()).unwrap();
            println!("after={:?}", r2.read(None).map(|m| serde_json::to_string(&m).unwrap()).map_err(|e| e.to_string()));
        }
        "sqlite" => {
            let a: Box<dyn Adapter> = Box::new(melda::sqliteadapter::SqliteAdapter::new_in_memory());
            let a = Arc::new(RwLock::new(a));
            let r = Melda::new(a.clone()).unwrap();
            r.update(json!({"k": 1}).as_object().unwrap().clone()).unwrap();
            r.commit(None).unwrap();
            println!("list(.pack)={:?}", a.read().unwrap().list_objects(".pack"));
            let r2 = Melda::new(a.clone());
            println!("reopen ok={} err={:?}", r2.is_ok(), r2.err().map(|e| e.to_string()));
        }
        _ => {}
    }
}
