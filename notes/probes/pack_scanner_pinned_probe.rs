use vstd::prelude::*;
use std::collections::{BTreeSet, HashMap};
verus! {
pub uninterp spec fn sha_hex(b: Seq<u8>) -> Seq<char>;

#[verifier::external_body]
pub fn digest_bytes(content: &[u8]) -> (r: String)
    ensures r@ == sha_hex(content@)
{ unimplemented!() }

pub struct DataStorage {
    pub committed_objects: HashMap<String, (String, usize, usize)>,
    pub applied_pack_ids: BTreeSet<String>,
}
pub struct Anyhow;

pub open spec fn lex_step(st: (int, bool, bool), c: u8) -> (int, bool, bool) {
    let (d, s, e) = st;
    if s {
        if e { (d, true, false) }
        else if c == 0x5c { (d, true, true) }
        else if c == 0x22 { (d, false, false) }
        else { (d, true, false) }
    } else {
        if c == 0x22 { (d, true, false) }
        else if c == 0x7b { (d + 1, false, false) }
        else if c == 0x7d { (d - 1, false, false) }
        else { (d, false, false) }
    }
}
pub open spec fn lex(s: Seq<u8>, n: int) -> (int, bool, bool)
    decreases n
{
    if n <= 0 { (0, false, false) } else { lex_step(lex(s, n - 1), s[n - 1]) }
}
// [a,b) is a top-level object range of s
pub open spec fn is_obj_range(s: Seq<u8>, a: int, b: int) -> bool {
    &&& 0 <= a < b <= s.len()
    &&& lex(s, a).0 == 0 && !lex(s, a).1 && s[a] == 0x7b
    &&& lex(s, b).0 == 0 && !lex(s, b).1 && s[b - 1] == 0x7d
    &&& forall|k: int| a < k < b ==> #[trigger] lex(s, k).0 != 0 || lex(s, k).1
}
pub open spec fn rec_ok(s: Seq<u8>, n: int, rec: Seq<(int,int)>) -> bool {
    &&& forall|i: int| 0 <= i < rec.len() ==> #[trigger] rec[i].1 <= n && is_obj_range(s, rec[i].0, rec[i].1)
    &&& forall|a: int, b: int| b <= n && #[trigger] is_obj_range(s, a, b) ==> rec.contains((a, b))
}
impl DataStorage {
    fn parse_and_apply_pack(&mut self, name: &str, data: &[u8]) -> (res: (Result<(), Anyhow>, Ghost<Seq<(int,int)>>))
        requires data.len() < 0x7fff_ffff,
        ensures rec_ok(data@, data.len() as int, res.1@),
    {
        let ghost mut rec: Seq<(int,int)> = Seq::empty();
        let mut flag = 0;
        let mut obj_start = 0;
        let mut in_string = false;
        let mut escaped = false;
        for offset in 0..data.len()
            invariant
                data.len() < 0x7fff_ffff,
                (flag as int, in_string, escaped) == lex(data@, offset as int),
                -(offset as int) <= flag <= offset as int,
                obj_start <= offset,
                flag > 0 ==> (obj_start < offset && lex(data@, obj_start as int).0 == 0 && !lex(data@, obj_start as int).1 && data@[obj_start as int] == 0x7b
                    && forall|k: int| obj_start < k <= offset ==> #[trigger] lex(data@, k).0 != 0 || lex(data@, k).1),
                rec_ok(data@, offset as int, rec),
        {
            let c = &data[offset];
            let ghost old_rec = rec;
            let ghost mut recorded = false;
            let ghost mut os: int = 0;
            proof { assert(lex(data@, offset + 1) == lex_step(lex(data@, offset as int), data@[offset as int])); }
            if false {
            } else if *c == b'{' {
                if flag == 0 {
                    obj_start = offset;
                };
                flag += 1;
            } else if *c == b'}' {
                flag -= 1;
                if flag == 0 {
                    let digest = digest_bytes(&data[obj_start..offset + 1]);
                    let count = offset + 1 - obj_start;
                    self.committed_objects
                        .insert(digest, (name.to_string(), obj_start, count));
                    proof { rec = rec.push((obj_start as int, offset + 1)); recorded = true; os = obj_start as int; }
                };
            }
            proof {
                let n1 = offset + 1;
                let ghost st = lex(data@, n1 as int);
                assert forall|a: int, b: int| b <= n1 && #[trigger] is_obj_range(data@, a, b) implies rec.contains((a, b)) by {
                    if b <= offset {
                        assert(old_rec.contains((a, b)));
                        let i = choose|i: int| 0 <= i < old_rec.len() && old_rec[i] == (a, b);
                        assert(rec[i] == (a, b));
                    } else {
                        // b == offset+1: must be the range we just recorded
                        assert(st.0 == 0 && !st.1 && data@[offset as int] == 0x7d);
                        assert(recorded);
                        if a < os { assert(lex(data@, os).0 != 0 || lex(data@, os).1); }
                        if a > os { assert(lex(data@, a).0 != 0 || lex(data@, a).1); }
                        assert(a == os);
                        assert(rec[rec.len() - 1] == (a, b));
                    }
                }
                assert forall|i: int| 0 <= i < rec.len() implies #[trigger] rec[i].1 <= n1 && is_obj_range(data@, rec[i].0, rec[i].1) by {
                    if i < old_rec.len() { assert(rec[i] == old_rec[i]); }
                }
            }
        }
        self.applied_pack_ids.insert(name.to_string());
        (Ok(()), Ghost(rec))
    }
}
}
fn main() {}
