use vstd::prelude::*;
use std::collections::{HashMap, HashSet};
use std::hash::Hash;
verus! {

#[derive(Clone, Debug)]
pub struct Revision {
    pub index: u32,
    pub digest: String,
    pub tail: Option<String>,
}

impl View for Revision {
    type V = (u32, Seq<char>, Option<Seq<char>>);
    open spec fn view(&self) -> Self::V {
        (self.index, self.digest@, match self.tail { Some(t) => Some(t@), None => None })
    }
}

#[verifier::external]
impl Hash for Revision {
    fn hash<H: std::hash::Hasher>(&self, state: &mut H) {
        self.index.hash(state);
        self.digest.hash(state);
        self.tail.hash(state);
    }
}
#[verifier::external]
impl PartialEq for Revision {
    fn eq(&self, other: &Self) -> bool {
        if self.index != other.index || self.digest != other.digest { false } else { self.tail.eq(&other.tail) }
    }
}
#[verifier::external]
impl Eq for Revision {}

pub struct Entry { pub parent: Option<Revision>, pub staging: bool }

pub struct Tree {
    pub revisions: HashMap<Revision, Entry>,
    pub staging: bool,
}

impl Tree {
    pub fn unvalidated_add(&mut self, revision: Revision, parent: Option<Revision>, staging: bool) -> (b: bool)
        requires vstd::std_specs::hash::obeys_key_model::<Revision>(),
        ensures b == !old(self).revisions@.contains_key(revision),
    {
        if self.revisions.contains_key(&revision) {
            return false;
        }
        self.revisions.insert(revision, Entry { parent, staging });
        self.staging = self.staging || staging;
        true
    }

    pub fn count(&self) -> (n: usize)
        requires vstd::std_specs::hash::obeys_key_model::<Revision>(),
    {
        let mut n: usize = 0;
        for r in self.revisions.keys() {
            if r.index == 1 && n < 1000 { n = n + 1; }
        }
        n
    }
}
}
fn main() {}
