use vstd::prelude::*;
verus! {
fn f(v: &Vec<u32>) -> (r: bool) {
    let mut i: usize = 0;
    let mut result = false;
    loop
        invariant i <= v.len(),
        decreases v.len() - i,
    {
        if i >= v.len() { result = false; break; }
        if v[i] == 7 { result = true; break; }
        i += 1;
    }
    result
}
fn g(v: &mut Vec<u32>) -> (n: u32) {
    let mut n = 0u32;
    while let Some(x) = v.pop()
        invariant true,
        decreases v.len(),
    {
        if n < 100 { n += 1; }
    }
    n
}
pub trait AdapterSpec {
    spec fn store(&self) -> Map<Seq<char>, Seq<u8>>;
    fn write_object(&mut self, key: &str, data: &[u8]) -> (r: Result<(), ()>)
        ensures final(self).store() == (if old(self).store().contains_key(key@) { old(self).store() } else { old(self).store().insert(key@, data@) });
}
pub struct Wrap<A: AdapterSpec> { pub backend: A }
impl<A: AdapterSpec> Wrap<A> {
    fn put(&mut self, key: &str, data: &[u8]) -> (r: Result<(), ()>)
        ensures old(self).backend.store().contains_key(key@) ==> final(self).backend.store() == old(self).backend.store()
    {
        self.backend.write_object(key, data)
    }
}
}
fn main() {}
