use vstd::prelude::*;
use std::collections::{HashMap, HashSet, BTreeSet};
use std::hash::Hash;
verus! {
#[derive(Debug)]
pub struct Revision { pub index: u32, pub digest: String, pub tail: Option<String> }
#[verifier::external]
impl Hash for Revision { fn hash<H: std::hash::Hasher>(&self, state: &mut H) { self.index.hash(state); } }
#[verifier::external]
impl PartialEq for Revision { fn eq(&self, other: &Self) -> bool { self.index == other.index } }
#[verifier::external]
impl Eq for Revision {}
#[verifier::external]
impl PartialOrd for Revision { fn partial_cmp(&self, o: &Self) -> Option<std::cmp::Ordering> { None } }
#[verifier::external]
impl Ord for Revision { fn cmp(&self, o: &Self) -> std::cmp::Ordering { std::cmp::Ordering::Equal } }
#[verifier::external]
impl Clone for Revision { fn clone(&self) -> Self { unimplemented!() } }

pub struct Entry { pub parent: Option<Revision>, pub staging: bool }
pub struct Tree {
    pub revisions: HashMap<Revision, Entry>,
    pub leafs_cache: BTreeSet<Revision>,
}
pub uninterp spec fn marker(r: Revision) -> bool;
pub uninterp spec fn reaches_root(m: Map<Revision, Entry>, r: Revision) -> bool;
pub open spec fn is_parent(m: Map<Revision, Entry>, r: Revision) -> bool {
    exists|k: Revision| #[trigger] m.contains_key(k) && m[k].parent == Some(r)
}
pub open spec fn live(m: Map<Revision, Entry>, r: Revision) -> bool {
    m.contains_key(r) && !marker(r) && !is_parent(m, r) && reaches_root(m, r)
}

#[verifier::external_body]
fn is_resolved(r: &Revision) -> (b: bool) ensures b == marker(*r) { unimplemented!() }
#[verifier::external_body]
fn rev_clone(r: &Revision) -> (c: Revision) ensures c == *r { unimplemented!() }
#[verifier::external_body]
fn collect_parents(m: &HashMap<Revision, Entry>) -> (s: HashSet<&Revision>)
    ensures forall|r: Revision| #[trigger] is_parent(m@, r) <==> exists|p: &Revision| s@.contains(p) && *p == r
{ unimplemented!() }
#[verifier::external_body]
fn parents_contains(s: &HashSet<&Revision>, r: &Revision) -> (b: bool)
    ensures b == exists|p: &Revision| s@.contains(p) && *p == *r
{ unimplemented!() }

#[verifier::external_body]
fn keys_snapshot<'a>(m: &'a HashMap<Revision, Entry>) -> (v: Vec<&'a Revision>)
    ensures forall|k: Revision| m@.contains_key(k) <==> (exists|j: int| 0 <= j < v.len() && *v@[j] == k),
{ unimplemented!() }

impl Tree {
    #[verifier::external_body]
    fn is_valid(&self, r: &Revision) -> (b: bool) ensures b == reaches_root(self.revisions@, *r) { unimplemented!() }

    pub fn validate(&mut self)
        requires vstd::std_specs::hash::obeys_key_model::<Revision>(),
        ensures
            final(self).revisions@ == old(self).revisions@,
            forall|r: Revision| final(self).leafs_cache@.contains(r) <==> live(old(self).revisions@, r),
    {
        self.leafs_cache.clear();
        let parents = collect_parents(&self.revisions);
        let ghost m = self.revisions@;
        let keys = keys_snapshot(&self.revisions);
        let mut i: usize = 0;
        while i < keys.len()
            invariant
                i <= keys.len(),
                self.revisions@ == m,
                forall|k: Revision| m.contains_key(k) <==> (exists|j: int| 0 <= j < keys.len() && *keys@[j] == k),
                forall|r2: Revision| #[trigger] is_parent(m, r2) <==> exists|p: &Revision| parents@.contains(p) && *p == r2,
                forall|x: Revision| self.leafs_cache@.contains(x) <==> (exists|j: int| 0 <= j < i && *keys@[j] == x && live(m, x)),
            decreases keys.len() - i,
        {
            let r = keys[i];
            i += 1;
            if is_resolved(r) { continue; }
            if parents_contains(&parents, r) { continue; }
            if self.is_valid(r) {
                let r_clone = rev_clone(r);
                self.leafs_cache.insert(r_clone);
            }
        }
    }
}
}
fn main() {}
