use vstd::prelude::*;
use std::cmp::Ordering;
verus! {
pub struct Revision { pub index: u32, pub digest: String, pub tail: Option<String> }

pub open spec fn lex_lt(a: Seq<char>, b: Seq<char>) -> bool
    decreases a.len()
{
    if b.len() == 0 { false }
    else if a.len() == 0 { true }
    else if (a[0] as u32) < (b[0] as u32) { true }
    else if (a[0] as u32) > (b[0] as u32) { false }
    else { lex_lt(a.drop_first(), b.drop_first()) }
}
pub open spec fn lex_cmp(a: Seq<char>, b: Seq<char>) -> Ordering {
    if a == b { Ordering::Equal } else if lex_lt(a, b) { Ordering::Less } else { Ordering::Greater }
}
pub proof fn lemma_lex_irrefl(a: Seq<char>) ensures !lex_lt(a, a) decreases a.len()
{ if a.len() > 0 { lemma_lex_irrefl(a.drop_first()); } }
pub proof fn lemma_lex_trans(a: Seq<char>, b: Seq<char>, c: Seq<char>)
    requires lex_lt(a, b), lex_lt(b, c) ensures lex_lt(a, c) decreases a.len()
{
    if a.len() > 0 && b.len() > 0 && c.len() > 0 && a[0] == b[0] && b[0] == c[0] {
        lemma_lex_trans(a.drop_first(), b.drop_first(), c.drop_first());
    }
}
pub proof fn lemma_lex_total(a: Seq<char>, b: Seq<char>)
    ensures a == b || lex_lt(a, b) || lex_lt(b, a) decreases a.len()
{
    if a.len() > 0 && b.len() > 0 && a[0] == b[0] {
        lemma_lex_total(a.drop_first(), b.drop_first());
        if a.drop_first() == b.drop_first() { assert(a =~= seq![a[0]] + a.drop_first()); assert(b =~= seq![b[0]] + b.drop_first()); }
    } else if a.len() == 0 && b.len() == 0 { assert(a =~= b); }
}

pub uninterp spec fn rev_str(r: Revision) -> Seq<char>;
pub open spec fn marker(r: Revision) -> bool { r.digest@ == seq!['r'] }
pub open spec fn spec_cmp(a: Revision, b: Revision) -> Ordering {
    if marker(a) && marker(b) { lex_cmp(rev_str(a), rev_str(b)) }
    else if marker(a) { Ordering::Less }
    else if marker(b) { Ordering::Greater }
    else if a.index < b.index { Ordering::Less }
    else if a.index > b.index { Ordering::Greater }
    else { lex_cmp(rev_str(a), rev_str(b)) }
}

#[verifier::external_body]
pub fn rev_text(r: &Revision) -> (s: String) ensures s@ == rev_str(*r) { unimplemented!() }
#[verifier::external_body]
pub fn str_cmp(a: &String, b: &String) -> (o: Ordering) ensures o == lex_cmp(a@, b@) { unimplemented!() }
#[verifier::external_body]
pub fn str_is(a: &String, lit: &str) -> (b: bool) ensures b == (a@ == lit@) { unimplemented!() }

impl Revision {
    pub fn is_resolved(&self) -> (b: bool) ensures b == marker(*self)
    {
        proof { reveal_strlit("r"); }
        let b = str_is(&self.digest, "r");
        assert("r"@ =~= seq!['r']);
        b
    }
    fn cmp(&self, other: &Self) -> (o: Ordering)
        ensures o == spec_cmp(*self, *other)
    {
        if self.is_resolved() && other.is_resolved() {
            str_cmp(&rev_text(self), &rev_text(other))
        } else if self.is_resolved() {
            // Resolved revisions always have the least priority
            std::cmp::Ordering::Less
        } else if other.is_resolved() {
            std::cmp::Ordering::Greater
        } else if self.index < other.index {
            std::cmp::Ordering::Less
        } else if self.index > other.index {
            std::cmp::Ordering::Greater
        } else {
            str_cmp(&rev_text(self), &rev_text(other))
        }
    }
}
}
fn main() {}
