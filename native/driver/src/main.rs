//! Native replay / bounded stand-in driver (DESIGN.md §1.4, §1.5).
//! Runs against a scratch copy of /repo's working tree with accessor code appended to the copy.
//! Usage: melda-verif-native <oracle> <quick|thorough> [seed]      -> JSON report on stdout
//!        melda-verif-native replay <oracle> <case-json>            -> JSON {reproduced: bool, ..}
//! Every oracle evaluates an executable form of a contract postcondition on the REAL function over
//! an exhaustively enumerated finite domain with a stated bound.  Nothing here counts as proved.

use serde_json::{json, Value};
use std::collections::BTreeSet;

mod oracles;

pub struct Report {
    pub name: String,
    pub bound: String,
    pub rule: String,
    pub cases: u64,
    pub nontrivial: BTreeSet<String>,
    pub nontrivial_count: u64,
    pub failures: Vec<Value>,
    pub samples: Vec<Value>,
    pub exhaustive: bool,
}

impl Report {
    pub fn new(name: &str, bound: &str, rule: &str) -> Report {
        Report {
            name: name.to_string(),
            bound: bound.to_string(),
            rule: rule.to_string(),
            cases: 0,
            nontrivial: BTreeSet::new(),
            nontrivial_count: 0,
            failures: vec![],
            samples: vec![],
            exhaustive: true,
        }
    }
    /// record one evaluated case; `key` identifies it (distinctness), `nontrivial` by the oracle's rule
    pub fn case(&mut self, key: &str, nontrivial: bool) {
        self.cases += 1;
        if nontrivial {
            // distinctness: enumeration never repeats a key; keep a bounded explicit set as a guard
            if self.nontrivial.len() < 200_000 {
                if self.nontrivial.insert(key.to_string()) {
                    self.nontrivial_count += 1;
                }
            } else {
                self.nontrivial_count += 1;
            }
        }
        if self.samples.len() < 5 && (self.cases % 97 == 1) {
            self.samples.push(json!(key));
        }
    }
    pub fn fail(&mut self, case_id: &str, input: Value, what: &str) {
        if self.failures.len() < 5 {
            self.failures.push(json!({"case_id": case_id, "input": input, "what": what}));
        }
    }
    pub fn to_json(&self) -> Value {
        json!({
            "name": self.name, "bound": self.bound, "rule": self.rule, "cases": self.cases,
            "distinct_nontrivial": self.nontrivial_count, "failures": self.failures,
            "samples": self.samples, "exhaustive": self.exhaustive, "label": "bounded",
        })
    }
}

fn main() {
    let args: Vec<String> = std::env::args().collect();
    if args.len() < 3 {
        eprintln!("usage: {} <oracle> <quick|thorough> [seed] | replay <oracle> <case-json>", args[0]);
        std::process::exit(2);
    }
    // panics inside the code under test are caught per case by the oracles; keep the default hook quiet
    std::panic::set_hook(Box::new(|_| {}));
    if args[1] == "replay" {
        let case: Value = serde_json::from_str(&args[3]).expect("case json");
        let r = oracles::replay(&args[2], &case);
        println!("{}", r);
        return;
    }
    let thorough = args[2] == "thorough";
    let seed: u64 = args.get(3).and_then(|s| s.parse().ok()).unwrap_or(0);
    match oracles::run(&args[1], thorough, seed) {
        Some(rep) => println!("{}", rep.to_json()),
        None => {
            eprintln!("unknown oracle {}", args[1]);
            std::process::exit(2);
        }
    }
}
