//! C10 (injection of junk items): a block file whose NAME matches its bytes but whose CONTENT is not a block the system
//! would have written must be rejected (or loaded) — never abort the calling thread.  Through the public API a stored
//! junk block is injected into a MemoryAdapter under a consistent name `<index>-<sha256(text)>.delta` and the replica is
//! opened / refreshed; additionally `load_raw_delta` is called directly.  Contract checked: no panic (opening or refreshing reports an error or ignores the item).
//! bitflip:<block>:<byte>.<bit>  three commits, the second with commit information {"ratio":2.5e-7,"sep":"a\u001fb","who":"é",
//! "big":1e300} (JSON tokens with more than one spelling); ONE bit of the stored second (resp. third) block file is flipped
//! under its original name: a fresh Melda::new is Err or shows exactly the state WITHOUT that block and its descendants —
//! never the state with it.  All bits when the block is <= 1500 bytes or in the thorough tier, else the bits of the token
//! bytes and every 7th other bit.
use crate::Report;
use melda::adapter::Adapter;
use melda::melda::{DeltaId, Melda};
use melda::memoryadapter::MemoryAdapter;
use melda::vf::utils::digest_string;
use serde_json::{json, Value};
use std::sync::{Arc, RwLock};

fn junk_texts() -> Vec<(String, String)> {
    let h = "b94d27b9934d3e08a52e52d7da7dabfac484efe37a5380ee9088f7ace2efcde9";
    let mut v: Vec<(&str, Value)> = vec![
        ("k-number", json!({"k": [1]})),
        ("k-null", json!({"k": [null]})),
        ("k-string", json!({"k": "x"})),
        ("k-object", json!({"k": {"a": 1}})),
        ("k-nested", json!({"k": [["a"]]})),
        ("p-number", json!({"p": [1]})),
        ("p-junk", json!({"p": ["junk"]})),
        ("p-overflow", json!({"p": ["99999999999-ab"]})),
        ("p-string", json!({"p": "x"})),
        ("p-nested", json!({"p": [["1-ab"]]})),
        ("c-prev-overflow", json!({"c": [["u", "99999999999-abc_def", "d"]]})),
        ("c-prev-junk", json!({"c": [["u", "junk", "d"]]})),
        ("c-prev-maxindex", json!({"c": [["u", "4294967295-abc_def", "d"]]})),
        ("c-number-digest", json!({"c": [["u", 5]]})),
        ("c-numbers", json!({"c": [[1, 2]]})),
        ("c-numbers3", json!({"c": [[1, 2, 3]]})),
        ("c-long-record", json!({"c": [["u", "1-a", "d", "x"]]})),
        ("c-empty-record", json!({"c": [[]]})),
        ("c-not-array", json!({"c": 5})),
        ("c-object", json!({"c": {"a": 1}})),
        ("c-entries-not-arrays", json!({"c": [1, "x", null]})),
        ("i-number", json!({"i": 5})),
        ("i-array", json!({"i": [1]})),
        ("empty-object", json!({})),
        ("create-ok-k-number", json!({"c": [["u", h]], "k": [7]})),
    ];
    let mut out = vec![];
    for (n, j) in v.drain(..) {
        out.push((n.to_string(), serde_json::to_string(&j).unwrap()));
    }
    // texts that are not JSON objects at all
    out.push(("not-json".to_string(), "this is not json".to_string()));
    out.push(("json-array".to_string(), "[1,2,3]".to_string()));
    out.push(("empty".to_string(), "".to_string()));
    out
}

fn check(name: &str, text: &str) -> Result<(), String> {
    let t = text.to_string();
    let nm = name.to_string();
    let r = super::guarded(move || -> Result<(), String> {
        let digest = digest_string(&t);
        // (1) direct call of the parser
        if let Ok(Value::Object(raw)) = serde_json::from_str::<Value>(&t) {
            let adapter: Box<dyn Adapter> = Box::new(MemoryAdapter::new());
            let m = Melda::new(Arc::new(RwLock::new(adapter))).map_err(|e| e.to_string())?;
            for idx in [1u32, 2u32] {
                let id = DeltaId::from(&format!("{}-{}", idx, digest)).map_err(|e| e.to_string())?;
                let _ = m.vf_load_raw_delta(&id, raw.clone());
            }
        }
        // (2) injected into storage under consistent names, then open + refresh
        for idx in [1u32, 2u32] {
            let adapter: Box<dyn Adapter> = Box::new(MemoryAdapter::new());
            adapter.write_object(&format!("{}-{}.delta", idx, digest), t.as_bytes()).map_err(|e| e.to_string())?;
            let adapter = Arc::new(RwLock::new(adapter));
            let mut m = Melda::new(adapter.clone()).map_err(|e| format!("open returned Err({})", e));
            if let Ok(m) = m.as_mut() {
                // a block that passes the name/hash gate and parses is an intact (if odd) block: it may legitimately
                // load; the contract checked here is only that nothing aborts the thread
                let _ = m.refresh();
                let _ = m.get_all_objects();
                let _ = m.get_anchors();
                let _ = m.in_conflict();
            }
        }
        Ok(())
    });
    match r {
        Ok(x) => x,
        Err(p) => Err(format!("panic: {}", p)),
    }
}

// ------------------------------------------------------------------------------------------ bit flips in a stored block

struct Flip {
    items: Vec<(String, Vec<u8>)>,
    /// (label, index into items) of the blocks that get damaged
    blocks: Vec<(String, usize)>,
    /// per damaged block: the state a replica shows when that block (and its descendants) is absent
    without: Vec<Value>,
}

fn view(m: &Melda) -> Value {
    let objs = m.get_all_objects();
    let winners: Vec<(String, String)> = objs.iter().map(|o| (o.clone(), m.get_winner(o).unwrap_or_else(|e| format!("ERR {}", e)))).collect();
    let read = match m.read(None) {
        Ok(d) => Value::Object(d),
        Err(e) => json!({"err": e.to_string()}),
    };
    json!({"objects": objs, "winners": winners, "anchors": m.get_anchors().iter().map(|d| d.to_string()).collect::<Vec<String>>(), "read": read})
}

fn on_items(items: &[(String, Vec<u8>)], skip: Option<usize>, replace: Option<(usize, &[u8])>) -> Result<Melda, String> {
    let adapter: Box<dyn Adapter> = Box::new(MemoryAdapter::new());
    for (i, (k, b)) in items.iter().enumerate() {
        if skip == Some(i) {
            continue;
        }
        let bytes: &[u8] = match replace {
            Some((j, d)) if j == i => d,
            _ => b,
        };
        adapter.write_object(k, bytes).map_err(|e| e.to_string())?;
    }
    Melda::new(Arc::new(RwLock::new(adapter))).map_err(|e| e.to_string())
}

/// three commits; the second one carries commit information whose JSON text has tokens with more than one spelling
/// (a float with an exponent, a string with a \u escape)
fn flip_history() -> Result<Flip, String> {
    let adapter: Box<dyn Adapter> = Box::new(MemoryAdapter::new());
    let adapter = Arc::new(RwLock::new(adapter));
    let m = Melda::new(adapter.clone()).map_err(|e| e.to_string())?;
    let o = |v: Value| v.as_object().unwrap().clone();
    let mut ids = vec![];
    for step in 1..=3 {
        m.update(o(json!({"title": format!("t{}", step), "n": step, "items\u{266D}": (1..=step).map(|i| json!({"_id": format!("i{}", i), "v": i})).collect::<Vec<Value>>()}))).map_err(|e| e.to_string())?;
        let info = if step == 2 { Some(o(json!({"ratio": 2.5e-7, "sep": "a\u{1f}b", "who": "é", "big": 1e300}))) } else { None };
        let heads = m.commit(info).map_err(|e| e.to_string())?.ok_or("no commit")?;
        ids.push(heads.iter().next().cloned().ok_or("no head")?);
    }
    let a = adapter.read().unwrap();
    let mut items = vec![];
    for k in a.list_objects("").map_err(|e| e.to_string())? {
        items.push((k.clone(), a.read_object(&k, 0, 0).map_err(|e| e.to_string())?));
    }
    let mut blocks = vec![];
    for (n, id) in ids.iter().enumerate().skip(1) {
        let idx = items.iter().position(|(k, _)| *k == id.key()).ok_or("block file not found")?;
        blocks.push((format!("d{}", n + 1), idx));
    }
    let text = String::from_utf8_lossy(&items[blocks[0].1].1).to_string();
    if !text.contains("2.5e-7") || !text.contains("\\u001f") || !text.contains("1e+300") {
        return Err(format!("setup: the block text lacks the expected tokens: {}", text));
    }
    let mut without = vec![];
    for (_, idx) in &blocks {
        without.push(view(&on_items(&items, Some(*idx), None)?));
    }
    let with_all = view(&on_items(&items, None, None)?);
    if without.iter().any(|w| *w == with_all) {
        return Err("setup: leaving a block out does not change the state".into());
    }
    Ok(Flip { items, blocks, without })
}

/// one flipped bit in a stored block: a fresh replica is Err or shows the state WITHOUT that block — never with it
fn flip_check(f: &Flip, b: usize, byte: usize, bit: u8) -> Result<(), String> {
    let (label, idx) = &f.blocks[b];
    let mut d = f.items[*idx].1.clone();
    if byte >= d.len() {
        return Err("setup: byte out of range".into());
    }
    let old = d[byte];
    d[byte] ^= 1 << bit;
    match on_items(&f.items, None, Some((*idx, &d))) {
        Err(_) => Ok(()),
        Ok(m) => {
            let got = view(&m);
            if got == f.without[b] {
                Ok(())
            } else {
                Err(format!(
                    "block {} with bit {} of byte {} flipped ({:?} -> {:?}, context {:?}) is accepted: the replica does not show the state without that block; anchors {} / read {}",
                    label,
                    bit,
                    byte,
                    old as char,
                    d[byte] as char,
                    String::from_utf8_lossy(&f.items[*idx].1[byte.saturating_sub(8)..(byte + 8).min(d.len())]),
                    got["anchors"],
                    got["read"]
                ))
            }
        }
    }
}

fn flip_positions(f: &Flip, b: usize, thorough: bool) -> Vec<(usize, u8)> {
    let bytes = &f.items[f.blocks[b].1].1;
    let text = String::from_utf8_lossy(bytes).to_string();
    let mut token = vec![false; bytes.len()];
    for t in ["2.5e-7", "\\u001f", "1e+300", "é"] {
        let mut from = 0;
        while let Some(p) = text[from..].find(t) {
            for i in (from + p)..(from + p + t.len()).min(bytes.len()) {
                token[i] = true;
            }
            from += p + t.len();
        }
    }
    let all = thorough || bytes.len() <= 1500;
    let mut out = vec![];
    for byte in 0..bytes.len() {
        for bit in 0..8u8 {
            if all || token[byte] || (byte * 8 + bit as usize) % 7 == 0 {
                out.push((byte, bit));
            }
        }
    }
    out
}

pub fn run(thorough: bool, _seed: u64) -> Report {
    let mut rep = Report::new(
        "junk_blocks",
        "bit flips: every single bit of the stored second and third block file of a 3-commit history whose second block carries commit information with a float exponent, a \\u001f escape, a non-ASCII string and 1e300 (all bits for blocks <= 1500 bytes or thorough; else token bytes + every 7th bit); junk: 28 hand-built junk block contents (wrong JSON types in k / p / c / i, out-of-range indices, non-JSON) each stored under a name consistent with its SHA-256 (index 1 and 2), parsed directly and through open + refresh",
        "fixed list; every case is non-trivial (the name/hash gate passes, so the parser is reached)",
    );
    for (n, t) in junk_texts() {
        rep.case(&n, true);
        if let Err(w) = check(&n, &t) {
            rep.fail(&format!("junk:{}", n), json!({"name": n, "text": t}), &w);
        }
    }
    match super::guarded(flip_history) {
        Ok(Ok(f)) => {
            let mut shown = 0;
            for b in 0..f.blocks.len() {
                for (byte, bit) in flip_positions(&f, b, thorough) {
                    let key = format!("bitflip:{}:{}.{}", f.blocks[b].0, byte, bit);
                    rep.case(&key, true);
                    let r = { let fr = &f; super::guarded(std::panic::AssertUnwindSafe(|| flip_check(fr, b, byte, bit))) };
                    let w = match r { Ok(Ok(())) => continue, Ok(Err(w)) => w, Err(p) => format!("panic: {}", p) };
                    if shown < 3 {
                        shown += 1;
                        rep.fail(&key, json!({"kind": "bitflip", "block": b, "byte": byte, "bit": bit}), &w);
                    }
                }
            }
        }
        Ok(Err(e)) => { rep.case("bitflip:setup", true); rep.fail("bitflip:setup", json!({"kind": "bitflip-setup"}), &e); }
        Err(p) => { rep.case("bitflip:setup", true); rep.fail("bitflip:setup", json!({"kind": "bitflip-setup"}), &format!("panic: {}", p)); }
    }
    rep
}

pub fn replay(case: &Value) -> Value {
    if case["input"]["kind"] == "bitflip" {
        let i = &case["input"];
        return match flip_history().and_then(|f| flip_check(&f, i["block"].as_u64().unwrap_or(0) as usize, i["byte"].as_u64().unwrap_or(0) as usize, i["bit"].as_u64().unwrap_or(0) as u8)) {
            Ok(()) => json!({"reproduced": false}),
            Err(w) => json!({"reproduced": true, "what": w}),
        };
    }
    let n = case["input"]["name"].as_str().unwrap_or("");
    let t = case["input"]["text"].as_str().unwrap_or("");
    match check(n, t) {
        Ok(()) => json!({"reproduced": false}),
        Err(w) => json!({"reproduced": true, "what": w}),
    }
}
