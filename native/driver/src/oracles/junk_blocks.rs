//! C10 (injection of junk items): a block file whose NAME matches its bytes but whose CONTENT is not a block the system
//! would have written must be rejected (or loaded) — never abort the calling thread.  Through the public API a stored
//! junk block is injected into a MemoryAdapter under a consistent name `<index>-<sha256(text)>.delta` and the replica is
//! opened / refreshed; additionally `load_raw_delta` is called directly.  Contract checked: no panic (opening or refreshing reports an error or ignores the item).
use crate::Report;
use melda::adapter::Adapter;
use melda::melda::{DeltaId, Melda};
use melda::memoryadapter::MemoryAdapter;
use melda::vf::utils::digest_string;
use serde_json::{json, Value};
use std::sync::{Arc, RwLock};

fn junk_texts() -> Vec<(String, String)> {
    let h = "b94d27b9934d3e08a52e52d7da7dabfac484efe37a5380ee9088f7ace2efcde9";
    let mut v: Vec<(&str, Value)> = vec![
        ("k-number", json!({"k": [1]})),
        ("k-null", json!({"k": [null]})),
        ("k-string", json!({"k": "x"})),
        ("k-object", json!({"k": {"a": 1}})),
        ("k-nested", json!({"k": [["a"]]})),
        ("p-number", json!({"p": [1]})),
        ("p-junk", json!({"p": ["junk"]})),
        ("p-overflow", json!({"p": ["99999999999-ab"]})),
        ("p-string", json!({"p": "x"})),
        ("p-nested", json!({"p": [["1-ab"]]})),
        ("c-prev-overflow", json!({"c": [["u", "99999999999-abc_def", "d"]]})),
        ("c-prev-junk", json!({"c": [["u", "junk", "d"]]})),
        ("c-prev-maxindex", json!({"c": [["u", "4294967295-abc_def", "d"]]})),
        ("c-number-digest", json!({"c": [["u", 5]]})),
        ("c-numbers", json!({"c": [[1, 2]]})),
        ("c-numbers3", json!({"c": [[1, 2, 3]]})),
        ("c-long-record", json!({"c": [["u", "1-a", "d", "x"]]})),
        ("c-empty-record", json!({"c": [[]]})),
        ("c-not-array", json!({"c": 5})),
        ("c-object", json!({"c": {"a": 1}})),
        ("c-entries-not-arrays", json!({"c": [1, "x", null]})),
        ("i-number", json!({"i": 5})),
        ("i-array", json!({"i": [1]})),
        ("empty-object", json!({})),
        ("create-ok-k-number", json!({"c": [["u", h]], "k": [7]})),
    ];
    let mut out = vec![];
    for (n, j) in v.drain(..) {
        out.push((n.to_string(), serde_json::to_string(&j).unwrap()));
    }
    // texts that are not JSON objects at all
    out.push(("not-json".to_string(), "this is not json".to_string()));
    out.push(("json-array".to_string(), "[1,2,3]".to_string()));
    out.push(("empty".to_string(), "".to_string()));
    out
}

fn check(name: &str, text: &str) -> Result<(), String> {
    let t = text.to_string();
    let nm = name.to_string();
    let r = super::guarded(move || -> Result<(), String> {
        let digest = digest_string(&t);
        // (1) direct call of the parser
        if let Ok(Value::Object(raw)) = serde_json::from_str::<Value>(&t) {
            let adapter: Box<dyn Adapter> = Box::new(MemoryAdapter::new());
            let m = Melda::new(Arc::new(RwLock::new(adapter))).map_err(|e| e.to_string())?;
            for idx in [1u32, 2u32] {
                let id = DeltaId::from(&format!("{}-{}", idx, digest)).map_err(|e| e.to_string())?;
                let _ = m.vf_load_raw_delta(&id, raw.clone());
            }
        }
        // (2) injected into storage under consistent names, then open + refresh
        for idx in [1u32, 2u32] {
            let adapter: Box<dyn Adapter> = Box::new(MemoryAdapter::new());
            adapter.write_object(&format!("{}-{}.delta", idx, digest), t.as_bytes()).map_err(|e| e.to_string())?;
            let adapter = Arc::new(RwLock::new(adapter));
            let mut m = Melda::new(adapter.clone()).map_err(|e| format!("open returned Err({})", e));
            if let Ok(m) = m.as_mut() {
                // a block that passes the name/hash gate and parses is an intact (if odd) block: it may legitimately
                // load; the contract checked here is only that nothing aborts the thread
                let _ = m.refresh();
                let _ = m.get_all_objects();
                let _ = m.get_anchors();
                let _ = m.in_conflict();
            }
        }
        Ok(())
    });
    match r {
        Ok(x) => x,
        Err(p) => Err(format!("panic: {}", p)),
    }
}

pub fn run(_thorough: bool, _seed: u64) -> Report {
    let mut rep = Report::new(
        "junk_blocks",
        "28 hand-built junk block contents (wrong JSON types in k / p / c / i, out-of-range indices, non-JSON) each stored under a name consistent with its SHA-256 (index 1 and 2), parsed directly and through open + refresh",
        "fixed list; every case is non-trivial (the name/hash gate passes, so the parser is reached)",
    );
    for (n, t) in junk_texts() {
        rep.case(&n, true);
        if let Err(w) = check(&n, &t) {
            rep.fail(&format!("junk:{}", n), json!({"name": n, "text": t}), &w);
        }
    }
    rep
}

pub fn replay(case: &Value) -> Value {
    let n = case["input"]["name"].as_str().unwrap_or("");
    let t = case["input"]["text"].as_str().unwrap_or("");
    match check(n, t) {
        Ok(()) => json!({"reproduced": false}),
        Err(w) => json!({"reproduced": true, "what": w}),
    }
}
