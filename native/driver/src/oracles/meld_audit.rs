//! Bounded stand-in for src/melda.rs `meld` (+ `commit`, `refresh`, `get_value`) seen from the storage side.
//! Properties: storage is content addressed and byte-identical everywhere; stored items are trusted only if their
//! content matches their name.
//!
//! (a) audit: two replicas A, B on MemoryAdapters; histories = prefix [A.edit, A.commit] followed by every
//!     sequence of <= L ops over { A.edit, A.commit, B.edit, B.commit, meld A>B (+refresh B), meld B>A (+refresh A) }
//!     plus 3 scripted longer ones.  A submits whole documents with update() (flattened objects, strings with
//!     braces, ONE flattened array that only A ever edits); B edits its own objects with update_object /
//!     create_object / delete_object, so no array is ever edited concurrently.  Commit metadata cycles through
//!     Some({}), Some({"a":{"b":[1,2.5,"é\"\\"]}}), None.  After every step BOTH adapters are audited:
//!       audit:<h>:pack-hash        every <p>.pack item's bytes hash (sha256 hex) to <p>
//!       audit:<h>:delta-hash       every <i>-<d>.delta item's bytes hash to <d>
//!       audit:<h>:delta-index      i == 1 + max index of the ids in its "p" field (1 without parents)
//!       audit:<h>:shared-identical any key present on both adapters has identical bytes
//!       (audit:<h>:api: a meld / refresh / commit of the history itself returned Err or panicked)
//! (b) meld-damaged: replica S (storage wrapper that lets the test replace an item after the fact) makes two
//!     commits and stays open; one byte of its second pack (resp. second block file) is replaced in S's storage;
//!     a fresh replica T melds from the running S and refreshes: T's storage holds no pack / block whose bytes
//!     do not hash to its name, and T's state (objects, winners, conflicts, anchors, read) equals S's state after
//!     its FIRST commit — or refresh is Err and T's state is that or empty; never altered content.
//!     Two groups: "root" (root object only, byte-deterministic items) and "rich" (nested objects + array).
//! (c) reread-damaged: replica R is opened fresh on storage holding two commits by another replica (32 objects),
//!     get_value(uuid, None) succeeds; then one byte inside that object's text in its pack is replaced in storage;
//!     R reads 20 other objects (each must be Err or its original value), then get_value(uuid, None) again must
//!     be Err or the ORIGINAL value.
//! (d) catch-up:<files>[:active]  a source with 3 commits (d1,p1,d2,p2,d3,p3); ANY subset of its files reached the
//!     receiver earlier by plain file copy (e.g. only d2: a block without its pack), the receiver refreshed (held-back
//!     blocks); `active`: the receiver has a commit of its own.  Then meld in both directions + refresh until nothing new
//!     arrives: receiver state == source state (objects, winners, conflicts, anchors, read), the receiver's storage holds
//!     every item of the source's, all content addressed; a replica reopened on it agrees.
//! (e) interrupted-meld:<reopen|refresh>[+preloaded]:N<k>  the destination's storage accepts only the first k writes of the
//!     meld (k = 0..6); the destination is then reopened with Melda::new (or refreshed), the fault is gone, the meld is
//!     retried + refresh: destination == source as in (d).  `preloaded`: the first commit had arrived completely before.
//! Every part runs in a worker thread under a 10 s watchdog.
use super::orch::{self, Dyn, Out, OverlayAdapter};
use super::FailureClasses;
use crate::Report;
use melda::melda::Melda;
use melda::vf::utils::digest_bytes;
use serde_json::{json, Map, Value};
use std::collections::BTreeMap;
use std::sync::{Arc, Mutex};

const F: &str = "\u{266D}";

fn k(s: &str) -> String {
    format!("{}{}", s, F)
}

// ------------------------------------------------------------------------------------------ (a) audit

const OPS: [&str; 6] = ["A.edit", "A.commit", "B.edit", "B.commit", "meld.A>B", "meld.B>A"];

fn doc_a(n: usize) -> Map<String, Value> {
    let mut m = Map::new();
    m.insert("title".into(), json!(format!("t{}", n % 2)));
    m.insert(k("a"), json!({"_id": "o1", "v": n}));
    m.insert(k("b"), json!({"_id": "o2", "s": format!("x}}{{{}", n / 2)}));
    let list = match n % 3 {
        0 => json!([{"_id": "i1", "n": 1}, {"_id": "i2", "n": 2}]),
        1 => json!([{"_id": "i1", "n": 1}, {"_id": "i2", "n": 2}, {"_id": "i3", "n": 3}]),
        _ => json!([{"_id": "i3", "n": 3}, {"_id": "i1", "n": 1}]),
    };
    m.insert(k("list"), list);
    m
}

fn info(i: usize) -> Option<Map<String, Value>> {
    match i % 3 {
        0 => Some(Map::new()),
        1 => Some(orch::obj(json!({"a": {"b": [1, 2.5, "é\"\\"]}}))),
        _ => None,
    }
}

/// the four storage checks on one pair of adapters; Err((check, message))
fn audit(ads: &[Dyn; 2]) -> Result<(), (String, String)> {
    let mut all: Vec<BTreeMap<String, Vec<u8>>> = vec![];
    for (r, ad) in ads.iter().enumerate() {
        let who = ["A", "B"][r];
        let items = orch::items_of(ad).map_err(|e| ("api".to_string(), e))?;
        for (key, bytes) in &items {
            if let Some(p) = key.strip_suffix(".pack") {
                let d = digest_bytes(bytes);
                if d != p {
                    return Err(("pack-hash".into(), format!("{}'s storage: item {} holds bytes that hash to {}", who, key, d)));
                }
            } else if let Some(stem) = key.strip_suffix(".delta") {
                let (idx, dig) = match stem.split_once('-') {
                    Some((i, d)) => (i.parse::<u64>().ok(), d),
                    None => (None, ""),
                };
                let d = digest_bytes(bytes);
                if d != dig {
                    return Err(("delta-hash".into(), format!("{}'s storage: item {} holds bytes that hash to {}", who, key, d)));
                }
                let idx = idx.ok_or_else(|| ("delta-index".to_string(), format!("{}'s storage: item {} has no numeric index", who, key)))?;
                let v: Value = serde_json::from_slice(bytes).map_err(|e| ("delta-hash".to_string(), format!("{}'s storage: item {} is not JSON: {}", who, key, e)))?;
                let mut max = 0u64;
                if let Some(ps) = v.get("p").and_then(|p| p.as_array()) {
                    for p in ps {
                        let pi = p.as_str().and_then(|s| s.split_once('-')).and_then(|(i, _)| i.parse::<u64>().ok());
                        match pi {
                            Some(pi) => max = max.max(pi),
                            None => return Err(("delta-index".into(), format!("{}'s storage: item {} lists a malformed parent {}", who, key, p))),
                        }
                    }
                }
                if idx != max + 1 {
                    return Err(("delta-index".into(), format!("{}'s storage: item {} has index {} but its parents' max index is {}", who, key, idx, max)));
                }
            }
        }
        all.push(items);
    }
    for (key, bytes) in &all[0] {
        if let Some(other) = all[1].get(key) {
            if other != bytes {
                return Err(("shared-identical".into(), format!("item {} differs between the two storages: {} vs {}", key, String::from_utf8_lossy(bytes), String::from_utf8_lossy(other))));
            }
        }
    }
    Ok(())
}

/// runs one history, auditing after every step; Err((check, message)) on the first violation
fn run_history(ops: &[usize]) -> Result<(), (String, String)> {
    let api = |e: String| ("api".to_string(), e);
    let ads: [Dyn; 2] = [orch::mem(), orch::mem()];
    let mut reps: Vec<Melda> = vec![orch::open(&ads[0]).map_err(api)?, orch::open(&ads[1]).map_err(api)?];
    let (mut na, mut nb, mut commits) = (0usize, 0usize, [0usize; 2]);
    for (step, op) in ops.iter().enumerate() {
        let at = |e: String| ("api".to_string(), format!("step {} ({}): {}", step, OPS[*op], e));
        match OPS[*op] {
            "A.edit" => {
                na += 1;
                orch::ge("A.update", || reps[0].update(doc_a(na))).map_err(at)?;
            }
            "B.edit" => {
                nb += 1;
                let b = &reps[1];
                let r = match nb % 4 {
                    1 => orch::ge("B.create_object", || b.create_object("b1", orch::obj(json!({"n": nb, "s": "é\"\\ {"})))).map(|_| ()),
                    2 => orch::ge("B.update_object", || b.update_object("b1", orch::obj(json!({"n": nb, "t": [1.5, -2]})))).map(|_| ()),
                    3 => orch::ge("B.update_object", || b.update_object(&format!("b{}", nb), orch::obj(json!({"n": nb})))).map(|_| ()),
                    _ => orch::ge("B.delete_object", || b.delete_object("b1")).map(|_| ()),
                };
                r.map_err(at)?;
            }
            "A.commit" | "B.commit" => {
                let r = if OPS[*op] == "A.commit" { 0 } else { 1 };
                let i = info(commits[r] + r);
                if orch::ge("commit", || reps[r].commit(i)).map_err(at)?.is_some() {
                    commits[r] += 1;
                }
            }
            m => {
                let (from, to) = if m == "meld.A>B" { (0, 1) } else { (1, 0) };
                let (x, y) = reps.split_at_mut(1);
                let (src, dst) = if from == 0 { (&x[0], &mut y[0]) } else { (&y[0], &mut x[0]) };
                orch::ge("meld", || dst.meld(src)).map_err(at)?;
                let staged = orch::g(|| dst.has_staging()).map_err(|p| at(format!("panic in has_staging: {}", p)))?;
                if !staged {
                    orch::ge("refresh", || dst.refresh()).map_err(at)?;
                }
                let _ = to;
            }
        }
        audit(&ads).map_err(|(c, m)| (c, format!("after step {} ({}): {}", step, OPS[*op], m)))?;
    }
    Ok(())
}

const CHECKS: [&str; 4] = ["pack-hash", "delta-hash", "delta-index", "shared-identical"];

fn history_case(ops: &[usize], out: &Out) {
    let names: Vec<&str> = ops.iter().map(|o| OPS[*o]).collect();
    let h = names.join(" ");
    let input = json!({"part": "audit", "ops": names});
    out.begin(&format!("audit:{}", h), input.clone());
    let melds_after_commit = ops.iter().enumerate().any(|(i, o)| *o >= 4 && ops[..i].iter().filter(|p| **p == 1 || **p == 3).count() >= 2);
    let r = run_history(ops);
    for c in CHECKS {
        out.case(&format!("audit:{}:{}", h, c), melds_after_commit);
    }
    if let Err((check, msg)) = r {
        out.fail(&format!("audit:{}", check), &format!("audit:{}:{}", h, check), input, &msg);
    }
}

fn sequences(n_ops: usize, maxlen: usize) -> Vec<Vec<usize>> {
    let mut out: Vec<Vec<usize>> = vec![vec![]];
    let mut frontier: Vec<Vec<usize>> = vec![vec![]];
    for _ in 0..maxlen {
        let mut next = vec![];
        for s in &frontier {
            for o in 0..n_ops {
                let mut t = s.clone();
                t.push(o);
                next.push(t);
            }
        }
        out.extend(next.iter().cloned());
        frontier = next;
    }
    out
}

fn scripted() -> Vec<Vec<usize>> {
    // 0 A.edit 1 A.commit 2 B.edit 3 B.commit 4 meld A>B 5 meld B>A
    vec![
        // long chain on A with melds on the way, B answering (indices up to 9)
        vec![0, 1, 4, 0, 1, 0, 1, 4, 2, 3, 5, 0, 1, 0, 1, 4, 2, 3, 2, 3, 5, 0, 1, 4],
        // independent origins, merge block on each side, then cross melds
        vec![0, 1, 2, 3, 2, 3, 4, 5, 0, 1, 2, 3, 4, 5, 2, 3, 0, 1, 5, 4],
        // B-only activity (creates, updates, deletion-only commits without pack) melded into A
        vec![0, 1, 2, 3, 2, 3, 2, 3, 2, 3, 5, 2, 3, 5, 0, 1, 4, 2, 3, 5],
    ]
}

// ------------------------------------------------------------------------------------------ (b) meld-damaged

fn replacements(orig: u8) -> Vec<(&'static str, u8)> {
    [("x1", orig ^ 0x01), ("sp", b' '), ("br", b'}'), ("q", b'"'), ("0", b'0')].into_iter().filter(|(_, b)| *b != orig).collect()
}

fn group_docs(group: &str) -> (Map<String, Value>, Map<String, Value>) {
    if group == "root" {
        (orch::obj(json!({"title": "a}b", "n": 1})), orch::obj(json!({"title": "c", "n": 2.5, "more": [1, "é"]})))
    } else {
        let mut d1 = Map::new();
        d1.insert("title".into(), json!("t"));
        d1.insert(k("a"), json!({"_id": "o1", "v": 1}));
        d1.insert(k("b"), json!({"_id": "o2", "s": "x}y"}));
        d1.insert(k("list"), json!([{"_id": "i1", "n": 1}, {"_id": "i2", "n": 2}]));
        let mut d2 = d1.clone();
        d2.insert(k("a"), json!({"_id": "o1", "v": 2}));
        d2.insert(k("c"), json!({"_id": "o3", "v": 3}));
        d2.insert(k("list"), json!([{"_id": "i2", "n": 2}, {"_id": "i1", "n": 1}, {"_id": "i3", "n": 3}]));
        (d1, d2)
    }
}

fn storage_violation(ad: &Dyn) -> Result<Option<String>, String> {
    for (key, bytes) in orch::items_of(ad)? {
        if let Some(p) = key.strip_suffix(".pack") {
            if digest_bytes(&bytes) != p {
                return Ok(Some(format!("pack item {} holds bytes hashing to {}", key, digest_bytes(&bytes))));
            }
        } else if let Some(stem) = key.strip_suffix(".delta") {
            let dig = stem.split_once('-').map(|x| x.1).unwrap_or("");
            if digest_bytes(&bytes) != dig {
                return Ok(Some(format!("block item {} holds bytes hashing to {}", key, digest_bytes(&bytes))));
            }
        }
    }
    Ok(None)
}

fn meld_damaged(group: &str, step: usize, out: &Out) {
    let input = json!({"part": "meld-damaged", "group": group, "step": step});
    let stub = format!("meld-damaged:{}", group);
    out.begin(&stub, input.clone());
    let setup = || -> Result<(Melda, Arc<Mutex<BTreeMap<String, Vec<u8>>>>, Value, Vec<(String, String, Vec<u8>)>), String> {
        let inner = orch::mem();
        let over = Arc::new(Mutex::new(BTreeMap::new()));
        let ad = orch::dynof(OverlayAdapter { inner: inner.clone(), over: over.clone() });
        let s = orch::open(&ad)?;
        let (d1, d2) = group_docs(group);
        orch::ge("S.update(doc1)", || s.update(d1))?;
        orch::ge("S.commit 1", || s.commit(None))?.ok_or("first commit returned Ok(None)")?;
        let s1 = orch::state(&s);
        orch::ge("S.update(doc2)", || s.update(d2))?;
        let a2 = orch::ge("S.commit 2", || s.commit(Some(orch::obj(json!({"who": "S"})))))?.ok_or("second commit returned Ok(None)")?;
        let id2 = a2.iter().next().cloned().ok_or("second commit returned no id")?;
        let delta2 = orch::ge("get_delta", || s.get_delta(&id2))?.ok_or("get_delta(second block) is None")?;
        let items = orch::items_of(&inner)?;
        let mut targets = vec![];
        for p in delta2.packs.clone().unwrap_or_default() {
            let key = format!("{}.pack", p);
            let bytes = items.get(&key).cloned().ok_or(format!("second pack {} not in S's storage", key))?;
            targets.push(("pack2".to_string(), key, bytes));
        }
        if targets.is_empty() {
            return Err("second commit wrote no pack".into());
        }
        let key = id2.key();
        let bytes = items.get(&key).cloned().ok_or(format!("second block {} not in S's storage", key))?;
        targets.push(("block2".to_string(), key, bytes));
        Ok((s, over, s1, targets))
    };
    let (s, over, s1, targets) = match setup() {
        Ok(x) => x,
        Err(e) => {
            out.case(&format!("{}:setup", stub), false);
            out.fail("meld-damaged:setup", &format!("{}:setup", stub), input, &e);
            return;
        }
    };
    let empty = orch::empty_state();
    for (item, key, bytes) in &targets {
        for i in (0..bytes.len()).step_by(step.max(1)) {
            for (tag, nb) in replacements(bytes[i]) {
                let id = format!("{}:{}:byte{}{}", stub, item, i, tag);
                out.case(&id, true);
                let mut d = bytes.clone();
                d[i] = nb;
                over.lock().unwrap().insert(key.clone(), d);
                let verdict = (|| -> Result<(), String> {
                    let tad = orch::mem();
                    let mut t = orch::open(&tad)?;
                    // the result of meld itself is not constrained; what reaches T's storage and state is
                    let melded = orch::g(|| t.meld(&s));
                    if let Err(p) = melded {
                        return Err(format!("panic in meld: {}", p));
                    }
                    let refreshed = orch::g(|| t.refresh()).map_err(|p| format!("panic in refresh: {}", p))?;
                    if let Some(v) = storage_violation(&tad)? {
                        return Err(format!("after meld from the damaged source T's storage is polluted: {}", v));
                    }
                    let st = orch::state(&t);
                    if st == s1 || (refreshed.is_err() && st == empty) {
                        return Ok(());
                    }
                    let d = orch::first_difference(&st, &s1, &orch::STATE_KEYS).unwrap_or_default();
                    Err(format!("T's state after meld+refresh (refresh: {}) is not the state of the intact first commit; {}", if refreshed.is_ok() { "Ok" } else { "Err" }, d))
                })();
                over.lock().unwrap().clear();
                if let Err(w) = verdict {
                    out.fail(&format!("meld-damaged:{}", item), &id, input.clone(), &format!("{} of S replaced at byte {} ({:?} -> {:?}): {}", item, i, bytes[i] as char, nb as char, w));
                }
            }
        }
    }
}

// ------------------------------------------------------------------------------------------ (c) reread-damaged

const N_OBJ: usize = 30;

fn big_doc(second: bool) -> Map<String, Value> {
    let mut m = Map::new();
    m.insert("title".into(), json!("big"));
    for i in 0..N_OBJ {
        let n = if second && (5..8).contains(&i) { 100 + i } else { i };
        m.insert(k(&format!("k{:02}", i)), json!({"_id": format!("obj{:02}", i), "n": n, "s": format!("text {:02} {{x}} \"q\" é", i)}));
    }
    if second {
        m.insert(k("k30"), json!({"_id": "obj30", "n": 30, "s": "new"}));
        m.insert(k("k31"), json!({"_id": "obj31", "n": 31, "s": "new}"}));
    }
    m
}

fn find(hay: &[u8], needle: &[u8]) -> Option<usize> {
    if needle.is_empty() || hay.len() < needle.len() {
        return None;
    }
    (0..=hay.len() - needle.len()).find(|i| &hay[*i..*i + needle.len()] == needle)
}

fn reread_damaged(target: &str, step: usize, out: &Out) {
    let input = json!({"part": "reread-damaged", "target": target, "step": step});
    let stub = format!("reread-damaged:{}", target);
    out.begin(&stub, input.clone());
    type Setup = (Dyn, Arc<Mutex<BTreeMap<String, Vec<u8>>>>, BTreeMap<String, Map<String, Value>>, String, Vec<u8>, usize, usize);
    let setup = || -> Result<Setup, String> {
        let inner = orch::mem();
        let w = orch::open(&inner)?;
        orch::ge("W.update(doc1)", || w.update(big_doc(false)))?;
        orch::ge("W.commit 1", || w.commit(None))?.ok_or("first commit returned Ok(None)")?;
        orch::ge("W.update(doc2)", || w.update(big_doc(true)))?;
        orch::ge("W.commit 2", || w.commit(None))?.ok_or("second commit returned Ok(None)")?;
        drop(w);
        let over = Arc::new(Mutex::new(BTreeMap::new()));
        let ad = orch::dynof(OverlayAdapter { inner: inner.clone(), over: over.clone() });
        // original values, read by a replica that is thrown away
        let r0 = orch::open(&ad)?;
        let mut originals = BTreeMap::new();
        for o in orch::g(|| r0.get_all_objects()).map_err(|p| format!("panic in get_all_objects: {}", p))? {
            if o.starts_with('^') {
                continue; // array descriptors (none here) are not plain stored values
            }
            let v = orch::ge(&format!("get_value({})", o), || r0.get_value(&o, None))?;
            originals.insert(o, v);
        }
        if originals.len() < 25 {
            return Err(format!("only {} objects in the history", originals.len()));
        }
        let v0 = originals.get(target).cloned().ok_or(format!("no object {}", target))?;
        let text = serde_json::to_string(&Value::Object(v0)).map_err(|e| e.to_string())?;
        for (key, bytes) in orch::items_of(&inner)? {
            if key.ends_with(".pack") {
                if let Some(start) = find(&bytes, text.as_bytes()) {
                    return Ok((ad, over, originals, key, bytes, start, text.len()));
                }
            }
        }
        Err(format!("text of {} not found in any pack: {}", target, text))
    };
    let (ad, over, originals, key, bytes, start, len) = match setup() {
        Ok(x) => x,
        Err(e) => {
            out.case(&format!("{}:setup", stub), false);
            out.fail("reread-damaged:setup", &format!("{}:setup", stub), input, &e);
            return;
        }
    };
    let v0 = originals[target].clone();
    let others: Vec<&String> = originals.keys().filter(|o| o.as_str() != target).take(20).collect();
    for off in (0..len).step_by(step.max(1)) {
        let i = start + off;
        for (tag, nb) in replacements(bytes[i]) {
            let id = format!("{}:byte{}{}", stub, off, tag);
            out.case(&id, true);
            let verdict = (|| -> Result<(), String> {
                let r = orch::open(&ad)?;
                match orch::ge("get_value before the damage", || r.get_value(target, None)) {
                    Ok(v) if v == v0 => {}
                    Ok(v) => return Err(format!("first read gives {} instead of {}", Value::Object(v), Value::Object(v0.clone()))),
                    Err(e) => return Err(e),
                }
                let mut d = bytes.clone();
                d[i] = nb;
                over.lock().unwrap().insert(key.clone(), d);
                for o in &others {
                    match orch::g(|| r.get_value(o.as_str(), None)) {
                        Ok(Ok(v)) if v != originals[o.as_str()] => return Err(format!("other object {} now reads {} instead of {}", o, Value::Object(v), Value::Object(originals[o.as_str()].clone()))),
                        Ok(_) => {}
                        Err(p) => return Err(format!("panic reading other object {}: {}", o, p)),
                    }
                }
                match orch::g(|| r.get_value(target, None)) {
                    Ok(Ok(v)) if v != v0 => Err(format!("get_value after the damage gives {} instead of the original {} (or an error)", Value::Object(v), Value::Object(v0.clone()))),
                    Ok(_) => Ok(()),
                    Err(p) => Err(format!("panic in get_value after the damage: {}", p)),
                }
            })();
            over.lock().unwrap().clear();
            if let Err(w) = verdict {
                out.fail("reread-damaged", &id, input.clone(), &format!("byte {} of the object's text ({:?} -> {:?}) replaced in {}: {}", off, bytes[i] as char, nb as char, key, w));
            }
        }
    }
}

// ------------------------------------------------------------------------------------------ (d) catch-up, (e) interrupted meld

fn chain_doc(step: usize) -> Map<String, Value> {
    let mut m = Map::new();
    m.insert("title".into(), json!(format!("t{}", step)));
    m.insert(k("a"), json!({"_id": "o1", "v": step}));
    m.insert(k("b"), json!({"_id": "o2", "s": "x}y"}));
    m.insert(k("list"), Value::Array((1..=step + 1).map(|i| json!({"_id": format!("i{}", i), "n": i})).collect()));
    m
}

/// a source with `n` commits; returns (replica, adapter, its items with labels d1,p1,d2,p2,..)
fn chain_source(n: usize) -> Result<(Melda, Dyn, Vec<(String, String, Vec<u8>)>), String> {
    let ad = orch::mem();
    let s = orch::open(&ad)?;
    let mut labelled = vec![];
    for step in 1..=n {
        orch::ge("S.update", || s.update(chain_doc(step)))?;
        let heads = orch::ge("S.commit", || s.commit(if step % 2 == 0 { Some(orch::obj(json!({"step": step}))) } else { None }))?.ok_or("commit returned Ok(None)")?;
        let id = heads.iter().next().cloned().ok_or("no head")?;
        let d = orch::ge("get_delta", || s.get_delta(&id))?.ok_or("get_delta(head) is None")?;
        let items = orch::items_of(&ad)?;
        labelled.push((format!("d{}", step), id.key(), items.get(&id.key()).cloned().ok_or("block file missing")?));
        for p in d.packs.clone().unwrap_or_default() {
            let key = format!("{}.pack", p);
            labelled.push((format!("p{}", step), key.clone(), items.get(&key).cloned().ok_or("pack file missing")?));
        }
    }
    Ok((s, ad, labelled))
}

fn exchange(r: &mut Melda, s: &mut Melda) -> Result<usize, String> {
    for round in 1..=6 {
        let n1 = orch::ge("R.meld(S)", || r.meld(s))?.len();
        orch::ge("R.refresh", || r.refresh())?;
        let n2 = orch::ge("S.meld(R)", || s.meld(r))?.len();
        orch::ge("S.refresh", || s.refresh())?;
        if n1 + n2 == 0 {
            return Ok(round);
        }
    }
    Err("the exchange did not settle within 6 rounds (something new arrives every time)".into())
}

fn same_end_state(r: &Melda, r_ad: &Dyn, s: &Melda, s_ad: &Dyn, ctx: &str) -> Result<(), String> {
    let (sr, ss) = (orch::state(r), orch::state(s));
    if let Some(d) = orch::first_difference(&sr, &ss, &orch::STATE_KEYS) {
        return Err(format!("{}: receiver vs source; {}", ctx, d));
    }
    let (ir, is) = (orch::items_of(r_ad)?, orch::items_of(s_ad)?);
    for key in is.keys() {
        if !ir.contains_key(key) {
            return Err(format!("{}: the receiver's storage lacks {}", ctx, key));
        }
    }
    if let Some(v) = storage_violation(r_ad)? {
        return Err(format!("{}: {}", ctx, v));
    }
    // and a replica reopened on the receiver's storage agrees
    let f = orch::open(r_ad)?;
    if let Some(d) = orch::first_difference(&orch::state(&f), &ss, &orch::STATE_KEYS) {
        return Err(format!("{}: replica reopened on the receiver's storage vs source; {}", ctx, d));
    }
    Ok(())
}

/// (d) some of the source's files reached the receiver EARLIER by plain file copy (any subset: e.g. only the block file of
/// the second commit), the receiver refreshed (blocks without their pack or parents are held back); `active`: the receiver
/// also has a commit of its own.  Then both meld from each other + refresh until nothing new arrives.
fn catch_up(n: usize, mask: u32, active: bool) -> Result<(), String> {
    let (mut s, s_ad, items) = chain_source(n)?;
    let r_ad = orch::mem();
    let mut r = orch::open(&r_ad)?;
    if active {
        orch::ge("R.create_object", || r.create_object("own", orch::obj(json!({"mine": true}))))?;
        orch::ge("R.commit", || r.commit(None))?;
    }
    for (i, (_, key, bytes)) in items.iter().enumerate() {
        if mask & (1 << i) != 0 {
            orch::put(&r_ad, key, bytes)?;
        }
    }
    orch::ge("R.refresh (after the file copy)", || r.refresh())?;
    let rounds = exchange(&mut r, &mut s)?;
    same_end_state(&r, &r_ad, &s, &s_ad, &format!("after {} exchange round(s)", rounds))
}

/// (e) the destination's storage accepts only the first `n_ok` writes of a meld; then the destination is reopened
/// (`reopen`) or refreshed, the fault is gone, and the meld is retried + refresh
fn interrupted_meld(n_commits: usize, n_ok: u64, reopen: bool, preloaded: bool) -> Result<(), String> {
    let (s, s_ad, items) = chain_source(n_commits)?;
    let inner = orch::mem();
    let plan = Arc::new(Mutex::new(orch::FaultPlan::default()));
    let ad = orch::dynof(orch::FaultAdapter { inner: inner.clone(), plan: plan.clone() });
    if preloaded {
        // the first commit arrived completely some time before
        for (l, key, bytes) in &items {
            if l == "d1" || l == "p1" {
                orch::put(&inner, key, bytes)?;
            }
        }
    }
    let mut d = orch::open(&ad)?;
    {
        let mut p = plan.lock().unwrap();
        p.armed = true;
        p.positions = ((n_ok + 1)..(n_ok + 64)).collect();
    }
    let written = orch::ge("interrupted D.meld(S)", || d.meld(&s))?;
    plan.lock().unwrap().armed = false;
    let mut d = if reopen {
        drop(d);
        orch::open(&ad)?
    } else {
        orch::ge("D.refresh after the interrupted meld", || d.refresh())?;
        d
    };
    orch::ge("retried D.meld(S)", || d.meld(&s))?;
    orch::ge("D.refresh", || d.refresh())?;
    same_end_state(&d, &inner, &s, &s_ad, &format!("first meld wrote {} item(s), then retry", written.len()))
}

fn labels_of(n: usize, mask: u32) -> String {
    let mut v = vec![];
    let mut i = 0;
    for step in 1..=n {
        for l in ["d", "p"] {
            if mask & (1 << i) != 0 {
                v.push(format!("{}{}", l, step));
            }
            i += 1;
        }
    }
    if v.is_empty() { "nothing".to_string() } else { v.join("+") }
}

fn robustness_cases(thorough: bool, out: &Out) {
    let n = 3usize;
    for active in [false, true] {
        for mask in 0..(1u32 << (2 * n)) {
            if !thorough && active && mask % 5 != 0 {
                continue;
            }
            let id = format!("catch-up:{}{}", labels_of(n, mask), if active { ":active" } else { "" });
            let input = json!({"part": "catch-up", "n": n, "mask": mask, "active": active});
            out.begin(&id, input.clone());
            out.case(&id, mask != 0 && mask != (1u32 << (2 * n)) - 1);
            match orch::g(|| catch_up(n, mask, active)) {
                Ok(Ok(())) => {}
                Ok(Err(e)) => out.fail("catch-up", &id, input, &format!("files copied beforehand: {}: {}", labels_of(n, mask), e)),
                Err(p) => out.fail("catch-up", &id, input, &format!("panic: {}", p.lines().next().unwrap_or(""))),
            }
        }
    }
    for preloaded in [false, true] {
        for reopen in [true, false] {
            for n_ok in 0..=(2 * n as u64) {
                let id = format!("interrupted-meld:{}{}:N{}", if reopen { "reopen" } else { "refresh" }, if preloaded { "+preloaded" } else { "" }, n_ok);
                let input = json!({"part": "interrupted-meld", "n": n, "n_ok": n_ok, "reopen": reopen, "preloaded": preloaded});
                out.begin(&id, input.clone());
                out.case(&id, n_ok > 0 && n_ok < 2 * n as u64);
                match orch::g(|| interrupted_meld(n, n_ok, reopen, preloaded)) {
                    Ok(Ok(())) => {}
                    Ok(Err(e)) => out.fail("interrupted-meld", &id, input, &e),
                    Err(p) => out.fail("interrupted-meld", &id, input, &format!("panic: {}", p.lines().next().unwrap_or(""))),
                }
            }
        }
    }
}

const TARGETS: [&str; 4] = ["obj03", "obj07", "obj31", "\u{221A}"];

fn work(thorough: bool, out: &Out) {
    let maxlen = if thorough { 6 } else { 4 };
    let workers: usize = if thorough { std::env::var("MELDA_VERIF_WORKERS").ok().and_then(|s| s.parse().ok()).unwrap_or(3) } else { 1 };
    let mut hs: Vec<Vec<usize>> = vec![];
    for s in sequences(OPS.len(), maxlen) {
        let mut h = vec![0usize, 1usize];
        h.extend(s);
        hs.push(h);
    }
    hs.extend(scripted());
    out.note(&format!("{} audited histories", hs.len()));
    orch::fan_out(out, workers, hs, |part: Vec<Vec<usize>>, out: &Out| {
        for h in &part {
            history_case(h, out);
        }
    });
    let (s1, s2) = if thorough { (1, 1) } else { (5, 3) };
    let mut parts: Vec<(bool, &'static str, usize)> = vec![(true, "root", s1), (true, "rich", s1)];
    parts.extend(TARGETS.iter().map(|t| (false, *t, s2)));
    orch::fan_out(out, workers, parts, |part: Vec<(bool, &'static str, usize)>, out: &Out| {
        for (meld, name, step) in &part {
            if *meld {
                meld_damaged(name, *step, out);
            } else {
                reread_damaged(name, *step, out);
            }
        }
    });
    robustness_cases(thorough, out);
}

pub fn run(thorough: bool, _seed: u64) -> Report {
    let mut rep = Report::new(
        "meld_audit",
        &(if thorough {
            "(a) prefix [A.edit, A.commit] + every sequence of <= 6 ops over {A.edit, A.commit, B.edit, B.commit, meld A>B+refresh, meld B>A+refresh} (55987 histories) + 3 scripted histories of 20..24 ops, 4 storage checks on both adapters after every step; (b) 2 source groups (root-only, nested objects + array) x {second pack, second block file} x EVERY byte position x up to 5 replacement bytes (xor 1, space, '}', '\"', '0'); (c) 4 target objects (first pack, second pack, newest, root) out of 33 x EVERY byte of the object's text in its pack x up to 5 replacement bytes, 20 other reads in between; (d) catch-up: every subset of the 6 files of a 3-commit source copied beforehand (64), passive and active receiver; (e) interrupted-meld: k = 0..6 accepted writes x {reopen, refresh} x {empty, preloaded} destination"
        } else {
            "(a) prefix [A.edit, A.commit] + every sequence of <= 4 ops over {A.edit, A.commit, B.edit, B.commit, meld A>B+refresh, meld B>A+refresh} (1555 histories) + 3 scripted histories of 20..24 ops, 4 storage checks on both adapters after every step; (b) 2 source groups (root-only, nested objects + array) x {second pack, second block file} x every 5th byte position x up to 5 replacement bytes (xor 1, space, '}', '\"', '0'); (c) 4 target objects (first pack, second pack, newest, root) out of 33 x every 3rd byte of the object's text in its pack x up to 5 replacement bytes, 20 other reads in between; (d) catch-up: every subset of the 6 files of a 3-commit source copied beforehand (64) with a passive receiver, every 5th with an active one; (e) interrupted-meld: k = 0..6 accepted writes x {reopen, refresh} x {empty, preloaded} destination"
        })
        .to_string(),
        "exhaustive enumeration of the stated domains; one case per history and storage check, per damaged copy; non-trivial = (a) a meld happens after at least two commits, (b)/(c) every damaged copy; 10 s watchdog per worker thread (thorough: work spread over 3 threads)",
    );
    if std::env::var_os("RAYON_NUM_THREADS").is_none() {
        std::env::set_var("RAYON_NUM_THREADS", "2");
    }
    let mut classes = FailureClasses::new(1);
    orch::supervise(&mut rep, &mut classes, move |out| work(thorough, out));
    classes.summary("meld_audit");
    rep
}

pub fn replay(case: &Value) -> Value {
    let inp = case["input"].clone();
    let fails = orch::replay_collect(move |out| match inp["part"].as_str() {
        Some("audit") => {
            let ops: Option<Vec<usize>> = inp["ops"].as_array().and_then(|a| a.iter().map(|s| s.as_str().and_then(|s| OPS.iter().position(|o| *o == s))).collect());
            if let Some(ops) = ops {
                history_case(&ops, out);
            }
        }
        Some("catch-up") => {
            let (n, mask, active) = (inp["n"].as_u64().unwrap_or(3) as usize, inp["mask"].as_u64().unwrap_or(0) as u32, inp["active"].as_bool().unwrap_or(false));
            let id = format!("catch-up:{}{}", labels_of(n, mask), if active { ":active" } else { "" });
            match orch::g(|| catch_up(n, mask, active)) {
                Ok(Ok(())) => {}
                Ok(Err(e)) => out.fail("catch-up", &id, json!({}), &e),
                Err(p) => out.fail("catch-up", &id, json!({}), &format!("panic: {}", p)),
            }
        }
        Some("interrupted-meld") => {
            let (n, n_ok) = (inp["n"].as_u64().unwrap_or(3) as usize, inp["n_ok"].as_u64().unwrap_or(0));
            let (reopen, preloaded) = (inp["reopen"].as_bool().unwrap_or(true), inp["preloaded"].as_bool().unwrap_or(false));
            let id = format!("interrupted-meld:{}{}:N{}", if reopen { "reopen" } else { "refresh" }, if preloaded { "+preloaded" } else { "" }, n_ok);
            match orch::g(|| interrupted_meld(n, n_ok, reopen, preloaded)) {
                Ok(Ok(())) => {}
                Ok(Err(e)) => out.fail("interrupted-meld", &id, json!({}), &e),
                Err(p) => out.fail("interrupted-meld", &id, json!({}), &format!("panic: {}", p)),
            }
        }
        Some("meld-damaged") => {
            // item layout is not byte-deterministic across processes (hash-map order inside a pack): re-run the group
            let g = if inp["group"].as_str() == Some("root") { "root" } else { "rich" };
            meld_damaged(g, inp["step"].as_u64().unwrap_or(1) as usize, out);
        }
        Some("reread-damaged") => {
            if let Some(t) = TARGETS.iter().find(|t| Some(**t) == inp["target"].as_str()) {
                reread_damaged(t, inp["step"].as_u64().unwrap_or(1) as usize, out);
            }
        }
        _ => {}
    });
    orch::replay_verdict(case, fails)
}
