//! Bounded stand-in for src/melda.rs `meld` (+ `commit`, `refresh`, `get_value`) seen from the storage side.
//! Properties: storage is content addressed and byte-identical everywhere; stored items are trusted only if their
//! content matches their name.
//!
//! (a) audit: two replicas A, B on MemoryAdapters; histories = prefix [A.edit, A.commit] followed by every
//!     sequence of <= L ops over { A.edit, A.commit, B.edit, B.commit, meld A>B (+refresh B), meld B>A (+refresh A) }
//!     plus 3 scripted longer ones.  A submits whole documents with update() (flattened objects, strings with
//!     braces, ONE flattened array that only A ever edits); B edits its own objects with update_object /
//!     create_object / delete_object, so no array is ever edited concurrently.  Commit metadata cycles through
//!     Some({}), Some({"a":{"b":[1,2.5,"é\"\\"]}}), None.  After every step BOTH adapters are audited:
//!       audit:<h>:pack-hash        every <p>.pack item's bytes hash (sha256 hex) to <p>
//!       audit:<h>:delta-hash       every <i>-<d>.delta item's bytes hash to <d>
//!       audit:<h>:delta-index      i == 1 + max index of the ids in its "p" field (1 without parents)
//!       audit:<h>:shared-identical any key present on both adapters has identical bytes
//!       (audit:<h>:api: a meld / refresh / commit of the history itself returned Err or panicked)
//! (b) meld-damaged: replica S (storage wrapper that lets the test replace an item after the fact) makes two
//!     commits and stays open; one byte of its second pack (resp. second block file) is replaced in S's storage;
//!     a fresh replica T melds from the running S and refreshes: T's storage holds no pack / block whose bytes
//!     do not hash to its name, and T's state (objects, winners, conflicts, anchors, read) equals S's state after
//!     its FIRST commit — or refresh is Err and T's state is that or empty; never altered content.
//!     Two groups: "root" (root object only, byte-deterministic items) and "rich" (nested objects + array).
//! (c) reread-damaged: replica R is opened fresh on storage holding two commits by another replica (32 objects),
//!     get_value(uuid, None) succeeds; then one byte inside that object's text in its pack is replaced in storage;
//!     R reads 20 other objects (each must be Err or its original value), then get_value(uuid, None) again must
//!     be Err or the ORIGINAL value.
//! Every part runs in a worker thread under a 10 s watchdog.
use super::orch::{self, Dyn, Out, OverlayAdapter};
use super::FailureClasses;
use crate::Report;
use melda::melda::Melda;
use melda::vf::utils::digest_bytes;
use serde_json::{json, Map, Value};
use std::collections::BTreeMap;
use std::sync::{Arc, Mutex};

const F: &str = "\u{266D}";

fn k(s: &str) -> String {
    format!("{}{}", s, F)
}

// ------------------------------------------------------------------------------------------ (a) audit

const OPS: [&str; 6] = ["A.edit", "A.commit", "B.edit", "B.commit", "meld.A>B", "meld.B>A"];

fn doc_a(n: usize) -> Map<String, Value> {
    let mut m = Map::new();
    m.insert("title".into(), json!(format!("t{}", n % 2)));
    m.insert(k("a"), json!({"_id": "o1", "v": n}));
    m.insert(k("b"), json!({"_id": "o2", "s": format!("x}}{{{}", n / 2)}));
    let list = match n % 3 {
        0 => json!([{"_id": "i1", "n": 1}, {"_id": "i2", "n": 2}]),
        1 => json!([{"_id": "i1", "n": 1}, {"_id": "i2", "n": 2}, {"_id": "i3", "n": 3}]),
        _ => json!([{"_id": "i3", "n": 3}, {"_id": "i1", "n": 1}]),
    };
    m.insert(k("list"), list);
    m
}

fn info(i: usize) -> Option<Map<String, Value>> {
    match i % 3 {
        0 => Some(Map::new()),
        1 => Some(orch::obj(json!({"a": {"b": [1, 2.5, "é\"\\"]}}))),
        _ => None,
    }
}

/// the four storage checks on one pair of adapters; Err((check, message))
fn audit(ads: &[Dyn; 2]) -> Result<(), (String, String)> {
    let mut all: Vec<BTreeMap<String, Vec<u8>>> = vec![];
    for (r, ad) in ads.iter().enumerate() {
        let who = ["A", "B"][r];
        let items = orch::items_of(ad).map_err(|e| ("api".to_string(), e))?;
        for (key, bytes) in &items {
            if let Some(p) = key.strip_suffix(".pack") {
                let d = digest_bytes(bytes);
                if d != p {
                    return Err(("pack-hash".into(), format!("{}'s storage: item {} holds bytes that hash to {}", who, key, d)));
                }
            } else if let Some(stem) = key.strip_suffix(".delta") {
                let (idx, dig) = match stem.split_once('-') {
                    Some((i, d)) => (i.parse::<u64>().ok(), d),
                    None => (None, ""),
                };
                let d = digest_bytes(bytes);
                if d != dig {
                    return Err(("delta-hash".into(), format!("{}'s storage: item {} holds bytes that hash to {}", who, key, d)));
                }
                let idx = idx.ok_or_else(|| ("delta-index".to_string(), format!("{}'s storage: item {} has no numeric index", who, key)))?;
                let v: Value = serde_json::from_slice(bytes).map_err(|e| ("delta-hash".to_string(), format!("{}'s storage: item {} is not JSON: {}", who, key, e)))?;
                let mut max = 0u64;
                if let Some(ps) = v.get("p").and_then(|p| p.as_array()) {
                    for p in ps {
                        let pi = p.as_str().and_then(|s| s.split_once('-')).and_then(|(i, _)| i.parse::<u64>().ok());
                        match pi {
                            Some(pi) => max = max.max(pi),
                            None => return Err(("delta-index".into(), format!("{}'s storage: item {} lists a malformed parent {}", who, key, p))),
                        }
                    }
                }
                if idx != max + 1 {
                    return Err(("delta-index".into(), format!("{}'s storage: item {} has index {} but its parents' max index is {}", who, key, idx, max)));
                }
            }
        }
        all.push(items);
    }
    for (key, bytes) in &all[0] {
        if let Some(other) = all[1].get(key) {
            if other != bytes {
                return Err(("shared-identical".into(), format!("item {} differs between the two storages: {} vs {}", key, String::from_utf8_lossy(bytes), String::from_utf8_lossy(other))));
            }
        }
    }
    Ok(())
}

/// runs one history, auditing after every step; Err((check, message)) on the first violation
fn run_history(ops: &[usize]) -> Result<(), (String, String)> {
    let api = |e: String| ("api".to_string(), e);
    let ads: [Dyn; 2] = [orch::mem(), orch::mem()];
    let mut reps: Vec<Melda> = vec![orch::open(&ads[0]).map_err(api)?, orch::open(&ads[1]).map_err(api)?];
    let (mut na, mut nb, mut commits) = (0usize, 0usize, [0usize; 2]);
    for (step, op) in ops.iter().enumerate() {
        let at = |e: String| ("api".to_string(), format!("step {} ({}): {}", step, OPS[*op], e));
        match OPS[*op] {
            "A.edit" => {
                na += 1;
                orch::ge("A.update", || reps[0].update(doc_a(na))).map_err(at)?;
            }
            "B.edit" => {
                nb += 1;
                let b = &reps[1];
                let r = match nb % 4 {
                    1 => orch::ge("B.create_object", || b.create_object("b1", orch::obj(json!({"n": nb, "s": "é\"\\ {"})))).map(|_| ()),
                    2 => orch::ge("B.update_object", || b.update_object("b1", orch::obj(json!({"n": nb, "t": [1.5, -2]})))).map(|_| ()),
                    3 => orch::ge("B.update_object", || b.update_object(&format!("b{}", nb), orch::obj(json!({"n": nb})))).map(|_| ()),
                    _ => orch::ge("B.delete_object", || b.delete_object("b1")).map(|_| ()),
                };
                r.map_err(at)?;
            }
            "A.commit" | "B.commit" => {
                let r = if OPS[*op] == "A.commit" { 0 } else { 1 };
                let i = info(commits[r] + r);
                if orch::ge("commit", || reps[r].commit(i)).map_err(at)?.is_some() {
                    commits[r] += 1;
                }
            }
            m => {
                let (from, to) = if m == "meld.A>B" { (0, 1) } else { (1, 0) };
                let (x, y) = reps.split_at_mut(1);
                let (src, dst) = if from == 0 { (&x[0], &mut y[0]) } else { (&y[0], &mut x[0]) };
                orch::ge("meld", || dst.meld(src)).map_err(at)?;
                let staged = orch::g(|| dst.has_staging()).map_err(|p| at(format!("panic in has_staging: {}", p)))?;
                if !staged {
                    orch::ge("refresh", || dst.refresh()).map_err(at)?;
                }
                let _ = to;
            }
        }
        audit(&ads).map_err(|(c, m)| (c, format!("after step {} ({}): {}", step, OPS[*op], m)))?;
    }
    Ok(())
}

const CHECKS: [&str; 4] = ["pack-hash", "delta-hash", "delta-index", "shared-identical"];

fn history_case(ops: &[usize], out: &Out) {
    let names: Vec<&str> = ops.iter().map(|o| OPS[*o]).collect();
    let h = names.join(" ");
    let input = json!({"part": "audit", "ops": names});
    out.begin(&format!("audit:{}", h), input.clone());
    let melds_after_commit = ops.iter().enumerate().any(|(i, o)| *o >= 4 && ops[..i].iter().filter(|p| **p == 1 || **p == 3).count() >= 2);
    let r = run_history(ops);
    for c in CHECKS {
        out.case(&format!("audit:{}:{}", h, c), melds_after_commit);
    }
    if let Err((check, msg)) = r {
        out.fail(&format!("audit:{}", check), &format!("audit:{}:{}", h, check), input, &msg);
    }
}

fn sequences(n_ops: usize, maxlen: usize) -> Vec<Vec<usize>> {
    let mut out: Vec<Vec<usize>> = vec![vec![]];
    let mut frontier: Vec<Vec<usize>> = vec![vec![]];
    for _ in 0..maxlen {
        let mut next = vec![];
        for s in &frontier {
            for o in 0..n_ops {
                let mut t = s.clone();
                t.push(o);
                next.push(t);
            }
        }
        out.extend(next.iter().cloned());
        frontier = next;
    }
    out
}

fn scripted() -> Vec<Vec<usize>> {
    // 0 A.edit 1 A.commit 2 B.edit 3 B.commit 4 meld A>B 5 meld B>A
    vec![
        // long chain on A with melds on the way, B answering (indices up to 9)
        vec![0, 1, 4, 0, 1, 0, 1, 4, 2, 3, 5, 0, 1, 0, 1, 4, 2, 3, 2, 3, 5, 0, 1, 4],
        // independent origins, merge block on each side, then cross melds
        vec![0, 1, 2, 3, 2, 3, 4, 5, 0, 1, 2, 3, 4, 5, 2, 3, 0, 1, 5, 4],
        // B-only activity (creates, updates, deletion-only commits without pack) melded into A
        vec![0, 1, 2, 3, 2, 3, 2, 3, 2, 3, 5, 2, 3, 5, 0, 1, 4, 2, 3, 5],
    ]
}

// ------------------------------------------------------------------------------------------ (b) meld-damaged

fn replacements(orig: u8) -> Vec<(&'static str, u8)> {
    [("x1", orig ^ 0x01), ("sp", b' '), ("br", b'}'), ("q", b'"'), ("0", b'0')].into_iter().filter(|(_, b)| *b != orig).collect()
}

fn group_docs(group: &str) -> (Map<String, Value>, Map<String, Value>) {
    if group == "root" {
        (orch::obj(json!({"title": "a}b", "n": 1})), orch::obj(json!({"title": "c", "n": 2.5, "more": [1, "é"]})))
    } else {
        let mut d1 = Map::new();
        d1.insert("title".into(), json!("t"));
        d1.insert(k("a"), json!({"_id": "o1", "v": 1}));
        d1.insert(k("b"), json!({"_id": "o2", "s": "x}y"}));
        d1.insert(k("list"), json!([{"_id": "i1", "n": 1}, {"_id": "i2", "n": 2}]));
        let mut d2 = d1.clone();
        d2.insert(k("a"), json!({"_id": "o1", "v": 2}));
        d2.insert(k("c"), json!({"_id": "o3", "v": 3}));
        d2.insert(k("list"), json!([{"_id": "i2", "n": 2}, {"_id": "i1", "n": 1}, {"_id": "i3", "n": 3}]));
        (d1, d2)
    }
}

fn storage_violation(ad: &Dyn) -> Result<Option<String>, String> {
    for (key, bytes) in orch::items_of(ad)? {
        if let Some(p) = key.strip_suffix(".pack") {
            if digest_bytes(&bytes) != p {
                return Ok(Some(format!("pack item {} holds bytes hashing to {}", key, digest_bytes(&bytes))));
            }
        } else if let Some(stem) = key.strip_suffix(".delta") {
            let dig = stem.split_once('-').map(|x| x.1).unwrap_or("");
            if digest_bytes(&bytes) != dig {
                return Ok(Some(format!("block item {} holds bytes hashing to {}", key, digest_bytes(&bytes))));
            }
        }
    }
    Ok(None)
}

fn meld_damaged(group: &str, step: usize, out: &Out) {
    let input = json!({"part": "meld-damaged", "group": group, "step": step});
    let stub = format!("meld-damaged:{}", group);
    out.begin(&stub, input.clone());
    let setup = || -> Result<(Melda, Arc<Mutex<BTreeMap<String, Vec<u8>>>>, Value, Vec<(String, String, Vec<u8>)>), String> {
        let inner = orch::mem();
        let over = Arc::new(Mutex::new(BTreeMap::new()));
        let ad = orch::dynof(OverlayAdapter { inner: inner.clone(), over: over.clone() });
        let s = orch::open(&ad)?;
        let (d1, d2) = group_docs(group);
        orch::ge("S.update(doc1)", || s.update(d1))?;
        orch::ge("S.commit 1", || s.commit(None))?.ok_or("first commit returned Ok(None)")?;
        let s1 = orch::state(&s);
        orch::ge("S.update(doc2)", || s.update(d2))?;
        let a2 = orch::ge("S.commit 2", || s.commit(Some(orch::obj(json!({"who": "S"})))))?.ok_or("second commit returned Ok(None)")?;
        let id2 = a2.iter().next().cloned().ok_or("second commit returned no id")?;
        let delta2 = orch::ge("get_delta", || s.get_delta(&id2))?.ok_or("get_delta(second block) is None")?;
        let items = orch::items_of(&inner)?;
        let mut targets = vec![];
        for p in delta2.packs.clone().unwrap_or_default() {
            let key = format!("{}.pack", p);
            let bytes = items.get(&key).cloned().ok_or(format!("second pack {} not in S's storage", key))?;
            targets.push(("pack2".to_string(), key, bytes));
        }
        if targets.is_empty() {
            return Err("second commit wrote no pack".into());
        }
        let key = id2.key();
        let bytes = items.get(&key).cloned().ok_or(format!("second block {} not in S's storage", key))?;
        targets.push(("block2".to_string(), key, bytes));
        Ok((s, over, s1, targets))
    };
    let (s, over, s1, targets) = match setup() {
        Ok(x) => x,
        Err(e) => {
            out.case(&format!("{}:setup", stub), false);
            out.fail("meld-damaged:setup", &format!("{}:setup", stub), input, &e);
            return;
        }
    };
    let empty = orch::empty_state();
    for (item, key, bytes) in &targets {
        for i in (0..bytes.len()).step_by(step.max(1)) {
            for (tag, nb) in replacements(bytes[i]) {
                let id = format!("{}:{}:byte{}{}", stub, item, i, tag);
                out.case(&id, true);
                let mut d = bytes.clone();
                d[i] = nb;
                over.lock().unwrap().insert(key.clone(), d);
                let verdict = (|| -> Result<(), String> {
                    let tad = orch::mem();
                    let mut t = orch::open(&tad)?;
                    // the result of meld itself is not constrained; what reaches T's storage and state is
                    let melded = orch::g(|| t.meld(&s));
                    if let Err(p) = melded {
                        return Err(format!("panic in meld: {}", p));
                    }
                    let refreshed = orch::g(|| t.refresh()).map_err(|p| format!("panic in refresh: {}", p))?;
                    if let Some(v) = storage_violation(&tad)? {
                        return Err(format!("after meld from the damaged source T's storage is polluted: {}", v));
                    }
                    let st = orch::state(&t);
                    if st == s1 || (refreshed.is_err() && st == empty) {
                        return Ok(());
                    }
                    let d = orch::first_difference(&st, &s1, &orch::STATE_KEYS).unwrap_or_default();
                    Err(format!("T's state after meld+refresh (refresh: {}) is not the state of the intact first commit; {}", if refreshed.is_ok() { "Ok" } else { "Err" }, d))
                })();
                over.lock().unwrap().clear();
                if let Err(w) = verdict {
                    out.fail(&format!("meld-damaged:{}", item), &id, input.clone(), &format!("{} of S replaced at byte {} ({:?} -> {:?}): {}", item, i, bytes[i] as char, nb as char, w));
                }
            }
        }
    }
}

// ------------------------------------------------------------------------------------------ (c) reread-damaged

const N_OBJ: usize = 30;

fn big_doc(second: bool) -> Map<String, Value> {
    let mut m = Map::new();
    m.insert("title".into(), json!("big"));
    for i in 0..N_OBJ {
        let n = if second && (5..8).contains(&i) { 100 + i } else { i };
        m.insert(k(&format!("k{:02}", i)), json!({"_id": format!("obj{:02}", i), "n": n, "s": format!("text {:02} {{x}} \"q\" é", i)}));
    }
    if second {
        m.insert(k("k30"), json!({"_id": "obj30", "n": 30, "s": "new"}));
        m.insert(k("k31"), json!({"_id": "obj31", "n": 31, "s": "new}"}));
    }
    m
}

fn find(hay: &[u8], needle: &[u8]) -> Option<usize> {
    if needle.is_empty() || hay.len() < needle.len() {
        return None;
    }
    (0..=hay.len() - needle.len()).find(|i| &hay[*i..*i + needle.len()] == needle)
}

fn reread_damaged(target: &str, step: usize, out: &Out) {
    let input = json!({"part": "reread-damaged", "target": target, "step": step});
    let stub = format!("reread-damaged:{}", target);
    out.begin(&stub, input.clone());
    type Setup = (Dyn, Arc<Mutex<BTreeMap<String, Vec<u8>>>>, BTreeMap<String, Map<String, Value>>, String, Vec<u8>, usize, usize);
    let setup = || -> Result<Setup, String> {
        let inner = orch::mem();
        let w = orch::open(&inner)?;
        orch::ge("W.update(doc1)", || w.update(big_doc(false)))?;
        orch::ge("W.commit 1", || w.commit(None))?.ok_or("first commit returned Ok(None)")?;
        orch::ge("W.update(doc2)", || w.update(big_doc(true)))?;
        orch::ge("W.commit 2", || w.commit(None))?.ok_or("second commit returned Ok(None)")?;
        drop(w);
        let over = Arc::new(Mutex::new(BTreeMap::new()));
        let ad = orch::dynof(OverlayAdapter { inner: inner.clone(), over: over.clone() });
        // original values, read by a replica that is thrown away
        let r0 = orch::open(&ad)?;
        let mut originals = BTreeMap::new();
        for o in orch::g(|| r0.get_all_objects()).map_err(|p| format!("panic in get_all_objects: {}", p))? {
            if o.starts_with('^') {
                continue; // array descriptors (none here) are not plain stored values
            }
            let v = orch::ge(&format!("get_value({})", o), || r0.get_value(&o, None))?;
            originals.insert(o, v);
        }
        if originals.len() < 25 {
            return Err(format!("only {} objects in the history", originals.len()));
        }
        let v0 = originals.get(target).cloned().ok_or(format!("no object {}", target))?;
        let text = serde_json::to_string(&Value::Object(v0)).map_err(|e| e.to_string())?;
        for (key, bytes) in orch::items_of(&inner)? {
            if key.ends_with(".pack") {
                if let Some(start) = find(&bytes, text.as_bytes()) {
                    return Ok((ad, over, originals, key, bytes, start, text.len()));
                }
            }
        }
        Err(format!("text of {} not found in any pack: {}", target, text))
    };
    let (ad, over, originals, key, bytes, start, len) = match setup() {
        Ok(x) => x,
        Err(e) => {
            out.case(&format!("{}:setup", stub), false);
            out.fail("reread-damaged:setup", &format!("{}:setup", stub), input, &e);
            return;
        }
    };
    let v0 = originals[target].clone();
    let others: Vec<&String> = originals.keys().filter(|o| o.as_str() != target).take(20).collect();
    for off in (0..len).step_by(step.max(1)) {
        let i = start + off;
        for (tag, nb) in replacements(bytes[i]) {
            let id = format!("{}:byte{}{}", stub, off, tag);
            out.case(&id, true);
            let verdict = (|| -> Result<(), String> {
                let r = orch::open(&ad)?;
                match orch::ge("get_value before the damage", || r.get_value(target, None)) {
                    Ok(v) if v == v0 => {}
                    Ok(v) => return Err(format!("first read gives {} instead of {}", Value::Object(v), Value::Object(v0.clone()))),
                    Err(e) => return Err(e),
                }
                let mut d = bytes.clone();
                d[i] = nb;
                over.lock().unwrap().insert(key.clone(), d);
                for o in &others {
                    match orch::g(|| r.get_value(o.as_str(), None)) {
                        Ok(Ok(v)) if v != originals[o.as_str()] => return Err(format!("other object {} now reads {} instead of {}", o, Value::Object(v), Value::Object(originals[o.as_str()].clone()))),
                        Ok(_) => {}
                        Err(p) => return Err(format!("panic reading other object {}: {}", o, p)),
                    }
                }
                match orch::g(|| r.get_value(target, None)) {
                    Ok(Ok(v)) if v != v0 => Err(format!("get_value after the damage gives {} instead of the original {} (or an error)", Value::Object(v), Value::Object(v0.clone()))),
                    Ok(_) => Ok(()),
                    Err(p) => Err(format!("panic in get_value after the damage: {}", p)),
                }
            })();
            over.lock().unwrap().clear();
            if let Err(w) = verdict {
                out.fail("reread-damaged", &id, input.clone(), &format!("byte {} of the object's text ({:?} -> {:?}) replaced in {}: {}", off, bytes[i] as char, nb as char, key, w));
            }
        }
    }
}

const TARGETS: [&str; 4] = ["obj03", "obj07", "obj31", "\u{221A}"];

fn work(thorough: bool, out: &Out) {
    let maxlen = if thorough { 6 } else { 4 };
    let workers: usize = if thorough { std::env::var("MELDA_VERIF_WORKERS").ok().and_then(|s| s.parse().ok()).unwrap_or(3) } else { 1 };
    let mut hs: Vec<Vec<usize>> = vec![];
    for s in sequences(OPS.len(), maxlen) {
        let mut h = vec![0usize, 1usize];
        h.extend(s);
        hs.push(h);
    }
    hs.extend(scripted());
    out.note(&format!("{} audited histories", hs.len()));
    orch::fan_out(out, workers, hs, |part: Vec<Vec<usize>>, out: &Out| {
        for h in &part {
            history_case(h, out);
        }
    });
    let (s1, s2) = if thorough { (1, 1) } else { (5, 3) };
    let mut parts: Vec<(bool, &'static str, usize)> = vec![(true, "root", s1), (true, "rich", s1)];
    parts.extend(TARGETS.iter().map(|t| (false, *t, s2)));
    orch::fan_out(out, workers, parts, |part: Vec<(bool, &'static str, usize)>, out: &Out| {
        for (meld, name, step) in &part {
            if *meld {
                meld_damaged(name, *step, out);
            } else {
                reread_damaged(name, *step, out);
            }
        }
    });
}

pub fn run(thorough: bool, _seed: u64) -> Report {
    let mut rep = Report::new(
        "meld_audit",
        &(if thorough {
            "(a) prefix [A.edit, A.commit] + every sequence of <= 6 ops over {A.edit, A.commit, B.edit, B.commit, meld A>B+refresh, meld B>A+refresh} (55987 histories) + 3 scripted histories of 20..24 ops, 4 storage checks on both adapters after every step; (b) 2 source groups (root-only, nested objects + array) x {second pack, second block file} x EVERY byte position x up to 5 replacement bytes (xor 1, space, '}', '\"', '0'); (c) 4 target objects (first pack, second pack, newest, root) out of 33 x EVERY byte of the object's text in its pack x up to 5 replacement bytes, 20 other reads in between"
        } else {
            "(a) prefix [A.edit, A.commit] + every sequence of <= 4 ops over {A.edit, A.commit, B.edit, B.commit, meld A>B+refresh, meld B>A+refresh} (1555 histories) + 3 scripted histories of 20..24 ops, 4 storage checks on both adapters after every step; (b) 2 source groups (root-only, nested objects + array) x {second pack, second block file} x every 5th byte position x up to 5 replacement bytes (xor 1, space, '}', '\"', '0'); (c) 4 target objects (first pack, second pack, newest, root) out of 33 x every 3rd byte of the object's text in its pack x up to 5 replacement bytes, 20 other reads in between"
        })
        .to_string(),
        "exhaustive enumeration of the stated domains; one case per history and storage check, per damaged copy; non-trivial = (a) a meld happens after at least two commits, (b)/(c) every damaged copy; 10 s watchdog per worker thread (thorough: work spread over 3 threads)",
    );
    if std::env::var_os("RAYON_NUM_THREADS").is_none() {
        std::env::set_var("RAYON_NUM_THREADS", "2");
    }
    let mut classes = FailureClasses::new(1);
    orch::supervise(&mut rep, &mut classes, move |out| work(thorough, out));
    classes.summary("meld_audit");
    rep
}

pub fn replay(case: &Value) -> Value {
    let inp = case["input"].clone();
    let fails = orch::replay_collect(move |out| match inp["part"].as_str() {
        Some("audit") => {
            let ops: Option<Vec<usize>> = inp["ops"].as_array().and_then(|a| a.iter().map(|s| s.as_str().and_then(|s| OPS.iter().position(|o| *o == s))).collect());
            if let Some(ops) = ops {
                history_case(&ops, out);
            }
        }
        Some("meld-damaged") => {
            // item layout is not byte-deterministic across processes (hash-map order inside a pack): re-run the group
            let g = if inp["group"].as_str() == Some("root") { "root" } else { "rich" };
            meld_damaged(g, inp["step"].as_u64().unwrap_or(1) as usize, out);
        }
        Some("reread-damaged") => {
            if let Some(t) = TARGETS.iter().find(|t| Some(**t) == inp["target"].as_str()) {
                reread_damaged(t, inp["step"].as_u64().unwrap_or(1) as usize, out);
            }
        }
        _ => {}
    });
    orch::replay_verdict(case, fails)
}
