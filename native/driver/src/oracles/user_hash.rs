//! C19 / C03 (API level): objects may carry a user-supplied digest in the reserved field "#" (utils::digest_object uses it verbatim).
//! The revision identifier is then `<index>-<that text>[_<tail>]`, and every identifier the system produces must parse back to the
//! same revision (C19) so that a committed state reopens unchanged (C03).  Domain: a fixed list of user digests — hex (short = the
//! "charcode" form, long), alphanumeric non-hex, and texts containing `_`, `-`, or equal to a marker letter.
use crate::Report;
use melda::adapter::Adapter;
use melda::melda::Melda;
use melda::memoryadapter::MemoryAdapter;
use melda::vf::Revision;
use serde_json::{json, Map, Value};
use std::sync::{Arc, RwLock};

const HASHES: [&str; 6] = ["0f3c", "abcdefabcdef0123", "version7", "my_hash", "a-b", "d"];

fn doc(h: &str, v: u32) -> Map<String, Value> {
    json!({"t": "x", "n\u{266D}": {"_id": "o", "#": h, "v": v}}).as_object().unwrap().clone()
}

fn check(h: &str) -> Result<(), String> {
    let hh = h.to_string();
    let r = super::guarded(move || -> Result<(), String> {
        // (1) print / parse of the identifiers themselves
        let r1 = Revision::new(1u32, hh.clone(), None);
        let r2 = Revision::new_updated(format!("{}2", hh), &r1);
        for r in [&r1, &r2] {
            let text = r.to_string();
            match Revision::from(&text) {
                Ok(p) if &p == r && p.to_string() == text => {}
                Ok(p) => return Err(format!("identifier {} parses back to a different revision {}", text, p)),
                Err(e) => return Err(format!("identifier {} does not parse back: {}", text, e)),
            }
        }
        // (2) through the API: two commits, reopen
        let a: Box<dyn Adapter> = Box::new(MemoryAdapter::new());
        let ad = Arc::new(RwLock::new(a));
        let m = Melda::new(ad.clone()).map_err(|e| e.to_string())?;
        m.update(doc(&hh, 1)).map_err(|e| format!("update 1: {}", e))?;
        m.commit(None).map_err(|e| format!("commit 1: {}", e))?;
        m.update(doc(&format!("{}2", hh), 2)).map_err(|e| format!("update 2: {}", e))?;
        m.commit(None).map_err(|e| format!("commit 2: {}", e))?;
        let before = m.read(None).map_err(|e| format!("read: {}", e))?;
        let w = m.get_winner("o").map_err(|e| format!("winner: {}", e))?;
        let f = Melda::new(ad.clone()).map_err(|e| format!("reopen: {}", e))?;
        let after = f.read(None).map_err(|e| format!("after reopen read(None) fails: {} (winner was {})", e, w))?;
        if after != before {
            return Err(format!("after reopen the document differs: {} -> {}", Value::from(before), Value::from(after)));
        }
        let w2 = f.get_winner("o").map_err(|e| format!("winner after reopen: {}", e))?;
        if w != w2 {
            return Err(format!("winner {} reopens as {}", w, w2));
        }
        Ok(())
    });
    match r { Ok(x) => x, Err(p) => Err(format!("panic: {}", p)) }
}

pub fn run(_thorough: bool, _seed: u64) -> Report {
    let mut rep = Report::new(
        "user_hash",
        &format!("user-supplied digests (reserved field \"#\") {:?}: identifier print/parse, then update x2 + commit x2 + reopen", HASHES),
        "fixed list; every case non-trivial",
    );
    for h in HASHES {
        rep.case(h, true);
        if let Err(w) = check(h) {
            rep.fail(&format!("user-hash:{}", h), json!({"hash": h}), &w);
        }
    }
    rep
}

pub fn replay(case: &Value) -> Value {
    match case["input"]["hash"].as_str() {
        Some(h) => match check(h) { Ok(()) => json!({"reproduced": false}), Err(w) => json!({"reproduced": true, "what": w}) },
        None => json!({"reproduced": false, "error": "bad input"}),
    }
}
