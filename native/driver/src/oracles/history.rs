//! C01 / C03 / C13 bounded stand-in through the PUBLIC `melda::melda::Melda` API only (MemoryAdapter).
//! Small histories over two replicas A, B from the op alphabet
//!   X.update(doc_i) (4 documents with a flattened array "items♭"; doc 2 holds a string with '}'),
//!   X.commit, meld A>B + refresh B, meld B>A + refresh A          (12 ops)
//! After every commit on X that returned Ok(Some(anchors)):
//!   C03: a fresh Melda::new(X's adapter) has the same get_all_objects(), get_winner/get_conflicting
//!        of every object, get_anchors() and read(None) as X;
//!   C13: X.get_anchors() == anchors == one block, == {loaded blocks not named as parent by any
//!        loaded block} computed from the adapter listing + get_delta.
//! At the end of a history, if neither replica has staged changes: meld+refresh in both directions,
//!   C01: both replicas agree on objects, winners, conflicts and read(None).
//! A meld whose target has staged changes is skipped (refresh would refuse: stage_not_empty).
//! Every history runs in its own thread under a 5 s per-step watchdog (a hung commit cannot be killed).
use super::FailureClasses;
use crate::Report;
use melda::adapter::Adapter;
use melda::melda::{DeltaId, Melda};
use melda::memoryadapter::MemoryAdapter;
use serde_json::{json, Map, Value};
use std::collections::{BTreeMap, BTreeSet};
use std::panic::AssertUnwindSafe;
use std::sync::mpsc::{channel, RecvTimeoutError, Sender};
use std::sync::{Arc, RwLock};
use std::time::Duration;

type Dyn = Arc<RwLock<Box<dyn Adapter>>>;
const NAMES: [&str; 2] = ["A", "B"];
const BRACE_DOC: usize = 2;

#[derive(Clone, Copy, Debug, PartialEq)]
pub enum Op {
    Update(usize, usize),
    Commit(usize),
    Meld(usize, usize), // from, to (+ refresh of `to`)
}

impl Op {
    fn name(&self) -> String {
        match self {
            Op::Update(r, d) => format!("{}.update.{}", NAMES[*r], d),
            Op::Commit(r) => format!("{}.commit", NAMES[*r]),
            Op::Meld(f, t) => format!("meld.{}>{}", NAMES[*f], NAMES[*t]),
        }
    }
    fn parse(s: &str) -> Option<Op> {
        alphabet().into_iter().find(|o| o.name() == s)
    }
}

fn alphabet() -> Vec<Op> {
    let mut v = vec![];
    for r in 0..2 {
        for d in 0..4 {
            v.push(Op::Update(r, d));
        }
        v.push(Op::Commit(r));
    }
    v.push(Op::Meld(0, 1));
    v.push(Op::Meld(1, 0));
    v
}

fn doc(i: usize) -> Map<String, Value> {
    let v = match i {
        0 => json!({"items\u{266D}": [{"_id": "a", "v": 1}], "t": "x"}),
        1 => json!({"items\u{266D}": [{"_id": "a", "v": 2}, {"_id": "b", "v": 1}], "t": "x"}),
        2 => json!({"items\u{266D}": [{"_id": "b", "v": 1}, {"_id": "c", "s": "q}"}], "t": "y"}),
        _ => json!({"items\u{266D}": [{"_id": "c", "v": 3}, {"_id": "a", "v": 1}]}),
    };
    v.as_object().unwrap().clone()
}

fn g<T>(f: impl FnOnce() -> T) -> Result<T, String> {
    super::guarded(AssertUnwindSafe(f))
}

fn res<T: Into<Value>>(r: Result<anyhow::Result<T>, String>) -> Value {
    match r {
        Ok(Ok(v)) => {
            let v: Value = v.into();
            json!({ "ok": v })
        }
        Ok(Err(e)) => json!({"err": e.to_string()}),
        Err(p) => json!({ "panic": p }),
    }
}

/// observable state of a replica through the public API
fn snapshot(m: &Melda, with_anchors: bool) -> Value {
    let objects = g(|| m.get_all_objects()).unwrap_or_default();
    let mut winners = Map::new();
    let mut conflicts = Map::new();
    for o in &objects {
        winners.insert(o.clone(), res(g(|| m.get_winner(o))));
        conflicts.insert(o.clone(), res(g(|| m.get_conflicting(o).map(|s| s.into_iter().collect::<Vec<String>>()))));
    }
    let mut s = json!({
        "objects": objects.iter().cloned().collect::<Vec<String>>(),
        "winners": winners,
        "conflicts": conflicts,
        "read": res(g(|| m.read(None))),
    });
    if with_anchors {
        let a: Vec<String> = g(|| m.get_anchors()).unwrap_or_default().iter().map(|d| d.to_string()).collect();
        s["anchors"] = json!(a);
    }
    s
}

fn first_difference(a: &Value, b: &Value) -> String {
    for k in ["objects", "winners", "conflicts", "anchors", "read"] {
        if a[k] != b[k] {
            return format!("{}: {} vs {}", k, a[k], b[k]);
        }
    }
    "equal".to_string()
}

enum Msg {
    Step(usize),
    Fail { class: String, step: usize, what: String },
    Done,
}

struct Run {
    reps: Vec<Melda>,
    ads: Vec<Dyn>,
    brace_used: bool,
    origin_update: bool,
}

impl Run {
    fn class(&self) -> String {
        if self.origin_update {
            "origin-update".to_string()
        } else if self.brace_used {
            "brace-string".to_string()
        } else {
            "other".to_string()
        }
    }

    fn after_commit(&mut self, r: usize, anchors: BTreeSet<DeltaId>) -> Result<(), String> {
        // classification only: did this commit write an origin block holding update-shaped records?
        for id in &anchors {
            if let Ok(Ok(Some(d))) = g(|| self.reps[r].get_delta(id)) {
                let j = d.to_json();
                let upd = j.get("c").and_then(|c| c.as_array()).map(|a| a.iter().any(|rec| rec.as_array().map(|x| x.len() == 3).unwrap_or(false))).unwrap_or(false);
                if d.parents.is_none() && upd {
                    self.origin_update = true;
                }
            }
        }
        let x = &self.reps[r];
        let got = g(|| x.get_anchors()).map_err(|p| format!("panic in get_anchors: {}", p))?;
        if anchors.len() != 1 || got != anchors {
            return Err(format!("C13: commit returned anchors {:?} but get_anchors() = {:?}", anchors, got));
        }
        // C13: anchors == loaded blocks not named as a parent
        let listed = self.ads[r].read().unwrap().list_objects(".delta").map_err(|e| e.to_string())?;
        let mut loaded: BTreeSet<DeltaId> = BTreeSet::new();
        let mut named: BTreeSet<DeltaId> = BTreeSet::new();
        for s in listed {
            if let Ok(Ok(id)) = g(|| DeltaId::from(&s)) {
                if let Ok(Ok(Some(d))) = g(|| x.get_delta(&id)) {
                    loaded.insert(id);
                    if let Some(p) = d.parents {
                        named.extend(p);
                    }
                }
            }
        }
        let spec: BTreeSet<DeltaId> = loaded.difference(&named).cloned().collect();
        if spec != got {
            return Err(format!("C13: get_anchors() = {:?} but loaded blocks not named as parent = {:?}", got, spec));
        }
        // C03: reopen
        let ad = self.ads[r].clone();
        let fresh = match g(|| Melda::new(ad)) {
            Ok(Ok(f)) => f,
            Ok(Err(e)) => return Err(format!("C03: Melda::new on the adapter after commit is Err({})", e)),
            Err(p) => return Err(format!("C03: panic in Melda::new on the adapter after commit: {}", p)),
        };
        let (sx, sf) = (snapshot(x, true), snapshot(&fresh, true));
        if sx != sf {
            return Err(format!("C03: reopened replica differs from {} after commit; {}", NAMES[r], first_difference(&sx, &sf)));
        }
        Ok(())
    }

    fn meld(&mut self, from: usize, to: usize) -> Result<bool, String> {
        if g(|| self.reps[to].has_staging()).map_err(|p| format!("panic in has_staging: {}", p))? {
            return Ok(false);
        }
        let (a, b) = self.reps.split_at_mut(1);
        let (src, dst) = if from == 0 { (&a[0], &mut b[0]) } else { (&b[0], &mut a[0]) };
        match g(|| dst.meld(src)) {
            Ok(Ok(_)) => {}
            Ok(Err(e)) => return Err(format!("meld {}>{} is Err({})", NAMES[from], NAMES[to], e)),
            Err(p) => return Err(format!("panic in meld {}>{}: {}", NAMES[from], NAMES[to], p)),
        }
        match g(|| dst.refresh()) {
            Ok(Ok(())) => Ok(true),
            Ok(Err(e)) => Err(format!("refresh of {} after meld is Err({})", NAMES[to], e)),
            Err(p) => Err(format!("panic in refresh of {}: {}", NAMES[to], p)),
        }
    }

    fn step(&mut self, op: Op) -> Result<(), String> {
        match op {
            Op::Update(r, d) => {
                if d == BRACE_DOC {
                    self.brace_used = true;
                }
                match g(|| self.reps[r].update(doc(d))) {
                    Ok(Ok(_)) => Ok(()),
                    Ok(Err(e)) => Err(format!("update is Err({})", e)),
                    Err(p) => Err(format!("panic in update: {}", p)),
                }
            }
            Op::Commit(r) => match g(|| self.reps[r].commit(None)) {
                Ok(Ok(None)) => Ok(()),
                Ok(Ok(Some(anchors))) => self.after_commit(r, anchors),
                Ok(Err(e)) => Err(format!("commit is Err({})", e)),
                Err(p) => Err(format!("panic in commit: {}", p)),
            },
            Op::Meld(f, t) => self.meld(f, t).map(|_| ()),
        }
    }

    fn converge(&mut self) -> Result<(), String> {
        for r in 0..2 {
            if g(|| self.reps[r].has_staging()).map_err(|p| format!("panic in has_staging: {}", p))? {
                return Ok(()); // not applicable
            }
        }
        self.meld(0, 1)?;
        self.meld(1, 0)?;
        let (sa, sb) = (snapshot(&self.reps[0], false), snapshot(&self.reps[1], false));
        if sa != sb {
            return Err(format!("C01: replicas differ after meld+refresh in both directions; {}", first_difference(&sa, &sb)));
        }
        Ok(())
    }
}

fn run_history(ops: Vec<Op>, tx: Sender<Msg>) {
    let mk = || -> Dyn {
        let a: Box<dyn Adapter> = Box::new(MemoryAdapter::new());
        Arc::new(RwLock::new(a))
    };
    let ads = vec![mk(), mk()];
    let reps: Vec<Melda> = match g(|| ads.iter().map(|a| Melda::new(a.clone())).collect::<anyhow::Result<Vec<Melda>>>()) {
        Ok(Ok(r)) => r,
        _ => {
            let _ = tx.send(Msg::Fail { class: "other".into(), step: 0, what: "Melda::new on an empty adapter failed".into() });
            return;
        }
    };
    let mut run = Run { reps, ads, brace_used: false, origin_update: false };
    for (i, op) in ops.iter().enumerate() {
        let _ = tx.send(Msg::Step(i));
        if let Err(w) = run.step(*op) {
            let _ = tx.send(Msg::Fail { class: run.class(), step: i, what: format!("step {} ({}): {}", i, op.name(), w) });
            return;
        }
    }
    let _ = tx.send(Msg::Step(ops.len()));
    if let Err(w) = run.converge() {
        let _ = tx.send(Msg::Fail { class: run.class(), step: ops.len(), what: format!("final sync: {}", w) });
        return;
    }
    let _ = tx.send(Msg::Done);
}

pub enum Outcome {
    Pass,
    Fail { class: String, what: String },
    Hang { step: usize },
}

/// run one history under the watchdog
pub fn supervise(ops: &[Op], timeout: Duration) -> Outcome {
    let (tx, rx) = channel();
    let o = ops.to_vec();
    let h = std::thread::Builder::new().stack_size(4 << 20).spawn(move || run_history(o, tx));
    let mut step = 0usize;
    loop {
        match rx.recv_timeout(timeout) {
            Ok(Msg::Step(i)) => step = i,
            Ok(Msg::Done) => {
                if let Ok(h) = h {
                    let _ = h.join();
                }
                return Outcome::Pass;
            }
            Ok(Msg::Fail { class, what, .. }) => {
                if let Ok(h) = h {
                    let _ = h.join();
                }
                return Outcome::Fail { class, what };
            }
            Err(RecvTimeoutError::Timeout) => return Outcome::Hang { step }, // thread is abandoned
            Err(RecvTimeoutError::Disconnected) => {
                return Outcome::Fail { class: "other".into(), what: format!("history thread died at step {}", step) }
            }
        }
    }
}

fn sequences(alpha: &[Op], maxlen: usize) -> Vec<Vec<Op>> {
    let mut out: Vec<Vec<Op>> = vec![vec![]];
    let mut frontier: Vec<Vec<Op>> = vec![vec![]];
    for _ in 0..maxlen {
        let mut next = vec![];
        for s in &frontier {
            for op in alpha {
                let mut t = s.clone();
                t.push(*op);
                next.push(t);
            }
        }
        out.extend(next.iter().cloned());
        frontier = next;
    }
    out
}

fn names(ops: &[Op]) -> Vec<String> {
    ops.iter().map(|o| o.name()).collect()
}

pub fn run(thorough: bool, _seed: u64) -> Report {
    let (len, deep_pairs, deep_len, max_hangs): (usize, Vec<(usize, usize)>, usize, usize) = if thorough {
        (4, (0..4).flat_map(|i| (0..4).map(move |j| (i, j))).collect(), 3, 3)
    } else {
        (3, vec![(0, 1)], 3, 1)
    };
    let mut rep = Report::new(
        "history",
        &format!(
            "family 1: every history of <= {} ops over 12 ops (A|B.update(doc0..3), A|B.commit, meld A>B+refresh, meld B>A+refresh); family 2: prefix [A.update(i), A.commit, B.update(j), B.commit] for (i,j) in {:?} followed by every op sequence of length <= {} over {} (concurrent commits, so array conflicts are reachable); 5 s watchdog per step, histories extending a hung prefix are skipped, oracle stops after {} hang(s)",
            len, deep_pairs, deep_len, if thorough { "all 12 ops" } else { "the 7 ops B.update(doc0..3), B.commit, meld A>B, meld B>A" }, max_hangs
        ),
        "exhaustive enumeration of both families (shorter histories first); rayon pool limited to 2 threads unless RAYON_NUM_THREADS is set; non-trivial = history with at least one commit preceded by an update on the same replica",
    );
    // scheduling cost only: waking a 16-thread rayon pool for every tiny par_iter dominates the run time
    if std::env::var_os("RAYON_NUM_THREADS").is_none() {
        std::env::set_var("RAYON_NUM_THREADS", "2");
    }
    let alpha = alphabet();
    let mut all: Vec<Vec<Op>> = sequences(&alpha, len);
    // quick: family-2 suffixes only over B's ops and the two melds (7 ops)
    let suffix_alpha: Vec<Op> = if thorough { alpha.clone() } else { alpha.iter().filter(|o| !matches!(o, Op::Update(0, _) | Op::Commit(0))).cloned().collect() };
    let suffixes = sequences(&suffix_alpha, deep_len);
    for (i, j) in &deep_pairs {
        let prefix = vec![Op::Update(0, *i), Op::Commit(0), Op::Update(1, *j), Op::Commit(1)];
        for s in &suffixes {
            let mut h = prefix.clone();
            h.extend(s.iter().cloned());
            if h.len() > len {
                all.push(h); // shorter ones are already in family 1
            }
        }
    }
    all.sort_by_key(|h| h.len()); // stable: shorter histories first, hang-prone long ones last
    let mut classes = FailureClasses::new(1);
    let mut hung: Vec<Vec<Op>> = vec![];
    let mut skipped = 0u64;
    let mut stopped = false;
    for h in &all {
        if hung.iter().any(|p| h.len() >= p.len() && h[..p.len()] == p[..]) {
            skipped += 1;
            continue;
        }
        let key = names(h).join(" ");
        let nontrivial = h.iter().enumerate().any(|(i, o)| matches!(o, Op::Commit(r) if h[..i].iter().any(|u| matches!(u, Op::Update(r2, _) if r2 == r))));
        rep.case(&key, nontrivial);
        match supervise(h, Duration::from_secs(5)) {
            Outcome::Pass => {}
            Outcome::Fail { class, what } => {
                // one slot per known class; unknown failures are kept apart by their message shape
                let msg = what.split_once("): ").map(|x| x.1).unwrap_or(&what);
                let cls = if class == "other" { format!("other/{}", msg.chars().take(28).collect::<String>()) } else { class.clone() };
                classes.fail(&mut rep, &cls, &format!("{}:{}", class, key), json!({"history": names(h)}), &what);
            }
            Outcome::Hang { step } => {
                let p: Vec<Op> = h[..(step + 1).min(h.len())].to_vec();
                let what = format!("no progress for 5 s in step {} ({}) — hang", step, h.get(step).map(|o| o.name()).unwrap_or_else(|| "final sync".into()));
                classes.fail(&mut rep, "hang", &format!("hang:{}", key), json!({"history": names(h)}), &what);
                hung.push(p);
                if hung.len() >= max_hangs {
                    stopped = true;
                    break;
                }
            }
        }
    }
    if stopped || skipped > 0 {
        rep.exhaustive = false;
        rep.bound.push_str(&format!(
            " [this run: {} hang(s); {} histories extending a hung prefix skipped; {}]",
            hung.len(),
            skipped,
            if stopped { "stopped early at the hang limit" } else { "enumeration completed" }
        ));
    }
    classes.summary("history");
    rep
}

pub fn replay(case: &Value) -> Value {
    let ops: Option<Vec<Op>> = case["input"]["history"].as_array().and_then(|a| a.iter().map(|s| s.as_str().and_then(Op::parse)).collect());
    let ops = match ops {
        Some(o) => o,
        None => return json!({"reproduced": false, "error": "bad input"}),
    };
    match supervise(&ops, Duration::from_secs(5)) {
        Outcome::Pass => json!({"reproduced": false}),
        Outcome::Fail { class, what } => json!({"reproduced": true, "class": class, "what": what}),
        Outcome::Hang { step } => json!({"reproduced": true, "class": "hang", "what": format!("no progress for 5 s in step {}", step)}),
    }
}
