//! C05 (revision tree): src/revisiontree.rs `RevisionTree` — `unvalidated_add`, `add`, `validate`,
//! `get_leafs`, `get_winner`, `commit`, `unstage`, `has_staging`, `get_parent`, `get_revisions`.
//! SPEC (written here, independent of the library's `validate`): with M = map revision -> parent,
//!   live_leaf(r) <=> r in M, r.digest != "r", no entry of M has parent == Some(r), and following the
//!   parent links from r reaches an entry with index 1 and no parent, every step being a key of M;
//!   leaves = { r | live_leaf(r) };  winner = max of leaves under Revision::cmp (None if empty).
//! Checked for every subset of a fixed record pool and EVERY insertion order, both through
//! `unvalidated_add`* + `validate` and through `add` (after every single `add`, too).
use crate::Report;
use melda::vf::{Revision, RevisionTree};
use serde_json::{json, Value};

#[derive(Clone)]
pub struct Rec {
    pub name: &'static str,
    pub rev: Revision,
    pub parent: Option<Revision>,
}

/// record pool; revisions are built through the real constructors only
pub fn pool() -> Vec<Rec> {
    let r1 = Revision::new(1, "aaa", None);
    let r2 = Revision::new(1, "bbb", None);
    let x = Revision::new(1, "ccc", Some(&r1)); // index 1 WITH a parent: not a root
    let c1 = Revision::new_updated("c1", &r1);
    let c2 = Revision::new_updated("c2", &r1); // sibling, equal index
    let g1 = Revision::new_updated("g1", &c1);
    let del = Revision::new_deleted(&c1);
    let missing = Revision::new_updated("mm", &r2); // never a record
    let dang = Revision::new_updated("dd", &missing);
    let res = Revision::new_resolved(&c2);
    let missing2 = Revision::new_updated("m2", &r2); // never a record
    let resm = Revision::new_resolved(&missing2);
    let i9 = Revision::new(9, "n9", Some(&r1));
    let i10 = Revision::new(10, "n10", Some(&r1));
    let i11 = Revision::new(11, "n11", Some(&i9));
    vec![
        Rec { name: "rootA", rev: r1.clone(), parent: None },
        Rec { name: "rootB", rev: r2.clone(), parent: None },
        Rec { name: "idx1-with-parent", rev: x, parent: Some(r1.clone()) },
        Rec { name: "childA1", rev: c1.clone(), parent: Some(r1.clone()) },
        Rec { name: "childA2", rev: c2.clone(), parent: Some(r1.clone()) },
        Rec { name: "grandchild", rev: g1, parent: Some(c1.clone()) },
        Rec { name: "deleted-on-childA1", rev: del, parent: Some(c1.clone()) },
        Rec { name: "dangling", rev: dang, parent: Some(missing) },
        Rec { name: "resolved-on-childA2", rev: res, parent: Some(c2.clone()) },
        Rec { name: "resolved-parent-missing", rev: resm, parent: Some(missing2) },
        Rec { name: "idx9", rev: i9.clone(), parent: Some(r1.clone()) },
        Rec { name: "idx10", rev: i10, parent: Some(r1.clone()) },
        Rec { name: "idx11-on-idx9", rev: i11, parent: Some(i9) },
    ]
}

// ---------------------------------------------------------------- spec
fn lookup<'a>(m: &'a [(Revision, Option<Revision>)], r: &Revision) -> Option<&'a Option<Revision>> {
    m.iter().find(|(k, _)| k == r).map(|(_, p)| p)
}

fn reaches_root(m: &[(Revision, Option<Revision>)], r: &Revision) -> bool {
    let mut cur = r.clone();
    for _ in 0..=m.len() {
        let parent = match lookup(m, &cur) {
            Some(p) => p,
            None => return false,
        };
        if cur.index() == 1 && parent.is_none() {
            return true;
        }
        match parent {
            Some(p) => cur = p.clone(),
            None => return false,
        }
    }
    false // a cycle: never reaches a root
}

fn spec_leaves(m: &[(Revision, Option<Revision>)]) -> Vec<Revision> {
    let mut out: Vec<Revision> = m
        .iter()
        .map(|(r, _)| r)
        .filter(|r| r.digest() != "r")
        .filter(|r| !m.iter().any(|(_, p)| p.as_ref() == Some(*r)))
        .filter(|r| reaches_root(m, r))
        .cloned()
        .collect();
    out.sort();
    out
}

fn spec_winner(m: &[(Revision, Option<Revision>)]) -> Option<Revision> {
    spec_leaves(m).into_iter().max()
}

fn show(v: &[Revision]) -> String {
    format!("{:?}", v.iter().map(|r| r.to_string()).collect::<Vec<_>>())
}

/// observable state of a validated tree vs the spec for map `m` (+ expected staging flags)
fn check_state(t: &RevisionTree, m: &[(Revision, Option<Revision>)], staged: Option<&[bool]>, ctx: &str) -> Result<(), String> {
    let mut got: Vec<Revision> = t.get_leafs().iter().cloned().collect();
    got.sort();
    let want = spec_leaves(m);
    if got != want {
        return Err(format!("{}: get_leafs() = {}, spec leaves = {}", ctx, show(&got), show(&want)));
    }
    let gw = t.get_winner().cloned();
    let ww = spec_winner(m);
    if gw != ww {
        return Err(format!(
            "{}: get_winner() = {:?}, spec winner = {:?}",
            ctx,
            gw.map(|r| r.to_string()),
            ww.map(|r| r.to_string())
        ));
    }
    let revs = t.get_revisions();
    if revs.len() != m.len() {
        return Err(format!("{}: get_revisions() has {} entries, expected {}", ctx, revs.len(), m.len()));
    }
    for (i, (r, p)) in m.iter().enumerate() {
        match revs.get(r) {
            None => return Err(format!("{}: revision {} missing from get_revisions()", ctx, r)),
            Some(e) => {
                if e.get_parent() != p {
                    return Err(format!("{}: parent of {} is {:?}, expected {:?}", ctx, r, e.get_parent(), p));
                }
                if let Some(st) = staged {
                    if e.is_staging() != st[i] {
                        return Err(format!("{}: is_staging({}) = {}, expected {}", ctx, r, e.is_staging(), st[i]));
                    }
                }
            }
        }
        if t.get_parent(r) != p.as_ref() {
            return Err(format!("{}: get_parent({}) = {:?}, expected {:?}", ctx, r, t.get_parent(r), p));
        }
    }
    if let Some(st) = staged {
        if t.has_staging() != st.iter().any(|b| *b) {
            return Err(format!("{}: has_staging() = {}, expected {}", ctx, t.has_staging(), st.iter().any(|b| *b)));
        }
    }
    Ok(())
}

/// one insertion order, both construction paths
pub fn check_order(recs: &[Rec]) -> Result<(), String> {
    let recs: Vec<Rec> = recs.to_vec();
    let r = super::guarded(move || -> Result<(), String> {
        let m: Vec<(Revision, Option<Revision>)> = recs.iter().map(|r| (r.rev.clone(), r.parent.clone())).collect();
        let unstaged = vec![false; m.len()];
        // path 1: unvalidated_add* then validate
        let mut t = RevisionTree::new();
        for rec in &recs {
            if !t.unvalidated_add(rec.rev.clone(), rec.parent.clone(), false) {
                return Err(format!("unvalidated_add({}) of a new key returned false", rec.rev));
            }
        }
        t.validate();
        check_state(&t, &m, Some(&unstaged), "unvalidated_add+validate")?;
        // an existing key: returns false and changes nothing (first record wins)
        for rec in &recs {
            let other_parent = if rec.parent.is_none() { Some(Revision::new(1, "zzz", None)) } else { None };
            if t.unvalidated_add(rec.rev.clone(), other_parent.clone(), true) {
                return Err(format!("unvalidated_add({}) of an existing key returned true", rec.rev));
            }
            if t.add(rec.rev.clone(), other_parent, true) {
                return Err(format!("add({}) of an existing key returned true", rec.rev));
            }
        }
        // (no validate() here: the tree must still be validated and answer as before)
        check_state(&t, &m, Some(&unstaged), "after re-adding existing keys")?;
        // path 2: add one by one; the spec must hold after every step
        let mut t2 = RevisionTree::new();
        for (i, rec) in recs.iter().enumerate() {
            if !t2.add(rec.rev.clone(), rec.parent.clone(), false) {
                return Err(format!("add({}) of a new key returned false", rec.rev));
            }
            check_state(&t2, &m[..=i], Some(&unstaged[..=i]), &format!("add, after step {}", i + 1))?;
        }
        Ok(())
    });
    match r {
        Ok(x) => x,
        Err(p) => Err(format!("panic: {}", p)),
    }
}

/// base records unstaged + validated, then `staged` records with staging=true; unstage / commit
pub fn check_staging(base: &[Rec], staged: &[Rec], via_add: bool) -> Result<(), String> {
    let (base, staged) = (base.to_vec(), staged.to_vec());
    let r = super::guarded(move || -> Result<(), String> {
        let m0: Vec<(Revision, Option<Revision>)> = base.iter().map(|r| (r.rev.clone(), r.parent.clone())).collect();
        let mut m1 = m0.clone();
        m1.extend(staged.iter().map(|r| (r.rev.clone(), r.parent.clone())));
        let mut flags = vec![false; m0.len()];
        flags.extend(vec![true; staged.len()]);
        let mut t = RevisionTree::new();
        for rec in &base {
            t.unvalidated_add(rec.rev.clone(), rec.parent.clone(), false);
        }
        t.validate();
        check_state(&t, &m0, Some(&flags[..m0.len()]), "T0")?;
        for rec in &staged {
            let ok = if via_add {
                t.add(rec.rev.clone(), rec.parent.clone(), true)
            } else {
                t.unvalidated_add(rec.rev.clone(), rec.parent.clone(), true)
            };
            if !ok {
                return Err(format!("staged add of new key {} returned false", rec.rev));
            }
        }
        t.validate();
        check_state(&t, &m1, Some(&flags), "T0 + staged")?;
        let mut tu = t.clone();
        tu.unstage();
        check_state(&tu, &m0, Some(&vec![false; m0.len()]), "after unstage()")?;
        let mut tc = t.clone();
        tc.commit();
        check_state(&tc, &m1, Some(&vec![false; m1.len()]), "after commit()")?;
        // unstage after commit removes nothing
        tc.unstage();
        check_state(&tc, &m1, Some(&vec![false; m1.len()]), "after commit() then unstage()")?;
        Ok(())
    });
    match r {
        Ok(x) => x,
        Err(p) => Err(format!("panic: {}", p)),
    }
}

fn permutations(items: &[usize]) -> Vec<Vec<usize>> {
    if items.len() <= 1 {
        return vec![items.to_vec()];
    }
    let mut out = vec![];
    for i in 0..items.len() {
        let mut rest = items.to_vec();
        let x = rest.remove(i);
        for mut p in permutations(&rest) {
            p.insert(0, x);
            out.push(p);
        }
    }
    out
}

fn subsets(n: usize, max: usize) -> Vec<Vec<usize>> {
    let mut out = vec![];
    for mask in 0u32..(1u32 << n) {
        if mask.count_ones() as usize <= max {
            out.push((0..n).filter(|i| mask & (1 << i) != 0).collect());
        }
    }
    out
}

fn names(p: &[Rec], ix: &[usize]) -> Vec<&'static str> {
    ix.iter().map(|i| p[*i].name).collect()
}

pub fn run(thorough: bool, _seed: u64) -> Report {
    let max = if thorough { 5 } else { 4 };
    let p = pool();
    let mut rep = Report::new(
        "tree",
        &format!(
            "every subset of size <= {} of a pool of {} records (2 roots, index-1 with parent, siblings, grandchild, deletion, dangling parent, resolution markers with present/missing parent, indices 9/10/11), every insertion order; staging: every subset, every split into unstaged base + staged rest",
            max,
            p.len()
        ),
        "exhaustive: subsets x all permutations (order cases) and subsets x all base/staged splits x {add, unvalidated_add} (staging cases); non-trivial = at least 2 records and at least one spec leaf (order) / at least one staged record (staging)",
    );
    for s in subsets(p.len(), max) {
        let m: Vec<(Revision, Option<Revision>)> = s.iter().map(|i| (p[*i].rev.clone(), p[*i].parent.clone())).collect();
        let has_leaf = !spec_leaves(&m).is_empty();
        for perm in permutations(&s) {
            let recs: Vec<Rec> = perm.iter().map(|i| p[*i].clone()).collect();
            let key = format!("o{:?}", perm);
            rep.case(&key, perm.len() >= 2 && has_leaf);
            if let Err(w) = check_order(&recs) {
                rep.fail(&format!("order:{:?}", names(&p, &perm)), json!({"kind": "order", "records": names(&p, &perm)}), &w);
            }
        }
        // staging: every split of the subset
        for mask in 0u32..(1u32 << s.len()) {
            let base: Vec<usize> = s.iter().enumerate().filter(|(k, _)| mask & (1 << k) == 0).map(|(_, i)| *i).collect();
            let stg: Vec<usize> = s.iter().enumerate().filter(|(k, _)| mask & (1 << k) != 0).map(|(_, i)| *i).collect();
            let b: Vec<Rec> = base.iter().map(|i| p[*i].clone()).collect();
            let st: Vec<Rec> = stg.iter().map(|i| p[*i].clone()).collect();
            for via_add in [false, true] {
                let key = format!("s{:?}+{:?}/{}", base, stg, via_add);
                rep.case(&key, !stg.is_empty());
                if let Err(w) = check_staging(&b, &st, via_add) {
                    rep.fail(
                        &format!("staging:{:?}+{:?}", names(&p, &base), names(&p, &stg)),
                        json!({"kind": "staging", "base": names(&p, &base), "staged": names(&p, &stg), "via_add": via_add}),
                        &w,
                    );
                }
            }
        }
    }
    rep
}

pub fn replay(case: &Value) -> Value {
    let p = pool();
    let pick = |v: &Value| -> Option<Vec<Rec>> {
        v.as_array()?.iter().map(|n| p.iter().find(|r| Some(r.name) == n.as_str()).cloned()).collect()
    };
    let inp = &case["input"];
    let res = match inp["kind"].as_str() {
        Some("order") => match pick(&inp["records"]) {
            Some(r) => check_order(&r),
            None => return json!({"reproduced": false, "error": "bad input"}),
        },
        Some("staging") => match (pick(&inp["base"]), pick(&inp["staged"])) {
            (Some(b), Some(s)) => check_staging(&b, &s, inp["via_add"].as_bool().unwrap_or(false)),
            _ => return json!({"reproduced": false, "error": "bad input"}),
        },
        _ => return json!({"reproduced": false, "error": "bad input"}),
    };
    match res {
        Ok(()) => json!({"reproduced": false}),
        Err(w) => json!({"reproduced": true, "what": w}),
    }
}
