//! C15 (API level): Melda::unstage / stage / replay_stage and the stage_not_empty guards of reload / refresh / reload_until.
//! Stand-in for orchestration glue that is not under contract (Revision::from regex in replay_stage, the guards being the
//! first statement of functions that are otherwise outside deductive reach).
//!  guards:  with ANY kind of staged change (new content, deletion only, an update back to content that is already in a
//!           committed pack — so that the data stage is empty while a revision tree is staged) reload(), refresh() and
//!           reload_until(heads) must refuse (Err) and leave has_staging / stage() / winners untouched.
//!           Also reload_until(empty set) and a stage holding a deletion plus a reverted value (no object content at all).
//!  create-remove: create_object(new) + remove_object(new) before any commit of it + unstage(): stage() None, has_staging()
//!           false, reload() / refresh() Ok, commit writes nothing, a later deletion-only commit writes no pack.
//!  resolution: an object conflict resolved with resolve_as (winner / other leaf), export = stage(), unstage() restores the
//!           conflict, replay_stage(export) restores the resolved state (in_conflict, winners, value), commit, propagation.
//!  cache-cap: commit v1; edit v2; unstage; edit v3; unstage; edit v2; commit; reopen — with the object cache capped at
//!           1 / 2 / 16 / 64 entries (MELDA_DATA_CACHE_CAP) and 1 / 3 / 20 objects: committing and reopened replica read v2.
//!  replay:  objects with chains of staged revisions; export = stage(); unstage() restores the committed state exactly;
//!           replay_stage(export) succeeds and restores exactly the staged state (stage() equal as sets, same winners).
use crate::Report;
use melda::adapter::Adapter;
use melda::melda::Melda;
use melda::memoryadapter::MemoryAdapter;
use serde_json::{json, Map, Value};
use std::collections::BTreeMap;
use std::sync::{Arc, RwLock};

fn obj(v: Value) -> Map<String, Value> {
    v.as_object().unwrap().clone()
}

fn winners(m: &Melda) -> BTreeMap<String, String> {
    m.get_all_objects().into_iter().map(|u| { let w = m.get_winner(&u).unwrap_or_else(|e| format!("ERR {}", e)); (u, w) }).collect()
}

fn norm_stage(s: &Option<Value>) -> Value {
    match s {
        None => Value::Null,
        Some(v) => {
            let mut c: Vec<String> = v.get("c").and_then(|x| x.as_array()).cloned().unwrap_or_default().iter().map(|x| x.to_string()).collect();
            c.sort();
            json!({"c": c, "o": v.get("o").cloned().unwrap_or(Value::Null)})
        }
    }
}

fn new_replica() -> Result<(Melda, Arc<RwLock<Box<dyn Adapter>>>), String> {
    let adapter: Box<dyn Adapter> = Box::new(MemoryAdapter::new());
    let adapter = Arc::new(RwLock::new(adapter));
    let m = Melda::new(adapter.clone()).map_err(|e| e.to_string())?;
    Ok((m, adapter))
}

fn guard_case(kind: &str) -> Result<(), String> {
    let k = kind.to_string();
    let r = super::guarded(move || -> Result<(), String> {
        let (mut m, _a) = new_replica()?;
        m.update_object("x", obj(json!({"v": 1}))).map_err(|e| e.to_string())?;
        m.update_object("y", obj(json!({"v": "y"}))).map_err(|e| e.to_string())?;
        let heads1 = m.commit(None).map_err(|e| e.to_string())?.ok_or("no commit 1")?;
        m.update_object("x", obj(json!({"v": 2}))).map_err(|e| e.to_string())?;
        let _heads2 = m.commit(None).map_err(|e| e.to_string())?.ok_or("no commit 2")?;
        match k.as_str() {
            "new-content" => { m.update_object("x", obj(json!({"v": 3}))).map_err(|e| e.to_string())?; }
            "delete-only" => { m.delete_object("y").map_err(|e| e.to_string())?; }
            "revert-to-committed-content" => { m.update_object("x", obj(json!({"v": 1}))).map_err(|e| e.to_string())?; }
            "create-empty-object" => { m.update_object("z", obj(json!({}))).map_err(|e| e.to_string())?; }
            // no new object content at all: the data stage is empty, only revision trees are staged
            "delete-and-revert" => {
                m.delete_object("y").map_err(|e| e.to_string())?;
                m.update_object("x", obj(json!({"v": 1}))).map_err(|e| e.to_string())?;
            }
            _ => return Err("unknown kind".into()),
        }
        if !m.has_staging() { return Err("setup: nothing staged".into()); }
        if matches!(k.as_str(), "delete-only" | "revert-to-committed-content" | "delete-and-revert") {
            let st = m.stage().map_err(|e| e.to_string())?;
            if st.as_ref().and_then(|v| v.get("o")).is_some() { return Err(format!("setup: the stage holds object content: {:?}", st)); }
        }
        let st0 = norm_stage(&m.stage().map_err(|e| e.to_string())?);
        let w0 = winners(&m);
        let heads = m.get_anchors();
        for which in ["reload", "refresh", "reload_until(heads)", "reload_until(empty)", "reload_until(old heads)"] {
            let res = match which {
                "reload" => m.reload(),
                "refresh" => m.refresh(),
                "reload_until(heads)" => m.reload_until(&heads),
                "reload_until(empty)" => m.reload_until(&std::collections::BTreeSet::new()),
                _ => m.reload_until(&heads1),
            };
            if res.is_ok() {
                return Err(format!("{} returned Ok although changes are staged ({}); has_staging() is now {}", which, k, m.has_staging()));
            }
            if !m.has_staging() { return Err(format!("{} refused but dropped the staged changes", which)); }
            if norm_stage(&m.stage().map_err(|e| e.to_string())?) != st0 { return Err(format!("{} refused but stage() changed", which)); }
            if winners(&m) != w0 { return Err(format!("{} refused but winners changed", which)); }
        }
        Ok(())
    });
    match r { Ok(x) => x, Err(p) => Err(format!("panic: {}", p)) }
}

fn replay_case(nobj: usize, chain: usize, round: usize) -> Result<(), String> {
    let r = super::guarded(move || -> Result<(), String> {
        let (mut m, _a) = new_replica()?;
        for i in 0..nobj {
            m.update_object(&format!("o{}", i), obj(json!({"v": 0, "r": round}))).map_err(|e| e.to_string())?;
        }
        m.commit(None).map_err(|e| e.to_string())?.ok_or("no commit")?;
        let committed = winners(&m);
        for step in 1..=chain {
            for i in 0..nobj {
                if i % 5 == 4 && step == chain {
                    m.delete_object(&format!("o{}", i)).map_err(|e| e.to_string())?;
                } else {
                    m.update_object(&format!("o{}", i), obj(json!({"v": step, "r": round}))).map_err(|e| e.to_string())?;
                }
            }
        }
        m.update_object("fresh", obj(json!({"new": true}))).map_err(|e| e.to_string())?;
        let staged_w = winners(&m);
        let export = m.stage().map_err(|e| e.to_string())?;
        let st0 = norm_stage(&export);
        m.unstage().map_err(|e| e.to_string())?;
        if m.has_staging() { return Err("has_staging() is true after unstage()".into()); }
        if winners(&m) != committed { return Err(format!("unstage() did not restore the committed state: {:?} vs {:?}", winners(&m), committed)); }
        if m.stage().map_err(|e| e.to_string())?.is_some() { return Err("stage() is not empty after unstage()".into()); }
        m.replay_stage(&export).map_err(|e| format!("replay_stage of the replica's own export failed: {}", e))?;
        if winners(&m) != staged_w { return Err(format!("replay did not restore the staged winners: {:?} vs {:?}", winners(&m), staged_w)); }
        let st1 = norm_stage(&m.stage().map_err(|e| e.to_string())?);
        if st1 != st0 { return Err("stage() after export/unstage/replay differs from the original export".into()); }
        // a successful commit leaves nothing staged
        m.commit(None).map_err(|e| e.to_string())?;
        if m.has_staging() { return Err("has_staging() is true after a successful commit".into()); }
        if m.stage().map_err(|e| e.to_string())?.is_some() { return Err("stage() is not empty after a successful commit".into()); }
        Ok(())
    });
    match r { Ok(x) => x, Err(p) => Err(format!("panic: {}", p)) }
}

/// (a) an object created and removed again before it was ever committed, then unstage(): nothing is left behind
fn create_remove_case(with_history: bool) -> Result<(), String> {
    let r = super::guarded(move || -> Result<(), String> {
        let (mut m, a) = new_replica()?;
        if with_history {
            m.update_object("x", obj(json!({"v": 1}))).map_err(|e| e.to_string())?;
            m.update_object("y", obj(json!({"v": "y"}))).map_err(|e| e.to_string())?;
            m.commit(None).map_err(|e| e.to_string())?.ok_or("no commit")?;
        }
        let w0 = winners(&m);
        m.create_object("new", obj(json!({"fresh": [1, 2, 3]}))).map_err(|e| e.to_string())?;
        m.remove_object("new").map_err(|e| e.to_string())?;
        m.unstage().map_err(|e| e.to_string())?;
        if m.has_staging() { return Err("has_staging() is true after create_object + remove_object + unstage".into()); }
        let st = m.stage().map_err(|e| e.to_string())?;
        if st.is_some() { return Err(format!("stage() after create_object + remove_object + unstage is {:?}", st)); }
        if winners(&m) != w0 { return Err(format!("objects changed: {:?} vs {:?}", winners(&m), w0)); }
        m.reload().map_err(|e| format!("reload() after create_object + remove_object + unstage is Err({})", e))?;
        if winners(&m) != w0 { return Err("reload() changed the objects".into()); }
        m.refresh().map_err(|e| format!("refresh() is Err({})", e))?;
        if m.commit(None).map_err(|e| e.to_string())?.is_some() { return Err("commit with nothing staged wrote a block".into()); }
        if with_history {
            // a later deletion-only commit writes no pack
            let packs_before = a.read().unwrap().list_objects(".pack").map_err(|e| e.to_string())?.len();
            m.delete_object("y").map_err(|e| e.to_string())?;
            let heads = m.commit(None).map_err(|e| e.to_string())?.ok_or("deletion-only commit returned None")?;
            let d = m.get_delta(heads.iter().next().ok_or("no head")?).map_err(|e| e.to_string())?.ok_or("no delta")?;
            if d.packs.as_ref().map(|p| !p.is_empty()).unwrap_or(false) { return Err(format!("the deletion-only block lists packs {:?} (content of the removed object leaked into a pack)", d.packs)); }
            let packs_after = a.read().unwrap().list_objects(".pack").map_err(|e| e.to_string())?.len();
            if packs_after != packs_before { return Err(format!("the deletion-only commit wrote a pack ({} -> {} packs)", packs_before, packs_after)); }
        }
        Ok(())
    });
    match r { Ok(x) => x, Err(p) => Err(format!("panic: {}", p)) }
}

/// (b) export / discard / replay of a staged CONFLICT RESOLUTION
fn resolution_case(choose_winner: bool) -> Result<(), String> {
    let r = super::guarded(move || -> Result<(), String> {
        let (mut a, _aa) = new_replica()?;
        let (mut b, _ab) = new_replica()?;
        a.update_object("x", obj(json!({"v": 0}))).map_err(|e| e.to_string())?;
        a.update_object("y", obj(json!({"v": "y"}))).map_err(|e| e.to_string())?;
        a.commit(None).map_err(|e| e.to_string())?.ok_or("no commit")?;
        b.meld(&a).map_err(|e| e.to_string())?;
        b.refresh().map_err(|e| e.to_string())?;
        a.update_object("x", obj(json!({"v": "A"}))).map_err(|e| e.to_string())?;
        a.commit(None).map_err(|e| e.to_string())?.ok_or("no commit A")?;
        b.update_object("x", obj(json!({"v": "B"}))).map_err(|e| e.to_string())?;
        b.commit(None).map_err(|e| e.to_string())?.ok_or("no commit B")?;
        a.meld(&b).map_err(|e| e.to_string())?;
        a.refresh().map_err(|e| e.to_string())?;
        if !a.in_conflict().contains("x") { return Err("setup: x is not in conflict".into()); }
        let view = |m: &Melda| -> Result<(std::collections::BTreeSet<String>, BTreeMap<String, String>, Value, Value), String> {
            Ok((m.in_conflict(), winners(m), Value::Object(m.get_value("x", None).map_err(|e| e.to_string())?), json!(m.get_conflicting("x").map_err(|e| e.to_string())?)))
        };
        let committed = view(&a)?;
        let w = a.get_winner("x").map_err(|e| e.to_string())?;
        let l = if choose_winner { w } else { a.get_conflicting("x").map_err(|e| e.to_string())?.into_iter().next().ok_or("no other leaf")? };
        a.resolve_as("x", &l).map_err(|e| format!("resolve_as: {}", e))?;
        if a.in_conflict().contains("x") { return Err("x still in conflict after resolve_as".into()); }
        let staged = view(&a)?;
        let export = a.stage().map_err(|e| e.to_string())?;
        if export.is_none() { return Err("stage() is None after resolve_as".into()); }
        let st0 = norm_stage(&export);
        a.unstage().map_err(|e| e.to_string())?;
        if a.has_staging() { return Err("has_staging() is true after unstage()".into()); }
        if view(&a)? != committed { return Err(format!("unstage() did not restore the committed (conflicting) state: {:?} vs {:?}", view(&a)?, committed)); }
        a.replay_stage(&export).map_err(|e| format!("replay_stage of the exported resolution failed: {}", e))?;
        if view(&a)? != staged { return Err(format!("replay did not restore the staged resolution: {:?} vs {:?}", view(&a)?, staged)); }
        if norm_stage(&a.stage().map_err(|e| e.to_string())?) != st0 { return Err("stage() after export/unstage/replay differs from the original export".into()); }
        a.commit(None).map_err(|e| e.to_string())?.ok_or("commit of the replayed resolution returned None")?;
        if view(&a)? != staged { return Err("the committed replayed resolution differs from the staged one".into()); }
        b.meld(&a).map_err(|e| e.to_string())?;
        b.refresh().map_err(|e| e.to_string())?;
        if view(&b)? != staged { return Err(format!("the other replica does not see the replayed resolution: {:?} vs {:?}", view(&b)?, staged)); }
        Ok(())
    });
    match r { Ok(x) => x, Err(p) => Err(format!("panic: {}", p)) }
}

/// commit v1; edit v2; unstage; edit v3; unstage; edit v2; commit; reopen — under a given capacity of the object cache
/// (MELDA_DATA_CACHE_CAP, read when a replica is created): the reopened replica reads v2 for every object
fn cache_cap_case(cap: usize, nobj: usize) -> Result<(), String> {
    std::env::set_var("MELDA_DATA_CACHE_CAP", cap.to_string());
    let r = super::guarded(move || -> Result<(), String> {
        let (mut m, a) = new_replica()?;
        let val = |i: usize, v: &str| obj(json!({"i": i, "version": v, "pad": "x".repeat(8 + i)}));
        for i in 0..nobj {
            m.update_object(&format!("o{}", i), val(i, "v1")).map_err(|e| e.to_string())?;
        }
        m.commit(None).map_err(|e| e.to_string())?.ok_or("no commit")?;
        for v in ["v2", "v3"] {
            for i in 0..nobj {
                m.update_object(&format!("o{}", i), val(i, v)).map_err(|e| e.to_string())?;
            }
            m.unstage().map_err(|e| e.to_string())?;
            for i in 0..nobj {
                let got = m.get_value(&format!("o{}", i), None).map_err(|e| e.to_string())?;
                if got != val(i, "v1") { return Err(format!("after unstage o{} reads {:?}", i, got)); }
            }
        }
        for i in 0..nobj {
            m.update_object(&format!("o{}", i), val(i, "v2")).map_err(|e| e.to_string())?;
        }
        m.commit(None).map_err(|e| e.to_string())?.ok_or("second commit returned None")?;
        for (who, r) in [("committing replica", None), ("reopened replica", Some(Melda::new(a.clone()).map_err(|e| format!("reopen: {}", e))?))] {
            let rr = r.as_ref().unwrap_or(&m);
            for i in 0..nobj {
                match rr.get_value(&format!("o{}", i), None) {
                    Ok(got) if got == val(i, "v2") => {}
                    Ok(got) => return Err(format!("{}: o{} reads {} instead of v2", who, i, Value::Object(got))),
                    Err(e) => return Err(format!("{}: o{} cannot be read: {}", who, i, e)),
                }
            }
        }
        Ok(())
    });
    std::env::remove_var("MELDA_DATA_CACHE_CAP");
    match r { Ok(x) => x, Err(p) => Err(format!("panic: {}", p)) }
}

pub fn run(thorough: bool, _seed: u64) -> Report {
    let rounds = if thorough { 40 } else { 6 };
    let mut rep = Report::new(
        "stage_api",
        &format!("guards: 5 kinds of staged change (3 of them without any new object content) x {{reload, refresh, reload_until(heads), reload_until(empty set), reload_until(old heads)}}; create-remove: create_object + remove_object + unstage on a fresh replica and on one with history (then a deletion-only commit must write no pack); resolution: export / unstage / replay_stage of a staged resolve_as (winner and other leaf), then commit and propagation; cache-cap: v1 committed, v2 / v3 staged and discarded, v2 committed, reopened, for cache capacities 1, 2, 16, 64 x 1, 3, 20 objects; replay: {} rounds x {{4, 12, 24 objects}} x chains of 1..4 staged revisions per object (independently seeded hash maps each round)", rounds),
        "fixed scenario list; replay rounds differ only in hash-map seeds (export order); non-trivial = chain length >= 2",
    );
    for k in ["new-content", "delete-only", "revert-to-committed-content", "create-empty-object", "delete-and-revert"] {
        rep.case(&format!("guard:{}", k), true);
        if let Err(w) = guard_case(k) {
            rep.fail(&format!("guard:{}", k), json!({"kind": "guard", "staged": k}), &w);
        }
    }
    for h in [false, true] {
        let key = format!("create-remove:{}", if h { "with-history" } else { "fresh" });
        rep.case(&key, true);
        if let Err(w) = create_remove_case(h) {
            rep.fail(&key, json!({"kind": "create-remove", "with_history": h}), &w);
        }
    }
    for cw in [true, false] {
        let key = format!("resolution:choose={}", if cw { "winner" } else { "other" });
        rep.case(&key, true);
        if let Err(w) = resolution_case(cw) {
            rep.fail(&key, json!({"kind": "resolution", "choose_winner": cw}), &w);
        }
    }
    for round in 0..rounds {
        for nobj in [4usize, 12, 24] {
            for chain in 1..=4usize {
                let key = format!("replay:n{}:c{}:r{}", nobj, chain, round);
                rep.case(&key, chain >= 2);
                if let Err(w) = replay_case(nobj, chain, round) {
                    rep.fail(&key, json!({"kind": "replay", "nobj": nobj, "chain": chain, "round": round}), &w);
                }
            }
        }
    }
    // last: the capacity is a process-wide environment variable
    for cap in [1usize, 2, 16, 64] {
        for nobj in [1usize, 3, 20] {
            let key = format!("cache-cap:{}:n{}", cap, nobj);
            rep.case(&key, true);
            if let Err(w) = cache_cap_case(cap, nobj) {
                rep.fail(&key, json!({"kind": "cache-cap", "cap": cap, "nobj": nobj}), &w);
            }
        }
    }
    rep
}

pub fn replay(case: &Value) -> Value {
    let i = &case["input"];
    let r = if i["kind"] == "guard" {
        guard_case(i["staged"].as_str().unwrap_or(""))
    } else if i["kind"] == "create-remove" {
        create_remove_case(i["with_history"].as_bool().unwrap_or(true))
    } else if i["kind"] == "cache-cap" {
        cache_cap_case(i["cap"].as_u64().unwrap_or(16) as usize, i["nobj"].as_u64().unwrap_or(3) as usize)
    } else if i["kind"] == "resolution" {
        resolution_case(i["choose_winner"].as_bool().unwrap_or(true))
    } else {
        // hash order is not reproducible: try a few rounds
        let mut last = Ok(());
        for round in 0..20 {
            last = replay_case(i["nobj"].as_u64().unwrap_or(12) as usize, i["chain"].as_u64().unwrap_or(2) as usize, round);
            if last.is_err() { break; }
        }
        last
    };
    match r { Ok(()) => json!({"reproduced": false}), Err(w) => json!({"reproduced": true, "what": w}) }
}
