//! Shared helpers of the orchestration stand-ins (`delivery`, `commit_faults`, `meld_audit`):
//! observable replica state through the public API, test-double adapters, a seeded generator and the
//! worker-thread + watchdog runner (a hung library call cannot be killed; the thread is abandoned).
use super::FailureClasses;
use crate::Report;
use melda::adapter::Adapter;
use melda::melda::Melda;
use melda::memoryadapter::MemoryAdapter;
use serde_json::{json, Map, Value};
use std::any::Any;
use std::collections::{BTreeMap, BTreeSet};
use std::panic::AssertUnwindSafe;
use std::sync::mpsc::{channel, RecvTimeoutError, Sender};
use std::sync::{Arc, Mutex, RwLock};
use std::time::{Duration, Instant};

pub type Dyn = Arc<RwLock<Box<dyn Adapter>>>;

pub const WATCHDOG: Duration = Duration::from_secs(10);

pub fn mem() -> Dyn {
    let a: Box<dyn Adapter> = Box::new(MemoryAdapter::new());
    Arc::new(RwLock::new(a))
}

pub fn dynof<A: Adapter + 'static>(a: A) -> Dyn {
    let b: Box<dyn Adapter> = Box::new(a);
    Arc::new(RwLock::new(b))
}

pub fn obj(v: Value) -> Map<String, Value> {
    v.as_object().cloned().unwrap_or_default()
}

/// run `f`, a panic of the code under test becomes Err(message)
pub fn g<T>(f: impl FnOnce() -> T) -> Result<T, String> {
    super::guarded(AssertUnwindSafe(f))
}

/// flatten "panic or Err" into one message
pub fn ge<T>(what: &str, f: impl FnOnce() -> anyhow::Result<T>) -> Result<T, String> {
    match g(f) {
        Ok(Ok(v)) => Ok(v),
        Ok(Err(e)) => Err(format!("{} is Err({})", what, e)),
        Err(p) => Err(format!("panic in {}: {}", what, p)),
    }
}

pub fn res<T: Into<Value>>(r: Result<anyhow::Result<T>, String>) -> Value {
    match r {
        Ok(Ok(v)) => {
            let v: Value = v.into();
            json!({ "ok": v })
        }
        Ok(Err(e)) => json!({"err": e.to_string()}),
        Err(p) => json!({ "panic": p }),
    }
}

pub fn open(ad: &Dyn) -> Result<Melda, String> {
    let a = ad.clone();
    ge("Melda::new", move || Melda::new(a))
}

/// every item (full key, bytes) held by an adapter
pub fn items_of(ad: &Dyn) -> Result<BTreeMap<String, Vec<u8>>, String> {
    let a = ad.read().map_err(|_| "adapter lock poisoned".to_string())?;
    let mut out = BTreeMap::new();
    for k in a.list_objects("").map_err(|e| format!("list_objects(\"\") is Err({})", e))? {
        let b = a.read_object(&k, 0, 0).map_err(|e| format!("read_object({}) is Err({})", k, e))?;
        out.insert(k, b);
    }
    Ok(out)
}

pub fn put(ad: &Dyn, key: &str, bytes: &[u8]) -> Result<(), String> {
    ad.read().map_err(|_| "adapter lock poisoned".to_string())?.write_object(key, bytes).map_err(|e| format!("write_object({}) is Err({})", key, e))
}

/// Observable state of a replica through the public API: objects, winner and conflicting revisions of every
/// object, anchors, and the document (`read(None)`; the `no_root` error is the empty state).
pub fn state(m: &Melda) -> Value {
    let objects = g(|| m.get_all_objects()).unwrap_or_default();
    let mut winners = Map::new();
    let mut conflicts = Map::new();
    for o in &objects {
        winners.insert(o.clone(), res(g(|| m.get_winner(o))));
        conflicts.insert(o.clone(), res(g(|| m.get_conflicting(o).map(|s| s.into_iter().collect::<Vec<String>>()))));
    }
    let anchors: Value = match g(|| m.get_anchors()) {
        Ok(a) => json!(a.iter().map(|d| d.to_string()).collect::<Vec<String>>()),
        Err(p) => json!({ "panic": p }),
    };
    let read = match g(|| m.read(None)) {
        Ok(Ok(v)) => json!({ "ok": v }),
        Ok(Err(e)) if e.to_string() == "no_root" => json!("empty"),
        Ok(Err(e)) => json!({"err": e.to_string()}),
        Err(p) => json!({ "panic": p }),
    };
    json!({
        "objects": objects.iter().cloned().collect::<Vec<String>>(),
        "winners": winners,
        "conflicts": conflicts,
        "anchors": anchors,
        "read": read,
    })
}

pub fn empty_state() -> Value {
    json!({"objects": [], "winners": {}, "conflicts": {}, "anchors": [], "read": "empty"})
}

pub const STATE_KEYS: [&str; 5] = ["objects", "winners", "conflicts", "anchors", "read"];

pub fn first_difference(a: &Value, b: &Value, keys: &[&str]) -> Option<String> {
    for k in keys {
        if a[*k] != b[*k] {
            let clip = |v: &Value| {
                let s = v.to_string();
                if s.chars().count() > 400 {
                    format!("{}…", s.chars().take(400).collect::<String>())
                } else {
                    s
                }
            };
            return Some(format!("{}: {} vs {}", k, clip(&a[*k]), clip(&b[*k])));
        }
    }
    None
}

// ---------------------------------------------------------------- test-double adapters

/// `list_objects` results of the wrapped adapter in another order (the Adapter contract fixes no order)
#[derive(Clone, Debug)]
pub enum Listing {
    Plain,
    Reversed,
    Rotated(usize),
    SortedDesc,
    /// the named entries (as returned for the queried extension) are moved to the front, in this order
    First(Vec<String>),
}

pub struct ListingAdapter {
    pub inner: Dyn,
    pub how: Listing,
}

impl Adapter for ListingAdapter {
    fn as_any(&self) -> &dyn Any {
        self
    }
    fn as_any_mut(&mut self) -> &mut dyn Any {
        self
    }
    fn read_object(&self, key: &str, offset: usize, length: usize) -> anyhow::Result<Vec<u8>> {
        self.inner.read().unwrap().read_object(key, offset, length)
    }
    fn write_object(&self, key: &str, data: &[u8]) -> anyhow::Result<()> {
        self.inner.read().unwrap().write_object(key, data)
    }
    fn list_objects(&self, ext: &str) -> anyhow::Result<Vec<String>> {
        let mut l = self.inner.read().unwrap().list_objects(ext)?;
        match &self.how {
            Listing::Plain => {}
            Listing::Reversed => l.reverse(),
            Listing::Rotated(k) => {
                if !l.is_empty() {
                    let k = k % l.len();
                    l.rotate_left(k);
                }
            }
            Listing::SortedDesc => {
                l.sort();
                l.reverse();
            }
            Listing::First(front) => {
                let mut out: Vec<String> = front.iter().filter(|f| l.contains(f)).cloned().collect();
                out.extend(l.iter().filter(|x| !front.contains(x)).cloned());
                l = out;
            }
        }
        Ok(l)
    }
}

/// programmable write faults: while armed, the n-th `write_object` call (counted over calls whose key ends
/// with `suffix`, all calls when None) fails for n in `positions`, before anything reaches the wrapped adapter
#[derive(Default)]
pub struct FaultPlan {
    pub armed: bool,
    pub suffix: Option<String>,
    pub positions: BTreeSet<u64>,
    pub counter: u64,
    pub fired: u64,
    pub writes: Vec<String>,
}

pub struct FaultAdapter {
    pub inner: Dyn,
    pub plan: Arc<Mutex<FaultPlan>>,
}

impl Adapter for FaultAdapter {
    fn as_any(&self) -> &dyn Any {
        self
    }
    fn as_any_mut(&mut self) -> &mut dyn Any {
        self
    }
    fn read_object(&self, key: &str, offset: usize, length: usize) -> anyhow::Result<Vec<u8>> {
        self.inner.read().unwrap().read_object(key, offset, length)
    }
    fn write_object(&self, key: &str, data: &[u8]) -> anyhow::Result<()> {
        {
            let mut p = self.plan.lock().unwrap();
            if p.armed {
                let ext = key.rsplit_once('.').map(|x| format!(".{}", x.1)).unwrap_or_default();
                p.writes.push(ext);
                let counted = p.suffix.as_ref().map(|s| key.ends_with(s.as_str())).unwrap_or(true);
                if counted {
                    p.counter += 1;
                    let n = p.counter;
                    if p.positions.contains(&n) {
                        p.fired += 1;
                        return Err(anyhow::anyhow!("injected_write_fault"));
                    }
                }
            }
        }
        self.inner.read().unwrap().write_object(key, data)
    }
    fn list_objects(&self, ext: &str) -> anyhow::Result<Vec<String>> {
        self.inner.read().unwrap().list_objects(ext)
    }
}

/// lets the TEST replace the content of an item after the fact (MemoryAdapter never overwrites a key):
/// reads are served from `over` when the key is present there, everything else goes to the wrapped adapter
pub struct OverlayAdapter {
    pub inner: Dyn,
    pub over: Arc<Mutex<BTreeMap<String, Vec<u8>>>>,
}

impl Adapter for OverlayAdapter {
    fn as_any(&self) -> &dyn Any {
        self
    }
    fn as_any_mut(&mut self) -> &mut dyn Any {
        self
    }
    fn read_object(&self, key: &str, offset: usize, length: usize) -> anyhow::Result<Vec<u8>> {
        if let Some(d) = self.over.lock().unwrap().get(key) {
            if offset == 0 && length == 0 {
                return Ok(d.clone());
            }
            if offset + length > d.len() {
                return Err(anyhow::anyhow!("invalid slice range for key: {}", key));
            }
            return Ok(d[offset..offset + length].to_vec());
        }
        self.inner.read().unwrap().read_object(key, offset, length)
    }
    fn write_object(&self, key: &str, data: &[u8]) -> anyhow::Result<()> {
        self.inner.read().unwrap().write_object(key, data)
    }
    fn list_objects(&self, ext: &str) -> anyhow::Result<Vec<String>> {
        self.inner.read().unwrap().list_objects(ext)
    }
}

/// storage fully under the TEST's control: same behaviour as MemoryAdapter (a write never replaces an existing
/// key, listings are in key order with the extension stripped), but the test can replace, truncate or remove an
/// item behind the replica's back through `map`
pub struct StoreAdapter {
    pub map: Arc<Mutex<BTreeMap<String, Vec<u8>>>>,
}

impl Adapter for StoreAdapter {
    fn as_any(&self) -> &dyn Any {
        self
    }
    fn as_any_mut(&mut self) -> &mut dyn Any {
        self
    }
    fn read_object(&self, key: &str, offset: usize, length: usize) -> anyhow::Result<Vec<u8>> {
        let m = self.map.lock().unwrap();
        let d = m.get(key).ok_or_else(|| anyhow::anyhow!("object not found: {}", key))?;
        if offset == 0 && length == 0 {
            return Ok(d.clone());
        }
        if offset + length > d.len() {
            return Err(anyhow::anyhow!("invalid slice range for key: {}", key));
        }
        Ok(d[offset..offset + length].to_vec())
    }
    fn write_object(&self, key: &str, data: &[u8]) -> anyhow::Result<()> {
        self.map.lock().unwrap().entry(key.to_string()).or_insert_with(|| data.to_vec());
        Ok(())
    }
    fn list_objects(&self, ext: &str) -> anyhow::Result<Vec<String>> {
        Ok(self.map.lock().unwrap().keys().filter(|k| k.ends_with(ext)).map(|k| k[..k.len() - ext.len()].to_string()).collect())
    }
}

// ---------------------------------------------------------------- seeded generator

pub struct Rng(pub u64);

impl Rng {
    pub fn new(seed: u64) -> Rng {
        Rng(seed.wrapping_mul(0x9E37_79B9_7F4A_7C15) ^ 0xD1B5_4A32_D192_ED03)
    }
    pub fn next(&mut self) -> u64 {
        // splitmix64
        self.0 = self.0.wrapping_add(0x9E37_79B9_7F4A_7C15);
        let mut z = self.0;
        z = (z ^ (z >> 30)).wrapping_mul(0xBF58_476D_1CE4_E5B9);
        z = (z ^ (z >> 27)).wrapping_mul(0x94D0_49BB_1331_11EB);
        z ^ (z >> 31)
    }
    pub fn below(&mut self, n: usize) -> usize {
        (self.next() % (n.max(1) as u64)) as usize
    }
    pub fn shuffle<T>(&mut self, v: &mut [T]) {
        for i in (1..v.len()).rev() {
            let j = self.below(i + 1);
            v.swap(i, j);
        }
    }
}

/// all permutations of 0..n in lexicographic order
pub fn permutations(n: usize) -> Vec<Vec<usize>> {
    let mut cur: Vec<usize> = (0..n).collect();
    let mut out = vec![cur.clone()];
    loop {
        // next_permutation
        if n < 2 {
            break;
        }
        let mut i = n - 1;
        while i > 0 && cur[i - 1] >= cur[i] {
            i -= 1;
        }
        if i == 0 {
            break;
        }
        let mut j = n - 1;
        while cur[j] <= cur[i - 1] {
            j -= 1;
        }
        cur.swap(i - 1, j);
        cur[i..].reverse();
        out.push(cur.clone());
    }
    out
}

// ---------------------------------------------------------------- worker threads + watchdog

pub enum Ev {
    /// a scenario starts (heartbeat); `stub` and `input` describe it should it hang
    Begin { stub: String, input: Value },
    Case { key: String, nontrivial: bool },
    Fail { class: String, case_id: String, input: Value, what: String },
    /// appended to the report's bound text (what this run actually covered)
    Note(String),
    NotExhaustive,
    /// this worker reports nothing more for now (done, or only waiting for sub-workers): not watched until its next Begin
    Finished,
}

pub struct Msg {
    pub worker: u32,
    pub ev: Ev,
}

/// event sink of one worker thread
pub struct Out {
    tx: Sender<Msg>,
    worker: u32,
}

impl Out {
    fn send(&self, ev: Ev) {
        let _ = self.tx.send(Msg { worker: self.worker, ev });
    }
    pub fn begin(&self, stub: &str, input: Value) {
        self.send(Ev::Begin { stub: stub.to_string(), input });
        // self-test hook for the watchdog path only: MELDA_VERIF_SELFTEST_HANG=<substring of a scenario id>
        if let Ok(pat) = std::env::var("MELDA_VERIF_SELFTEST_HANG") {
            if !pat.is_empty() && stub.contains(&pat) {
                std::thread::sleep(Duration::from_secs(3600));
            }
        }
    }
    pub fn case(&self, key: &str, nontrivial: bool) {
        self.send(Ev::Case { key: key.to_string(), nontrivial });
    }
    pub fn fail(&self, class: &str, case_id: &str, input: Value, what: &str) {
        self.send(Ev::Fail { class: class.to_string(), case_id: case_id.to_string(), input, what: what.to_string() });
    }
    pub fn note(&self, s: &str) {
        self.send(Ev::Note(s.to_string()));
    }
    pub fn not_exhaustive(&self) {
        self.send(Ev::NotExhaustive);
    }
    pub fn finished(&self) {
        self.send(Ev::Finished);
    }
    fn fork(&self, worker: u32) -> Out {
        Out { tx: self.tx.clone(), worker }
    }
}

/// Distributes `items` round-robin over `workers` sub-worker threads, each running `f(its items, its own sink)`;
/// returns when all are done.  Every sub-worker is watched separately by the watchdog (the calling worker is not
/// while it waits).  The library's rayon pool is shared; only the order of booked events varies between runs.
pub fn fan_out<T, F>(out: &Out, workers: usize, items: Vec<T>, f: F)
where
    T: Send + 'static,
    F: Fn(Vec<T>, &Out) + Send + Clone + 'static,
{
    let workers = workers.max(1);
    let mut parts: Vec<Vec<T>> = (0..workers).map(|_| vec![]).collect();
    for (i, it) in items.into_iter().enumerate() {
        parts[i % workers].push(it);
    }
    out.finished();
    let mut hs = vec![];
    for (w, part) in parts.into_iter().enumerate() {
        let o = out.fork(out.worker * 16 + w as u32 + 1);
        let f = f.clone();
        let h = std::thread::Builder::new().stack_size(8 << 20).spawn(move || {
            o.begin("sub-worker start", json!({}));
            if let Err(p) = g(|| f(part, &o)) {
                o.fail("driver", "driver:panic", json!({}), &format!("panic outside guarded library calls: {}", p));
            }
            o.finished();
        });
        if let Ok(h) = h {
            hs.push(h);
        }
    }
    for h in hs {
        let _ = h.join(); // never returns if a sub-worker hangs: the watchdog ends the run from the main thread
    }
}

enum Booked {
    Case(String, bool),
    Fail(String, String, Value, String),
    Note(String),
    NotExhaustive,
    Hang(String, Value),
}

/// runs `work` in a worker thread; every event is handed to `book`. A worker that announced a scenario and
/// then stays silent for `WATCHDOG` is reported as hung and the run stops (threads are abandoned).
fn drive<F>(work: F, mut book: impl FnMut(Booked)) -> bool
where
    F: FnOnce(&Out) + Send + 'static,
{
    let (tx, rx) = channel();
    let _h = std::thread::Builder::new().stack_size(8 << 20).spawn(move || {
        let out = Out { tx, worker: 0 };
        if let Err(p) = g(|| work(&out)) {
            out.fail("driver", "driver:panic", json!({}), &format!("panic outside guarded library calls: {}", p));
        }
    });
    let mut live: BTreeMap<u32, (Instant, String, Value)> = BTreeMap::new();
    live.insert(0, (Instant::now(), "start".to_string(), json!({})));
    loop {
        match rx.recv_timeout(Duration::from_millis(500)) {
            Ok(Msg { worker, ev }) => {
                match ev {
                    Ev::Begin { stub, input } => {
                        live.insert(worker, (Instant::now(), stub, input));
                    }
                    Ev::Finished => {
                        live.remove(&worker);
                    }
                    other => {
                        if let Some(e) = live.get_mut(&worker) {
                            e.0 = Instant::now();
                        }
                        match other {
                            Ev::Case { key, nontrivial } => book(Booked::Case(key, nontrivial)),
                            Ev::Fail { class, case_id, input, what } => book(Booked::Fail(class, case_id, input, what)),
                            Ev::Note(s) => book(Booked::Note(s)),
                            Ev::NotExhaustive => book(Booked::NotExhaustive),
                            _ => {}
                        }
                    }
                }
            }
            Err(RecvTimeoutError::Timeout) => {}
            Err(RecvTimeoutError::Disconnected) => return false,
        }
        if let Some((_, (_, stub, input))) = live.iter().find(|(_, (t, _, _))| t.elapsed() > WATCHDOG) {
            book(Booked::Hang(stub.clone(), input.clone()));
            return true;
        }
    }
}

/// Runs `work` in a worker thread and books its events into `rep`. On a hang a `hang:` failure is booked for the
/// scenario the silent worker announced last and the oracle stops (returns true).
pub fn supervise<F>(rep: &mut Report, classes: &mut FailureClasses, work: F) -> bool
where
    F: FnOnce(&Out) + Send + 'static,
{
    let mut notes: Vec<String> = vec![];
    let hung = drive(work, |b| match b {
        Booked::Case(key, nontrivial) => rep.case(&key, nontrivial),
        Booked::Fail(class, case_id, input, what) => classes.fail(rep, &class, &case_id, input, &what),
        Booked::Note(s) => notes.push(s),
        Booked::NotExhaustive => rep.exhaustive = false,
        Booked::Hang(stub, input) => {
            rep.exhaustive = false;
            classes.fail(rep, "hang", &format!("hang:{}", stub), input, &format!("no progress for {} s in scenario {} — hang; oracle stopped", WATCHDOG.as_secs(), stub));
            notes.push(format!("stopped at a hang in {}", stub));
        }
    });
    if !notes.is_empty() {
        rep.bound.push_str(&format!(" [this run: {}]", notes.join("; ")));
    }
    hung
}

/// replay helper: run `work` under the watchdog, return the failures it booked (case_id, what)
pub fn replay_collect<F>(work: F) -> Vec<(String, String)>
where
    F: FnOnce(&Out) + Send + 'static,
{
    let mut fails = vec![];
    drive(work, |b| match b {
        Booked::Fail(_, case_id, _, what) => fails.push((case_id, what)),
        Booked::Hang(stub, _) => fails.push((format!("hang:{}", stub), format!("no progress for {} s", WATCHDOG.as_secs()))),
        _ => {}
    });
    fails
}

/// standard replay verdict: reproduced iff a failure of the same kind (case-id prefix up to the first ':')
/// shows up again; the exact case id is preferred
pub fn replay_verdict(case: &Value, fails: Vec<(String, String)>) -> Value {
    let want = case["case_id"].as_str().unwrap_or("");
    let kind = want.split(':').next().unwrap_or("");
    if let Some((id, what)) = fails.iter().find(|(id, _)| id == want) {
        return json!({"reproduced": true, "case_id": id, "what": what});
    }
    if let Some((id, what)) = fails.iter().find(|(id, _)| want.is_empty() || id.split(':').next().unwrap_or("") == kind) {
        return json!({"reproduced": true, "case_id": id, "what": what, "note": "same kind, other case id"});
    }
    json!({"reproduced": false, "other_failures": fails.len()})
}
